package main

import (
	"go/constant"
	"go/token"
	"go/types"

	"golang.org/x/tools/go/ssa"
)

// Path-sensitive conditional constant propagation over one SSA function.
// The caller fixes a finite abstraction of the inputs by answering `seed`
// (constant value of an input value, e.g. a configuration flag) and `decide`
// (truth value of a branch condition that is not constant under the seeds, an
// atom of a predicate abstraction). Every acyclic path consistent with those
// answers is followed; integer and boolean values are folded along it. This is
// the same engine as the typestate model (A3), restricted to one small
// function; nothing of /repo is executed.

type pathEnv struct {
	vals map[ssa.Value]constant.Value
}

func (e *pathEnv) get(v ssa.Value) (constant.Value, bool) {
	if c, ok := v.(*ssa.Const); ok {
		if c.Value == nil {
			return nil, false
		}
		return c.Value, true
	}
	cv, ok := e.vals[v]
	return cv, ok
}

type pathResult struct {
	Ret     *ssa.Return
	Env     *pathEnv
	Blocks  []int
	Unknown []ssa.Value // conditions explored both ways
}

type evalCfg struct {
	seed   func(v ssa.Value) (constant.Value, bool)
	decide func(cond ssa.Value, env *pathEnv) (bool, bool)
	limit  int
}

func truncInt(v constant.Value, t types.Type) constant.Value {
	b, ok := t.Underlying().(*types.Basic)
	if !ok || v.Kind() != constant.Int {
		return v
	}
	var bits uint
	signed := false
	switch b.Kind() {
	case types.Uint8:
		bits = 8
	case types.Uint16:
		bits = 16
	case types.Uint32:
		bits = 32
	case types.Int8:
		bits, signed = 8, true
	case types.Int16:
		bits, signed = 16, true
	case types.Int32:
		bits, signed = 32, true
	default:
		return v
	}
	mod := constant.Shift(constant.MakeInt64(1), token.SHL, bits)
	r := constant.BinaryOp(v, token.REM, mod)
	if constant.Sign(r) < 0 {
		r = constant.BinaryOp(r, token.ADD, mod)
	}
	if signed {
		half := constant.Shift(constant.MakeInt64(1), token.SHL, bits-1)
		if constant.Compare(r, token.GEQ, half) {
			r = constant.BinaryOp(r, token.SUB, mod)
		}
	}
	return r
}

func evalPaths(fn *ssa.Function, cfg evalCfg) (results []pathResult, complete bool) {
	complete = true
	if cfg.limit == 0 {
		cfg.limit = 4096
	}
	var walk func(b *ssa.BasicBlock, pred *ssa.BasicBlock, env *pathEnv, blocks []int, unknown []ssa.Value, visits map[*ssa.BasicBlock]int)
	walk = func(b *ssa.BasicBlock, pred *ssa.BasicBlock, env *pathEnv, blocks []int, unknown []ssa.Value, visits map[*ssa.BasicBlock]int) {
		if len(results) >= cfg.limit {
			complete = false
			return
		}
		if visits[b] >= 1 {
			// loops are not unrolled: abandon (caller sees complete=false)
			complete = false
			return
		}
		visits[b]++
		defer func() { visits[b]-- }()
		blocks = append(blocks, b.Index)
		// phis first, simultaneously
		newVals := map[ssa.Value]constant.Value{}
		for _, in := range b.Instrs {
			phi, ok := in.(*ssa.Phi)
			if !ok {
				break
			}
			for i, p := range b.Preds {
				if p == pred {
					if cv, ok := env.get(phi.Edges[i]); ok {
						newVals[phi] = cv
					}
				}
			}
		}
		for k, v := range newVals {
			env.vals[k] = v
		}
		for _, in := range b.Instrs {
			switch x := in.(type) {
			case *ssa.Phi:
			case *ssa.BinOp:
				a, oka := env.get(x.X)
				c, okc := env.get(x.Y)
				if oka && okc {
					switch x.Op {
					case token.EQL, token.NEQ, token.LSS, token.LEQ, token.GTR, token.GEQ:
						if a.Kind() == c.Kind() {
							env.vals[x] = constant.MakeBool(constant.Compare(a, x.Op, c))
						}
					case token.SHL, token.SHR:
						if s, ok := constant.Uint64Val(c); ok && a.Kind() == constant.Int {
							env.vals[x] = truncInt(constant.Shift(a, x.Op, uint(s)), x.Type())
						}
					case token.ADD, token.SUB, token.MUL, token.AND, token.OR, token.XOR, token.AND_NOT:
						if a.Kind() == constant.Int && c.Kind() == constant.Int {
							env.vals[x] = truncInt(constant.BinaryOp(a, x.Op, c), x.Type())
						}
					case token.LAND, token.LOR:
						if a.Kind() == constant.Bool && c.Kind() == constant.Bool {
							env.vals[x] = constant.BinaryOp(a, x.Op, c)
						}
					}
				}
			case *ssa.UnOp:
				if x.Op == token.NOT {
					if a, ok := env.get(x.X); ok && a.Kind() == constant.Bool {
						env.vals[x] = constant.MakeBool(!constant.BoolVal(a))
					}
				} else if x.Op == token.SUB {
					if a, ok := env.get(x.X); ok && a.Kind() == constant.Int {
						env.vals[x] = truncInt(constant.UnaryOp(token.SUB, a, 0), x.Type())
					}
				} else if x.Op == token.MUL && cfg.seed != nil {
					if cv, ok := cfg.seed(x); ok {
						env.vals[x] = cv
					}
				}
			case *ssa.Convert:
				if a, ok := env.get(x.X); ok && a.Kind() == constant.Int {
					env.vals[x] = truncInt(a, x.Type())
				}
			case *ssa.ChangeType:
				if a, ok := env.get(x.X); ok {
					env.vals[x] = a
				}
			case *ssa.Field:
				if cfg.seed != nil {
					if cv, ok := cfg.seed(x); ok {
						env.vals[x] = cv
					}
				}
			case *ssa.Return:
				cp := &pathEnv{vals: map[ssa.Value]constant.Value{}}
				for k, v := range env.vals {
					cp.vals[k] = v
				}
				results = append(results, pathResult{Ret: x, Env: cp, Blocks: append([]int(nil), blocks...), Unknown: append([]ssa.Value(nil), unknown...)})
				return
			case *ssa.Jump:
				walk(b.Succs[0], b, env, blocks, unknown, visits)
				return
			case *ssa.If:
				var val, known bool
				if cv, ok := env.get(x.Cond); ok && cv.Kind() == constant.Bool {
					val, known = constant.BoolVal(cv), true
				} else if cfg.decide != nil {
					val, known = cfg.decide(x.Cond, env)
				}
				if known {
					i := 1
					if val {
						i = 0
					}
					walk(b.Succs[i], b, env, blocks, unknown, visits)
					return
				}
				for i := 0; i < 2; i++ {
					cp := &pathEnv{vals: map[ssa.Value]constant.Value{}}
					for k, v := range env.vals {
						cp.vals[k] = v
					}
					walk(b.Succs[i], b, cp, blocks, append(append([]ssa.Value(nil), unknown...), x.Cond), visits)
				}
				return
			case *ssa.Panic:
				return
			}
		}
	}
	env := &pathEnv{vals: map[ssa.Value]constant.Value{}}
	if cfg.seed != nil {
		for _, p := range fn.Params {
			if cv, ok := cfg.seed(p); ok {
				env.vals[p] = cv
			}
		}
	}
	walk(fn.Blocks[0], nil, env, nil, nil, map[*ssa.BasicBlock]int{})
	return results, complete
}
