package main

import (
	"fmt"
	"go/constant"
	"go/token"
	"go/types"
	"strings"

	"golang.org/x/tools/go/ssa"
)

// Path-sensitive conditional constant propagation over one SSA function.
// The caller fixes a finite abstraction of the inputs by answering `seed`
// (constant value of an input value, e.g. a configuration flag) and `decide`
// (truth value of a branch condition that is not constant under the seeds, an
// atom of a predicate abstraction). Every acyclic path consistent with those
// answers is followed; integer and boolean values are folded along it. This is
// the same engine as the typestate model (A3), restricted to one small
// function; nothing of /repo is executed.

type pathEnv struct {
	vals map[ssa.Value]constant.Value
	mem  map[string]constant.Value               // constant contents of local aggregates, by canonical address
	agg  map[ssa.Value]map[string]constant.Value // an aggregate value that was loaded: its known parts by relative path
}

// addrKey: a canonical name for an address inside a local aggregate (alloc, constant indices,
// fields), or "" when it is not one.
func (e *pathEnv) addrKey(a ssa.Value) string {
	switch x := a.(type) {
	case *ssa.Alloc:
		return fmt.Sprintf("%p", x)
	case *ssa.FieldAddr:
		if k := e.addrKey(x.X); k != "" {
			return fmt.Sprintf("%s.%d", k, x.Field)
		}
	case *ssa.IndexAddr:
		base := x.X
		if sl, ok := base.(*ssa.Slice); ok && sl.Low == nil {
			base = sl.X // t[:] of a local array
		}
		if k := e.addrKey(base); k != "" {
			if iv, ok := e.get(x.Index); ok && iv.Kind() == constant.Int {
				return fmt.Sprintf("%s[%s]", k, iv.ExactString())
			}
		}
	}
	return ""
}

func (e *pathEnv) clone() *pathEnv {
	cp := &pathEnv{vals: map[ssa.Value]constant.Value{}, mem: map[string]constant.Value{}, agg: map[ssa.Value]map[string]constant.Value{}}
	for k, v := range e.agg {
		cp.agg[k] = v // snapshots are immutable
	}
	for k, v := range e.vals {
		cp.vals[k] = v
	}
	for k, v := range e.mem {
		cp.mem[k] = v
	}
	return cp
}

func (e *pathEnv) get(v ssa.Value) (constant.Value, bool) {
	if c, ok := v.(*ssa.Const); ok {
		if c.Value == nil {
			return nil, false
		}
		return c.Value, true
	}
	cv, ok := e.vals[v]
	return cv, ok
}

type pathResult struct {
	Ret     *ssa.Return
	Env     *pathEnv
	Blocks  []int
	Unknown []ssa.Value // conditions explored both ways
}

type evalCfg struct {
	seed   func(v ssa.Value) (constant.Value, bool)
	decide func(cond ssa.Value, env *pathEnv) (bool, bool)
	limit  int
	depth  int // nesting of first-party helper evaluation
}

func truncInt(v constant.Value, t types.Type) constant.Value {
	b, ok := t.Underlying().(*types.Basic)
	if !ok || v.Kind() != constant.Int {
		return v
	}
	var bits uint
	signed := false
	switch b.Kind() {
	case types.Uint8:
		bits = 8
	case types.Uint16:
		bits = 16
	case types.Uint32:
		bits = 32
	case types.Int8:
		bits, signed = 8, true
	case types.Int16:
		bits, signed = 16, true
	case types.Int32:
		bits, signed = 32, true
	default:
		return v
	}
	mod := constant.Shift(constant.MakeInt64(1), token.SHL, bits)
	r := constant.BinaryOp(v, token.REM, mod)
	if constant.Sign(r) < 0 {
		r = constant.BinaryOp(r, token.ADD, mod)
	}
	if signed {
		half := constant.Shift(constant.MakeInt64(1), token.SHL, bits-1)
		if constant.Compare(r, token.GEQ, half) {
			r = constant.BinaryOp(r, token.SUB, mod)
		}
	}
	return r
}

func evalPaths(fn *ssa.Function, cfg evalCfg) (results []pathResult, complete bool) {
	complete = true
	if cfg.limit == 0 {
		cfg.limit = 4096
	}
	var walk func(b *ssa.BasicBlock, pred *ssa.BasicBlock, env *pathEnv, blocks []int, unknown []ssa.Value, visits map[*ssa.BasicBlock]int)
	walk = func(b *ssa.BasicBlock, pred *ssa.BasicBlock, env *pathEnv, blocks []int, unknown []ssa.Value, visits map[*ssa.BasicBlock]int) {
		if len(results) >= cfg.limit {
			complete = false
			return
		}
		if visits[b] >= 33 {
			// a loop is followed only as long as its condition evaluates to a constant (a range over
			// a literal table); beyond that: abandon (caller sees complete=false)
			complete = false
			return
		}
		visits[b]++
		defer func() { visits[b]-- }()
		blocks = append(blocks, b.Index)
		// phis first, simultaneously
		newVals := map[ssa.Value]constant.Value{}
		for _, in := range b.Instrs {
			phi, ok := in.(*ssa.Phi)
			if !ok {
				break
			}
			for i, p := range b.Preds {
				if p == pred {
					if cv, ok := env.get(phi.Edges[i]); ok {
						newVals[phi] = cv
					}
				}
			}
		}
		for k, v := range newVals {
			env.vals[k] = v
		}
		for _, in := range b.Instrs {
			if v, isV := in.(ssa.Value); isV && visits[b] > 1 {
				if _, isPhi := in.(*ssa.Phi); !isPhi {
					delete(env.vals, v) // a later iteration of a loop: recompute, never reuse
				}
			}
			switch x := in.(type) {
			case *ssa.Phi:
			case *ssa.BinOp:
				a, oka := env.get(x.X)
				c, okc := env.get(x.Y)
				if oka && okc {
					switch x.Op {
					case token.EQL, token.NEQ, token.LSS, token.LEQ, token.GTR, token.GEQ:
						if a.Kind() == c.Kind() {
							env.vals[x] = constant.MakeBool(constant.Compare(a, x.Op, c))
						}
					case token.SHL, token.SHR:
						if s, ok := constant.Uint64Val(c); ok && a.Kind() == constant.Int {
							env.vals[x] = truncInt(constant.Shift(a, x.Op, uint(s)), x.Type())
						}
					case token.ADD, token.SUB, token.MUL, token.AND, token.OR, token.XOR, token.AND_NOT:
						if a.Kind() == constant.Int && c.Kind() == constant.Int {
							env.vals[x] = truncInt(constant.BinaryOp(a, x.Op, c), x.Type())
						}
					case token.LAND, token.LOR:
						if a.Kind() == constant.Bool && c.Kind() == constant.Bool {
							env.vals[x] = constant.BinaryOp(a, x.Op, c)
						}
					}
				}
			case *ssa.UnOp:
				if x.Op == token.NOT {
					if a, ok := env.get(x.X); ok && a.Kind() == constant.Bool {
						env.vals[x] = constant.MakeBool(!constant.BoolVal(a))
					}
				} else if x.Op == token.SUB {
					if a, ok := env.get(x.X); ok && a.Kind() == constant.Int {
						env.vals[x] = truncInt(constant.UnaryOp(token.SUB, a, 0), x.Type())
					}
				} else if x.Op == token.MUL {
					seeded := false
					if cfg.seed != nil {
						if cv, ok := cfg.seed(x); ok {
							env.vals[x] = cv
							seeded = true
						}
					}
					if !seeded {
						delete(env.vals, x) // (a load inside a loop: the previous iteration's value is stale)
						delete(env.agg, x)
						if k := env.addrKey(x.X); k != "" {
							if cv, ok := env.mem[k]; ok {
								env.vals[x] = cv
							}
							switch x.Type().Underlying().(type) {
							case *types.Struct, *types.Array:
								snap := map[string]constant.Value{}
								for mk, mv := range env.mem {
									if strings.HasPrefix(mk, k) && len(mk) > len(k) && (mk[len(k)] == '.' || mk[len(k)] == '[') {
										snap[mk[len(k):]] = mv
									}
								}
								env.agg[x] = snap
							}
						}
					}
				}
			case *ssa.Store:
				if k := env.addrKey(x.Addr); k != "" {
					// whatever was known below this address is overwritten
					for mk := range env.mem {
						if strings.HasPrefix(mk, k) && (len(mk) == len(k) || mk[len(k)] == '.' || mk[len(k)] == '[') {
							delete(env.mem, mk)
						}
					}
					if cv, ok := env.get(x.Val); ok {
						env.mem[k] = cv
					} else if snap, ok := env.agg[x.Val]; ok {
						for rel, mv := range snap {
							env.mem[k+rel] = mv
						}
					}
				}
			case *ssa.Call:
				if bi, isB := x.Call.Value.(*ssa.Builtin); isB && bi.Name() == "len" && len(x.Call.Args) == 1 {
					if n, ok := fixedLen(x.Call.Args[0]); ok {
						env.vals[x] = constant.MakeInt64(n)
					}
					break
				}
				// a first-party helper with one result that is the same constant on every path under the
				// seeds (a pure function of the seeded fields and of known arguments)
				callee := x.Call.StaticCallee()
				if callee == nil || !IsFirstParty(callee) || callee.Blocks == nil || cfg.depth >= 2 || callee.Signature.Results().Len() != 1 {
					break
				}
				args := x.Call.Args
				sub := evalCfg{limit: 64, depth: cfg.depth + 1, seed: func(v ssa.Value) (constant.Value, bool) {
					if p, isP := v.(*ssa.Parameter); isP && p.Parent() == callee {
						for i, q := range callee.Params {
							if q == p && i < len(args) {
								return env.get(args[i])
							}
						}
						return nil, false
					}
					if cfg.seed != nil {
						return cfg.seed(v)
					}
					return nil, false
				}}
				rs, done := evalPaths(callee, sub)
				if !done || len(rs) == 0 {
					break
				}
				var val constant.Value
				same := true
				for _, r := range rs {
					if len(r.Unknown) > 0 || len(r.Ret.Results) != 1 {
						same = false
						break
					}
					cv, ok := r.Env.get(r.Ret.Results[0])
					if !ok || (val != nil && !constant.Compare(val, token.EQL, cv)) {
						same = false
						break
					}
					val = cv
				}
				if same && val != nil {
					env.vals[x] = val
				}
			case *ssa.Convert:
				if a, ok := env.get(x.X); ok && a.Kind() == constant.Int {
					env.vals[x] = truncInt(a, x.Type())
				}
			case *ssa.ChangeType:
				if a, ok := env.get(x.X); ok {
					env.vals[x] = a
				}
			case *ssa.Field:
				delete(env.vals, x)
				if cfg.seed != nil {
					if cv, ok := cfg.seed(x); ok {
						env.vals[x] = cv
					}
				}
				if _, ok := env.vals[x]; !ok {
					if snap, ok := env.agg[x.X]; ok {
						if cv, ok := snap[fmt.Sprintf(".%d", x.Field)]; ok {
							env.vals[x] = cv
						}
					}
				}
			case *ssa.Return:
				cp := env.clone()
				results = append(results, pathResult{Ret: x, Env: cp, Blocks: append([]int(nil), blocks...), Unknown: append([]ssa.Value(nil), unknown...)})
				return
			case *ssa.Jump:
				walk(b.Succs[0], b, env, blocks, unknown, visits)
				return
			case *ssa.If:
				var val, known bool
				cond := x.Cond
				// a && b / a || b as a branch condition: on entry from pred the phi is that edge's value
				if phi, isPhi := cond.(*ssa.Phi); isPhi && phi.Block() == b && pred != nil {
					for i, p := range b.Preds {
						if p == pred && i < len(phi.Edges) {
							cond = phi.Edges[i]
							break
						}
					}
				}
				if cv, ok := env.get(cond); ok && cv.Kind() == constant.Bool {
					val, known = constant.BoolVal(cv), true
				} else if cfg.decide != nil {
					val, known = cfg.decide(cond, env)
				}
				if known {
					i := 1
					if val {
						i = 0
					}
					walk(b.Succs[i], b, env, blocks, unknown, visits)
					return
				}
				for i := 0; i < 2; i++ {
					cp := env.clone()
					walk(b.Succs[i], b, cp, blocks, append(append([]ssa.Value(nil), unknown...), x.Cond), visits)
				}
				return
			case *ssa.Panic:
				return
			}
		}
	}
	env := &pathEnv{vals: map[ssa.Value]constant.Value{}, mem: map[string]constant.Value{}, agg: map[ssa.Value]map[string]constant.Value{}}
	if cfg.seed != nil {
		for _, p := range fn.Params {
			if cv, ok := cfg.seed(p); ok {
				env.vals[p] = cv
			}
		}
	}
	walk(fn.Blocks[0], nil, env, nil, nil, map[*ssa.BasicBlock]int{})
	return results, complete
}
