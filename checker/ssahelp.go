package main

import (
	"fmt"
	"go/constant"
	"go/token"
	"go/types"
	"sort"
	"strings"

	"golang.org/x/tools/go/ssa"
)

// ---------------------------------------------------------------------------
// lookup (always through type information; a missing anchor aborts the rule as undecided)

// Fn finds a first-party function: "Name" or "Type.Method" (pointer or value receiver).
func (c *Ctx) Fn(pkgRel, name string) *ssa.Function {
	f := c.FnOpt(pkgRel, name)
	if f == nil {
		c.Missing("function %s.%s", pkgRel, name)
	}
	return f
}

func (c *Ctx) FnOpt(pkgRel, name string) *ssa.Function {
	sp := c.P.SSAPkg(pkgRel)
	if sp == nil {
		return nil
	}
	if i := strings.Index(name, "."); i >= 0 {
		tn, mn := name[:i], name[i+1:]
		t := sp.Type(tn)
		if t == nil {
			return nil
		}
		nt := t.Type()
		for _, recv := range []types.Type{types.NewPointer(nt), nt} {
			ms := c.P.SSA.MethodSets.MethodSet(recv)
			for i := 0; i < ms.Len(); i++ {
				if ms.At(i).Obj().Name() == mn && ms.At(i).Obj().Pkg() == sp.Pkg {
					if fn := c.P.SSA.MethodValue(ms.At(i)); fn != nil {
						// skip promoted wrappers: want the declared method
						if fn.Synthetic == "" {
							return fn
						}
					}
				}
			}
		}
		return nil
	}
	return sp.Func(name)
}

func (c *Ctx) Global(pkgRel, name string) *ssa.Global {
	sp := c.P.SSAPkg(pkgRel)
	if sp == nil {
		c.Missing("package %s", pkgRel)
	}
	g := sp.Var(name)
	if g == nil {
		c.Missing("package variable %s.%s", pkgRel, name)
	}
	return g
}

// NamedType returns the named type pkgRel.name.
func (c *Ctx) NamedType(pkgRel, name string) *types.Named {
	pk := c.P.Pkg(pkgRel)
	if pk == nil {
		c.Missing("package %s", pkgRel)
	}
	o := pk.Types.Scope().Lookup(name)
	if o == nil {
		c.Missing("type %s.%s", pkgRel, name)
	}
	n, ok := o.Type().(*types.Named)
	if !ok {
		c.Missing("type %s.%s is not a named type", pkgRel, name)
	}
	return n
}

// FieldVar returns the field object of a first-party struct type.
func (c *Ctx) FieldVar(pkgRel, typeName, field string) *types.Var {
	n := c.NamedType(pkgRel, typeName)
	st, ok := n.Underlying().(*types.Struct)
	if !ok {
		c.Missing("%s.%s is not a struct", pkgRel, typeName)
	}
	for i := 0; i < st.NumFields(); i++ {
		if st.Field(i).Name() == field {
			return st.Field(i)
		}
	}
	c.Missing("field %s.%s.%s", pkgRel, typeName, field)
	return nil
}

// ConstInt returns the value of a first-party integer constant.
func (c *Ctx) ConstInt(pkgRel, name string) int64 {
	pk := c.P.Pkg(pkgRel)
	if pk == nil {
		c.Missing("package %s", pkgRel)
	}
	o, ok := pk.Types.Scope().Lookup(name).(*types.Const)
	if !ok {
		c.Missing("constant %s.%s", pkgRel, name)
	}
	v, exact := constant.Int64Val(constant.ToInt(o.Val()))
	if !exact {
		u, ok2 := constant.Uint64Val(constant.ToInt(o.Val()))
		if !ok2 {
			c.Missing("constant %s.%s not integral", pkgRel, name)
		}
		return int64(u)
	}
	return v
}

// ---------------------------------------------------------------------------
// instruction helpers

func eachInstr(fn *ssa.Function, f func(ssa.Instruction)) {
	for _, b := range fn.Blocks {
		for _, in := range b.Instrs {
			f(in)
		}
	}
}

// eachInstrDeep visits fn and all of its anonymous functions, recursively.
func eachInstrDeep(fn *ssa.Function, f func(*ssa.Function, ssa.Instruction)) {
	eachInstr(fn, func(in ssa.Instruction) { f(fn, in) })
	for _, a := range fn.AnonFuncs {
		eachInstrDeep(a, f)
	}
}

func callsIn(fn *ssa.Function) []ssa.CallInstruction {
	var out []ssa.CallInstruction
	eachInstr(fn, func(in ssa.Instruction) {
		if ci, ok := in.(ssa.CallInstruction); ok {
			out = append(out, ci)
		}
	})
	return out
}

// calleeName gives "pkgpath.Func" or "(recv).Method" for static and interface calls.
func calleeName(ci ssa.CallInstruction) string {
	cc := ci.Common()
	if cc.IsInvoke() {
		return "(" + cc.Value.Type().String() + ")." + cc.Method.Name()
	}
	if f := cc.StaticCallee(); f != nil {
		return fnName(f)
	}
	if b, ok := cc.Value.(*ssa.Builtin); ok {
		return "builtin." + b.Name()
	}
	return ""
}

func fnName(f *ssa.Function) string {
	if f == nil {
		return ""
	}
	if o := f.Origin(); o != nil {
		f = o
	}
	if f.Signature.Recv() != nil {
		return "(" + f.Signature.Recv().Type().String() + ")." + f.Name()
	}
	if f.Pkg != nil {
		return f.Pkg.Pkg.Path() + "." + f.Name()
	}
	if f.Object() != nil && f.Object().Pkg() != nil {
		return f.Object().Pkg().Path() + "." + f.Name()
	}
	return f.Name()
}

// shortFn: function name relative to the module, for obligation keys.
func shortFn(f *ssa.Function) string {
	n := fnName(f)
	if f != nil && f.Parent() != nil {
		n = shortFn(f.Parent()) + "$" + strings.TrimPrefix(f.Name(), f.Parent().Name()+"$")
		return n
	}
	n = strings.ReplaceAll(n, modPath+"/", "")
	return n
}

// isCall reports whether ci statically calls the function/method named name
// (format of fnName), or invokes the interface method of that name.
func isCall(ci ssa.CallInstruction, names ...string) bool {
	n := calleeName(ci)
	for _, want := range names {
		if n == want {
			return true
		}
	}
	return false
}

// callsTo returns all call instructions in fn (not in closures) to one of names.
func callsTo(fn *ssa.Function, names ...string) []ssa.CallInstruction {
	var out []ssa.CallInstruction
	for _, ci := range callsIn(fn) {
		if isCall(ci, names...) {
			out = append(out, ci)
		}
	}
	return out
}

// arg returns the i-th source-level argument of a call (receiver excluded).
func arg(ci ssa.CallInstruction, i int) ssa.Value {
	cc := ci.Common()
	args := cc.Args
	if !cc.IsInvoke() && cc.Signature().Recv() != nil {
		args = args[1:]
	}
	if i < len(args) {
		return args[i]
	}
	return nil
}

// recvOf returns the receiver value of a method call.
func recvOf(ci ssa.CallInstruction) ssa.Value {
	cc := ci.Common()
	if cc.IsInvoke() {
		return cc.Value
	}
	if cc.Signature().Recv() != nil && len(cc.Args) > 0 {
		return cc.Args[0]
	}
	return nil
}

// result i of a call as an SSA value (the call itself for single results).
func resultOf(ci ssa.CallInstruction, i int) ssa.Value {
	call, ok := ci.(*ssa.Call)
	if !ok {
		return nil
	}
	if _, isTuple := call.Type().(*types.Tuple); !isTuple {
		if i == 0 {
			return call
		}
		return nil
	}
	for _, r := range *call.Referrers() {
		if ex, ok := r.(*ssa.Extract); ok && ex.Index == i {
			return ex
		}
	}
	return nil
}

// ---------------------------------------------------------------------------
// value patterns

// strip peels conversions that preserve the value.
func strip(v ssa.Value) ssa.Value {
	for {
		switch x := v.(type) {
		case *ssa.ChangeType:
			v = x.X
		case *ssa.Convert:
			v = x.X
		case *ssa.MakeInterface:
			v = x.X
		case *ssa.ChangeInterface:
			v = x.X
		default:
			return v
		}
	}
}

func constOf(v ssa.Value) *ssa.Const {
	c, _ := strip(v).(*ssa.Const)
	return c
}

func constInt(v ssa.Value) (int64, bool) {
	c := constOf(v)
	if c == nil || c.Value == nil {
		return 0, false
	}
	if c.Value.Kind() != constant.Int {
		return 0, false
	}
	if i, ok := constant.Int64Val(c.Value); ok {
		return i, true
	}
	if u, ok := constant.Uint64Val(c.Value); ok {
		return int64(u), true
	}
	return 0, false
}

func constString(v ssa.Value) (string, bool) {
	c := constOf(v)
	if c == nil || c.Value == nil || c.Value.Kind() != constant.String {
		return "", false
	}
	return constant.StringVal(c.Value), true
}

func constBool(v ssa.Value) (bool, bool) {
	c := constOf(v)
	if c == nil || c.Value == nil || c.Value.Kind() != constant.Bool {
		return false, false
	}
	return constant.BoolVal(c.Value), true
}

func isNil(v ssa.Value) bool {
	c, ok := v.(*ssa.Const)
	return ok && c.Value == nil
}

// loadAddr: v = *addr
func loadAddr(v ssa.Value) (ssa.Value, bool) {
	u, ok := v.(*ssa.UnOp)
	if ok && u.Op == token.MUL {
		return u.X, true
	}
	return nil, false
}

// fieldOfAddr: addr = &base.f
func fieldOfAddr(addr ssa.Value) (base ssa.Value, f *types.Var, ok bool) {
	fa, ok := addr.(*ssa.FieldAddr)
	if !ok {
		return nil, nil, false
	}
	st := fa.X.Type().Underlying().(*types.Pointer).Elem().Underlying().(*types.Struct)
	return fa.X, st.Field(fa.Field), true
}

// fieldLoad: v = base.f (through a pointer or a struct value)
func fieldLoad(v ssa.Value) (base ssa.Value, f *types.Var, ok bool) {
	if a, ok := loadAddr(v); ok {
		b, fv, ok2 := fieldOfAddr(a)
		if ok2 {
			b = rv(b)
		}
		return b, fv, ok2
	}
	if fl, ok := v.(*ssa.Field); ok {
		st := fl.X.Type().Underlying().(*types.Struct)
		return rv(fl.X), st.Field(fl.Field), true
	}
	return nil, nil, false
}

// isFieldLoad reports v == <anything>.f for the given field object.
func isFieldLoad(v ssa.Value, f *types.Var) bool {
	_, g, ok := fieldLoad(v)
	return ok && g == f
}

// globalLoad: v = *Global
func globalLoad(v ssa.Value) (*ssa.Global, bool) {
	if a, ok := loadAddr(v); ok {
		g, ok := a.(*ssa.Global)
		return g, ok
	}
	return nil, false
}

// fieldPath follows v = x.f1.f2... back to the root value and returns field names root-first.
func fieldPath(v ssa.Value) (root ssa.Value, path []string) {
	for {
		b, f, ok := fieldLoad(v)
		if !ok {
			// also accept address chains: FieldAddr of FieldAddr (embedded struct)
			if fa, ok2 := v.(*ssa.FieldAddr); ok2 {
				b2, f2, _ := fieldOfAddr(fa)
				path = append([]string{f2.Name()}, path...)
				v = b2
				continue
			}
			return v, path
		}
		path = append([]string{f.Name()}, path...)
		v = b
	}
}

// ---------------------------------------------------------------------------
// conditions

// curResolver maps values of a helper being looked into (parameters) to the caller's values
// while a predicate helper is examined on behalf of a caller's guard (see predEstablishes).
var curResolver func(ssa.Value) ssa.Value

func rv(v ssa.Value) ssa.Value {
	if curResolver != nil && v != nil {
		return curResolver(v)
	}
	return v
}

// normCond strips boolean negations.
func normCond(v ssa.Value) (core ssa.Value, neg bool) {
	for {
		u, ok := v.(*ssa.UnOp)
		if ok && u.Op == token.NOT {
			v = u.X
			neg = !neg
			continue
		}
		return v, neg
	}
}

// Guard tells, for a branch condition and the branch taken, whether the guard
// condition G is thereby established.
type Guard func(cond ssa.Value, branch bool) bool

// GEq: G is "x == y" for values accepted by mx and my (either operand order).
func GEq(mx, my func(ssa.Value) bool) Guard {
	return func(cond ssa.Value, branch bool) bool {
		core, neg := normCond(cond)
		b, ok := core.(*ssa.BinOp)
		if !ok || (b.Op != token.EQL && b.Op != token.NEQ) {
			return false
		}
		bx, by := rv(b.X), rv(b.Y)
		if !((mx(bx) && my(by)) || (mx(by) && my(bx))) {
			return false
		}
		eqOnTrue := (b.Op == token.EQL) != neg
		return eqOnTrue == branch
	}
}

// GNeq: G is "x != y".
func GNeq(mx, my func(ssa.Value) bool) Guard {
	eq := GEq(mx, my)
	return func(cond ssa.Value, branch bool) bool { return eq(cond, !branch) }
}

// GTrue: G is "v is true" for a boolean value accepted by m.
func GTrue(m func(ssa.Value) bool) Guard {
	return func(cond ssa.Value, branch bool) bool {
		core, neg := normCond(cond)
		if !m(rv(core)) && !m(core) {
			return false
		}
		return branch != neg
	}
}

func GFalse(m func(ssa.Value) bool) Guard {
	t := GTrue(m)
	return func(cond ssa.Value, branch bool) bool { return t(cond, !branch) }
}

// GCmp: G is "x op y" for an ordering/equality relation given as a predicate over
// the normalised comparison (x op y, operands as written after negation is folded).
func GCmp(f func(x ssa.Value, op token.Token, y ssa.Value) bool) Guard {
	return func(cond ssa.Value, branch bool) bool {
		core, neg := normCond(cond)
		b, ok := core.(*ssa.BinOp)
		if !ok {
			return false
		}
		op := b.Op
		if branch == neg { // condition is false on this edge: negate the relation
			switch op {
			case token.EQL:
				op = token.NEQ
			case token.NEQ:
				op = token.EQL
			case token.LSS:
				op = token.GEQ
			case token.GEQ:
				op = token.LSS
			case token.GTR:
				op = token.LEQ
			case token.LEQ:
				op = token.GTR
			default:
				return false
			}
		}
		return f(rv(b.X), op, rv(b.Y))
	}
}

func GOr(gs ...Guard) Guard {
	return func(cond ssa.Value, branch bool) bool {
		for _, g := range gs {
			if g(cond, branch) {
				return true
			}
		}
		return false
	}
}

func isVal(want ssa.Value) func(ssa.Value) bool {
	return func(v ssa.Value) bool {
		v = rv(v)
		return v == want || strip(v) == want || unspill(v) == want || strip(unspill(v)) == want
	}
}

// unspill: with a defer (or a closure capture) go/ssa keeps named results and
// captured locals in Allocs; a load "*t" directly after "*t = x" in the same
// block is x. Returns v unchanged when that shape does not apply.
func unspill(v ssa.Value) ssa.Value {
	u, ok := v.(*ssa.UnOp)
	if !ok || u.Op != token.MUL {
		return v
	}
	al, ok := u.X.(*ssa.Alloc)
	if !ok {
		return v
	}
	var last ssa.Value
	for _, in := range u.Block().Instrs {
		if in == ssa.Instruction(u) {
			break
		}
		if st, ok := in.(*ssa.Store); ok && st.Addr == ssa.Value(al) {
			last = st.Val
		}
		// a call or defer may write through the captured address
		if _, isCall := in.(ssa.CallInstruction); isCall && last != nil {
			if capturedByClosure(al) {
				if _, isDefer := in.(*ssa.Defer); !isDefer {
					// calls cannot reach the alloc unless it was passed; closures run at rundefers only
				}
			}
		}
		if _, isRD := in.(*ssa.RunDefers); isRD && capturedByClosure(al) {
			last = nil // a deferred closure may assign the captured variable
		}
	}
	if last != nil {
		return last
	}
	// single-assignment local: the only store in the function dominates this load
	if sts := storesTo(al); len(sts) == 1 && dominatesInstr(sts[0], u) {
		return sts[0].Val
	}
	return v
}

func capturedByClosure(al *ssa.Alloc) bool {
	for _, r := range *al.Referrers() {
		if _, ok := r.(*ssa.MakeClosure); ok {
			return true
		}
	}
	return false
}

func anyNil(v ssa.Value) bool { return isNil(v) }

// GContains: G is "v is an element of s" established by slices.Contains(s, v) being true
// (ms accepts the slice operand, mv the needle).
func GContains(ms, mv func(ssa.Value) bool) Guard {
	return func(cond ssa.Value, branch bool) bool {
		core, neg := normCond(cond)
		call, ok := core.(*ssa.Call)
		if !ok || branch == neg {
			return false
		}
		return isSlicesContains(call) && ms(rv(call.Call.Args[0])) && mv(rv(call.Call.Args[1]))
	}
}

// isSlicesContains: a call of (an instantiation of) slices.Contains.
func isSlicesContains(call *ssa.Call) bool {
	f := call.Call.StaticCallee()
	if f == nil || len(call.Call.Args) != 2 {
		return false
	}
	o := f.Origin()
	if o == nil {
		o = f
	}
	return o.Pkg != nil && o.Pkg.Pkg.Path() == "slices" && o.Name() == "Contains"
}

// GErrNil: G is "err == nil" for the given error value.
func GErrNil(err ssa.Value) Guard { return GEq(isVal(err), anyNil) }

// ---------------------------------------------------------------------------
// guarded reachability (edge cut) with phi-constant threading

type edge struct {
	from *ssa.BasicBlock
	idx  int
}

// phiConstFrom: if cond (after normalisation) is a Phi of block b with a constant
// boolean incoming from predecessor pred, return the condition's value on that entry.
func phiConstFrom(cond ssa.Value, b *ssa.BasicBlock, pred *ssa.BasicBlock) (val bool, ok bool) {
	core, neg := normCond(cond)
	phi, isPhi := core.(*ssa.Phi)
	if !isPhi || phi.Block() != b || pred == nil {
		return false, false
	}
	for i, p := range b.Preds {
		if p == pred {
			if bv, isB := constBool(phi.Edges[i]); isB {
				return bv != neg, true
			}
		}
	}
	return false, false
}

// phiEdgeFrom: if cond (after normalisation) is a Phi of block b, the condition on entry from
// pred is the phi's incoming value on that edge (a named boolean such as
// `ok := a && b; if !ok`); returns that value and the branch polarity translated to it.
func phiEdgeFrom(cond ssa.Value, b, pred *ssa.BasicBlock, branch bool) (ssa.Value, bool, bool) {
	core, neg := normCond(cond)
	phi, isPhi := core.(*ssa.Phi)
	if !isPhi || phi.Block() != b || pred == nil {
		return nil, false, false
	}
	for i, p := range b.Preds {
		if p == pred {
			return phi.Edges[i], branch != neg, true
		}
	}
	return nil, false, false
}

// edgeOpen: the branch edge of ifi (taken when its condition == branch) is feasible on entry
// from pred and does not establish g.
func edgeOpen(ifi *ssa.If, b, pred *ssa.BasicBlock, branch bool, g Guard) bool {
	// the edge is cut when the condition establishes G as written (a guard on a loop counter names the
	// phi itself), or when it does with the phis of this block replaced by the values they have on
	// entry from pred
	if !edgeOpen0(ifi, b, pred, branch, g, false) {
		return false
	}
	return edgeOpen0(ifi, b, pred, branch, g, true)
}

func edgeOpen0(ifi *ssa.If, b, pred *ssa.BasicBlock, branch bool, g Guard, resolvePhis bool) bool {
	// on entry from pred, a phi of this block is the value that edge carries: a comparison of such
	// a phi (err := phi(helperA(), helperB()); if err != nil) is a comparison of that value
	if pred != nil && resolvePhis {
		pi := -1
		for i, p := range b.Preds {
			if p == pred {
				if pi >= 0 {
					pi = -2 // the same predecessor twice (both arms of a branch): ambiguous
					break
				}
				pi = i
			}
		}
		if pi >= 0 {
			outer := curResolver
			curResolver = func(v ssa.Value) ssa.Value {
				if phi, ok := v.(*ssa.Phi); ok && phi.Block() == b && pi < len(phi.Edges) {
					v = phi.Edges[pi]
				}
				if outer != nil {
					return outer(v)
				}
				return v
			}
			defer func() { curResolver = outer }()
		}
	}
	cond := ifi.Cond
	for depth := 0; depth < 4; depth++ {
		if cb, ok := constBool(cond); ok {
			return cb == branch
		}
		if cb, ok := evalCondFrom(cond, b, pred); ok {
			return cb == branch // e.g. the first test of a range loop over a non-empty literal
		}
		if g != nil && (g(cond, branch) || predEstablishes(cond, branch, g, 0) || errNilEstablishes(cond, branch, g)) {
			return false // edge establishes G (directly, or through a first-party predicate helper): cut
		}
		ev, eb, ok := phiEdgeFrom(cond, b, pred, branch)
		if !ok {
			return true
		}
		cond, branch = ev, eb
		// a phi edge value that is itself a phi belongs to another block: stop threading there
		if _, isPhi := strip(cond).(*ssa.Phi); isPhi {
			if cb, ok := constBool(cond); ok {
				return cb == branch
			}
			return !(g != nil && g(cond, branch))
		}
	}
	return true
}

// reachAvoiding reports whether target is reachable from the entry of fn when
// every branch edge that establishes G is deleted. It returns a witness path
// (block indices) when reachable.
func reachAvoiding(fn *ssa.Function, target *ssa.BasicBlock, g Guard) (bool, []int) {
	return reachFromAvoiding(fn, fn.Blocks[0], target, g)
}

func reachFromAvoiding(fn *ssa.Function, start, target *ssa.BasicBlock, g Guard) (bool, []int) {
	type st struct {
		b    *ssa.BasicBlock
		pred *ssa.BasicBlock
	}
	seen := map[st]bool{}
	parent := map[st]st{}
	s0 := st{start, nil}
	queue := []st{s0}
	seen[s0] = true
	for len(queue) > 0 {
		s := queue[0]
		queue = queue[1:]
		if s.b == target {
			var path []int
			for cur := s; ; {
				path = append([]int{cur.b.Index}, path...)
				p, ok := parent[cur]
				if !ok {
					break
				}
				cur = p
			}
			return true, path
		}
		var ifi *ssa.If
		if n := len(s.b.Instrs); n > 0 {
			ifi, _ = s.b.Instrs[n-1].(*ssa.If)
		}
		if blockNeverReturns(s.b) {
			continue // log.Fatal*/os.Exit/panic: control does not leave this block
		}
		if s.b != target && blockEstablishes(s.b, g) {
			continue // a validate-or-die helper called here returns only with G established
		}
		for i, succ := range s.b.Succs {
			if ifi != nil && !edgeOpen(ifi, s.b, s.pred, i == 0, g) {
				continue
			}
			n := st{succ, s.b}
			if !seen[n] {
				seen[n] = true
				parent[n] = s
				queue = append(queue, n)
			}
		}
	}
	return false, nil
}

// mustPass: every entry→instr path crosses an edge establishing G.
func mustPass(fn *ssa.Function, at ssa.Instruction, g Guard) (bool, string) {
	r, path := reachAvoiding(fn, at.Block(), g)
	if !r {
		return true, ""
	}
	// the block is reachable; `at` itself may still lie behind a validate-or-die call in its block
	if !reachInstrAvoiding(fn, at, g) {
		return true, ""
	}
	return false, fmt.Sprintf("reachable without the guard via blocks %v", path)
}

// reachable reports plain reachability of block target from block start.
func reachableBlock(fn *ssa.Function, start, target *ssa.BasicBlock) bool {
	r, _ := reachFromAvoiding(fn, start, target, nil)
	return r
}

// instrIndex returns the index of in within its block.
func instrIndex(in ssa.Instruction) int {
	for i, x := range in.Block().Instrs {
		if x == in {
			return i
		}
	}
	return -1
}

// dominatesInstr: a executes before b on every path to b.
func dominatesInstr(a, b ssa.Instruction) bool {
	if a.Block() == b.Block() {
		return instrIndex(a) < instrIndex(b)
	}
	return a.Block().Dominates(b.Block())
}

// returnsOf lists the Return instructions of fn.
func returnsOf(fn *ssa.Function) []*ssa.Return {
	var out []*ssa.Return
	skipRecover := fn.Recover != nil && !hasRecoveringDefer(fn)
	eachInstr(fn, func(in ssa.Instruction) {
		if r, ok := in.(*ssa.Return); ok {
			if skipRecover && r.Block() == fn.Recover {
				return // synthetic recover block of a function whose defers never call recover(): unreachable
			}
			out = append(out, r)
		}
	})
	return out
}

// hasRecoveringDefer: some deferred closure of fn calls the builtin recover.
func hasRecoveringDefer(fn *ssa.Function) bool { return len(recoveringDefers(fn)) > 0 }

// recoveringDefers: the defer statements of fn whose (first-party) target calls recover() directly.
func recoveringDefers(fn *ssa.Function) []*ssa.Defer {
	var out []*ssa.Defer
	eachInstr(fn, func(in ssa.Instruction) {
		d, ok := in.(*ssa.Defer)
		if !ok {
			return
		}
		found := false
		var target *ssa.Function
		switch v := d.Call.Value.(type) {
		case *ssa.MakeClosure:
			target, _ = v.Fn.(*ssa.Function)
		case *ssa.Function:
			target = v
		}
		if target == nil || !IsFirstParty(target) {
			return // library functions and cancel funcs do not recover on our behalf
		}
		eachInstr(target, func(in2 ssa.Instruction) {
			if c, ok := in2.(ssa.CallInstruction); ok {
				if b, ok := c.Common().Value.(*ssa.Builtin); ok && b.Name() == "recover" {
					found = true
				}
			}
		})
		if found {
			out = append(out, d)
		}
	})
	return out
}

// ---------------------------------------------------------------------------
// value origin (A6)

type Origin struct {
	Kind  string // const, param, freevar, global, call, field, alloc, other
	Value ssa.Value
	Call  ssa.CallInstruction // for Kind call
	Index int                 // result index for Kind call
	Field *types.Var          // for Kind field
	Base  ssa.Value           // for Kind field: the struct the field was read from
}

func (o Origin) String() string {
	switch o.Kind {
	case "call":
		return fmt.Sprintf("result %d of %s", o.Index, calleeName(o.Call))
	case "field":
		return "field " + o.Field.Name()
	case "const":
		return "const " + o.Value.String()
	case "param", "freevar", "global":
		return o.Kind + " " + o.Value.Name()
	}
	return o.Kind + " " + o.Value.String()
}

// origins walks v backwards to its defining leaves. Local variables spilled to
// Allocs are followed through all stores to them; struct fields are reported as
// field origins (with Base), not followed further.
func origins(v ssa.Value) []Origin {
	var out []Origin
	seen := map[ssa.Value]bool{}
	var walk func(v ssa.Value)
	walk = func(v ssa.Value) {
		if v == nil || seen[v] {
			return
		}
		seen[v] = true
		switch x := v.(type) {
		case *ssa.Const:
			out = append(out, Origin{Kind: "const", Value: x})
		case *ssa.Parameter:
			out = append(out, Origin{Kind: "param", Value: x})
		case *ssa.FreeVar:
			out = append(out, Origin{Kind: "freevar", Value: x})
		case *ssa.Global:
			out = append(out, Origin{Kind: "global", Value: x})
		case *ssa.Phi:
			for _, e := range x.Edges {
				walk(e)
			}
		case *ssa.ChangeType:
			walk(x.X)
		case *ssa.Convert:
			walk(x.X)
		case *ssa.MakeInterface:
			walk(x.X)
		case *ssa.ChangeInterface:
			walk(x.X)
		case *ssa.TypeAssert:
			walk(x.X)
		case *ssa.Extract:
			if ci, ok := x.Tuple.(ssa.CallInstruction); ok {
				out = append(out, Origin{Kind: "call", Value: x, Call: ci, Index: x.Index})
			} else if ta, ok := x.Tuple.(*ssa.TypeAssert); ok && x.Index == 0 {
				walk(ta.X)
			} else if lk, ok := x.Tuple.(*ssa.Lookup); ok && x.Index == 0 {
				out = append(out, Origin{Kind: "other", Value: lk})
			} else {
				out = append(out, Origin{Kind: "other", Value: x})
			}
		case *ssa.Call:
			out = append(out, Origin{Kind: "call", Value: x, Call: x, Index: 0})
		case *ssa.UnOp:
			if x.Op == token.MUL {
				switch a := x.X.(type) {
				case *ssa.Alloc:
					stores := storesTo(a)
					if len(stores) == 0 {
						out = append(out, Origin{Kind: "alloc", Value: a})
					}
					for _, s := range stores {
						walk(s.Val)
					}
				case *ssa.Global:
					out = append(out, Origin{Kind: "global", Value: a})
				case *ssa.FieldAddr:
					b, f, _ := fieldOfAddr(a)
					out = append(out, Origin{Kind: "field", Value: x, Field: f, Base: b})
				case *ssa.FreeVar:
					// captured variable: follow stores in the defining function
					out = append(out, Origin{Kind: "freevar", Value: a})
				default:
					out = append(out, Origin{Kind: "other", Value: x})
				}
			} else {
				out = append(out, Origin{Kind: "other", Value: x})
			}
		case *ssa.Field:
			st := x.X.Type().Underlying().(*types.Struct)
			out = append(out, Origin{Kind: "field", Value: x, Field: st.Field(x.Field), Base: x.X})
		case *ssa.Slice:
			walk(x.X)
		default:
			out = append(out, Origin{Kind: "other", Value: v})
		}
	}
	walk(v)
	return out
}

// storesTo lists the stores whose address is exactly the alloc.
func storesTo(a *ssa.Alloc) []*ssa.Store {
	var out []*ssa.Store
	for _, r := range *a.Referrers() {
		if s, ok := r.(*ssa.Store); ok && s.Addr == a {
			out = append(out, s)
		}
	}
	return out
}

// baseAlloc follows a struct base (FieldAddr.X) back to the Alloc it points into.
func baseAlloc(v ssa.Value) *ssa.Alloc {
	for i := 0; i < 8; i++ {
		switch x := v.(type) {
		case *ssa.Alloc:
			return x
		case *ssa.FieldAddr:
			v = x.X
		case *ssa.UnOp:
			if x.Op != token.MUL {
				return nil
			}
			v = x.X
		default:
			return nil
		}
	}
	return nil
}

// passedTo lists the calls that receive v as an argument, directly, converted
// to an interface, or through a variadic slice.
func passedTo(v ssa.Value) []ssa.CallInstruction {
	var out []ssa.CallInstruction
	seen := map[ssa.Value]bool{}
	var walk func(v ssa.Value)
	walk = func(v ssa.Value) {
		if seen[v] || v.Referrers() == nil {
			return
		}
		seen[v] = true
		for _, r := range *v.Referrers() {
			switch x := r.(type) {
			case ssa.CallInstruction:
				out = append(out, x)
			case *ssa.MakeInterface:
				walk(x)
			case *ssa.ChangeType:
				walk(x)
			case *ssa.ChangeInterface:
				walk(x)
			case *ssa.Store:
				if x.Val == v {
					// stored into a variadic array element: follow the array's slice
					if ia, ok := x.Addr.(*ssa.IndexAddr); ok {
						if al, ok := ia.X.(*ssa.Alloc); ok {
							for _, rr := range *al.Referrers() {
								if sl, ok := rr.(*ssa.Slice); ok {
									walk(sl)
								}
							}
						}
					}
				}
			}
		}
	}
	walk(v)
	return out
}

// sliceLitElems returns the elements stored into a slice literal value
// (new [n]T; stores; slice) or nil if v is not one.
func sliceLitElems(v ssa.Value) ([]ssa.Value, bool) {
	sl, ok := strip(v).(*ssa.Slice)
	if !ok {
		return nil, false
	}
	al, ok := sl.X.(*ssa.Alloc)
	if !ok {
		return nil, false
	}
	arr, ok := al.Type().Underlying().(*types.Pointer).Elem().Underlying().(*types.Array)
	if !ok {
		return nil, false
	}
	elems := make([]ssa.Value, arr.Len())
	for _, r := range *al.Referrers() {
		ia, ok := r.(*ssa.IndexAddr)
		if !ok {
			continue
		}
		idx, ok := constInt(ia.Index)
		if !ok {
			return nil, false
		}
		for _, rr := range *ia.Referrers() {
			if s, ok := rr.(*ssa.Store); ok && s.Addr == ia {
				if idx < 0 || idx >= int64(len(elems)) || elems[idx] != nil {
					return nil, false
				}
				elems[idx] = s.Val
			}
		}
	}
	for _, e := range elems {
		if e == nil {
			return nil, false
		}
	}
	return elems, true
}

// structLitFields: for an Alloc of struct type initialised field by field,
// returns field name -> stored values (all stores through FieldAddr of the alloc).
func structFieldStores(a ssa.Value) map[string][]ssa.Value {
	out := map[string][]ssa.Value{}
	if a.Referrers() == nil {
		return out
	}
	for _, r := range *a.Referrers() {
		fa, ok := r.(*ssa.FieldAddr)
		if !ok {
			continue
		}
		_, f, _ := fieldOfAddr(fa)
		for _, rr := range *fa.Referrers() {
			if s, ok := rr.(*ssa.Store); ok && s.Addr == fa {
				out[f.Name()] = append(out[f.Name()], s.Val)
			}
		}
	}
	return out
}

func sortedKeys[M ~map[string]V, V any](m M) []string {
	ks := make([]string, 0, len(m))
	for k := range m {
		ks = append(ks, k)
	}
	sort.Strings(ks)
	return ks
}

// blockOfCallIn: helper to describe an instruction for messages.
func describe(in ssa.Instruction) string {
	if v, ok := in.(ssa.Value); ok {
		return v.Name() + " = " + in.String()
	}
	return in.String()
}

// noReturnCall: calls after which control does not continue.
func noReturnCall(in ssa.Instruction) bool {
	ci, ok := in.(ssa.CallInstruction)
	if !ok {
		return false
	}
	if _, isGo := in.(*ssa.Go); isGo {
		return false
	}
	if _, isDefer := in.(*ssa.Defer); isDefer {
		return false
	}
	switch calleeName(ci) {
	case "log.Fatal", "log.Fatalf", "log.Fatalln", "log.Panic", "log.Panicf", "log.Panicln", "os.Exit", "(*log.Logger).Fatal", "(*log.Logger).Fatalf", "(*log.Logger).Fatalln", "runtime.Goexit", "builtin.panic":
		return true
	}
	return false
}

func blockNeverReturns(b *ssa.BasicBlock) bool {
	for _, in := range b.Instrs {
		if noReturnCall(in) {
			return true
		}
		if _, ok := in.(*ssa.Panic); ok {
			return true
		}
	}
	return false
}

// pushCallResolver maps the callee's parameters to the call's arguments (composed with the
// resolver already in force) while the callee is examined on behalf of the caller; the returned
// function restores the previous resolver.
func pushCallResolver(call *ssa.Call, callee *ssa.Function) func() {
	outer := curResolver
	args := call.Call.Args
	curResolver = func(v ssa.Value) ssa.Value {
		if p, ok := v.(*ssa.Parameter); ok && p.Parent() == callee {
			for i, q := range callee.Params {
				if q == p && i < len(args) {
					v = args[i]
					if outer != nil {
						return outer(v)
					}
					return v
				}
			}
		}
		if outer != nil {
			return outer(v)
		}
		return v
	}
	return func() { curResolver = outer }
}

var callEstDepth int

// callEstablishes: in is a static call of a first-party helper none of whose returns can be
// reached without crossing an edge establishing g (validate-or-die helpers: the helper exits
// or panics otherwise) — so g holds whenever control continues after the call.
func callEstablishes(in ssa.Instruction, g Guard) bool {
	if g == nil {
		return false
	}
	return callPasses(in, nil, g)
}

// callPasses: in is a static call of a first-party helper in which every path from entry to a
// return executes a marker instruction or crosses an edge establishing g (either may be nil).
// While the helper is examined its parameters resolve to the call's arguments (rv).
func callPasses(in ssa.Instruction, marker func(ssa.Instruction) bool, g Guard) bool {
	call, ok := in.(*ssa.Call)
	if !ok || (g == nil && marker == nil) || callEstDepth > 1 {
		return false
	}
	callee := call.Call.StaticCallee()
	if callee == nil || !IsFirstParty(callee) || callee.Blocks == nil || callee == in.Parent() {
		return false
	}
	// assert-style helper (mustNot(cond, msg) / must(cond)): it returns only when its boolean
	// parameter has one polarity; that polarity of the argument expression is then established
	// for the caller, as by a branch on it
	if g != nil {
		for i, p := range callee.Params {
			if bt, isB := p.Type().Underlying().(*types.Basic); !isB || bt.Kind() != types.Bool || i >= len(call.Call.Args) {
				continue
			}
			for _, pol := range []bool{false, true} {
				pg := GFalse(isValExact(p))
				if pol {
					pg = GTrue(isValExact(p))
				}
				only := len(returnsOf(callee)) > 0
				callEstDepth += 2 // plain reachability inside the assert helper
				for _, r := range returnsOf(callee) {
					if reach, _ := reachAvoiding(callee, r.Block(), pg); reach {
						only = false
					}
				}
				callEstDepth -= 2
				if only && valueEstablishes(call.Call.Args[i], pol, g, 0) {
					return true
				}
			}
		}
	}
	callEstDepth++
	defer func() { callEstDepth-- }()
	defer pushCallResolver(call, callee)()
	for _, r := range returnsOf(callee) {
		if marker != nil {
			if reachFromWithoutMarkerAvoiding(callee.Blocks[0], r, marker, g) {
				return false
			}
		} else if reachInstrAvoiding(callee, r, g) {
			return false
		}
	}
	return true
}

// blockEstablishes: some call in b establishes g (see callEstablishes).
func blockEstablishes(b *ssa.BasicBlock, g Guard) bool {
	if g == nil || callEstDepth > 1 {
		return false
	}
	for _, in := range b.Instrs {
		if callEstablishes(in, g) {
			return true
		}
	}
	return false
}

// predEstablishes: the branch condition is (the negation of) a call to a first-party
// boolean helper, and inside that helper every return yielding the truth value taken on
// this edge lies behind an edge establishing g (values of the helper are mapped to the
// caller's through curResolver). Makes predicate extraction (inList, sessionMatches,
// openIDOnly) transparent to the guard rules.
func predEstablishes(cond ssa.Value, branch bool, g Guard, depth int) bool {
	if depth > 2 {
		return false
	}
	core, neg := normCond(cond)
	resIdx := 0
	call, ok := core.(*ssa.Call)
	if !ok {
		// the boolean result of a helper returning several values: v, ok := helper(...)
		ex, isEx := core.(*ssa.Extract)
		if !isEx {
			return false
		}
		call, ok = ex.Tuple.(*ssa.Call)
		if !ok {
			return false
		}
		resIdx = ex.Index
	}
	callee := call.Call.StaticCallee()
	if callee == nil || !IsFirstParty(callee) || callee.Blocks == nil {
		return false
	}
	if resIdx >= callee.Signature.Results().Len() || (ok && callee.Signature.Results().Len() != 1 && core == ssa.Value(call)) {
		return false
	}
	if b, ok := callee.Signature.Results().At(resIdx).Type().Underlying().(*types.Basic); !ok || b.Kind() != types.Bool {
		return false
	}
	want := branch != neg
	defer pushCallResolver(call, callee)()
	edgeOK := func(p *ssa.BasicBlock, to *ssa.BasicBlock) bool {
		// the path to p passes g, or the edge p->to itself establishes g
		if n := len(p.Instrs); n > 0 {
			if ifi, ok := p.Instrs[n-1].(*ssa.If); ok {
				for i, s := range p.Succs {
					if s == to && (g(ifi.Cond, i == 0) || predEstablishes(ifi.Cond, i == 0, g, depth+1)) {
						return true
					}
				}
			}
			if r, _ := reachAvoiding(callee, p, g); !r {
				return true
			}
		}
		return false
	}
	for _, r := range returnsOf(callee) {
		v := unspill(r.Results[resIdx])
		if bv, isC := constBool(v); isC {
			if bv != want {
				continue
			}
			if reach, _ := reachAvoiding(callee, r.Block(), g); reach {
				return false
			}
			continue
		}
		if phi, isPhi := v.(*ssa.Phi); isPhi {
			for i, e := range phi.Edges {
				if bv, isC := constBool(e); isC && bv != want {
					continue
				}
				if _, isC := constBool(e); !isC && (g(e, want) || predEstablishes(e, want, g, depth+1)) {
					continue
				}
				if !edgeOK(phi.Block().Preds[i], phi.Block()) {
					return false
				}
			}
			continue
		}
		if g(v, want) || predEstablishes(v, want, g, depth+1) {
			continue
		}
		if reach, _ := reachAvoiding(callee, r.Block(), g); reach {
			return false
		}
	}
	return true
}

// isValExact: the very value (no resolver, no unspilling).
func isValExact(want ssa.Value) func(ssa.Value) bool {
	return func(v ssa.Value) bool { return v == want }
}

// valueEstablishes: the boolean value v having the truth value `branch` establishes g — v is a
// condition g recognises, a predicate helper, or the phi of a short-circuit expression each of
// whose incoming edges consistent with `branch` was produced by an edge establishing g.
func valueEstablishes(v ssa.Value, branch bool, g Guard, depth int) bool {
	if depth > 4 || v == nil {
		return false
	}
	if g(v, branch) || predEstablishes(v, branch, g, 0) {
		return true
	}
	core, neg := normCond(v)
	phi, ok := core.(*ssa.Phi)
	if !ok {
		return false
	}
	want := branch != neg
	blk := phi.Block()
	for i, e := range phi.Edges {
		if bv, isC := constBool(e); isC && bv != want {
			continue // this entry does not produce the value
		}
		pred := blk.Preds[i]
		edgeOK := false
		if n := len(pred.Instrs); n > 0 {
			if ifi, isIf := pred.Instrs[n-1].(*ssa.If); isIf {
				for si, succ := range pred.Succs {
					if succ == blk && valueEstablishes(ifi.Cond, si == 0, g, depth+1) {
						edgeOK = true
					}
				}
			}
		}
		if edgeOK {
			continue
		}
		if _, isC := constBool(e); !isC && valueEstablishes(e, want, g, depth+1) {
			continue
		}
		return false
	}
	return true
}

func noMarker(ssa.Instruction) bool { return false }

// reachInstrAvoiding: instruction-granular variant of reachAvoiding.
func reachInstrAvoiding(fn *ssa.Function, at ssa.Instruction, g Guard) bool {
	return reachFromWithoutMarkerAvoiding(fn.Blocks[0], at, noMarker, g)
}

// localVal: the value a single-assignment local holds: a load of a local that is stored exactly
// once (also when a closure captures it), or, inside a closure, a load of a captured variable of the
// enclosing function that is stored exactly once there. Anything else is returned unchanged.
func localVal(v ssa.Value) ssa.Value {
	for i := 0; i < 3; i++ {
		u, ok := v.(*ssa.UnOp)
		if !ok || u.Op != token.MUL {
			return v
		}
		var al *ssa.Alloc
		switch x := u.X.(type) {
		case *ssa.Alloc:
			al = x
		case *ssa.FreeVar:
			fn := x.Parent()
			idx := -1
			for j, fv := range fn.FreeVars {
				if fv == x {
					idx = j
				}
			}
			if par := fn.Parent(); par != nil && idx >= 0 {
				for _, b := range par.Blocks {
					for _, in := range b.Instrs {
						if mc, isMC := in.(*ssa.MakeClosure); isMC && mc.Fn == ssa.Value(fn) && idx < len(mc.Bindings) {
							al, _ = mc.Bindings[idx].(*ssa.Alloc)
						}
					}
				}
			}
		}
		if al == nil {
			return v
		}
		sts := storesTo(al)
		if len(sts) != 1 {
			return v
		}
		// no other writer: the address is only loaded, stored to once, or captured
		for _, r := range *al.Referrers() {
			switch r.(type) {
			case *ssa.UnOp, *ssa.Store, *ssa.MakeClosure, *ssa.DebugRef:
			default:
				return v
			}
		}
		v = strip(sts[0].Val)
	}
	return v
}

// errNilEstablishes: cond compares the error result of a first-party helper with nil, the edge is
// the one on which it is nil, and the helper returns a nil error only when G holds (every return
// whose error is nil lies behind an edge establishing G, with the helper's parameters resolved to
// this call's arguments): `if err := conf.validate(); err != nil { fatal }`.
func errNilEstablishes(cond ssa.Value, branch bool, g Guard) bool {
	core, neg := normCond(cond)
	bo, ok := core.(*ssa.BinOp)
	if !ok || (bo.Op != token.EQL && bo.Op != token.NEQ) {
		return false
	}
	var ev ssa.Value
	if isNil(bo.Y) {
		ev = bo.X
	} else if isNil(bo.X) {
		ev = bo.Y
	} else {
		return false
	}
	nilOnThisEdge := ((bo.Op == token.EQL) != neg) == branch
	if !nilOnThisEdge {
		return false
	}
	ev = rv(ev)
	idx := 0
	var call *ssa.Call
	switch x := ev.(type) {
	case *ssa.Call:
		call = x
	case *ssa.Extract:
		call, _ = x.Tuple.(*ssa.Call)
		idx = x.Index
	}
	if call == nil {
		return false
	}
	callee := call.Call.StaticCallee()
	if callee == nil || !IsFirstParty(callee) || callee.Blocks == nil || callEstDepth > 2 {
		return false
	}
	res := callee.Signature.Results()
	if idx >= res.Len() || res.At(idx).Type().String() != "error" {
		return false
	}
	callEstDepth++
	defer func() { callEstDepth-- }()
	defer pushCallResolver(call, callee)()
	some := false
	for _, r := range returnsOf(callee) {
		if idx >= len(r.Results) {
			return false
		}
		v := unspill(r.Results[idx])
		if !isNil(strip(v)) {
			if _, isC := strip(v).(*ssa.Const); isC {
				continue
			}
			// a non-constant error (err from a callee): may be nil
			if ec, isCall := strip(v).(*ssa.Call); isCall && (calleeName(ec) == "fmt.Errorf" || calleeName(ec) == "errors.New") {
				continue
			}
			return false
		}
		some = true
		if reach, _ := reachAvoiding(callee, r.Block(), g); reach && reachInstrAvoiding(callee, r, g) {
			return false
		}
	}
	return some
}
