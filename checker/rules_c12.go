package main

import (
	"fmt"
	"go/types"
	"strings"

	"golang.org/x/tools/go/ssa"
)

func init() {
	register(&Property{
		ID:          "C12",
		Title:       "Connection files go only to logged-in sessions and bind user, host and address",
		DesignRef:   "DESIGN.md §3 C12",
		Technique:   "who-may-reference inventory of the download handler + edge-cut guarded reachability (authenticated gate, host policy with flag idiom via phi threading) + checked must-pass chain on QueryInfo + SSA value identity of host/user/token between policy, generator and file",
		LevelText:   "Static: the token generators are reachable only over an Authenticated()==true edge (router wrapper redirecting otherwise, or the in-handler test); getHost returns only an element of the configured list, or a value proved equal to one on the return's path, or the query value under 'any'; in 'signed' mode the value is QueryInfo's result whose acceptance requires HS256 parse, MAC under QuerySigningKey, and issuer/expiry validation; the host handed to the token generator is the very value written to the file's full address, the token written is the generator's result, the gateway host comes from the configured address, the user handed over is the session's name (first part of a split at '@' under domain splitting); the generator's claims are those parameters plus the context's clientIp and access token; the placeholder substitution at issuance equals the one in the tunnel's host check. The identity the handler reads user and client address from is decoded for that request (no cached or shared identity object).",
		LevelNote:   "Trusted: go-jose for the query token, gorilla mux dispatch. Not decided: whether IdP 'sub' equals the ID-token user-name claim (so whether an issued file is accepted end to end for placeholder hosts), random host choice.",
		Explanation: "C12/gate inventories every reference to Handler.HandleDownload in main and checks the Authenticated wrapper's guard and the in-handler guard. C12/host-policy cuts equality edges in getHost per accepting return. C12/query-token is the chain on security.QueryInfo. C12/bindings follows values in HandleDownload. C12/claims re-checks GeneratePAAToken's claims. C12/issue-verify-agreement compares the substitution call of issuance and verification.",
		Assumptions: []string{"the redirect branch of the wrapper never calls the wrapped handler (checked by the guard)"},
		Rules: []RuleDef{
			{"C12/fresh-identity", "the identity that carries the request's client address is an object of this request: GetSessionIdentity returns a freshly decoded identity, never one kept in a cache or package variable (C13's rule)", func(c *Ctx) { freshIdentityAs(c, "C12/fresh-identity") }},
			{"C12/gate", "token generation only over Authenticated()==true (router wrapper with redirect, and/or in-handler test)", c12Gate},
			{"C12/host-policy", "getHost returns a configured entry, a value equal to one, or (only in 'any' mode) the query value; signed: QueryInfo's verified subject", c12HostPolicy},
			{"C12/query-token", "QueryInfo: non-error only after HS256 parse, MAC under QuerySigningKey and issuer/expiry validation; returns the verified subject", c12QueryToken},
			{"C12/bindings", "generator host == file's full address; token written == generator result; gateway host from config; user = session name (split at '@' under domain splitting)", c12Bindings},
			{"C12/claims", "generator claims = server and user parameters, context clientIp and access token", func(c *Ctx) { c04ClaimFlowAs(c, "C12/claims") }},
			{"C12/config-wiring", "main fills the download handler's configuration from the configuration fields of the same meaning, on every path to NewHandler", c12ConfigWiring},
			{"C12/issue-verify-agreement", "placeholder constant and substitution call agree between HandleDownload and security.CheckHost", c12IssueVerify},
			{"C12/key-wiring", "main copies the configured PAA and query-token keys into the variables the generator and QueryInfo read", func(c *Ctx) { keyWiring(c, "C12/key-wiring", "SigningKey", "QuerySigningKey") }},
			{"C12/client-address", "the clientIp attribute bound into the token is this request's X-Forwarded-For[0] or TCP peer (C04's source rule)", func(c *Ctx) { c04SourceAs(c, "C12/client-address") }},
			{"C12/hosts-immutable", "the configured host list (shared by the download handler and the tunnel policy) is never rewritten while serving requests", func(c *Ctx) { sharedSliceWrites(c, "C12/hosts-immutable") }},
			{"C12/handler-wiring", "every Handler field read on request paths is initialised by NewHandler from the Config field of the same name", c12HandlerWiring},
			{"C12/config-tags", "the configuration fields this property depends on are read from the documented keys: koanf tag = lower-cased field name", func(c *Ctx) { configTags(c, "C12/config-tags", map[string][]string{"Configuration": {"Server", "Security", "Client"}, "ServerConfig": {"Hosts", "HostSelection", "GatewayAddress"}, "SecurityConfig": {"QueryTokenSigningKey", "QueryTokenIssuer", "EnableUserToken"}}) }},
		},
	})
}

func isAuthenticatedCall(v ssa.Value, req ssa.Value) bool {
	call, ok := strip(v).(*ssa.Call)
	if !ok || !call.Call.IsInvoke() || call.Call.Method.Name() != "Authenticated" {
		return false
	}
	id, ok := strip(call.Call.Value).(*ssa.Call)
	if !ok || calleeName(id) != identPkgPath+".FromRequestCtx" {
		return false
	}
	return req == nil || arg(id, 0) == req
}

func c12Gate(c *Ctx) {
	rule := "C12/gate"
	mainFn := c.Fn("cmd/rdpgw", "main")
	// A: every reference to the bound HandleDownload is wrapped by OIDC.Authenticated
	nRefs, wrappedAll := 0, true
	c.eachMainInstr(func(in ssa.Instruction) {
		mc, ok := in.(*ssa.MakeClosure)
		if !ok {
			return
		}
		f := mc.Fn.(*ssa.Function)
		if f.Synthetic == "" || !strings.HasPrefix(f.Name(), "HandleDownload$bound") {
			return
		}
		nRefs++
		wrapped := false
		for _, use := range passedTo(mc) {
			if calleeName(use) == "(*"+webPkgPath+".OIDC).Authenticated" {
				wrapped = true
			} else {
				wrapped = false
				break
			}
		}
		if !wrapped {
			wrappedAll = false
		}
	})
	// the wrapper's guard
	au := c.Fn("cmd/rdpgw/web", "OIDC.Authenticated")
	guardA := len(au.AnonFuncs) == 1
	if guardA {
		cl := au.AnonFuncs[0]
		n := 0
		for _, ci := range callsIn(cl) {
			call, ok := ci.(*ssa.Call)
			if ok && call.Call.IsInvoke() && call.Call.Method.Name() == "ServeHTTP" {
				n++
				ok2, _ := mustPass(cl, call, GTrue(func(v ssa.Value) bool { return isAuthenticatedCall(v, cl.Params[1]) }))
				if !ok2 {
					guardA = false
				}
			}
		}
		if n == 0 {
			guardA = false
		}
	}
	gateA := nRefs > 0 && wrappedAll && guardA
	// B: in-handler guard dominating both generators
	hd := c.Fn("cmd/rdpgw/web", "Handler.HandleDownload")
	gateB := true
	nGen := 0
	for _, ci := range callsIn(hd) {
		call, ok := ci.(*ssa.Call)
		if !ok || call.Call.StaticCallee() != nil || call.Call.IsInvoke() {
			continue
		}
		_, f, ok := fieldLoad(strip(call.Call.Value))
		if !ok || (f.Name() != "paaTokenGenerator" && f.Name() != "userTokenGenerator") {
			continue
		}
		nGen++
		ok2, _ := mustPass(hd, call, GTrue(func(v ssa.Value) bool { return isAuthenticatedCall(v, hd.Params[2]) }))
		if !ok2 {
			gateB = false
		}
	}
	if nGen == 0 {
		c.Undecided(rule, "HandleDownload generators", hd.Pos(), "no token generator call found in the download handler")
		return
	}
	if gateA {
		c.OK(rule, "router wrapper", mainFn.Pos(), "all %d references to HandleDownload are wrapped by OIDC.Authenticated, which calls next only over Authenticated()==true (otherwise redirects)", nRefs)
	}
	if gateB {
		c.OK(rule, "in-handler guard", hd.Pos(), "both token generators are reachable only over id.Authenticated()==true of the request's identity")
	}
	if !gateA && !gateB {
		c.Bad(rule, "no gate", hd.Pos(), "neither the router wrapper (refs=%d all-wrapped=%v guard=%v) nor an in-handler Authenticated() test stands before token generation: an unauthenticated request can obtain a connection file and token", nRefs, wrappedAll, guardA)
	}
	// the redirect branch of the wrapper issues no token: covered by the guard (next not called)
}

// sameLoc: two values denote the same storage read (same SSA value, or loads of the same
// slice element with a constant index).
func sameLoc(a, b ssa.Value) bool {
	a, b = strip(a), strip(b)
	if a == b {
		return true
	}
	aa, ok1 := loadAddr(a)
	ba, ok2 := loadAddr(b)
	if !ok1 || !ok2 {
		return false
	}
	// loads of the same field of the same object
	if fa, ok := aa.(*ssa.FieldAddr); ok {
		if fb, ok := ba.(*ssa.FieldAddr); ok && fa.X == fb.X && fa.Field == fb.Field {
			return true
		}
	}
	ia, ok1 := aa.(*ssa.IndexAddr)
	ib, ok2 := ba.(*ssa.IndexAddr)
	if !ok1 || !ok2 || ia.X != ib.X {
		return false
	}
	ka, ok1 := constInt(ia.Index)
	kb, ok2 := constInt(ib.Index)
	return ok1 && ok2 && ka == kb
}

func c12HostPolicy(c *Ctx) {
	rule := "C12/host-policy"
	root := c.Fn("cmd/rdpgw/web", "Handler.getHost")
	c12HostPolicyIn(c, rule, root, 0)
	c.Floor(rule, 5, "selectRandomHost + 5 accepting returns")
}

// c12HostPolicyIn analyses the accepting returns of getHost, and of the helper methods (on the same
// handler) whose results it passes through unchanged.
func c12HostPolicyIn(c *Ctx, rule string, fn *ssa.Function, depth int) {
	key := shortFn(fn)
	hP := fn.Params[0]
	isHostsElem := func(v ssa.Value) bool {
		a, ok := loadAddr(strip(v))
		if !ok {
			return false
		}
		ia, ok := a.(*ssa.IndexAddr)
		if !ok {
			return false
		}
		b, f, ok := fieldLoad(strip(rv(ia.X)))
		return ok && f.Name() == "hosts" && b == ssa.Value(hP)
	}
	isSel := func(v ssa.Value) bool {
		b, f, ok := fieldLoad(strip(v))
		return ok && f.Name() == "hostSelection" && b == ssa.Value(hP)
	}
	gAny := GEq(isSel, func(v ssa.Value) bool { s, ok := constString(v); return ok && s == "any" })
	if depth == 0 {
		// selectRandomHost returns an element of h.hosts
		srh := c.Fn("cmd/rdpgw/web", "Handler.selectRandomHost")
		srhOK := true
		for _, r := range returnsOf(srh) {
			a, ok := loadAddr(strip(r.Results[0]))
			if !ok {
				srhOK = false
				continue
			}
			ia, ok := a.(*ssa.IndexAddr)
			if !ok {
				srhOK = false
				continue
			}
			b, f, ok := fieldLoad(strip(ia.X))
			if !ok || f.Name() != "hosts" || b != ssa.Value(srh.Params[0]) {
				srhOK = false
			}
		}
		c.Check(srhOK, rule, shortFn(srh), srh.Pos(), "returns an element of h.hosts", "selectRandomHost can return something that is not a configured host")
	}
	// results handed through from a helper method on the same handler: analyse the helper instead
	for _, r := range returnsOf(fn) {
		if len(r.Results) != 2 {
			continue
		}
		e0, ok0 := strip(r.Results[0]).(*ssa.Extract)
		e1, ok1 := strip(r.Results[1]).(*ssa.Extract)
		if !ok0 || !ok1 || e0.Tuple != e1.Tuple || e0.Index != 0 || e1.Index != 1 {
			continue
		}
		call, ok := e0.Tuple.(*ssa.Call)
		if !ok {
			continue
		}
		h := call.Call.StaticCallee()
		if h != nil && IsFirstParty(h) && h.Blocks != nil && depth < 1 && len(call.Call.Args) > 0 && call.Call.Args[0] == ssa.Value(hP) && h.Signature.Recv() != nil {
			c12HostPolicyIn(c, rule, h, depth+1)
		}
	}

	exits := acceptingReturns(fn, 1, func(v ssa.Value) bool { return !isNil(v) })
	for i, e := range exits {
		k := fmt.Sprintf("%s accept#%d", key, i)
		v := e.Results[0]
		if call, ok := strip(v).(*ssa.Call); ok && calleeName(call) == "(*"+webPkgPath+".Handler).selectRandomHost" {
			c.OK(rule, k, e.Pos(), "a configured entry chosen by selectRandomHost")
			continue
		}
		isHostsSlice := func(x ssa.Value) bool {
			b, f, ok := fieldLoad(strip(x))
			return ok && f.Name() == "hosts" && b == ssa.Value(hP)
		}
		// ... or membership in an index NewHandler built from the configured hosts: _, ok := h.hostSet[v]
		idxFields := c.hostIndexFields()
		gMember := func(cond ssa.Value, branch bool) bool {
			core, neg := normCond(cond)
			ex, ok := core.(*ssa.Extract)
			if !ok || ex.Index != 1 || branch == neg {
				return false
			}
			lk, ok := ex.Tuple.(*ssa.Lookup)
			if !ok || !lk.CommaOk {
				return false
			}
			_, f, ok := fieldLoad(strip(rv(lk.X)))
			if !ok {
				_, f, ok = fieldLoad(strip(lk.X))
			}
			return ok && idxFields[f] && (sameLoc(rv(lk.Index), v) || sameLoc(lk.Index, v))
		}
		gEq := GOr(GEq(isHostsElem, func(x ssa.Value) bool { return sameLoc(x, v) }), GContains(isHostsSlice, func(x ssa.Value) bool { return sameLoc(x, v) }), gMember)
		ok1, _ := mustPass(fn, e, gEq)
		ok2, why := mustPass(fn, e, gAny)
		switch {
		case ok1:
			msg := "returned only over an equality with a configured entry"
			// signed: value must be the verified query subject
			if ex, isEx := strip(v).(*ssa.Extract); isEx {
				if qi, isCall := ex.Tuple.(*ssa.Call); isCall {
					if _, f, ok := fieldLoad(strip(qi.Call.Value)); ok && f.Name() == "queryInfo" {
						okq, whyq := mustPass(fn, e, GErrNil(resultOf(qi, 1)))
						c.Check(okq, rule, k+" query-verified", e.Pos(), "the subject of a query token that verified", "the query token's verification error does not gate the host: "+whyq)
						msg += " (subject of the verified query token)"
					}
				}
			}
			c.OK(rule, k, e.Pos(), "%s", msg)
		case ok2:
			c.OK(rule, k, e.Pos(), "requested value returned only in 'any' mode")
		default:
			c.Bad(rule, k, e.Pos(), "a host that is not proved to be a configured entry is returned outside 'any' mode (%s)", why)
		}
	}
}

func c12QueryToken(c *Ctx) {
	rule := "C12/query-token"
	fn := c.Fn("cmd/rdpgw/security", "QueryInfo")
	key := shortFn(fn)
	qKey := c.Global("cmd/rdpgw/security", "QuerySigningKey")
	parses := c.findSteps(fn, joseJWT+".ParseSigned")
	vals := c.findSteps(fn, "("+joseJWT+".Claims).Validate")
	if len(parses) != 1 || len(vals) != 1 {
		c.Bad(rule, key+" calls", fn.Pos(), "expected one ParseSigned and one Validate, found %d and %d", len(parses), len(vals))
		return
	}
	parseS, valS := parses[0], vals[0]
	parse, val := parseS.call, valS.call
	okA, how := algListIs(arg(parse, 1), "HS256")
	c.Check(okA && c.normIn(parseS, arg(parse, 0)) == ssa.Value(fn.Params[1]), rule, key+" parse", parse.Pos(), "parses the token parameter with allow-list "+how, "the query token is not parsed with exactly {HS256}: "+how)
	var std *ssa.Alloc
	if a, ok := loadAddr(c.upIn(valS, recvOf(val))); ok {
		std, _ = a.(*ssa.Alloc)
	}
	if std == nil {
		c.Undecided(rule, key+" standard", fn.Pos(), "validated claims are not a local")
		return
	}
	iss, now, _, ok := c.expectedLiteralR(valS, arg(val, 0))
	c.Check(ok && iss == ssa.Value(fn.Params[2]) && now, rule, key+" validate.shape", val.Pos(), "Validate(Expected{Issuer: the issuer parameter, Time: now})", "Validate does not check the configured issuer against the current time")
	var claimsCalls []stepRef
	for _, st := range c.findSteps(fn, "(*"+joseJWT+".JSONWebToken).Claims") {
		call := st.call
		dst := c.variadicAllocsUp(st, arg(call, 1))
		good := c.normIn(st, recvOf(call)) == resultOf(parse, 0) && isLoadOfGlobal(c.upIn(st, arg(call, 0)), qKey) && len(dst) == 1 && dst[0] == std
		if !good {
			c.Bad(rule, key+" claims.shape", call.Pos(), "a Claims call does not verify the parsed token under QuerySigningKey into the validated claims")
			continue
		}
		claimsCalls = append(claimsCalls, st)
	}
	if len(claimsCalls) == 0 {
		c.Bad(rule, key+" claims", fn.Pos(), "the query token's signature is never verified")
		return
	}
	exits := acceptingReturns(fn, 1, func(v ssa.Value) bool { return !isNil(v) })
	for i, e := range exits {
		ek := fmt.Sprintf("%s exit#%d", key, i)
		c.requireStep(rule, ek+" parse", fn, e, parseS, 1, "HS256 parse")
		c.requireStep(rule, ek+" validate", fn, e, valS, 0, "issuer/expiry validation")
		// at least one verifying Claims call gates the exit and precedes the Validate read
		gated := false
		for _, cl := range claimsCalls {
			if ok, _ := c.stepGates(fn, e, cl, 0); ok && c.before(fn, cl, valS.siteIn()) {
				gated = true
			}
		}
		c.Check(gated, rule, ek+" mac", e.Pos(), "reachable only over a successful MAC verification", "the subject is returned without a checked signature verification")
		// the value returned is the verified subject
		b, f, ok := fieldLoad(strip(e.Results[0]))
		c.Check(ok && f.Name() == "Subject" && baseAlloc(b) == std, rule, ek+" subject", e.Pos(), "returns the verified claims' Subject", "the value returned is not the verified Subject")
	}
	c.Floor(rule, 6, "shapes + gates")
}

func c12Bindings(c *Ctx) {
	rule := "C12/bindings"
	fn := c.Fn("cmd/rdpgw/web", "Handler.HandleDownload")
	key := shortFn(fn)
	var gen *ssa.Call
	for _, ci := range callsIn(fn) {
		call, ok := ci.(*ssa.Call)
		if !ok || call.Call.StaticCallee() != nil || call.Call.IsInvoke() {
			continue
		}
		if _, f, ok := fieldLoad(strip(call.Call.Value)); ok && f.Name() == "paaTokenGenerator" {
			gen = call
		}
	}
	if gen == nil {
		c.Missing("paaTokenGenerator call")
	}
	// stores into d.Settings made by the handler or by a helper it hands the builder to
	settings := c.nestedFieldStores(fn, "Settings", nil)
	one := func(name string) *fieldStore {
		if len(settings[name]) != 1 {
			c.Bad(rule, key+" "+name, fn.Pos(), "setting %s is stored %d times (expected once)", name, len(settings[name]))
			return nil
		}
		return &settings[name][0]
	}
	hostArg := gen.Call.Args[2]
	if s := one("FullAddress"); s != nil {
		c.Check(s.val == hostArg, rule, key+" FullAddress", s.store.Pos(), "the file's full address is the very value handed to the token generator", "the file names a different host than the one bound into the token")
	}
	if s := one("GatewayAccessToken"); s != nil {
		ok2, _ := mustPass(fn, s.at, GErrNil(resultOf(gen, 1)))
		c.Check(s.val == resultOf(gen, 0) && ok2, rule, key+" GatewayAccessToken", s.store.Pos(), "the token written is the generator's result, only when it succeeded", "the token written is not the (successful) generator result")
	}
	if s := one("GatewayHostname"); s != nil {
		root, path := fieldPathUp(s.store.Val, s.up)
		c.Check(root == ssa.Value(fn.Params[0]) && len(path) == 2 && path[0] == "gatewayAddress" && path[1] == "Host", rule, key+" GatewayHostname", s.store.Pos(), "gateway host = configured gateway address", "the gateway named in the file is not h.gatewayAddress.Host")
	}
	// host = Replace(getHost result, placeholder, id.UserName(), 1), getHost error checked
	hostOK, why := false, "the host is not the policy-selected host with the user placeholder substituted"
	if rep, ok := strip(hostArg).(*ssa.Call); ok && (calleeName(rep) == "strings.Replace" || calleeName(rep) == "strings.ReplaceAll") {
		if ex, ok := strip(arg(rep, 0)).(*ssa.Extract); ok && ex.Index == 0 {
			if gh, ok := ex.Tuple.(*ssa.Call); ok && calleeName(gh) == "(*"+webPkgPath+".Handler).getHost" {
				okg, w := mustPass(fn, gen, GErrNil(resultOf(gh, 1)))
				un, isUN := strip(arg(rep, 2)).(*ssa.Call)
				if !okg {
					why = "getHost's error does not gate token generation: " + w
				} else if !isUN || !un.Call.IsInvoke() || un.Call.Method.Name() != "UserName" {
					why = "the placeholder is not replaced by the session's user name"
				} else {
					hostOK = true
				}
				// query comes from this request's URL
				if _, f, ok := fieldLoad(strip(arg(gh, 1))); !ok || f.Name() != "URL" {
					hostOK, why = false, "getHost is not given the request's URL"
				}
			}
		}
	}
	c.Check(hostOK, rule, key+" host", gen.Pos(), "host = Replace(getHost(ctx, r.URL), placeholder, id.UserName()) with getHost's error checked", why)
	// user
	userOK := true
	var uwhy string
	for _, o := range c.originsDeep(gen.Call.Args[1], 0) {
		switch o.Kind {
		case "param":
			// inside a splitting helper: the name it was given must be the session's user name
			if !c.allUp(o.Value, func(u ssa.Value) bool {
				un, ok := strip(u).(*ssa.Call)
				return ok && un.Call.IsInvoke() && un.Call.Method.Name() == "UserName"
			}) {
				userOK, uwhy = false, "user is derived from something other than UserName()"
			}
		case "call":
			if calleeName(o.Call) == "strings.Cut" && o.Index == 0 {
				sep, _ := constString(arg(o.Call, 1))
				un, isUN := strip(arg(o.Call, 0)).(*ssa.Call)
				if sep != "@" || !isUN || !un.Call.IsInvoke() || un.Call.Method.Name() != "UserName" {
					userOK, uwhy = false, "user is not the part of UserName() before the first '@'"
				}
				break
			}
			if !o.Call.Common().IsInvoke() || o.Call.Common().Method.Name() != "UserName" {
				userOK, uwhy = false, "user is "+o.String()
			}
		case "other":
			// creds[0] of SplitN(UserName(), "@", 2)
			a, ok := loadAddr(o.Value)
			ia, ok2 := a.(*ssa.IndexAddr)
			if !ok || !ok2 {
				userOK, uwhy = false, "user is "+o.String()
				break
			}
			idx, _ := constInt(ia.Index)
			sp, ok3 := strip(ia.X).(*ssa.Call)
			if !ok3 || calleeName(sp) != "strings.SplitN" || idx != 0 {
				userOK, uwhy = false, "user is not element 0 of SplitN(UserName(), \"@\", 2)"
				break
			}
			sep, _ := constString(arg(sp, 1))
			n, _ := constInt(arg(sp, 2))
			if sep != "@" || n != 2 {
				userOK, uwhy = false, "domain split is not SplitN(name, \"@\", 2)"
			}
		default:
			userOK, uwhy = false, "user is "+o.String()
		}
	}
	c.Check(userOK, rule, key+" user", gen.Pos(), "user = session user name, or its first part of a split at '@' (domain splitting)", "the user bound into the token is not the session's user name: "+uwhy)
	ctxOK := false
	if call, ok := strip(gen.Call.Args[0]).(*ssa.Call); ok && calleeName(call) == "(*net/http.Request).Context" && recvOf(call) == ssa.Value(fn.Params[2]) {
		ctxOK = true
	}
	c.Check(ctxOK, rule, key+" ctx", gen.Pos(), "generator receives the request's context (identity with clientIp and access token)", "the generator does not receive the request's context")
	// main wires the real generators
	mainFn := c.Fn("cmd/rdpgw", "main")
	wired := 0
	c.eachMainInstr(func(in ssa.Instruction) {
		s, ok := in.(*ssa.Store)
		if !ok {
			return
		}
		if _, f, ok := fieldOfAddr(s.Addr); ok {
			switch f.Name() {
			case "PAATokenGenerator":
				fnv, _ := strip(s.Val).(*ssa.Function)
				wired++
				c.Check(fnv != nil && fnName(fnv) == secPkgPath+".GeneratePAAToken", rule, "main PAATokenGenerator", s.Pos(), "= security.GeneratePAAToken", "the download handler's token generator is not security.GeneratePAAToken")
			case "QueryInfo":
				if typeIs(f.Type(), webPkgPath, "QueryInfoFunc") {
					fnv, _ := strip(s.Val).(*ssa.Function)
					wired++
					c.Check(fnv != nil && fnName(fnv) == secPkgPath+".QueryInfo", rule, "main QueryInfo", s.Pos(), "= security.QueryInfo", "signed host selection does not use security.QueryInfo")
				}
			}
		}
	})
	if wired < 2 {
		c.Undecided(rule, "main wiring", mainFn.Pos(), "generator / query-info wiring not found (%d)", wired)
	}
	c.Floor(rule, 8, "3 settings, host, user, ctx, 2 wirings")
}

func c12IssueVerify(c *Ctx) {
	rule := "C12/issue-verify-agreement"
	hd := c.Fn("cmd/rdpgw/web", "Handler.HandleDownload")
	ch := c.Fn("cmd/rdpgw/security", "CheckHost")
	find := func(fn *ssa.Function) (string, string, int64, bool) {
		for _, sf := range scopeFuncs(fn, 1) {
			for _, ci := range callsTo(sf, "strings.Replace", "strings.ReplaceAll") {
				if s, ok := constString(arg(ci, 1)); ok && strings.Contains(s, "preferred_username") {
					n := int64(-1)
					if calleeName(ci) == "strings.Replace" {
						n, _ = constInt(arg(ci, 3))
					}
					return s, calleeName(ci), n, true
				}
			}
		}
		return "", "", 0, false
	}
	p1, f1, n1, ok1 := find(hd)
	p2, f2, n2, ok2 := find(ch)
	if !ok1 || !ok2 {
		c.Bad(rule, "placeholder", hd.Pos(), "the user placeholder substitution is missing at issuance (%v) or at verification (%v)", ok1, ok2)
		return
	}
	c.Check(p1 == p2, rule, "placeholder constant", hd.Pos(), fmt.Sprintf("both sides substitute %q", p1), fmt.Sprintf("issuance substitutes %q, the tunnel check substitutes %q: issued files for placeholder hosts are refused (or match the wrong host)", p1, p2))
	c.Check(f1 == f2 && n1 == n2, rule, "substitution call", hd.Pos(), fmt.Sprintf("both sides use %s with count %d", f1, n1), fmt.Sprintf("issuance uses %s/%d, verification uses %s/%d", f1, n1, f2, n2))
}

// c12HandlerWiring: NewHandler copies the configuration into the handler field by field; a field
// that request code reads but the constructor no longer sets silently turns a check off (an empty
// expected issuer makes go-jose skip the issuer test).
func c12HandlerWiring(c *Ctx) {
	rule := "C12/handler-wiring"
	nh := c.Fn("cmd/rdpgw/web", "Config.NewHandler")
	hT := c.NamedType("cmd/rdpgw/web", "Handler").Underlying().(*types.Struct)
	// the handler object is allocated by NewHandler or by a helper it calls with the configuration
	var lit *ssa.Alloc
	var litFn *ssa.Function
	var cfg ssa.Value = nh.Params[0]
	for _, sf := range scopeFuncs(nh, 1) {
		if sf.Parent() != nil {
			continue
		}
		sf := sf
		eachInstr(sf, func(in ssa.Instruction) {
			if al, ok := in.(*ssa.Alloc); ok && typeIs(al.Type(), webPkgPath, "Handler") {
				lit, litFn = al, sf
			}
		})
	}
	if lit == nil {
		c.Missing("Handler literal in NewHandler")
	}
	if litFn != nh {
		// the helper's parameter that receives the configuration
		cfg = nil
		for _, ci := range callsIn(nh) {
			if ci.Common().StaticCallee() == litFn {
				for i, a := range ci.Common().Args {
					if strip(a) == ssa.Value(nh.Params[0]) && i < len(litFn.Params) {
						cfg = litFn.Params[i]
					}
				}
			}
		}
	}
	set := structFieldStores(lit)
	// fields read by first-party code outside the constructor
	read := map[string]bool{}
	for _, f := range c.allFirstPartyFuncs() {
		if f == nh || f == litFn {
			continue
		}
		eachInstr(f, func(in ssa.Instruction) {
			if fa, ok := in.(*ssa.FieldAddr); ok {
				if _, fv, ok := fieldOfAddr(fa); ok && fv.Pkg() != nil && fv.Pkg().Path() == webPkgPath {
					if pt, ok := fa.X.Type().Underlying().(*types.Pointer); ok && typeIs(pt.Elem(), webPkgPath, "Handler") {
						isStore := false
						for _, r := range *fa.Referrers() {
							if st, ok := r.(*ssa.Store); ok && st.Addr == ssa.Value(fa) {
								isStore = true
							}
						}
						if !isStore {
							read[fv.Name()] = true
						}
					}
				}
			}
		})
	}
	n := 0
	for i := 0; i < hT.NumFields(); i++ {
		name := hT.Field(i).Name()
		if !read[name] {
			continue
		}
		n++
		vs := set[name]
		good := len(vs) == 1
		how := ""
		if good {
			b, cf, ok := fieldLoad(localVal(peelCopy(vs[0])))
			good = ok && cfg != nil && b == cfg
			if !good && c.hostIndexFields()[hT.Field(i)] {
				good, ok, how = true, false, "Hosts (as an index built by ranging over it)"
			}
			if ok {
				how = cf.Name()
			}
		}
		c.Check(good, rule, "Handler."+name, hT.Field(i).Pos(), "initialised from Config."+how, "Handler."+name+" is read while serving requests but NewHandler does not initialise it from the configuration: the behaviour it selects falls back to the zero value")
	}
	c.Floor(rule, 6, "handler fields read on request paths")
}

// c12ConfigWiring: web.Config is filled by main (or a start-up helper) from conf; a field that is
// set only under an unrelated switch, or from another setting, silently changes what the handler
// enforces (an empty query-token issuer turns the issuer check off).
func c12ConfigWiring(c *Ctx) {
	rule := "C12/config-wiring"
	mainFn := c.Fn("cmd/rdpgw", "main")
	want := map[string]string{
		"QueryTokenIssuer": "Security.QueryTokenIssuer",
		"EnableUserToken":  "Security.EnableUserToken",
		"Hosts":            "Server.Hosts",
		"HostSelection":    "Server.HostSelection",
		"TemplateFile":     "Client.Defaults",
	}
	isCfgField := func(in ssa.Instruction, field string) (*ssa.Store, bool) {
		s, ok := in.(*ssa.Store)
		if !ok {
			return nil, false
		}
		fa, ok := s.Addr.(*ssa.FieldAddr)
		if !ok {
			return nil, false
		}
		_, f, ok := fieldOfAddr(fa)
		if !ok || f.Name() != field {
			return nil, false
		}
		pt, ok := fa.X.Type().Underlying().(*types.Pointer)
		if !ok || !typeIs(pt.Elem(), webPkgPath, "Config") {
			return nil, false
		}
		return s, true
	}
	var nh ssa.Instruction
	for _, ci := range c.mainCallsTo("(*" + webPkgPath + ".Config).NewHandler") {
		nh = ci.(ssa.Instruction)
	}
	if nh == nil {
		c.Missing("NewHandler call in main")
	}
	for _, field := range sortedKeys(want) {
		n := 0
		good := true
		why := ""
		c.eachMainInstr(func(in ssa.Instruction) {
			s, ok := isCfgField(in, field)
			if !ok {
				return
			}
			n++
			if p, okp := confFieldPath(s.Val); !okp || p != want[field] {
				good, why = false, "set from conf."+p
			}
		})
		if n == 0 {
			good, why = false, "never set"
		}
		if good && nh.Parent() == mainFn {
			if reachWithoutMarker(mainFn, nh, func(in ssa.Instruction) bool { _, ok := isCfgField(in, field); return ok }) {
				good, why = false, "not set on every path to NewHandler"
			}
		}
		c.Check(good, rule, "web.Config."+field, nh.Pos(), "= conf."+want[field]+" on every path to NewHandler", "web.Config."+field+" is "+why+" (expected conf."+want[field]+" unconditionally): the download handler enforces something else than configured")
	}
	c.Floor(rule, 5, "five configuration fields")
}

// hostIndexFields: the fields of web.Handler that hold a map NewHandler fills only with m[h] = ...
// for h ranging over Config.Hosts — a membership index of the configured hosts.
func (c *Ctx) hostIndexFields() map[*types.Var]bool {
	out := map[*types.Var]bool{}
	nh := c.FnOpt("cmd/rdpgw/web", "Config.NewHandler")
	if nh == nil {
		return out
	}
	cfgP := nh.Params[0]
	isHostsRangeElem := func(v ssa.Value) bool {
		a, ok := loadAddr(strip(v))
		if !ok {
			return false
		}
		ia, ok := a.(*ssa.IndexAddr)
		if !ok {
			return false
		}
		b, f, ok := fieldLoad(strip(ia.X))
		return ok && f.Name() == "Hosts" && b == ssa.Value(cfgP)
	}
	eachInstr(nh, func(in ssa.Instruction) {
		mm, ok := in.(*ssa.MakeMap)
		if !ok {
			return
		}
		n, good := 0, true
		var field *types.Var
		for _, r := range *mm.Referrers() {
			switch x := r.(type) {
			case *ssa.MapUpdate:
				n++
				if x.Map != ssa.Value(mm) || !isHostsRangeElem(x.Key) {
					good = false
				}
			case *ssa.Store:
				if _, f, ok := fieldOfAddr(x.Addr); ok && x.Val == ssa.Value(mm) {
					field = f
				} else {
					good = false
				}
			case *ssa.DebugRef:
			default:
				good = false
			}
		}
		if good && n > 0 && field != nil {
			out[field] = true
		}
	})
	// nothing else writes such a field or its map
	for f := range out {
		for _, fn := range c.allFirstPartyFuncs() {
			if fn == nh {
				continue
			}
			eachInstr(fn, func(in ssa.Instruction) {
				switch x := in.(type) {
				case *ssa.Store:
					if _, fv, ok := fieldOfAddr(x.Addr); ok && fv == f {
						delete(out, f)
					}
				case *ssa.MapUpdate:
					if _, fv, ok := fieldLoad(strip(x.Map)); ok && fv == f {
						delete(out, f)
					}
				}
			})
		}
	}
	return out
}
