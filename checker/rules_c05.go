package main

import (
	"fmt"
	"strings"

	"golang.org/x/tools/go/ssa"
)

const (
	spnegoPkg = "github.com/bolkedebruin/gokrb5/v8/spnego"
	authPkg   = modPath + "/shared/auth"
)

func init() {
	register(&Property{
		ID:          "C05",
		Title:       "Gateway endpoint needs confirmed credentials of an enabled scheme",
		DesignRef:   "DESIGN.md §3 C05",
		Technique:   "who-may-reference inventory of the bound gateway handler in main (each reference classified by its wrapper chain, route matcher and the mechanism switch guarding it, via edge-cut reachability) + guarded reachability and SSA value origin inside the Basic/NTLM middleware and the PAM service method",
		LevelText:   "Static: every reference to gw.HandleGatewayProtocol in main is either wrapped by the NTLM, Basic or SPNEGO middleware on a route that requires an Authorization header of that scheme inside the block guarded by that mechanism's switch, or is the bare registration, reachable only with OpenID enabled and Kerberos, Basic and NTLM all disabled. Inside the middleware, the tunnel handler is called only over authenticated == true, where that value is the backend's Authenticated field on the error-free edge (NTLM: and no challenge outstanding), the session key sent to the NTLM backend is the connection's remote address, and the user name stored is the one submitted to / returned by the backend. The PAM service method reports Authenticated only after Start, Authenticate and AcctMgmt all succeeded. The no-Authorization matcher route is registered unconditionally and each mechanism block registers its challenge; the refusing branches answer 401 with WWW-Authenticate.",
		LevelNote:   "Trusted: gorilla/mux route matching (HeadersRegexp is unanchored: a header merely containing the scheme word reaches the middleware, which is the gate checked), the SPNEGO library, gRPC transport to the local auth service, PAM. Not decided: the 'if' direction (correct credentials always get through), ordering of NTLM legs across connections beyond the session key.",
		Explanation: "C05/handler-refs enumerates the MakeClosure sites of HandleGatewayProtocol$bound in main, follows each through conversions and wrapper calls to the route it is registered on, reads the route's HeadersRegexp arguments and checks by edge cutting which mechanism switches must hold on every path to the registration. C05/basic-gate, C05/ntlm-gate and C05/pam-gate check the accept paths. C05/challenge checks the 401 side. C05/spnego checks the transposition.",
		Assumptions: []string{"the local authentication service is the one in cmd/auth (its NTLM part is C14)"},
		Rules: []RuleDef{
			{"C05/handler-refs", "each reference to the gateway handler: right wrapper, right Authorization scheme route, under its mechanism's switch; bare route only for OpenID alone", c05HandlerRefs},
			{"C05/basic-gate", "Basic middleware: next only over the backend's Authenticated on the error-free edge; name = submitted user", c05BasicGate},
			{"C05/ntlm-gate", "NTLM middleware: next only over Authenticated with no challenge pending; session = connection address; name = backend's", c05NtlmGate},
			{"C05/pam-gate", "auth service: Authenticated only after PAM start, authenticate and account management succeeded for the submitted user/password", c05PamGate},
			{"C05/challenge", "no-Authorization route unconditional; per-mechanism challenges registered with their routes; refusals answer 401 + WWW-Authenticate", c05Challenge},
			{"C05/ntlm-accept", "the NTLM verifier reports Authenticated only over proof of a non-empty configured password (C14's accept-site rule, as it decides who reaches this endpoint)", func(c *Ctx) { c14AcceptSiteAs(c, "C05/ntlm-accept") }},
			{"C05/spnego", "SPNEGO transposition copies the library's verdict and name", c05Spnego},
			{"C05/ntlm-contexts", "the NTLM verifier remembers session contexts in the context cache only (C14's holder rule, as it gates this endpoint)", func(c *Ctx) { c14ContextHoldersAs(c, "C05/ntlm-contexts") }},
			{"C05/ntlm-verifier", "the NTLM verifier keeps a server context only while a challenge is outstanding (C14's context rule, as it gates this endpoint)", func(c *Ctx) { c14ContextScopeAs(c, "C05/ntlm-verifier") }},
			{"C05/config-tags", "the configuration fields this property depends on are read from the documented keys: koanf tag = lower-cased field name", func(c *Ctx) { configTags(c, "C05/config-tags", map[string][]string{"Configuration": {"Server"}, "ServerConfig": {"Authentication", "AuthSocket", "BasicAuthTimeout"}}) }},
			{"C05/challenge-headers", "the 401 answer offers every registered scheme: challenges are added to the WWW-Authenticate header, not set", c05ChallengeHeaders},
		},
	})
}

// mainEnabled matches calls conf.Server.<method>() in package main.
func mainEnabled(method string) func(ssa.Value) bool {
	return func(v ssa.Value) bool {
		call, ok := strip(v).(*ssa.Call)
		if !ok || calleeName(call) != "(*"+cfgPkgPath+".ServerConfig)."+method {
			return false
		}
		isSrv := func(v ssa.Value) bool { p, ok := confAddrPath(v, "conf"); return ok && p == "Server" }
		recv := rv(recvOf(call))
		if isSrv(recv) {
			return true
		}
		// a helper of main that is handed &conf.Server
		if _, isParam := recv.(*ssa.Parameter); isParam && theCtx != nil {
			return theCtx.allUp(recv, isSrv)
		}
		return false
	}
}

// eachMainInstr: every instruction of main and of its start-up helpers (mainScope).
func (c *Ctx) eachMainInstr(f func(in ssa.Instruction)) {
	for _, fn := range c.mainScope() {
		eachInstr(fn, f)
	}
}

// mainCallsTo: calls to names in main and its start-up helpers.
func (c *Ctx) mainCallsTo(names ...string) []ssa.CallInstruction {
	var out []ssa.CallInstruction
	for _, fn := range c.mainScope() {
		out = append(out, callsTo(fn, names...)...)
	}
	return out
}

// inMainScope: fn is main or one of its start-up helpers.
func (c *Ctx) inMainScope(fn *ssa.Function) bool {
	for _, f := range c.mainScope() {
		if f == fn {
			return true
		}
	}
	return false
}

// mainScope: main and the named helpers in its package that are only ever called, statically,
// from main (route-registration helpers).
func (c *Ctx) mainScope() []*ssa.Function {
	mainFn := c.Fn("cmd/rdpgw", "main")
	out := []*ssa.Function{mainFn}
	for _, f := range c.allFirstPartyFuncs() {
		if f == mainFn || f.Parent() != nil || f.Pkg != mainFn.Pkg || f.Synthetic != "" {
			continue
		}
		if sites, ok := c.staticCallers(f); !ok || len(sites) == 0 {
			continue
		}
		if c.onlyCalledFrom(f, mainFn, 0) {
			out = append(out, f)
		}
	}
	return out
}

type handlerRef struct {
	mc       *ssa.MakeClosure
	wrappers []string
	reg      *ssa.Call // (*mux.Route).HandlerFunc / Handler / Router.HandleFunc ...
	header   []string  // HeadersRegexp args on the route
	why      string
}

// followToRoute follows a handler value to the mux registration it ends in.
func followToRoute(v ssa.Value) (wrappers []string, reg *ssa.Call, why string) {
	return followToRouteFrom(v, nil)
}

// followToRouteFrom: like followToRoute, but the first step follows only the given use of v (a
// handler value kept in a local and used for several registrations is one reference per use).
func followToRouteFrom(v ssa.Value, firstUse ssa.Instruction) (wrappers []string, reg *ssa.Call, why string) {
	cur := v
	for i := 0; i < 12; i++ {
		if cur.Referrers() == nil {
			return wrappers, nil, "value has no uses"
		}
		var next ssa.Value
		var regCall *ssa.Call
		n := 0
		refs := *cur.Referrers()
		if i == 0 && firstUse != nil {
			refs = []ssa.Instruction{firstUse}
		}
		for _, r := range refs {
			switch x := r.(type) {
			case *ssa.DebugRef:
			case *ssa.ChangeType:
				next = x
				n++
			case *ssa.MakeInterface:
				next = x
				n++
			case *ssa.Call:
				name := calleeName(x)
				n++
				if strings.HasPrefix(name, "(*"+muxPkg+".") {
					regCall = x
				} else {
					wrappers = append(wrappers, name)
					next = x
				}
			default:
				return wrappers, nil, fmt.Sprintf("handler value used by %T", r)
			}
		}
		if n != 1 {
			return wrappers, nil, fmt.Sprintf("handler value has %d uses", n)
		}
		if regCall != nil {
			return wrappers, regCall, ""
		}
		cur = next
	}
	return wrappers, nil, "wrapper chain too deep"
}

func routeHeaders(reg *ssa.Call) []ssa.Value {
	r := recvOf(reg)
	for i := 0; i < 6 && r != nil; i++ {
		call, ok := strip(r).(*ssa.Call)
		if !ok {
			return nil
		}
		if calleeName(call) == "(*"+muxPkg+".Route).HeadersRegexp" {
			elems, ok := sliceLitElems(arg(call, 0))
			if !ok {
				return nil
			}
			return elems
		}
		r = recvOf(call)
	}
	return nil
}

func c05HandlerRefs(c *Ctx) {
	rule := "C05/handler-refs"
	mainFn := c.Fn("cmd/rdpgw", "main")
	type mech struct {
		name, enabled string
		schemes       []string
		wrappers      []string
	}
	mechs := map[string]mech{
		"ntlm":     {"ntlm", "NtlmEnabled", []string{"NTLM", "Negotiate"}, []string{"(*" + webPkgPath + ".NTLMAuthHandler).NTLMAuth"}},
		"basic":    {"basic", "BasicAuthEnabled", []string{"Basic"}, []string{"(*" + webPkgPath + ".BasicAuthHandler).BasicAuth"}},
		"kerberos": {"kerberos", "KerberosEnabled", []string{"Negotiate"}, []string{webPkgPath + ".TransposeSPNEGOContext", spnegoPkg + ".SPNEGOKRB5Authenticate"}},
	}
	n := 0
	scope := c.mainScope()
	inScope := map[*ssa.Function]bool{}
	for _, f := range scope {
		inScope[f] = true
	}
	for _, fn := range scope {
		fn := fn
		handleRef := func(mc *ssa.MakeClosure, firstUse ssa.Instruction) {
			n++
			key := fmt.Sprintf("main gateway-ref#%d", n)
			wrappers, reg, why := followToRouteFrom(mc, firstUse)
			if reg == nil {
				c.Bad(rule, key, mc.Pos(), "cannot follow this reference to the gateway handler to a route registration: %s", why)
				return
			}
			hdr := routeHeaders(reg)
			if len(wrappers) == 0 {
				// bare registration: OpenID alone
				var bad []string
				for _, g := range []struct {
					n string
					g Guard
				}{
					{"OpenIDEnabled()", GTrue(mainEnabled("OpenIDEnabled"))},
					{"!KerberosEnabled()", GFalse(mainEnabled("KerberosEnabled"))},
					{"!BasicAuthEnabled()", GFalse(mainEnabled("BasicAuthEnabled"))},
					{"!NtlmEnabled()", GFalse(mainEnabled("NtlmEnabled"))},
				} {
					if ok, _ := c.mustPassUp(fn, reg, g.g, 0); !ok {
						bad = append(bad, g.n)
					}
				}
				if len(bad) == 0 {
					c.OK(rule, key+" bare", reg.Pos(), "unauthenticated route only with OpenID enabled and Kerberos, Basic, NTLM all disabled")
				} else {
					c.Bad(rule, key+" bare", reg.Pos(), "the gateway handler is registered without an authentication wrapper on a path that does not require %s: requests reach the tunnel handler without confirmed credentials", strings.Join(bad, ", "))
				}
				return
			}
			var m *mech
			for k := range mechs {
				mm := mechs[k]
				if len(wrappers) == len(mm.wrappers) {
					same := true
					for i := range wrappers {
						if wrappers[i] != mm.wrappers[i] {
							same = false
						}
					}
					if same {
						m = &mm
					}
				}
			}
			if m == nil {
				c.Bad(rule, key, reg.Pos(), "the gateway handler is wrapped by %v, which is not one of the known authentication middleware chains", wrappers)
				return
			}
			// the scheme(s) this registration is made for: a constant, or each element of a
			// constant table the registration loops over (counted as one reference per element)
			var schemes []string
			hdrOK := len(hdr) == 2
			if hdrOK {
				h0, ok0 := constString(hdr[0])
				vals, _, ok1 := stringsOf(hdr[1])
				hdrOK = ok0 && h0 == "Authorization" && ok1
				schemes = vals
			}
			if !hdrOK {
				c.Bad(rule, key+" "+m.name+" route", reg.Pos(), "the %s-wrapped handler is registered on a route whose header matcher is not Authorization + a constant scheme (expected one of %v)", m.name, m.schemes)
				schemes = nil
			}
			for i, sch := range schemes {
				k := key
				if i > 0 {
					n++
					k = fmt.Sprintf("main gateway-ref#%d", n)
				}
				schemeOK := false
				for _, s := range m.schemes {
					if sch == s {
						schemeOK = true
					}
				}
				c.Check(schemeOK, rule, k+" "+m.name+" route", reg.Pos(), fmt.Sprintf("route requires Authorization ~ %s", sch), fmt.Sprintf("the %s-wrapped handler is registered on a route whose header matcher is [Authorization %s] (expected Authorization + one of %v)", m.name, sch, m.schemes))
				ok, whyg := c.mustPassUp(fn, reg, GTrue(mainEnabled(m.enabled)), 0)
				c.Check(ok, rule, k+" "+m.name+" switch", reg.Pos(), "registered only when "+m.enabled+"()", "the "+m.name+" route is "+whyg+" of "+m.enabled+"(): a disabled mechanism's credentials are accepted")
			}
		}
		eachInstr(fn, func(in ssa.Instruction) {
			mc, ok := in.(*ssa.MakeClosure)
			if !ok {
				return
			}
			f := mc.Fn.(*ssa.Function)
			if f.Synthetic == "" || !strings.HasPrefix(f.Name(), "HandleGatewayProtocol$bound") {
				return
			}
			var uses []ssa.Instruction
			for _, r := range *mc.Referrers() {
				if _, isDbg := r.(*ssa.DebugRef); !isDbg {
					uses = append(uses, r)
				}
			}
			if len(uses) > 1 {
				for _, u := range uses {
					handleRef(mc, u)
				}
				return
			}
			handleRef(mc, nil)
		})
	}
	if n < 5 {
		c.Undecided(rule, "main gateway-refs", mainFn.Pos(), "found %d references to the gateway handler (5 confirmed by hand)", n)
	}
	// no other function references the handler
	for _, f := range c.allFirstPartyFuncs() {
		if inScope[f] {
			continue
		}
		eachInstr(f, func(in ssa.Instruction) {
			if mc, ok := in.(*ssa.MakeClosure); ok {
				if g := mc.Fn.(*ssa.Function); g.Synthetic != "" && strings.HasPrefix(g.Name(), "HandleGatewayProtocol$bound") {
					c.Bad(rule, "gateway-ref in "+shortFn(f), mc.Pos(), "the gateway handler is referenced outside main's route table")
				}
			}
			if ci, ok := in.(ssa.CallInstruction); ok && calleeName(ci) == "(*"+protoPkg+".Gateway).HandleGatewayProtocol" {
				c.Bad(rule, "gateway-call in "+shortFn(f), ci.Pos(), "the gateway handler is called directly")
			}
		})
	}
	c.Floor(rule, 9, "4 wrapped refs x 2 + bare")
}

// nextServeCalls: calls of the captured `next` handler in a middleware closure.
func nextServeCalls(cl *ssa.Function) []*ssa.Call {
	isNext := func(v ssa.Value) bool {
		v = strip(v)
		if a, ok := loadAddr(v); ok {
			v = a
		}
		fv, ok := v.(*ssa.FreeVar)
		return ok && fv.Name() == "next"
	}
	// servesParam: callee calls ServeHTTP on (or simply calls) its parameter idx
	servesParam := func(callee *ssa.Function, idx int) bool {
		if callee == nil || !IsFirstParty(callee) || callee.Blocks == nil || idx >= len(callee.Params) {
			return false
		}
		p := callee.Params[idx]
		for _, ci := range callsIn(callee) {
			call, ok := ci.(*ssa.Call)
			if !ok {
				continue
			}
			var recv ssa.Value
			switch {
			case call.Call.IsInvoke() && call.Call.Method.Name() == "ServeHTTP":
				recv = call.Call.Value
			case calleeName(call) == "(net/http.HandlerFunc).ServeHTTP":
				recv = call.Call.Args[0]
			case call.Call.StaticCallee() == nil && !call.Call.IsInvoke():
				recv = call.Call.Value
			default:
				continue
			}
			if strip(recv) == ssa.Value(p) {
				return true
			}
		}
		return false
	}
	var out []*ssa.Call
	for _, ci := range callsIn(cl) {
		call, ok := ci.(*ssa.Call)
		if !ok {
			continue
		}
		var recv ssa.Value
		switch {
		case call.Call.IsInvoke() && call.Call.Method.Name() == "ServeHTTP":
			recv = call.Call.Value
		case calleeName(call) == "(net/http.HandlerFunc).ServeHTTP":
			recv = call.Call.Args[0]
		case call.Call.StaticCallee() == nil && !call.Call.IsInvoke():
			recv = call.Call.Value
		default:
			// the wrapped handler handed to a first-party helper that serves it
			if callee := call.Call.StaticCallee(); callee != nil {
				for i, a := range call.Call.Args {
					if isNext(a) && servesParam(callee, i) {
						out = append(out, call)
						break
					}
				}
			}
			continue
		}
		if isNext(recv) {
			out = append(out, call)
		}
	}
	return out
}

func c05BasicGate(c *Ctx) {
	rule := "C05/basic-gate"
	outer := c.Fn("cmd/rdpgw/web", "BasicAuthHandler.BasicAuth")
	if len(outer.AnonFuncs) != 1 {
		c.Missing("BasicAuth closure")
	}
	cl := outer.AnonFuncs[0]
	key := shortFn(cl)
	nexts := nextServeCalls(cl)
	if len(nexts) == 0 {
		c.Undecided(rule, key+" next", cl.Pos(), "no call of the wrapped handler found")
		return
	}
	var authCall, ba *ssa.Call
	for _, ci := range callsIn(cl) {
		switch calleeName(ci) {
		case "(*" + webPkgPath + ".BasicAuthHandler).authenticate":
			authCall = ci.(*ssa.Call)
		case "(*net/http.Request).BasicAuth":
			ba = ci.(*ssa.Call)
		}
	}
	if authCall == nil || ba == nil {
		c.Bad(rule, key+" calls", cl.Pos(), "r.BasicAuth() / h.authenticate not found")
		return
	}
	// which arguments of authenticate carry the user name and the password of this request
	iu, ip := -1, -1
	for i, a := range authCall.Call.Args {
		if strip(a) == resultOf(ba, 0) && iu < 0 {
			iu = i
		} else if strip(a) == resultOf(ba, 1) && ip < 0 {
			ip = i
		}
	}
	c.Check(iu >= 0 && ip >= 0 && recvOf(ba) == ssa.Value(cl.Params[1]), rule, key+" creds", authCall.Pos(), "the backend is asked about this request's Basic credentials", "the credentials sent to the backend are not this request's Basic user/password")
	verdict := resultOf(authCall, 0)
	for i, nx := range nexts {
		ok, why := mustPass(cl, nx, GTrue(isVal(verdict)))
		c.Check(ok, rule, fmt.Sprintf("%s next#%d", key, i), nx.Pos(), "the tunnel handler runs only over authenticated == true", "the tunnel handler is "+why+" of the backend's verdict")
	}
	for _, sc := range c.invokesInScope(cl, "SetUserName", 0) {
		c.Check(strip(sc.args[0]) == resultOf(ba, 0), rule, key+" SetUserName", sc.call.Pos(), "tunnel user = the user the backend confirmed", "the tunnel's user name is not the one submitted to the backend")
	}
	// authenticate(): non-false only from the backend's answer on the error-free edge
	fn := c.Fn("cmd/rdpgw/web", "BasicAuthHandler.authenticate")
	var rpc *ssa.Call
	for _, ci := range callsIn(fn) {
		call, ok := ci.(*ssa.Call)
		if ok && call.Call.IsInvoke() && call.Call.Method.Name() == "Authenticate" {
			rpc = call
		}
	}
	if rpc == nil {
		c.Bad(rule, shortFn(fn)+" rpc", fn.Pos(), "no Authenticate RPC")
		return
	}
	// request literal
	reqOK := false
	if al, ok := strip(rpc.Call.Args[1]).(*ssa.Alloc); ok {
		st := structFieldStores(al)
		reqOK = iu >= 0 && ip >= 0 && iu < len(fn.Params) && ip < len(fn.Params) && first(st["Username"]) == ssa.Value(fn.Params[iu]) && first(st["Password"]) == ssa.Value(fn.Params[ip])
	}
	c.Check(reqOK, rule, shortFn(fn)+" request", rpc.Pos(), "request carries the given user and password", "the RPC request does not carry the submitted user name and password")
	for i, r := range returnsOf(fn) {
		v := retSpilled(r, 0)
		if isConstFalse(v) {
			continue
		}
		b, f, ok := fieldLoad(strip(v))
		good := ok && f.Name() == "Authenticated" && b == resultOf(rpc, 0)
		if bv, isC := constBool(v); !good && isC && bv {
			// `return true` behind a test of the backend's Authenticated
			good, _ = mustPass(fn, r, GTrue(func(x ssa.Value) bool {
				b2, f2, ok2 := fieldLoad(strip(x))
				return ok2 && f2.Name() == "Authenticated" && b2 == resultOf(rpc, 0)
			}))
		}
		okg, why := mustPass(fn, r, GErrNil(resultOf(rpc, 1)))
		c.Check(good && okg, rule, fmt.Sprintf("%s return#%d", shortFn(fn), i), r.Pos(), "returns the backend's Authenticated, only when the RPC succeeded", "a non-false verdict that is not the backend's answer on the error-free edge ("+why+")")
	}
	c.Floor(rule, 5, "creds, gate, name, request, verdict")
}

// retSpilled: result i of a return, looking through the spill used with defers.
func retSpilled(r *ssa.Return, i int) ssa.Value {
	v := r.Results[i]
	u := unspill(v)
	return u
}

func c05NtlmGate(c *Ctx) { c05NtlmGateAs(c, "C05/ntlm-gate") }

func c05NtlmGateAs(c *Ctx, rule string) {
	outer := c.Fn("cmd/rdpgw/web", "NTLMAuthHandler.NTLMAuth")
	if len(outer.AnonFuncs) != 1 {
		c.Missing("NTLMAuth closure")
	}
	cl := outer.AnonFuncs[0]
	key := shortFn(cl)
	var authCall, gp *ssa.Call
	for _, ci := range callsIn(cl) {
		switch calleeName(ci) {
		case "(*" + webPkgPath + ".NTLMAuthHandler).authenticate":
			authCall = ci.(*ssa.Call)
		case "(*" + webPkgPath + ".NTLMAuthHandler).getAuthPayload":
			gp = ci.(*ssa.Call)
		}
	}
	if authCall == nil || gp == nil {
		c.Bad(rule, key+" calls", cl.Pos(), "getAuthPayload / authenticate not found")
		return
	}
	okp, whyp := mustPass(cl, authCall, GErrNil(resultOf(gp, 2)))
	c.Check(okp && strip(arg(authCall, 2)) == resultOf(gp, 0), rule, key+" payload", authCall.Pos(), "backend receives this request's parsed Authorization payload, only when parsing succeeded", "the payload sent to the backend is not the parsed Authorization header ("+whyp+")")
	for i, nx := range nextServeCalls(cl) {
		ok, why := mustPass(cl, nx, GTrue(isVal(resultOf(authCall, 0))))
		c.Check(ok, rule, fmt.Sprintf("%s next#%d", key, i), nx.Pos(), "the tunnel handler runs only over authenticated == true", "the tunnel handler is "+why+" of the backend's verdict")
	}
	for _, sc := range c.invokesInScope(cl, "SetUserName", 0) {
		c.Check(strip(sc.args[0]) == resultOf(authCall, 1), rule, key+" SetUserName", sc.call.Pos(), "tunnel user = the name the backend returned", "the tunnel's user name is not the one the backend confirmed")
	}
	fn := c.Fn("cmd/rdpgw/web", "NTLMAuthHandler.authenticate")
	fk := shortFn(fn)
	var rpc *ssa.Call
	for _, ci := range callsIn(fn) {
		call, ok := ci.(*ssa.Call)
		if ok && call.Call.IsInvoke() && call.Call.Method.Name() == "NTLM" {
			rpc = call
		}
	}
	if rpc == nil {
		c.Bad(rule, fk+" rpc", fn.Pos(), "no NTLM RPC")
		return
	}
	reqOK, why := false, "request is not a literal"
	if al, ok := strip(rpc.Call.Args[1]).(*ssa.Alloc); ok {
		st := structFieldStores(al)
		_, f, okf := fieldLoad(strip(first(st["Session"])))
		switch {
		case !okf || f.Name() != "RemoteAddr":
			why = "the NTLM session key is not the connection's r.RemoteAddr: legs on different connections share a challenge"
		case first(st["NtlmMessage"]) != ssa.Value(fn.Params[3]):
			why = "the message sent is not the request's payload"
		default:
			reqOK = true
		}
	}
	c.Check(reqOK, rule, fk+" request", rpc.Pos(), "session = r.RemoteAddr (one exchange per connection), message = the payload", why)
	res := resultOf(rpc, 0)
	isRes := func(field string) func(ssa.Value) bool {
		return func(v ssa.Value) bool {
			b, f, ok := fieldLoad(strip(v))
			return ok && f.Name() == field && b == res
		}
	}
	isEmpty := func(v ssa.Value) bool { s, ok := constString(v); return ok && s == "" }
	for i, r := range returnsOf(fn) {
		v := retSpilled(r, 0)
		if isConstFalse(v) {
			continue
		}
		rk := fmt.Sprintf("%s return#%d", fk, i)
		verdictOK := isRes("Authenticated")(v)
		if b, isC := constBool(v); !verdictOK && isC && b {
			// `return true` behind a test of the backend's Authenticated
			verdictOK, _ = mustPass(fn, r, GTrue(isRes("Authenticated")))
		}
		c.Check(verdictOK, rule, rk+" value", r.Pos(), "verdict = backend's Authenticated", "a non-false verdict that is not the backend's Authenticated field")
		ok1, w1 := mustPass(fn, r, GErrNil(resultOf(rpc, 1)))
		c.Check(ok1, rule, rk+" rpc-ok", r.Pos(), "only when the RPC succeeded", "verdict "+w1+" of the RPC error")
		ok2, w2 := mustPass(fn, r, GEq(isRes("NtlmMessage"), isEmpty))
		c.Check(ok2, rule, rk+" no-challenge", r.Pos(), "only when no challenge is being relayed", "verdict "+w2+" of NtlmMessage == \"\"")
		c.Check(isRes("Username")(retSpilled(r, 1)), rule, rk+" username", r.Pos(), "name = backend's Username", "the name returned is not the backend's Username")
	}
	c.Floor(rule, 7, "payload, gate, name, request, verdict x4")
}

func c05PamGate(c *Ctx) {
	rule := "C05/pam-gate"
	fn := c.Fn("cmd/auth", "AuthServiceImpl.Authenticate")
	key := shortFn(fn)
	authF := c.FieldVar("shared/auth", "AuthResponse", "Authenticated")
	var start, au, ac *ssa.Call
	for _, ci := range callsIn(fn) {
		call, ok := ci.(*ssa.Call)
		if !ok {
			continue
		}
		switch calleeName(call) {
		case "github.com/msteinert/pam/v2.StartFunc":
			start = call
		case "(*github.com/msteinert/pam/v2.Transaction).Authenticate":
			au = call
		case "(*github.com/msteinert/pam/v2.Transaction).AcctMgmt":
			ac = call
		}
	}
	if start == nil || au == nil || ac == nil {
		c.Bad(rule, key+" calls", fn.Pos(), "pam.StartFunc / Authenticate / AcctMgmt not all present")
		return
	}
	_, uf, okU := fieldLoad(strip(arg(start, 1)))
	c.Check(okU && uf.Name() == "Username" && unspill(recvOf(au)) == resultOf(start, 0) && unspill(recvOf(ac)) == resultOf(start, 0), rule, key+" transaction", start.Pos(), "one PAM transaction for the submitted user", "PAM is not started for the submitted user, or the checks run on another transaction")
	n := 0
	eachInstr(fn, func(in ssa.Instruction) {
		s, ok := in.(*ssa.Store)
		if !ok {
			return
		}
		if _, f, ok := fieldOfAddr(s.Addr); !ok || f != authF {
			return
		}
		if isConstFalse(s.Val) {
			return
		}
		n++
		for _, st := range []struct {
			n string
			g Guard
		}{{"start", GErrNil(resultOf(start, 1))}, {"authenticate", GErrNil(au)}, {"account", GErrNil(ac)}} {
			ok, why := mustPass(fn, s, st.g)
			c.Check(ok, rule, key+" accept "+st.n, s.Pos(), "Authenticated only after PAM "+st.n+" succeeded", "Authenticated is set "+why+" of PAM "+st.n)
		}
	})
	if n == 0 {
		c.Undecided(rule, key+" accept", fn.Pos(), "no accepting store")
	}
	// the conversation answers the password prompt with the submitted password
	if len(fn.AnonFuncs) >= 1 {
		cv := fn.AnonFuncs[0]
		good := false
		for _, r := range returnsOf(cv) {
			if _, f, ok := fieldLoad(strip(r.Results[0])); ok && f.Name() == "Password" {
				good = true
			}
		}
		c.Check(good, rule, key+" conversation", cv.Pos(), "the password prompt is answered with the submitted password", "the PAM conversation does not answer with the submitted password")
	}
	c.Floor(rule, 4, "transaction + 3 gates")
}

func c05Challenge(c *Ctx) {
	rule := "C05/challenge"
	mainFn := c.Fn("cmd/rdpgw", "main")
	var serves []ssa.Instruction
	for _, ci := range callsTo(mainFn, "(*net/http.Server).ListenAndServe", "(*net/http.Server).ListenAndServeTLS") {
		serves = append(serves, ci.(ssa.Instruction))
	}
	// NoAuthz route
	var noAuthReg *ssa.Call
	for _, ci := range callsTo(mainFn, "(*"+muxPkg+".Router).MatcherFunc", "(*"+muxPkg+".Route).MatcherFunc") {
		if f, ok := strip(arg(ci, 0)).(*ssa.Function); ok && fnName(f) == webPkgPath+".NoAuthz" {
			for _, r := range *ci.(*ssa.Call).Referrers() {
				if reg, ok := r.(*ssa.Call); ok && strings.HasSuffix(calleeName(reg), ".HandlerFunc") {
					if mc, ok := strip(arg(reg, 0)).(*ssa.MakeClosure); ok && strings.HasPrefix(mc.Fn.(*ssa.Function).Name(), "SetAuthenticate$bound") {
						noAuthReg = reg
					}
				}
			}
		}
	}
	if noAuthReg == nil {
		c.Bad(rule, "main NoAuthz route", mainFn.Pos(), "no route sends requests without Authorization header to the challenge handler")
	} else {
		uncond := true
		for _, s := range serves {
			if !dominatesInstr(noAuthReg, s) {
				uncond = false
			}
		}
		c.Check(uncond && len(serves) > 0, rule, "main NoAuthz route", noAuthReg.Pos(), "registered unconditionally before serving", "the challenge route is registered only under some condition")
	}
	// per-mechanism Register calls
	want := map[string][]string{"NtlmEnabled": {"NTLM", "Negotiate"}, "BasicAuthEnabled": {"Basic"}, "KerberosEnabled": {"Negotiate"}}
	regName := "(*" + webPkgPath + ".AuthMux).Register"
	// registers: the instruction certainly registers the challenge for scheme — a Register call with
	// that constant (or in a loop that runs it for every element of a constant table containing it),
	// or a call of a helper of main every path through which does so.
	var registers func(in ssa.Instruction, scheme string, depth int) bool
	registers = func(in ssa.Instruction, scheme string, depth int) bool {
		ci, ok := in.(*ssa.Call)
		if !ok {
			return false
		}
		if calleeName(ci) == regName {
			vals, table, ok := stringsOf(arg(ci, 0))
			if !ok {
				return false
			}
			if table {
				_, hdr, _ := rangeElem(arg(ci, 0))
				if !runsForEveryElement(ci, hdr) {
					return false
				}
			}
			for _, s := range vals {
				if s == scheme || strings.HasPrefix(s, scheme+" ") {
					return true
				}
			}
			return false
		}
		callee := ci.Call.StaticCallee()
		if callee == nil || !IsFirstParty(callee) || callee.Blocks == nil || depth > 1 {
			return false
		}
		marker := func(x ssa.Instruction) bool { return registers(x, scheme, depth+1) }
		for _, r := range returnsOf(callee) {
			if reachFromWithoutMarkerAvoiding(callee.Blocks[0], r, marker, nil) {
				return false
			}
		}
		return true
	}
	for _, m := range sortedKeys(want) {
		for _, scheme := range want[m] {
			found := false
			eachInstr(mainFn, func(in ssa.Instruction) {
				if found || !registers(in, scheme, 0) {
					return
				}
				if okg, _ := mustPass(mainFn, in, GTrue(mainEnabled(m))); !okg {
					return
				}
				// whenever the mechanism is on, the challenge is registered before serving
				for _, s := range serves {
					if reachWithoutMarkerAvoiding(mainFn, s, func(x ssa.Instruction) bool { return x == in }, GFalse(mainEnabled(m))) {
						return
					}
				}
				found = true
			})
			c.Check(found, rule, "main challenge "+m+" "+scheme, mainFn.Pos(), "with "+m+"() the "+scheme+" challenge is registered on every path to serving", "with "+m+"() true the server can start without a "+scheme+" challenge registered (or it is registered for a disabled mechanism only)")
		}
	}
	// 401 + WWW-Authenticate on refusals
	check401 := func(fn *ssa.Function) {
		has401, hasHdr := false, false
		scan := func(in ssa.Instruction) {
			ci, ok := in.(ssa.CallInstruction)
			if !ok {
				return
			}
			switch calleeName(ci) {
			case "net/http.Error":
				if k, ok := constInt(arg(ci, 2)); ok && k == 401 {
					has401 = true
				}
			case "(net/http.Header).Add", "(net/http.Header).Set":
				if s, ok := constString(arg(ci, 0)); ok && s == "WWW-Authenticate" {
					hasHdr = true
				}
			}
		}
		// the middleware, its closures, and the helpers they call (e.g. an unauthorized(w) method)
		seenFn := map[*ssa.Function]bool{}
		var visit func(f *ssa.Function, d int)
		visit = func(f *ssa.Function, d int) {
			for _, sf := range scopeFuncs(f, 1) {
				if seenFn[sf] {
					continue
				}
				seenFn[sf] = true
				eachInstr(sf, scan)
				if d < 1 {
					for _, a := range sf.AnonFuncs {
						visit(a, d+1)
					}
				}
			}
		}
		visit(fn, 0)
		c.Check(has401 && hasHdr, rule, shortFn(fn)+" 401", fn.Pos(), "answers 401 with WWW-Authenticate", "the refusing branch does not answer 401 with a WWW-Authenticate challenge")
	}
	check401(c.Fn("cmd/rdpgw/web", "AuthMux.SetAuthenticate"))
	check401(c.Fn("cmd/rdpgw/web", "BasicAuthHandler.BasicAuth"))
	check401(c.Fn("cmd/rdpgw/web", "NTLMAuthHandler.requestAuthenticate"))
	// NoAuthz: true iff header empty
	na := c.Fn("cmd/rdpgw/web", "NoAuthz")
	good := false
	for _, r := range returnsOf(na) {
		if bo, ok := strip(r.Results[0]).(*ssa.BinOp); ok {
			var h ssa.Value
			if s, ok := constString(bo.Y); ok && s == "" {
				h = bo.X
			}
			if call, ok := h.(*ssa.Call); ok && calleeName(call) == "(net/http.Header).Get" {
				if s, _ := constString(arg(call, 0)); s == "Authorization" && bo.Op.String() == "==" {
					good = true
				}
			}
		}
	}
	c.Check(good, rule, "NoAuthz", na.Pos(), "matches exactly the requests without an Authorization header", "NoAuthz is not 'Authorization header is empty'")
	c.Floor(rule, 8, "route, 4 challenges, 3 refusals")
}

func c05Spnego(c *Ctx) {
	rule := "C05/spnego"
	outer := c.Fn("cmd/rdpgw/web", "TransposeSPNEGOContext")
	if len(outer.AnonFuncs) != 1 {
		c.Missing("TransposeSPNEGOContext closure")
	}
	cl := outer.AnonFuncs[0]
	var gid ssa.Value
	for _, ci := range callsTo(cl, "github.com/jcmturner/goidentity/v6.FromHTTPRequestContext") {
		gid = ci.(*ssa.Call)
	}
	if gid == nil {
		c.Bad(rule, shortFn(cl)+" identity", cl.Pos(), "the SPNEGO library's identity is not consulted")
		return
	}
	for _, ci := range callsIn(cl) {
		call, ok := ci.(*ssa.Call)
		if !ok || !call.Call.IsInvoke() {
			continue
		}
		src := map[string]string{"SetAuthenticated": "Authenticated", "SetUserName": "UserName"}[call.Call.Method.Name()]
		if src == "" {
			continue
		}
		from, ok := strip(call.Call.Args[0]).(*ssa.Call)
		good := ok && from.Call.IsInvoke() && from.Call.Method.Name() == src && from.Call.Value == gid
		c.Check(good, rule, shortFn(cl)+" "+call.Call.Method.Name(), call.Pos(), "copied from the library identity's "+src+"()", call.Call.Method.Name()+" is not given the SPNEGO identity's "+src+"()")
	}
	c.Floor(rule, 2, "verdict and name")
}
