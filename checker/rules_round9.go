package main

import (
	"fmt"
	"go/token"
	"go/types"
	"sort"
	"strings"

	"golang.org/x/tools/go/ssa"
)

// c10NilResult: a contradiction rule (Engler et al.): a call returns (…, *T, …, error), the code
// tests the error somewhere — so it believes the call can fail — and the pointer result is
// dereferenced at a point that the test does not protect. A failing call returns a nil pointer
// (gRPC clients, constructors, parsers), so a client that can make the call fail makes the
// handler panic. Request-reachable first-party code only.
func c10NilResult(c *Ctx) {
	rule := "C10/nil-result"
	reach := c.ReqReachable()
	n := 0
	type site struct {
		key string
		pos token.Pos
		ok  bool
		why string
	}
	var sites []site
	for _, fn := range c.allFirstPartyFuncs() {
		if !reach[fn] || fn.Blocks == nil {
			continue
		}
		fn := fn
		nth := map[string]int{}
		eachInstr(fn, func(in ssa.Instruction) {
			call, ok := in.(*ssa.Call)
			if !ok {
				return
			}
			tup, ok := call.Type().(*types.Tuple)
			if !ok || tup.Len() < 2 || !isErrorType(tup.At(tup.Len()-1).Type()) {
				return
			}
			errV := resultOf(call, tup.Len()-1)
			if errV == nil {
				return
			}
			tested := false
			for _, r := range *errV.Referrers() {
				if bo, ok := r.(*ssa.BinOp); ok && (bo.Op == token.NEQ || bo.Op == token.EQL) && (isNil(bo.X) || isNil(bo.Y)) {
					tested = true
				}
			}
			if !tested {
				return
			}
			for i := 0; i < tup.Len()-1; i++ {
				if _, isPtr := tup.At(i).Type().Underlying().(*types.Pointer); !isPtr {
					continue
				}
				resV := resultOf(call, i)
				if resV == nil {
					continue
				}
				for _, r := range *resV.Referrers() {
					deref := false
					switch x := r.(type) {
					case *ssa.FieldAddr:
						deref = x.X == resV
					case *ssa.UnOp:
						deref = x.Op == token.MUL && x.X == resV
					case *ssa.IndexAddr:
						deref = x.X == resV
					}
					if !deref {
						continue
					}
					name := shortCallee(call)
					nth[name]++
					key := fmt.Sprintf("%s result of %s deref#%d", shortFn(fn), name, nth[name])
					ok1, why := mustPass(fn, r.(ssa.Instruction), GOr(GErrNil(errV), GNeq(isVal(resV), anyNil)))
					sites = append(sites, site{key, r.Pos(), ok1, why})
				}
			}
		})
	}
	sort.Slice(sites, func(i, j int) bool { return sites[i].key < sites[j].key })
	for _, s := range sites {
		n++
		c.Check(s.ok, rule, s.key, s.pos, "dereferenced only where the call's error was nil (or the result non-nil)", "the pointer result is dereferenced "+s.why+" of err == nil although the error is tested elsewhere: when the call fails the result is nil and the handler panics")
	}
	c.Floor(rule, 3, "pointer results of fallible calls dereferenced on request paths")
}

func isErrorType(t types.Type) bool {
	n, ok := t.(*types.Named)
	return ok && n.Obj().Pkg() == nil && n.Obj().Name() == "error"
}

var _ = strings.HasPrefix

// c13MarshalPrivate: the session keeps what SaveSessionIdentity was given. The bytes
// (*User).Marshal returns are put into the session's values and sealed into the cookie (or
// written to the session file) only later, by sessionStore.Save — so they must live in storage
// of that call. A package-level or pooled encode buffer that the returned slice still aliases is
// overwritten by the next request's Marshal before the first session is sealed: the session of
// one login then carries another user's (authenticated) identity.
func c13MarshalPrivate(c *Ctx) {
	rule := "C13/marshal-private"
	fn := c.Fn("cmd/rdpgw/identity", "User.Marshal")
	n := 0
	for i, r := range returnsOf(fn) {
		if len(r.Results) == 0 || !isByteStore(r.Results[0].Type()) {
			continue
		}
		v := unspill(r.Results[0])
		if isNil(strip(v)) {
			continue
		}
		n++
		var bad []string
		for _, o := range c.bufOrigins(v) {
			if why, shared := sharedOrigin(o, true); shared {
				bad = append(bad, why)
			}
		}
		key := fmt.Sprintf("%s return#%d", shortFn(fn), i)
		if len(bad) == 0 {
			c.OK(rule, key, r.Pos(), "the encoded identity is returned in storage allocated by this call")
		} else {
			c.Bad(rule, key, r.Pos(), "the encoded identity is returned in storage shared by all requests (%s): the bytes are sealed into the session only later, so another request's Marshal can replace them — a session then holds an identity its login never established", strings.Join(dedupe(bad), "; "))
		}
	}
	if n == 0 {
		c.Undecided(rule, shortFn(fn)+" returns", fn.Pos(), "no byte-slice result found")
	}
}
