package main

import (
	"fmt"
	"go/constant"
	"go/token"
	"go/types"
	"sort"
	"strings"

	"golang.org/x/tools/go/ssa"
)

// A3 — typestate path model of (*Processor).Process.
//
// Every acyclic SSA path through one iteration of the packet loop is
// enumerated for every abstract value of Processor.state that can reach the
// loop head. Comparisons against Processor.state are evaluated concretely,
// the packet type is chosen per path, every other branch is explored both
// ways and recorded. Nothing is executed: this is constant propagation on one
// struct field with path sensitivity for that field.

type Effect struct {
	Kind    string // RESP, CHECK, DIAL, SPAWN, RELAY, SET, CALL
	Name    string // builder / callback / callee
	Status  int64  // RESP: status constant
	PktType int64  // RESP: packet type constant of the builder
	Int     int64  // SET: state constant
	Val     ssa.Value
	Args    []ssa.Value
	Instr   ssa.Instruction
	Passed  bool // CHECK: outcome on this path (valid if Decided)
	Decided bool
}

type CondRec struct {
	Desc   string
	Branch bool
}

type MPath struct {
	Start    int64
	Pkt      int64 // packet type constant; -1 = none of the handled types (default); -2 = before the type is examined (read error)
	Conds    []CondRec
	Effects  []*Effect
	Exit     string // "loop" | "return"
	RetNil   bool   // return with nil error
	End      int64
	Pos      token.Pos
	cbNonNil map[string]bool
	// Mem: the field loads and stores executed on this path (in the loop body and the helpers it
	// inlines), with the number of SPAWN effects that preceded each
	Mem []MemAccess
}

type MemAccess struct {
	Instr       ssa.Instruction
	AfterSpawns int
}

func (p *MPath) Key() string {
	conds := []string{}
	for _, c := range p.Conds {
		b := "F"
		if c.Branch {
			b = "T"
		}
		conds = append(conds, c.Desc+"="+b)
	}
	return fmt.Sprintf("Process state=%d pkt=%s [%s]", p.Start, pktName(p.Pkt), strings.Join(conds, ","))
}

func pktName(t int64) string {
	switch t {
	case -1:
		return "other"
	case -2:
		return "readerr"
	}
	return fmt.Sprintf("%#x", t)
}

func (p *MPath) Describe() string {
	var parts []string
	for _, e := range p.Effects {
		switch e.Kind {
		case "RESP":
			parts = append(parts, fmt.Sprintf("RESP(%s type=%#x status=%#x)", e.Name, e.PktType, uint32(e.Status)))
		case "CHECK":
			parts = append(parts, fmt.Sprintf("CHECK(%s)=%v", e.Name, e.Passed))
		case "SET":
			parts = append(parts, fmt.Sprintf("SET(state=%d)", e.Int))
		default:
			parts = append(parts, e.Kind+"("+e.Name+")")
		}
	}
	return fmt.Sprintf("%s -> %s end-state=%d", strings.Join(parts, " "), p.Exit, p.End)
}

func (p *MPath) Has(kind string) bool {
	for _, e := range p.Effects {
		if e.Kind == kind {
			return true
		}
	}
	return false
}

func (p *MPath) All(kind string) []*Effect {
	var out []*Effect
	for _, e := range p.Effects {
		if e.Kind == kind {
			out = append(out, e)
		}
	}
	return out
}

func (p *MPath) Responses() []*Effect { return p.All("RESP") }

func (p *MPath) Check(name string) *Effect {
	for _, e := range p.Effects {
		if e.Kind == "CHECK" && e.Name == name {
			return e
		}
	}
	return nil
}

func (p *MPath) CallbackNonNil(name string) bool { return p.cbNonNil[name] }

// index of the first effect of a kind, -1 if none
func (p *MPath) Index(kind string) int {
	for i, e := range p.Effects {
		if e.Kind == kind {
			return i
		}
	}
	return -1
}

type Model struct {
	Fn        *ssa.Function
	Init      int64
	Reachable []int64 // states at loop head
	Paths     []*MPath
	Pre       *MPath // entry -> first loop head
	Builders  map[string]*BuilderInfo
	Handled   []int64 // packet types with a case
	Problems  []string
}

type BuilderInfo struct {
	Fn        *ssa.Function
	PktType   int64
	StatusIdx int // index into Params (incl. receiver)
}

var modelCache = map[*Prog]*Model{}

// ProcessModel builds (once) the model; problems make the calling rule undecided.
func (c *Ctx) ProcessModel(rule string) *Model {
	m, ok := modelCache[c.P]
	if !ok {
		m = buildModel(c)
		modelCache[c.P] = m
	}
	if len(m.Problems) > 0 {
		for i, p := range m.Problems {
			if i >= 5 {
				break
			}
			c.Undecided(rule, "process-model#"+itoa(i), m.Fn.Pos(), "typestate model of Process is not exact: %s", p)
		}
		return nil
	}
	return m
}

type mstate struct {
	st       int64
	pkt      int64
	pktSet   bool
	excl     map[int64]bool
	env      map[ssa.Value]constant.Value
	cb       map[string]bool // callback field non-nil decisions
	checkRes map[ssa.Value]*Effect
	path     *MPath
	visited  map[visitKey]int
	depth    int
	stack    []*frame
	nilness  map[ssa.Value]bool // value -> known to be nil (true) / non-nil (false) on this path
}

// frame: one inlined first-party helper (A3 inlines helpers that touch protocol state, depth <= 2).
type frame struct {
	fn     *ssa.Function
	call   *ssa.Call
	bind   map[*ssa.Parameter]ssa.Value
	retBlk *ssa.BasicBlock
	retIdx int
}

type visitKey struct {
	b    *ssa.BasicBlock
	call *ssa.Call
}

func (s *mstate) clone() *mstate {
	n := *s
	n.excl = map[int64]bool{}
	for k, v := range s.excl {
		n.excl[k] = v
	}
	n.env = map[ssa.Value]constant.Value{}
	for k, v := range s.env {
		n.env[k] = v
	}
	n.cb = map[string]bool{}
	for k, v := range s.cb {
		n.cb[k] = v
	}
	n.visited = map[visitKey]int{}
	for k, v := range s.visited {
		n.visited[k] = v
	}
	n.stack = append([]*frame(nil), s.stack...)
	n.nilness = map[ssa.Value]bool{}
	for k, v := range s.nilness {
		n.nilness[k] = v
	}
	np := *s.path
	np.Conds = append([]CondRec(nil), s.path.Conds...)
	np.Mem = append([]MemAccess(nil), s.path.Mem...)
	np.Effects = make([]*Effect, len(s.path.Effects))
	n.checkRes = map[ssa.Value]*Effect{}
	old2new := map[*Effect]*Effect{}
	for i, e := range s.path.Effects {
		ce := *e
		np.Effects[i] = &ce
		old2new[e] = &ce
	}
	for k, v := range s.checkRes {
		n.checkRes[k] = old2new[v]
	}
	n.path = &np
	return &n
}

type modelBuilder struct {
	c             *Ctx
	m             *Model
	fn            *ssa.Function
	stateF        *types.Var
	rwcF          *types.Var
	gwType        *types.Named
	loopHead      *ssa.BasicBlock
	readCall      *ssa.Call
	out           []*MPath
	problems      map[string]bool
	pendingInline *ssa.Function
}

func (b *modelBuilder) problem(format string, args ...any) {
	b.problems[fmt.Sprintf(format, args...)] = true
}

func buildModel(c *Ctx) *Model {
	fn := c.Fn("cmd/rdpgw/protocol", "Processor.Process")
	m := &Model{Fn: fn, Builders: map[string]*BuilderInfo{}}
	b := &modelBuilder{c: c, m: m, fn: fn, problems: map[string]bool{}}
	b.stateF = c.FieldVar("cmd/rdpgw/protocol", "Processor", "state")
	b.rwcF = c.FieldVar("cmd/rdpgw/protocol", "Tunnel", "rwc")
	b.gwType = c.NamedType("cmd/rdpgw/protocol", "Gateway")

	// loop head: the block holding the (only) Tunnel.Read call
	reads := callsTo(fn, "(*"+modPath+"/cmd/rdpgw/protocol.Tunnel).Read")
	if len(reads) != 1 {
		b.problem("expected exactly one Tunnel.Read call in Process, found %d", len(reads))
		m.Problems = keys(b.problems)
		return m
	}
	b.readCall = reads[0].(*ssa.Call)
	b.loopHead = b.readCall.Block()

	// initial state from NewProcessor
	np := c.Fn("cmd/rdpgw/protocol", "NewProcessor")
	init, found := int64(0), false
	eachInstr(np, func(in ssa.Instruction) {
		if s, ok := in.(*ssa.Store); ok {
			if _, f, ok := fieldOfAddr(s.Addr); ok && f == b.stateF {
				if v, ok := constInt(s.Val); ok {
					init, found = v, true
				} else {
					b.problem("NewProcessor stores a non-constant state")
				}
			}
		}
	})
	if !found {
		// zero value of the field
		init = 0
	}
	m.Init = init

	// builders: methods of Processor that return createPacket(const, ...)
	for _, f := range c.allFirstPartyFuncs() {
		if f.Signature.Recv() == nil || !typeIs(f.Signature.Recv().Type(), modPath+"/cmd/rdpgw/protocol", "Processor") {
			continue
		}
		for _, r := range returnsOf(f) {
			if len(r.Results) != 1 {
				continue
			}
			t, isPkt, ok := packetTypeOf(r.Results[0], nil, 0)
			if !isPkt {
				continue
			}
			if !ok {
				// a generic packet helper (type given by its caller): not a builder by itself; a
				// direct Tunnel.Write of its result is reported where it happens
				continue
			}
			bi := &BuilderInfo{Fn: f, PktType: t, StatusIdx: -1}
			for i, p := range f.Params {
				if i == 0 {
					continue
				}
				// the status: the one parameter wide enough for an HRESULT (int on the pinned tree; a
				// uint32 when the builders are typed for the wire)
				if bt, ok := p.Type().Underlying().(*types.Basic); ok && (bt.Kind() == types.Int || bt.Kind() == types.Uint32 || bt.Kind() == types.Int32 || bt.Kind() == types.Int64 || bt.Kind() == types.Uint64 || bt.Kind() == types.Uint) {
					if bi.StatusIdx != -1 {
						bi.StatusIdx = -2
					} else {
						bi.StatusIdx = i
					}
				}
			}
			if bi.StatusIdx < 0 {
				b.problem("cannot identify the status parameter of builder %s", f.Name())
				continue
			}
			m.Builders[f.Name()] = bi
		}
	}

	// pre-loop segment
	pre := &mstate{st: init, excl: map[int64]bool{}, env: map[ssa.Value]constant.Value{}, cb: map[string]bool{}, checkRes: map[ssa.Value]*Effect{}, visited: map[visitKey]int{}, path: &MPath{Start: init, Pkt: -2, Pos: fn.Pos()}}
	b.out = nil
	b.walk(fn.Blocks[0], 0, pre, true)
	if len(b.out) != 1 || b.out[0].Exit != "loop" {
		b.problem("code before the packet loop is not straight-line into the loop (%d paths)", len(b.out))
	} else {
		m.Pre = b.out[0]
		if len(m.Pre.Effects) > 0 {
			b.problem("effects before the packet loop: %s", m.Pre.Describe())
		}
	}

	// fixpoint over states at the loop head
	work := []int64{init}
	seen := map[int64]bool{init: true}
	for len(work) > 0 {
		st := work[0]
		work = work[1:]
		s0 := &mstate{st: st, excl: map[int64]bool{}, env: map[ssa.Value]constant.Value{}, cb: map[string]bool{}, checkRes: map[ssa.Value]*Effect{}, visited: map[visitKey]int{}, path: &MPath{Start: st, Pkt: -2, Pos: b.readCall.Pos()}}
		b.out = nil
		b.walk(b.loopHead, 0, s0, false)
		for _, p := range b.out {
			m.Paths = append(m.Paths, p)
			if p.Exit == "loop" && !seen[p.End] {
				seen[p.End] = true
				work = append(work, p.End)
			}
		}
		if len(m.Paths) > 20000 {
			b.problem("path explosion")
			break
		}
	}
	for s := range seen {
		m.Reachable = append(m.Reachable, s)
	}
	sort.Slice(m.Reachable, func(i, j int) bool { return m.Reachable[i] < m.Reachable[j] })
	h := map[int64]bool{}
	for _, p := range m.Paths {
		if p.Pkt >= 0 {
			h[p.Pkt] = true
		}
	}
	for t := range h {
		m.Handled = append(m.Handled, t)
	}
	sort.Slice(m.Handled, func(i, j int) bool { return m.Handled[i] < m.Handled[j] })
	m.Problems = keys(b.problems)
	return m
}

func keys(m map[string]bool) []string {
	var out []string
	for k := range m {
		out = append(out, k)
	}
	sort.Strings(out)
	return out
}

// cbFieldOf: v is a load of a function-typed field of Gateway; returns the field name.
func (b *modelBuilder) cbFieldOf(v ssa.Value) (string, bool) {
	_, f, ok := fieldLoad(strip(v))
	if !ok {
		return "", false
	}
	if _, isSig := f.Type().Underlying().(*types.Signature); !isSig {
		return "", false
	}
	st, ok := b.gwType.Underlying().(*types.Struct)
	if !ok {
		return "", false
	}
	for i := 0; i < st.NumFields(); i++ {
		if st.Field(i) == f {
			return f.Name(), true
		}
	}
	return "", false
}

// res resolves parameters of inlined helpers to the caller's values.
func (b *modelBuilder) res(s *mstate, v ssa.Value) ssa.Value {
	for i := 0; i < 8; i++ {
		p, ok := v.(*ssa.Parameter)
		if !ok {
			if sv := strip(v); sv != v {
				if pp, ok := sv.(*ssa.Parameter); ok {
					p = pp
				} else {
					return v
				}
			} else {
				return v
			}
		}
		bound := false
		for j := len(s.stack) - 1; j >= 0; j-- {
			if s.stack[j].fn == p.Parent() {
				if bv, ok := s.stack[j].bind[p]; ok {
					v, bound = bv, true
				}
				break
			}
		}
		if !bound {
			return v
		}
	}
	return v
}

func (b *modelBuilder) topCall(s *mstate) *ssa.Call {
	if len(s.stack) == 0 {
		return nil
	}
	return s.stack[len(s.stack)-1].call
}

func (b *modelBuilder) evalConst(s *mstate, v ssa.Value) (constant.Value, bool) {
	v = b.res(s, v)
	if c := constOf(v); c != nil && c.Value != nil {
		return c.Value, true
	}
	if cv, ok := s.env[v]; ok {
		return cv, true
	}
	if cv, ok := s.env[strip(v)]; ok {
		return cv, true
	}
	return nil, false
}

// evalCond returns (value, known).
func (b *modelBuilder) evalCond(s *mstate, cond ssa.Value) (bool, bool) {
	core, neg := normCond(cond)
	if cv, ok := b.evalConst(s, core); ok && cv.Kind() == constant.Bool {
		return constant.BoolVal(cv) != neg, true
	}
	bo, ok := core.(*ssa.BinOp)
	if !ok {
		return false, false
	}
	x, okx := b.evalConst(s, bo.X)
	y, oky := b.evalConst(s, bo.Y)
	if okx && oky {
		switch bo.Op {
		case token.EQL, token.NEQ, token.LSS, token.LEQ, token.GTR, token.GEQ:
			if x.Kind() == constant.Int && y.Kind() == constant.Int || x.Kind() == constant.String && y.Kind() == constant.String || x.Kind() == constant.Bool && y.Kind() == constant.Bool {
				return constant.Compare(x, bo.Op, y) != neg, true
			}
		}
	}
	return false, false
}

func (b *modelBuilder) resAll(s *mstate, vs []ssa.Value) []ssa.Value {
	out := make([]ssa.Value, len(vs))
	for i, v := range vs {
		out[i] = b.res(s, v)
	}
	return out
}

func (b *modelBuilder) isPktType(v ssa.Value) bool {
	ex, ok := strip(v).(*ssa.Extract)
	return ok && ex.Tuple == ssa.Value(b.readCall) && ex.Index == 0
}

func (b *modelBuilder) finish(s *mstate, exit string, retNil bool) {
	p := s.path
	p.Exit = exit
	p.End = s.st
	p.RetNil = retNil
	if !s.pktSet {
		if len(s.excl) > 0 {
			p.Pkt = -1
		} else {
			p.Pkt = -2
		}
	} else {
		p.Pkt = s.pkt
	}
	p.cbNonNil = s.cb
	b.out = append(b.out, p)
}

// walk explores from instruction idx of block blk.
func (b *modelBuilder) walk(blk *ssa.BasicBlock, idx int, s *mstate, pre bool) {
	if len(b.out) > 5000 {
		b.problem("path explosion in one iteration")
		return
	}
	if idx == 0 {
		vk := visitKey{blk, b.topCall(s)}
		s.visited[vk]++
		if s.visited[vk] > 1 {
			b.problem("cycle inside one loop iteration at block %d of %s", blk.Index, blk.Parent().Name())
			return
		}
	}
	for i := idx; i < len(blk.Instrs); i++ {
		in := blk.Instrs[i]
		switch x := in.(type) {
		case *ssa.UnOp:
			if x.Op == token.MUL {
				if _, f, ok := fieldOfAddr(x.X); ok && f == b.stateF {
					s.env[x] = constant.MakeInt64(s.st)
				}
				if _, _, ok := fieldOfAddr(x.X); ok {
					s.path.Mem = append(s.path.Mem, MemAccess{x, len(s.path.All("SPAWN"))})
				}
			}
		case *ssa.Store:
			if _, _, ok := fieldOfAddr(x.Addr); ok {
				s.path.Mem = append(s.path.Mem, MemAccess{x, len(s.path.All("SPAWN"))})
			}
			if _, f, ok := fieldOfAddr(x.Addr); ok && f == b.stateF {
				v, ok := b.evalConst(s, x.Val)
				if !ok || v.Kind() != constant.Int {
					b.problem("non-constant store to Processor.state at %s", b.c.P.Pos(x.Pos()))
					return
				}
				n, _ := constant.Int64Val(v)
				s.st = n
				s.path.Effects = append(s.path.Effects, &Effect{Kind: "SET", Int: n, Instr: x})
			} else if _, f, ok := fieldOfAddr(x.Addr); ok && f == b.rwcF {
				// p.tunnel.rwc = <dial result>: nothing to record, DIAL is recorded at the call
			}
		case *ssa.Go:
			name := calleeName(x)
			if name == "" {
				name = "closure/dynamic"
			}
			s.path.Effects = append(s.path.Effects, &Effect{Kind: "SPAWN", Name: name, Args: x.Call.Args, Instr: x})
		case *ssa.Defer:
			if !pre {
				b.problem("defer inside the packet loop at %s", b.c.P.Pos(x.Pos()))
			}
		case *ssa.Call:
			ok, inlined := b.call(x, s, blk, i, pre)
			if !ok || inlined {
				return // abandoned, or the walk continued inside the helper (and returns here through its frames)
			}
		case *ssa.Return:
			if n := len(s.stack); n > 0 {
				// return from an inlined helper: bind its results and continue in the caller
				fr := s.stack[n-1]
				s.stack = s.stack[:n-1]
				for ri, rv := range x.Results {
					var target ssa.Value
					if len(x.Results) == 1 {
						target = fr.call
					} else {
						target = resultOf(fr.call, ri)
					}
					if target == nil {
						continue
					}
					if cv, ok := b.evalConstIn(s, fr, rv); ok {
						s.env[target] = cv
					}
					// the verdict of a policy callback handed back by a predicate helper
					if e, ok := s.checkRes[strip(unspill(rv))]; ok {
						s.checkRes[target] = e
					} else if e, ok := s.checkRes[rv]; ok {
						s.checkRes[target] = e
					}
					// nil / non-nil of a returned error (or pointer) is carried to the caller's view of the result
					if s.nilness == nil {
						s.nilness = map[ssa.Value]bool{}
					}
					if isNil(unspill(rv)) {
						s.nilness[target] = true
					} else if ec, isCall := strip(unspill(rv)).(*ssa.Call); isCall && (calleeName(ec) == "fmt.Errorf" || calleeName(ec) == "errors.New") {
						s.nilness[target] = false // a freshly made error is never nil
					} else if k, ok := s.nilness[strip(unspill(rv))]; ok {
						s.nilness[target] = k
					} else if k, ok := s.nilness[rv]; ok {
						s.nilness[target] = k
					}
				}
				b.walk(fr.retBlk, fr.retIdx, s, pre)
				return
			}
			retNil := len(x.Results) == 1 && b.retIsNil(x.Results[0])
			b.finish(s, "return", retNil)
			return
		case *ssa.Panic:
			b.finish(s, "panic", false)
			return
		case *ssa.Jump:
			succ := blk.Succs[0]
			if succ == b.loopHead {
				b.finish(s, "loop", false)
				return
			}
			b.walk(succ, 0, s, pre)
			return
		case *ssa.If:
			b.branch(blk, x, s, pre)
			return
		}
	}
}

// retIsNil: the returned error is the constant nil (also through the result spill used with defers).
func (b *modelBuilder) retIsNil(v ssa.Value) bool {
	if isNil(v) {
		return true
	}
	// with a defer, results are spilled: return *t1 where the last store in this block is "*t1 = nil"
	if a, ok := loadAddr(v); ok {
		blk := v.(ssa.Instruction).Block()
		var last ssa.Value
		for _, in := range blk.Instrs {
			if st, ok := in.(*ssa.Store); ok && st.Addr == a {
				last = st.Val
			}
		}
		return last != nil && isNil(last)
	}
	return false
}

func (b *modelBuilder) branch(blk *ssa.BasicBlock, ifi *ssa.If, s *mstate, pre bool) {
	take := func(branch bool, ns *mstate) {
		i := 1
		if branch {
			i = 0
		}
		succ := blk.Succs[i]
		if succ == b.loopHead {
			b.finish(ns, "loop", false)
			return
		}
		b.walk(succ, 0, ns, pre)
	}
	if v, known := b.evalCond(s, ifi.Cond); known {
		take(v, s)
		return
	}
	core, neg := normCond(ifi.Cond)
	// packet type dispatch
	if bo, ok := core.(*ssa.BinOp); ok && (bo.Op == token.EQL || bo.Op == token.NEQ) {
		var k ssa.Value
		if b.isPktType(bo.X) {
			k = bo.Y
		} else if b.isPktType(bo.Y) {
			k = bo.X
		}
		if k != nil {
			kv, ok := constInt(k)
			if !ok {
				b.problem("packet type compared with a non-constant at %s", b.c.P.Pos(ifi.Pos()))
				return
			}
			eqBranch := (bo.Op == token.EQL) != neg // branch value on which pt == k
			if s.pktSet {
				take((s.pkt == kv) == eqBranch, s)
				return
			}
			if s.excl[kv] {
				take(!eqBranch, s)
				return
			}
			s1 := s.clone()
			s1.pktSet, s1.pkt = true, kv
			take(eqBranch, s1)
			s.excl[kv] = true
			take(!eqBranch, s)
			return
		}
		// callback != nil
		var cbv ssa.Value
		if isNil(bo.Y) {
			cbv = bo.X
		} else if isNil(bo.X) {
			cbv = bo.Y
		}
		if cbv != nil {
			if name, ok := b.cbFieldOf(cbv); ok {
				nonNilBranch := (bo.Op == token.NEQ) != neg
				if d, ok := s.cb[name]; ok {
					take(d == nonNilBranch, s)
					return
				}
				s1 := s.clone()
				s1.cb[name] = true
				s1.path.Conds = append(s1.path.Conds, CondRec{name + "!=nil", true})
				take(nonNilBranch, s1)
				s.cb[name] = false
				s.path.Conds = append(s.path.Conds, CondRec{name + "!=nil", false})
				take(!nonNilBranch, s)
				return
			}
		}
	}
	// result of a callback check
	if e, ok := s.checkRes[core]; ok {
		s1 := s.clone()
		s1.checkRes[core].Passed, s1.checkRes[core].Decided = true, true
		s1.path.Conds = append(s1.path.Conds, CondRec{e.Name + ".ok", true})
		take(!neg, s1)
		e.Passed, e.Decided = false, true
		s.path.Conds = append(s.path.Conds, CondRec{e.Name + ".ok", false})
		take(neg, s)
		return
	}
	// a nil test of a value whose nil-ness this path already decided (a helper's returned error)
	var nilOf ssa.Value
	var eqNil bool
	if bo, ok := core.(*ssa.BinOp); ok && (bo.Op == token.EQL || bo.Op == token.NEQ) {
		if isNil(bo.Y) {
			nilOf = bo.X
		} else if isNil(bo.X) {
			nilOf = bo.Y
		}
		eqNil = (bo.Op == token.EQL) != neg // branch value on which the operand is nil
	}
	if nilOf != nil {
		for _, k := range []ssa.Value{nilOf, strip(nilOf), unspill(nilOf)} {
			if k == nil {
				continue
			}
			if isN, ok := s.nilness[k]; ok {
				take(isN == eqNil, s)
				return
			}
		}
	}
	// opaque condition: both ways
	desc := b.condDesc(core)
	s1 := s.clone()
	if nilOf != nil {
		if s1.nilness == nil {
			s1.nilness = map[ssa.Value]bool{}
		}
		if s.nilness == nil {
			s.nilness = map[ssa.Value]bool{}
		}
		// s1 takes the branch on which core is true
		coreTrueIsNil := eqNil != neg
		_ = coreTrueIsNil
		bo := core.(*ssa.BinOp)
		s1.nilness[strip(nilOf)] = bo.Op == token.EQL
		s.nilness[strip(nilOf)] = bo.Op != token.EQL
	}
	s1.path.Conds = append(s1.path.Conds, CondRec{desc, true})
	take(!neg, s1)
	s.path.Conds = append(s.path.Conds, CondRec{desc, false})
	take(neg, s)
}

func (b *modelBuilder) condDesc(core ssa.Value) string {
	if bo, ok := core.(*ssa.BinOp); ok {
		for _, side := range []ssa.Value{bo.X, bo.Y} {
			if ex, ok := side.(*ssa.Extract); ok {
				if ci, ok := ex.Tuple.(ssa.CallInstruction); ok {
					n := calleeName(ci)
					if i := strings.LastIndex(n, "."); i >= 0 {
						n = n[i+1:]
					}
					other := bo.Y
					if side == bo.Y {
						other = bo.X
					}
					if isNil(other) {
						return fmt.Sprintf("%s.err%snil", n, bo.Op)
					}
				}
			}
		}
		return "cond@" + bo.Op.String()
	}
	return "cond"
}

var benignCallPrefixes = []string{"log.", "fmt.", "errors.", "strconv.", "net.JoinHostPort", "time."}

// evalConstIn evaluates v in the scope of a frame that was just popped.
func (b *modelBuilder) evalConstIn(s *mstate, fr *frame, v ssa.Value) (constant.Value, bool) {
	s.stack = append(s.stack, fr)
	cv, ok := b.evalConst(s, v)
	if !ok {
		// a comparison computed in the helper (e.g. return p.state == want)
		if bv, known := b.evalCond(s, v); known {
			cv, ok = constant.MakeBool(bv), true
		}
	}
	s.stack = s.stack[:len(s.stack)-1]
	return cv, ok
}

// call records the effect of a call; ok=false abandons the path (problem recorded);
// inlined=true means the walk went on inside the helper and the caller's loop must stop.
func (b *modelBuilder) call(x *ssa.Call, s *mstate, blk *ssa.BasicBlock, idx int, pre bool) (ok bool, inlined bool) {
	ok = b.call1(x, s)
	if ok || b.pendingInline == nil {
		b.pendingInline = nil
		return ok, false
	}
	callee := b.pendingInline
	b.pendingInline = nil
	if len(s.stack) >= 2 {
		b.problem("helper nesting deeper than 2 at %s", b.c.P.Pos(x.Pos()))
		return false, false
	}
	fr := &frame{fn: callee, call: x, bind: map[*ssa.Parameter]ssa.Value{}, retBlk: blk, retIdx: idx + 1}
	for i, p := range callee.Params {
		if i < len(x.Call.Args) {
			fr.bind[p] = b.res(s, x.Call.Args[i])
		}
	}
	s.stack = append(s.stack, fr)
	b.walk(callee.Blocks[0], 0, s, pre)
	return true, true
}

func (b *modelBuilder) call1(x *ssa.Call, s *mstate) bool {
	name := calleeName(x)
	protoPkg := modPath + "/cmd/rdpgw/protocol"
	switch {
	case name == "(*"+protoPkg+".Tunnel).Read":
		return true
	case name == "(*"+protoPkg+".Tunnel).Write":
		wv := b.res(s, arg(x, 0))
		e := &Effect{Kind: "RESP", Instr: x, Val: wv}
		bc, ok := strip(wv).(*ssa.Call)
		if !ok {
			b.problem("Tunnel.Write of a value that is not a response builder call at %s", b.c.P.Pos(x.Pos()))
			return false
		}
		bf := bc.Call.StaticCallee()
		var bi *BuilderInfo
		if bf != nil {
			bi = b.m.Builders[bf.Name()]
		}
		if bi == nil || bi.Fn != bf {
			b.problem("Tunnel.Write of %s, which is not a recognised response builder, at %s", calleeName(bc), b.c.P.Pos(x.Pos()))
			return false
		}
		st, ok := b.evalConst(s, bc.Call.Args[bi.StatusIdx])
		if !ok || st.Kind() != constant.Int {
			b.problem("non-constant status passed to %s at %s", bf.Name(), b.c.P.Pos(bc.Pos()))
			return false
		}
		sv, exact := constant.Int64Val(st)
		if !exact {
			u, _ := constant.Uint64Val(st)
			sv = int64(u)
		}
		e.Name, e.Status, e.PktType, e.Args = bf.Name(), sv, bi.PktType, bc.Call.Args
		s.path.Effects = append(s.path.Effects, e)
		return true
	case strings.HasPrefix(name, "net.Dial") || strings.HasPrefix(name, "(*net.Dialer).Dial"):
		s.path.Effects = append(s.path.Effects, &Effect{Kind: "DIAL", Name: name, Args: b.resAll(s, x.Call.Args), Instr: x, Val: x})
		return true
	}
	if _, isBuiltin := x.Call.Value.(*ssa.Builtin); isBuiltin {
		return true // len, cap, append, copy, ...: no protocol effect
	}
	// call through a Gateway callback field
	if x.Call.StaticCallee() == nil && !x.Call.IsInvoke() {
		if cb, ok := b.cbFieldOf(x.Call.Value); ok {
			e := &Effect{Kind: "CHECK", Name: cb, Args: b.resAll(s, x.Call.Args), Instr: x, Val: x}
			s.path.Effects = append(s.path.Effects, e)
			if r0 := resultOf(x, 0); r0 != nil {
				s.checkRes[r0] = e
			}
			return true
		}
		b.problem("dynamic call that is not a Gateway callback at %s", b.c.P.Pos(x.Pos()))
		return false
	}
	// anything that receives the backend connection relays (or could)
	for _, a := range x.Call.Args {
		if isFieldLoad(strip(a), b.rwcF) {
			s.path.Effects = append(s.path.Effects, &Effect{Kind: "RELAY", Name: name, Args: x.Call.Args, Instr: x})
			return true
		}
	}
	if x.Call.IsInvoke() && isFieldLoad(strip(x.Call.Value), b.rwcF) {
		s.path.Effects = append(s.path.Effects, &Effect{Kind: "RELAY", Name: name, Instr: x})
		return true
	}
	for _, p := range benignCallPrefixes {
		if strings.HasPrefix(name, p) {
			return true
		}
	}
	if x.Call.IsInvoke() {
		// interface method calls on identity etc.: no protocol effect
		return true
	}
	if bi, ok := x.Call.Value.(*ssa.Builtin); ok {
		_ = bi
		return true
	}
	callee := x.Call.StaticCallee()
	if callee == nil {
		b.problem("unresolved call at %s", b.c.P.Pos(x.Pos()))
		return false
	}
	if bi := b.m.Builders[callee.Name()]; bi != nil && bi.Fn == callee {
		return true // building a response has no effect until it is written
	}
	if !IsFirstParty(callee) {
		s.path.Effects = append(s.path.Effects, &Effect{Kind: "CALL", Name: name, Instr: x})
		return true
	}
	// first-party helper: if it cannot touch the protocol state or the network, note it; otherwise inline
	if !b.interesting(callee, map[*ssa.Function]bool{}) {
		s.path.Effects = append(s.path.Effects, &Effect{Kind: "CALL", Name: callee.Name(), Args: x.Call.Args, Instr: x, Val: x})
		// a pure predicate or mapping of values the model knows (state.hasChannel(), phaseName(state)):
		// its result is the constant it computes for them
		if callee.Signature.Results().Len() == 1 && callee.Blocks != nil {
			args := x.Call.Args
			known := true
			vals := make([]constant.Value, len(args))
			for i, a := range args {
				cv, ok := b.evalConst(s, a)
				if !ok {
					known = false
					break
				}
				vals[i] = cv
			}
			if known && len(args) == len(callee.Params) {
				rs, done := evalPaths(callee, evalCfg{limit: 64, seed: func(v ssa.Value) (constant.Value, bool) {
					if p, isP := v.(*ssa.Parameter); isP {
						for i, q := range callee.Params {
							if q == p {
								return vals[i], true
							}
						}
					}
					return nil, false
				}})
				if done && len(rs) > 0 {
					var val constant.Value
					same := true
					for _, r := range rs {
						if len(r.Unknown) > 0 || len(r.Ret.Results) != 1 {
							same = false
							break
						}
						cv, ok := r.Env.get(r.Ret.Results[0])
						if !ok || (val != nil && !constant.Compare(val, token.EQL, cv)) {
							same = false
							break
						}
						val = cv
					}
					if same && val != nil {
						s.env[x] = val
					}
				}
			}
		}
		return true
	}
	b.pendingInline = callee
	return false
}

// interesting: the function (transitively, first-party) reads/writes Processor.state,
// writes responses, dials, spawns or touches the backend connection.
func (b *modelBuilder) interesting(f *ssa.Function, seen map[*ssa.Function]bool) bool {
	if seen[f] || f.Blocks == nil {
		return false
	}
	seen[f] = true
	res := false
	eachInstr(f, func(in ssa.Instruction) {
		if res {
			return
		}
		switch x := in.(type) {
		case *ssa.FieldAddr:
			if _, fv, ok := fieldOfAddr(x); ok && (fv == b.stateF || fv == b.rwcF) {
				res = true
			}
		case *ssa.Go:
			res = true
		case ssa.CallInstruction:
			if x.Common().StaticCallee() == nil && !x.Common().IsInvoke() {
				if _, isCb := b.cbFieldOf(x.Common().Value); isCb {
					res = true // a policy callback of the Gateway is consulted in this helper
					return
				}
			}
			n := calleeName(x)
			if isDialName(n) || strings.Contains(n, "protocol.Tunnel).Write") || strings.Contains(n, "transport.") {
				res = true
				return
			}
			if cal := x.Common().StaticCallee(); cal != nil && IsFirstParty(cal) {
				if b.interesting(cal, seen) {
					res = true
				}
			}
		}
	})
	return res
}

// packetTypeOf: v is (the result of a first-party helper that returns) createPacket(T, ...);
// T is resolved through the helpers' parameters at the call sites on the way (bind).
// isPkt: a createPacket call was found; ok: its type is a constant on every return.
func packetTypeOf(v ssa.Value, bind map[*ssa.Parameter]ssa.Value, depth int) (t int64, isPkt, ok bool) {
	call, isCall := strip(v).(*ssa.Call)
	if !isCall || depth > 2 {
		return 0, false, false
	}
	resolve := func(x ssa.Value) ssa.Value {
		for i := 0; i < 3; i++ {
			p, isP := strip(x).(*ssa.Parameter)
			if !isP || bind == nil {
				break
			}
			y, has := bind[p]
			if !has {
				break
			}
			x = y
		}
		return x
	}
	if calleeName(call) == modPath+"/cmd/rdpgw/protocol.createPacket" {
		k, isC := constInt(resolve(arg(call, 0)))
		return k, true, isC
	}
	// header-first: newPacket(T, n) extended by appends
	if _, root, okc := appendChainFrom(call); okc && root != nil {
		if ti, _, isH := headerHelper(root.Call.StaticCallee()); isH && ti < len(root.Call.Args) {
			k, isC := constInt(resolve(root.Call.Args[ti]))
			return k, true, isC
		}
	}
	callee := call.Call.StaticCallee()
	if callee == nil || !IsFirstParty(callee) || callee.Blocks == nil {
		return 0, false, false
	}
	nb := map[*ssa.Parameter]ssa.Value{}
	for k, v := range bind {
		nb[k] = v
	}
	for i, p := range callee.Params {
		if i < len(call.Call.Args) {
			nb[p] = resolve(call.Call.Args[i])
		}
	}
	first := true
	for _, r := range returnsOf(callee) {
		if len(r.Results) != 1 {
			return 0, false, false
		}
		rt, rp, rok := packetTypeOf(r.Results[0], nb, depth+1)
		if !rp {
			return 0, false, false
		}
		if !rok {
			return 0, true, false
		}
		if first {
			t, first = rt, false
		} else if rt != t {
			return 0, true, false
		}
	}
	return t, !first, !first
}
