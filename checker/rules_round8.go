package main

// Rules added after the eighth round of seeded changes (library calls replaced by near-equivalents,
// values from the wrong-but-plausible source, unit and width slips, ordering, state left behind on
// error paths, new fast paths).

import (
	"fmt"
	"go/token"
	"go/types"
	"reflect"
	"strings"

	"golang.org/x/tools/go/ssa"
)

// configTags: a configuration field is filled from the file, the environment and the defaults table
// under the lower-cased name of the field (every field of package config follows that spelling, and
// the defaults table, the RDPGW_ environment variables and the documented keys rely on it). A tag
// that differs makes koanf ignore the configured value silently: the field keeps its zero value.
func configTags(c *Ctx, rule string, fields map[string][]string) {
	n := 0
	structs := make([]string, 0, len(fields))
	for s := range fields {
		structs = append(structs, s)
	}
	sortStrings(structs)
	for _, sn := range structs {
		st, ok := c.NamedType("cmd/rdpgw/config", sn).Underlying().(*types.Struct)
		if !ok {
			c.Undecided(rule, "config."+sn, token.NoPos, "config.%s is not a struct", sn)
			continue
		}
		for _, want := range fields[sn] {
			found := false
			for i := 0; i < st.NumFields(); i++ {
				f := st.Field(i)
				if f.Name() != want && want != "*" {
					continue
				}
				found = true
				n++
				tag := reflect.StructTag(st.Tag(i)).Get("koanf")
				key := fmt.Sprintf("config.%s.%s koanf tag", sn, f.Name())
				c.Check(tag == strings.ToLower(f.Name()), rule, key, f.Pos(), "read from the key "+tag, fmt.Sprintf("the field is read from the key %q, not from %q as the defaults table, the environment variables and the documentation spell it: a configured value is silently ignored", tag, strings.ToLower(f.Name())))
			}
			if !found {
				c.Undecided(rule, fmt.Sprintf("config.%s.%s koanf tag", sn, want), token.NoPos, "config.%s has no field %s", sn, want)
			}
		}
	}
	_ = n
}

func sortStrings(xs []string) {
	for i := 1; i < len(xs); i++ {
		for j := i; j > 0 && xs[j] < xs[j-1]; j-- {
			xs[j], xs[j-1] = xs[j-1], xs[j]
		}
	}
}

// c05ChallengeHeaders: the 401 answer carries one WWW-Authenticate value per registered scheme: the
// values are added to the header, not set (Set keeps only the last one).
func c05ChallengeHeaders(c *Ctx) {
	rule := "C05/challenge-headers"
	fn := c.Fn("cmd/rdpgw/web", "AuthMux.SetAuthenticate")
	n := 0
	for _, sf := range scopeFuncs(fn, 1) {
		for _, ci := range callsIn(sf) {
			name := calleeName(ci)
			if name != "(net/http.Header).Add" && name != "(net/http.Header).Set" {
				continue
			}
			k, isC := constString(arg(ci, 0))
			if !isC || !strings.EqualFold(k, "WWW-Authenticate") {
				continue
			}
			n++
			c.Check(name == "(net/http.Header).Add", rule, "SetAuthenticate WWW-Authenticate", ci.Pos(), "each registered challenge is added to the header", "the challenges are written with Header.Set: each one replaces the previous, only the scheme registered last is offered")
		}
	}
	if n == 0 {
		c.Undecided(rule, "SetAuthenticate WWW-Authenticate", fn.Pos(), "no write of the WWW-Authenticate header found in SetAuthenticate")
	}
}

// transportCloseCloses: Close of either transport closes the connection on every path (a flush or a
// farewell frame that fails must not leave the socket open).
func transportCloseCloses(c *Ctx, rule string) {
	for _, tn := range []string{"LegacyPKT", "WSPKT"} {
		fn := c.Fn("cmd/rdpgw/transport", tn+".Close")
		isClose := func(in ssa.Instruction) bool {
			ci, ok := in.(ssa.CallInstruction)
			if !ok {
				return false
			}
			cm := ci.Common()
			m := ""
			if cm.IsInvoke() {
				m = cm.Method.Name()
			} else if cal := cm.StaticCallee(); cal != nil {
				m = cal.Name()
			}
			if m != "Close" {
				return false
			}
			var recv ssa.Value
			if cm.IsInvoke() {
				recv = cm.Value
			} else if len(cm.Args) > 0 {
				recv = cm.Args[0]
			}
			_, f, ok := fieldLoad(strip(recv))
			return ok && f.Name() == "Conn"
		}
		ok := true
		for _, r := range returnsOf(fn) {
			if reachWithoutMarkerAvoiding(fn, r, isClose, nil) {
				ok = false
			}
		}
		c.Check(ok, rule, tn+".Close closes", fn.Pos(), "every path closes the connection", tn+".Close can return without closing the connection (an earlier step that fails ends it): the socket of a finished tunnel stays open")
	}
}

// settingsWriters: the settings config.Load's refusals test are written by nothing but the
// configuration loader: code that rewrites them after Load (normalising case, trimming) makes the
// gateway run in a combination Load never saw.
func settingsWriters(c *Ctx, rule string) {
	checked := map[string]bool{"Server.Authentication": true, "Server.Tls": true, "Server.HostSelection": true, "Caps.TokenAuth": true, "Kerberos.Keytab": true, "Security.QueryTokenSigningKey": true, "Server.Hosts": true}
	n := 0
	load := c.Fn("cmd/rdpgw/config", "Load")
	inLoad := map[*ssa.Function]bool{}
	for _, sf := range scopeFuncs(load, 2) {
		inLoad[sf] = true
	}
	for _, f := range c.allFirstPartyFuncs() {
		if f.Blocks == nil || inLoad[f] {
			continue
		}
		eachInstr(f, func(in ssa.Instruction) {
			var addr ssa.Value
			switch x := in.(type) {
			case *ssa.Store:
				addr = x.Addr
			default:
				return
			}
			// a store into the setting itself, or into an element of it (a slice setting rewritten in place)
			if ia, ok := addr.(*ssa.IndexAddr); ok {
				if la, ok := loadAddr(strip(ia.X)); ok {
					addr = la
				}
			}
			p, ok := settingPath(c, addr)
			if !ok || !checked[p] {
				return
			}
			n++
			c.Bad(rule, "write "+p+" in "+shortFn(f), in.Pos(), "%s is rewritten outside config.Load: the refusals of Load were decided on the value before this write", p)
		})
	}
	c.OK(rule, "settings writers", load.Pos(), "%d writes of the checked settings outside config.Load", n)
}

// settingPath: addr is the address of <a Configuration value>.A.B reached from config.Conf or from
// a local copy of what Load returned.
func settingPath(c *Ctx, addr ssa.Value) (string, bool) {
	var path []string
	a := addr
	for {
		fa, ok := a.(*ssa.FieldAddr)
		if !ok {
			break
		}
		_, f, _ := fieldOfAddr(fa)
		path = append([]string{f.Name()}, path...)
		a = fa.X
	}
	if len(path) != 2 {
		return "", false
	}
	// the root must be a config.Configuration
	t := a.Type()
	if p, ok := t.Underlying().(*types.Pointer); ok {
		t = p.Elem()
	}
	if nt, ok := t.(*types.Named); !ok || nt.Obj().Name() != "Configuration" || nt.Obj().Pkg() == nil || !strings.HasSuffix(nt.Obj().Pkg().Path(), "/cmd/rdpgw/config") {
		return "", false
	}
	return strings.Join(path, "."), true
}

// gobTargetFresh: User.Unmarshal decodes into a zero value of its own. gob does not transmit zero
// fields, so a decode into an object that already holds another identity (pooled, package-level,
// reused) keeps that identity's fields wherever the encoded one had zeros.
func gobTargetFresh(c *Ctx, rule string) {
	fn := c.Fn("cmd/rdpgw/identity", "User.Unmarshal")
	n := 0
	for _, sf := range scopeFuncs(fn, 1) {
		for _, ci := range callsIn(sf) {
			if calleeName(ci) != "(*encoding/gob.Decoder).Decode" {
				continue
			}
			n++
			tgt := strip(arg(ci, 0))
			al, isAl := tgt.(*ssa.Alloc)
			fresh := isAl && !inCycle(al.Block())
			if fresh {
				// nothing is stored into it before the decode
				for _, r := range *al.Referrers() {
					if st, ok := r.(*ssa.Store); ok && st.Addr == ssa.Value(al) && dominatesInstr(st, ci.(ssa.Instruction)) {
						if k, isC := strip(st.Val).(*ssa.Const); !isC || !isZeroConst(k) {
							fresh = false
						}
					}
				}
			}
			c.Check(fresh, rule, "User.Unmarshal decode target", ci.Pos(), "decodes into a zero value local to the call", "the session identity is decoded into an object that is not a fresh zero value (pooled or reused): fields the encoder omitted as zero keep the previous identity's values — an anonymous session can come back authenticated")
		}
	}
	if n == 0 {
		c.Undecided(rule, "User.Unmarshal decode target", fn.Pos(), "no gob Decode call found in User.Unmarshal")
	}
}

// stringClaim: the user name taken from the verified ID token is a claim that is a string: the
// candidates are read with a checked string assertion, and only a successful assertion is returned.
func stringClaim(c *Ctx, rule string) {
	fn := c.Fn("cmd/rdpgw/web", "findUsernameInClaims")
	n := 0
	for i, r := range returnsOf(fn) {
		v := strip(unspill(r.Results[0]))
		if k, isC := v.(*ssa.Const); isC {
			if s, ok := constString(k); ok && s == "" {
				continue
			}
		}
		n++
		// the value (each phi edge of it) is the first result of a checked string assertion, and the
		// return lies behind that assertion's ok
		var leaves []ssa.Value
		var walk func(x ssa.Value, d int)
		walk = func(x ssa.Value, d int) {
			if phi, isPhi := x.(*ssa.Phi); isPhi && d < 3 {
				for _, e := range phi.Edges {
					walk(strip(e), d+1)
				}
				return
			}
			leaves = append(leaves, x)
		}
		walk(v, 0)
		ok := len(leaves) > 0
		for _, lf := range leaves {
			ex, isEx := lf.(*ssa.Extract)
			if !isEx || ex.Index != 0 {
				ok = false
				continue
			}
			ta, isTA := ex.Tuple.(*ssa.TypeAssert)
			if !isTA || !ta.CommaOk {
				ok = false
				continue
			}
			if bt, isB := ta.AssertedType.Underlying().(*types.Basic); !isB || bt.Kind() != types.String {
				ok = false
				continue
			}
			var okVal ssa.Value
			for _, u := range *ta.Referrers() {
				if e2, isE := u.(*ssa.Extract); isE && e2.Index == 1 {
					okVal = e2
				}
			}
			if okVal == nil {
				ok = false
				continue
			}
			if pass, _ := mustPass(fn, r, GTrue(func(x ssa.Value) bool { return x == okVal })); !pass && len(leaves) == 1 {
				ok = false
			}
		}
		c.Check(ok, rule, fmt.Sprintf("findUsernameInClaims return#%d", i), r.Pos(), "returns a claim only when it is a string (checked assertion)", "the user name returned is not the result of a checked string assertion on the claim: a claim of another JSON type (null, a number, an object) becomes a user name")
	}
	if n == 0 {
		c.Undecided(rule, "findUsernameInClaims returns", fn.Pos(), "no non-empty return found")
	}
}

// sameUserForTokens: the download handler mints the gateway token and the user token for the same
// user value (the one it also writes into the file).
func sameUserForTokens(c *Ctx, rule string) {
	fn := c.Fn("cmd/rdpgw/web", "Handler.HandleDownload")
	var paaUser, usrUser ssa.Value
	var at token.Pos
	for _, sf := range scopeFuncs(fn, 1) {
		for _, ci := range callsIn(sf) {
			cm := ci.Common()
			if cm.IsInvoke() || cm.StaticCallee() != nil {
				continue
			}
			_, f, ok := fieldLoad(strip(cm.Value))
			if !ok {
				continue
			}
			switch f.Name() {
			case "paaTokenGenerator":
				if len(cm.Args) >= 2 {
					paaUser = localVal(strip(cm.Args[1]))
				}
			case "userTokenGenerator":
				if len(cm.Args) >= 2 {
					usrUser = localVal(strip(cm.Args[1]))
					at = ci.Pos()
				}
			}
		}
	}
	if paaUser == nil || usrUser == nil {
		c.Undecided(rule, "HandleDownload token users", fn.Pos(), "the calls of paaTokenGenerator and userTokenGenerator were not both found")
		return
	}
	c.Check(paaUser == usrUser, rule, "HandleDownload token users", at, "the gateway token and the user token are minted for the same user value", "the user token is minted for a different value than the gateway token of the same file: the token-info endpoint reports a subject the file was not issued for")
}

// framerAcceptsThroughHeader: whatever readMessage hands the packet loop as a complete packet went
// through readHeader's length tests: the type, size and payload of an accepting return are results
// of a readHeader call (a fast path that builds them from the raw read skips the test that the read
// holds the whole declared packet).
func framerAcceptsThroughHeader(c *Ctx, rule string) {
	fn := c.Fn("cmd/rdpgw/protocol", "readMessage")
	n := 0
	for i, r := range returnsOf(fn) {
		if len(r.Results) != 4 || !isNil(unspill(r.Results[3])) {
			continue
		}
		n++
		var bad []string
		for j := 0; j < 3; j++ {
			os := c.originsDeep(unspill(r.Results[j]), 0, protoPkg+".readHeader")
			if len(os) == 0 {
				bad = append(bad, fmt.Sprintf("result %d has no origin", j))
			}
			for _, o := range os {
				if o.Kind == "call" && o.Call != nil && calleeName(o.Call) == protoPkg+".readHeader" {
					continue
				}
				bad = append(bad, fmt.Sprintf("result %d comes from %s", j, o.String()))
			}
		}
		c.Check(len(bad) == 0, rule, fmt.Sprintf("readMessage accept#%d", i), r.Pos(), "type, size and payload of a complete packet are readHeader's results", "readMessage returns a packet as complete that did not pass readHeader ("+strings.Join(dedupe(bad), "; ")+"): the length tests are skipped on this path, a body that arrives in the next read is taken for the next packet's header")
	}
	if n == 0 {
		c.Undecided(rule, "readMessage accepts", fn.Pos(), "no accepting return found in readMessage")
	}
}
