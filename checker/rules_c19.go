package main

import (
	"fmt"
	"go/token"
	"go/types"
	"reflect"
	"strconv"
	"strings"

	"golang.org/x/tools/go/ssa"
)

const (
	rdpPkgPath    = modPath + "/cmd/rdpgw/rdp"
	rdpParserPath = modPath + "/cmd/rdpgw/rdp/koanf/parsers/rdp"
	structsPkg    = "github.com/fatih/structs"
)

func init() {
	register(&Property{
		ID:          "C19",
		Title:       "Generated connection files are well-formed and round-trip through the parser",
		DesignRef:   "DESIGN.md §3 C19",
		Technique:   "static evaluation of RdpSettings' struct tags (finite table) + exhaustiveness of the kind switches + path enumeration of the line writer's loop body (token sequence per kind) + sibling agreement of Marshal/Unmarshal type letters and error discipline of the parser + dominance of the forced settings",
		LevelText:   "Static: the settings table both sides are generated from is checked — every field has a distinct, colon- and newline-free rdp name, a default that parses for its kind, and one of the three handled kinds; each kind switch handles exactly those kinds and both default readers accept the same bool literals; every path through the line writer's loop body that writes anything writes name, ':', the type letter of the field's kind, the value, CRLF in that order; 'is default' is decided by an equality with the parsed default (IsZero only without a default tag); the parser splits each line into exactly three fields at the first two ':' and every malformed line (field count, unknown letter, bad integer) ends the parse with an error instead of continuing; Marshal's letters are accepted by Unmarshal with the inverse conversion; the gateway-controlled settings are stored after the template is loaded and before the file is rendered, on every path, and user name and domain are written only when NoUsername is off (suppressed means the template's values stay). Decides the finite tables and the shape of each line; not parse(marshal(m)) == m for all values.",
		LevelNote:   "Trusted: fatih/structs (field iteration, tags, kinds), mapstructure/koanf template decoding, bufio.Scanner. Not decided: round-trip equality for all values (trimming, Scanner line limits), which template settings survive decoding.",
		Explanation: "C19/tags evaluates the struct tags of rdp.RdpSettings from go/types. C19/kinds collects the reflect.Kind constants each switch compares with. C19/line-shape enumerates the acyclic paths of one loop iteration of addStructToString as token sequences. C19/default-compare cuts equality edges in isZero. C19/parser checks SplitN's arguments, the three-field test and that every malformed-line edge cannot reach the loop head again. C19/letters compares Marshal's format strings with Unmarshal's accepted letters. C19/forced checks the stores in HandleDownload.",
		Assumptions: []string{"values free of CR/LF (as in the property's quantifier)"},
		Rules: []RuleDef{
			{"C19/tags", "every setting: distinct non-empty rdp name without ':' CR LF, default parses for its kind, kind is string/int/bool", c19Tags},
			{"C19/kinds", "kind switches of addStructToString, isZero, setVariable handle exactly string/int/bool; same bool literals", c19Kinds},
			{"C19/line-shape", "each emitted line: name ':' letter-of-kind value CRLF, on every path of the loop body", c19LineShape},
			{"C19/default-compare", "isZero: IsZero() only without a default tag (or unknown kind); true/false only over the comparison with the parsed default", c19DefaultCompare},
			{"C19/parser", "Unmarshal: SplitN(line, \":\", 3) with exactly three fields; malformed lines end the parse with an error", c19Parser},
			{"C19/letters", "Marshal's type letters and formats are the ones Unmarshal accepts and inverts", c19Letters},
			{"C19/fresh-builder", "each download renders a builder of its own: NewBuilder / NewBuilderFromFile return a freshly allocated Builder and package rdp keeps no builders", c19FreshBuilder},
			{"C19/forced", "gateway-controlled settings stored after the template load and before rendering, on every path", c19Forced},
		},
	})
}

func c19Tags(c *Ctx) {
	rule := "C19/tags"
	st := c.NamedType("cmd/rdpgw/rdp", "RdpSettings").Underlying().(*types.Struct)
	seen := map[string]string{}
	for i := 0; i < st.NumFields(); i++ {
		f := st.Field(i)
		tag := reflect.StructTag(st.Tag(i))
		name := tag.Get("rdp")
		def, hasDef := tag.Lookup("default")
		key := "RdpSettings." + f.Name()
		var bad []string
		if name == "" {
			bad = append(bad, "no rdp name")
		}
		if strings.ContainsAny(name, ":\r\n") {
			bad = append(bad, "rdp name contains ':' or a line break")
		}
		if other, dup := seen[name]; dup && name != "" {
			bad = append(bad, fmt.Sprintf("rdp name %q also used by %s: two lines for one setting", name, other))
		}
		seen[name] = f.Name()
		bt, isBasic := f.Type().Underlying().(*types.Basic)
		switch {
		case !isBasic:
			bad = append(bad, "field kind is not string/int/bool")
		case bt.Kind() == types.String:
			if strings.ContainsAny(def, "\r\n") {
				bad = append(bad, "default contains a line break")
			}
		case bt.Kind() == types.Int:
			if hasDef && def != "" {
				if _, err := strconv.Atoi(def); err != nil {
					bad = append(bad, fmt.Sprintf("default %q is not an integer (log.Fatal at run time)", def))
				}
			}
		case bt.Kind() == types.Bool:
			if hasDef {
				switch def {
				case "true", "1", "false", "0", "":
				default:
					bad = append(bad, fmt.Sprintf("bool default %q is not one of true/1/false/0", def))
				}
			}
		default:
			bad = append(bad, fmt.Sprintf("field kind %s is not handled by the builder", bt))
		}
		if len(bad) > 0 {
			c.Bad(rule, key, f.Pos(), "%s", strings.Join(bad, "; "))
		} else {
			c.OK(rule, key, f.Pos(), "rdp:%q default:%q kind %s", name, def, bt)
		}
	}
	c.Floor(rule, 60, "about 62 settings")
}

func kindConsts(root *ssa.Function) map[int64]bool {
	out := map[int64]bool{}
	for _, fn := range scopeFuncs(root, 1) {
		kindConstsIn(fn, out)
	}
	return out
}

func kindConstsIn(fn *ssa.Function, out map[int64]bool) {
	eachInstr(fn, func(in ssa.Instruction) {
		bo, ok := in.(*ssa.BinOp)
		if !ok {
			return
		}
		for _, pair := range [][2]ssa.Value{{bo.X, bo.Y}, {bo.Y, bo.X}} {
			if call, ok := pair[0].(*ssa.Call); ok && calleeName(call) == "(*"+structsPkg+".Field).Kind" {
				if k, ok := constInt(pair[1]); ok {
					out[k] = true
				}
			}
		}
	})
}

func c19Kinds(c *Ctx) {
	rule := "C19/kinds"
	want := map[int64]string{int64(reflect.String): "string", int64(reflect.Int): "int", int64(reflect.Bool): "bool"}
	for _, name := range []string{"addStructToString", "isZero", "setVariable"} {
		fn := c.Fn("cmd/rdpgw/rdp", name)
		got := kindConsts(fn)
		good := len(got) == len(want)
		for k := range want {
			if !got[k] {
				good = false
			}
		}
		var names []string
		for k := range got {
			names = append(names, reflect.Kind(k).String())
		}
		c.Check(good, rule, name+" kinds", fn.Pos(), "handles exactly string, int, bool", fmt.Sprintf("handles kinds %v; the settings table uses exactly string, int, bool", names))
	}
	// bool default literals
	lits := func(fn *ssa.Function) string {
		set := map[string]bool{}
		var scan func(f *ssa.Function, depth int)
		scan = func(f *ssa.Function, depth int) {
			eachInstr(f, func(in ssa.Instruction) {
				if bo, ok := in.(*ssa.BinOp); ok {
					for _, v := range []ssa.Value{bo.X, bo.Y} {
						if s, ok := constString(v); ok && s != "" {
							set[s] = true
						}
					}
				}
				if ci, ok := in.(ssa.CallInstruction); ok && depth < 1 {
					if cal := ci.Common().StaticCallee(); cal != nil && IsFirstParty(cal) && cal.Blocks != nil && cal.Pkg == fn.Pkg {
						scan(cal, depth+1) // e.g. a shared parseBool helper
					}
				}
			})
		}
		scan(fn, 0)
		return strings.Join(sortedKeys(set), ",")
	}
	a, b := lits(c.Fn("cmd/rdpgw/rdp", "isZero")), lits(c.Fn("cmd/rdpgw/rdp", "setVariable"))
	c.Check(a == b && a != "", rule, "bool default literals", c.Fn("cmd/rdpgw/rdp", "isZero").Pos(), "isZero and setVariable read bool defaults with the same literals {"+a+"}", "isZero reads bool defaults as {"+a+"}, setVariable as {"+b+"}: a default is initialised to one value and compared as another")
}

func c19LineShape(c *Ctx) {
	rule := "C19/line-shape"
	fn := c.Fn("cmd/rdpgw/rdp", "addStructToString")
	// loop head: block with the rangeindex phi; body start: its true successor
	// the loop over the fields: the loop head from whose body the kind switch is reached (another loop
	// may precede it, e.g. one that indexes metadata.Unset)
	var head *ssa.BasicBlock
	reachesKind := func(h *ssa.BasicBlock) bool {
		if len(h.Succs) != 2 {
			return false
		}
		seen := map[*ssa.BasicBlock]bool{h: true}
		work := []*ssa.BasicBlock{h.Succs[0]}
		for len(work) > 0 {
			b := work[len(work)-1]
			work = work[:len(work)-1]
			if seen[b] {
				continue
			}
			seen[b] = true
			for _, in := range b.Instrs {
				if call, ok := in.(*ssa.Call); ok {
					if calleeName(call) == "(*"+structsPkg+".Field).Kind" {
						return true
					}
					// the kind switch may sit in a helper that renders one field
					if cal := call.Call.StaticCallee(); cal != nil && IsFirstParty(cal) && cal.Blocks != nil {
						for _, ci := range callsIn(cal) {
							if calleeName(ci) == "(*"+structsPkg+".Field).Kind" {
								return true
							}
						}
					}
				}
			}
			work = append(work, b.Succs...)
		}
		return false
	}
	for _, b := range fn.Blocks {
		if len(b.Instrs) > 0 {
			if _, ok := b.Instrs[0].(*ssa.Phi); ok && inCycle(b) && head == nil && reachesKind(b) {
				head = b
			}
		}
	}
	if head == nil || len(head.Succs) != 2 {
		c.Undecided(rule, "addStructToString loop", fn.Pos(), "field loop not found")
		return
	}
	body := head.Succs[0]
	type tok struct{ kind, val string }
	kindOfEdge := func(ifi *ssa.If, i int, kind int64) int64 {
		if ifi != nil {
			if bo, ok := ifi.Cond.(*ssa.BinOp); ok {
				if call, ok := bo.X.(*ssa.Call); ok && calleeName(call) == "(*"+structsPkg+".Field).Kind" {
					if kv, ok := constInt(bo.Y); ok && i == 0 {
						return kv
					}
				}
			}
		}
		return kind
	}
	// flatten: a string value as a token sequence (concatenations unfolded)
	var flatten func(v ssa.Value, depth int) []tok
	flatten = func(v ssa.Value, depth int) []tok {
		if s, ok := constString(v); ok {
			return []tok{{"lit", s}}
		}
		switch x := strip(v).(type) {
		case *ssa.BinOp:
			if x.Op == token.ADD && depth < 8 {
				return append(flatten(x.X, depth+1), flatten(x.Y, depth+1)...)
			}
		case *ssa.Call:
			switch calleeName(x) {
			case "(*" + structsPkg + ".Field).Tag":
				n, _ := constString(arg(x, 0))
				return []tok{{"tag", n}}
			case "fmt.Sprintf":
				f, _ := constString(arg(x, 0))
				return []tok{{"fmt", f}}
			case "strconv.FormatInt":
				// decimal text of the field's own int value, taken through reflect or a conversion
				if base, isC := constInt(arg(x, 1)); !isC || base != 10 {
					break
				}
				raw := strip(arg(x, 0))
				if cv, ok := raw.(*ssa.Convert); ok {
					raw = strip(cv.X)
				}
				if ic, ok := raw.(*ssa.Call); ok && calleeName(ic) == "(reflect.Value).Int" {
					if vo, ok := strip(recvOf(ic)).(*ssa.Call); ok && calleeName(vo) == "reflect.ValueOf" {
						if fv, ok := strip(arg(vo, 0)).(*ssa.Call); ok && calleeName(fv) == "(*"+structsPkg+".Field).Value" {
							return []tok{{"fmt", "%d"}}
						}
					}
				}
				if ex, ok := raw.(*ssa.Extract); ok && ex.Index == 0 {
					raw = ex.Tuple
				}
				if ta, ok := raw.(*ssa.TypeAssert); ok {
					if call, ok := strip(ta.X).(*ssa.Call); ok && calleeName(call) == "(*"+structsPkg+".Field).Value" {
						return []tok{{"fmt", "%d"}}
					}
				}
			case "strconv.Itoa":
				// decimal text of the field's own int value: what "%d" prints
				raw := strip(arg(x, 0))
				if ex, ok := raw.(*ssa.Extract); ok && ex.Index == 0 {
					raw = ex.Tuple
				}
				if ta, ok := raw.(*ssa.TypeAssert); ok {
					if call, ok := strip(ta.X).(*ssa.Call); ok && calleeName(call) == "(*"+structsPkg+".Field).Value" {
						return []tok{{"fmt", "%d"}}
					}
				}
			}
		}
		// the field's own value: f.Value().(string)
		raw := strip(v)
		if ex, ok := raw.(*ssa.Extract); ok && ex.Index == 0 {
			raw = ex.Tuple
		}
		if ta, ok := raw.(*ssa.TypeAssert); ok {
			if call, ok := strip(ta.X).(*ssa.Call); ok && calleeName(call) == "(*"+structsPkg+".Field).Value" {
				return []tok{{"val", "field"}}
			}
		}
		return []tok{{"val", ""}}
	}
	type alt struct {
		kind int64
		toks []tok
	}
	// helperAlts: the (kind, text) alternatives a first-party helper returning the line text can yield
	helperAlts := func(h *ssa.Function) []alt {
		var out []alt
		var hw func(b *ssa.BasicBlock, kind int64, seen map[*ssa.BasicBlock]bool)
		hw = func(b *ssa.BasicBlock, kind int64, seen map[*ssa.BasicBlock]bool) {
			if seen[b] {
				return
			}
			seen = copySet(seen)
			seen[b] = true
			var ifi *ssa.If
			if n := len(b.Instrs); n > 0 {
				ifi, _ = b.Instrs[n-1].(*ssa.If)
				if r, ok := b.Instrs[n-1].(*ssa.Return); ok && len(r.Results) == 1 {
					out = append(out, alt{kind, flatten(r.Results[0], 0)})
				}
			}
			for i, s := range b.Succs {
				hw(s, kindOfEdge(ifi, i, kind), seen)
			}
		}
		hw(h.Blocks[0], -1, map[*ssa.BasicBlock]bool{})
		return out
	}
	var paths [][]tok
	var kinds []int64
	var walk func(b *ssa.BasicBlock, idx int, toks []tok, kind int64, seen map[*ssa.BasicBlock]bool)
	walk = func(b *ssa.BasicBlock, idx int, toks []tok, kind int64, seen map[*ssa.BasicBlock]bool) {
		if b == head {
			paths = append(paths, toks)
			kinds = append(kinds, kind)
			return
		}
		if idx == 0 {
			if seen[b] {
				return
			}
			seen = copySet(seen)
			seen[b] = true
		}
		for j := idx; j < len(b.Instrs); j++ {
			call, ok := b.Instrs[j].(*ssa.Call)
			if !ok {
				continue
			}
			switch calleeName(call) {
			case "(*strings.Builder).WriteString":
				v := arg(call, 0)
				if hc, ok := strip(v).(*ssa.Call); ok {
					if h := hc.Call.StaticCallee(); h != nil && IsFirstParty(h) && h.Blocks != nil && h.Pkg == fn.Pkg {
						// the line text comes from a helper: one continuation per alternative
						for _, a := range helperAlts(h) {
							k := kind
							if a.kind != -1 {
								k = a.kind
							}
							walk(b, j+1, append(append([]tok(nil), toks...), a.toks...), k, seen)
						}
						return
					}
				}
				toks = append(toks, flatten(v, 0)...)
			case "fmt.Fprintf", "fmt.Fprint", "fmt.Fprintln":
				f, _ := constString(arg(call, 1))
				toks = append(toks, tok{"fmt", f})
			case "(*strings.Builder).WriteByte", "(*strings.Builder).WriteRune", "(*strings.Builder).Write":
				toks = append(toks, tok{"other", calleeName(call)})
			}
		}
		var ifi *ssa.If
		if n := len(b.Instrs); n > 0 {
			ifi, _ = b.Instrs[n-1].(*ssa.If)
		}
		for i, s := range b.Succs {
			walk(s, 0, append([]tok(nil), toks...), kindOfEdge(ifi, i, kind), seen)
		}
	}
	walk(body, 0, nil, -1, map[*ssa.BasicBlock]bool{})
	// canonical form: adjacent literals merged
	merge := func(p []tok) []tok {
		var out []tok
		for _, t := range p {
			if t.kind == "lit" && len(out) > 0 && out[len(out)-1].kind == "lit" {
				out[len(out)-1].val += t.val
				continue
			}
			out = append(out, t)
		}
		return out
	}
	nLines := 0
	for i, p := range paths {
		if len(p) == 0 {
			continue // skipped field
		}
		p = merge(p)
		var parts []string
		for _, t := range p {
			parts = append(parts, t.kind+":"+strconv.Quote(t.val))
		}
		desc := strings.Join(parts, " ")
		key := fmt.Sprintf("addStructToString path#%d kind=%d", i, kinds[i])
		if kinds[i] == -1 {
			// no kind matched: infeasible given C19/tags + C19/kinds; must at least not emit a value-less line silently
			c.OKTrivial(rule, key, fn.Pos(), "unknown-kind path (excluded by the settings table): %s", desc)
			continue
		}
		nLines++
		good := len(p) >= 2 && p[0].kind == "tag" && p[0].val == "rdp"
		if good {
			rest := p[1:]
			switch reflect.Kind(kinds[i]) {
			case reflect.String:
				good = len(rest) == 3 && rest[0] == (tok{"lit", ":s:"}) && rest[1] == (tok{"val", "field"}) && rest[2] == (tok{"lit", "\r\n"})
			case reflect.Int:
				good = len(rest) == 3 && rest[0] == (tok{"lit", ":i:"}) && rest[1] == (tok{"fmt", "%d"}) && rest[2] == (tok{"lit", "\r\n"})
			case reflect.Bool:
				good = len(rest) == 1 && (rest[0] == (tok{"lit", ":i:1\r\n"}) || rest[0] == (tok{"lit", ":i:0\r\n"}))
			default:
				good = false
			}
		}
		c.Check(good, rule, key, fn.Pos(), "name ':' letter value CRLF: "+desc, "a line of kind "+reflect.Kind(kinds[i]).String()+" is written as "+desc+" instead of name ':' type-letter value CRLF")
	}
	if nLines < 4 {
		c.Undecided(rule, "addStructToString paths", fn.Pos(), "only %d line-writing paths found (string, int, bool true/false expected)", nLines)
	}
}

func copySet(m map[*ssa.BasicBlock]bool) map[*ssa.BasicBlock]bool {
	n := map[*ssa.BasicBlock]bool{}
	for k, v := range m {
		n[k] = v
	}
	return n
}

func c19DefaultCompare(c *Ctx) {
	rule := "C19/default-compare"
	fn := c.Fn("cmd/rdpgw/rdp", "isZero")
	var tagCall *ssa.Call
	for _, ci := range callsTo(fn, "(*"+structsPkg+".Field).Tag") {
		if s, _ := constString(arg(ci, 0)); s == "default" {
			tagCall = ci.(*ssa.Call)
		}
	}
	if tagCall == nil {
		c.Bad(rule, "isZero default-tag", fn.Pos(), "isZero does not read the default tag")
		return
	}
	isT := isVal(tagCall)
	isEmpty := func(v ssa.Value) bool { s, ok := constString(v); return ok && s == "" }
	isKind := func(v ssa.Value) bool {
		call, ok := v.(*ssa.Call)
		return ok && calleeName(call) == "(*"+structsPkg+".Field).Kind"
	}
	fromValue := func(v ssa.Value) bool {
		for _, o := range origins(v) {
			if o.Kind == "call" && calleeName(o.Call) == "(*"+structsPkg+".Field).Value" {
				return true
			}
		}
		return false
	}
	anyV := func(ssa.Value) bool { return true }
	for i, r := range returnsOf(fn) {
		key := fmt.Sprintf("isZero return#%d", i)
		v := r.Results[0]
		if call, ok := strip(v).(*ssa.Call); ok && calleeName(call) == "(*"+structsPkg+".Field).IsZero" {
			g := GOr(GEq(isT, isEmpty), GNeq(isKind, func(v ssa.Value) bool { k, ok := constInt(v); return ok && k == int64(reflect.String) }))
			ok2, why := mustPass(fn, r, g)
			c.Check(ok2, rule, key+" IsZero", r.Pos(), "Go zero value decides only without a default tag (or for an unknown kind)", "f.IsZero() decides although a default tag exists ("+why+"): a setting explicitly set to the zero value but differing from its default is dropped from the file")
			continue
		}
		b, isC := constBool(v)
		if !isC {
			// return value == default  (the comparison itself is the result)
			if bo, ok := strip(v).(*ssa.BinOp); ok && (bo.Op == token.EQL || bo.Op == token.NEQ) && (fromValue(bo.X) || fromValue(bo.Y)) {
				c.Check(bo.Op == token.EQL, rule, key+" compare", r.Pos(), "'is default' is the equality of the field's value with its parsed default", "'is default' is computed as an inequality with the default")
				continue
			}
			c.Undecided(rule, key, r.Pos(), "non-constant result")
			continue
		}
		if b {
			ok2, why := mustPass(fn, r, GEq(fromValue, anyV))
			c.Check(ok2, rule, key+" true", r.Pos(), "'is default' only over value == parsed default", "'is default' is returned "+why+" of an equality between the field's value and its default")
		} else {
			ok2, why := mustPass(fn, r, GNeq(fromValue, anyV))
			c.Check(ok2, rule, key+" false", r.Pos(), "'differs' only over value != parsed default", "'differs from default' is returned "+why+" of the comparison")
		}
	}
	c.Floor(rule, 4, "returns of isZero (IsZero fallbacks + one comparison per kind)")
}

func c19Parser(c *Ctx) {
	rule := "C19/parser"
	fn := c.Fn("cmd/rdpgw/rdp/koanf/parsers/rdp", "RDP.Unmarshal")
	splits := c.findSteps(fn, "strings.SplitN", "strings.Split", "strings.Fields", "strings.SplitAfterN")
	if len(splits) == 0 {
		// the other spelling of "three fields at the first two separators": two chained strings.Cut
		if c19ParserCut(c, rule, fn) {
			return
		}
	}
	if len(splits) != 1 {
		c.Bad(rule, "Unmarshal split", fn.Pos(), "expected one split of the line, found %d", len(splits))
		return
	}
	sp := splits[0].call
	sep, _ := constString(arg(sp, 1))
	n, okn := constInt(arg(sp, 2))
	c.Check(calleeName(sp) == "strings.SplitN" && sep == ":" && okn && n == 3, rule, "Unmarshal split", sp.Pos(), "SplitN(line, \":\", 3): a value may contain ':'", "the line is not split with SplitN(line, \":\", 3): values containing ':' are truncated or mis-split")
	// the line buffer is not capped below the library default (64 KiB): a shorter cap ends the parse
	// silently at the first long line (Scanner.Err is not consulted)
	for _, ci := range callsTo(fn, "(*bufio.Scanner).Buffer") {
		k, isC := constInt(arg(ci, 1))
		c.Check(isC && k >= 64*1024, rule, "Unmarshal scanner-buffer", ci.Pos(), "line buffer limit >= 64 KiB", "the parser caps its line buffer below the default: a longer line stops the scan without an error and the rest of the file, malformed lines included, is dropped")
	}
	// loop head = block of scanner.Scan()
	var head *ssa.BasicBlock
	for _, ci := range callsTo(fn, "(*bufio.Scanner).Scan") {
		head = ci.Block()
	}
	if head == nil {
		c.Undecided(rule, "Unmarshal loop", fn.Pos(), "scanner loop not found")
		return
	}
	isFieldsLen := func(v ssa.Value) bool {
		call, ok := v.(*ssa.Call)
		if !ok {
			return false
		}
		b, ok := call.Call.Value.(*ssa.Builtin)
		return ok && b.Name() == "len" && call.Call.Args[0] == ssa.Value(sp)
	}
	// every map update needs len(fields) == 3
	nUpd := 0
	eachInstr(fn, func(in ssa.Instruction) {
		mu, ok := in.(*ssa.MapUpdate)
		if !ok {
			return
		}
		nUpd++
		ok2, why := mustPass(fn, mu, GEq(isFieldsLen, func(v ssa.Value) bool { k, ok := constInt(v); return ok && k == 3 }))
		c.Check(ok2, rule, fmt.Sprintf("Unmarshal store#%d three-fields", nUpd), mu.Pos(), "a setting is stored only from a line with exactly three fields", "a setting is stored "+why+" of len(fields) == 3")
	})
	// malformed edges must not reach the loop head again
	badEdges := 0
	check := func(name string, from *ssa.BasicBlock, succ *ssa.BasicBlock) {
		badEdges++
		c.Check(!reachableBlock(fn, succ, head), rule, "Unmarshal malformed "+name, from.Instrs[len(from.Instrs)-1].Pos(), "ends the parse (no path back to the next line)", "after "+name+" the parser continues with the next line: malformed template lines are silently skipped")
	}
	var typeVal ssa.Value
	for _, b := range fn.Blocks {
		if len(b.Instrs) == 0 {
			continue
		}
		ifi, ok := b.Instrs[len(b.Instrs)-1].(*ssa.If)
		if !ok {
			continue
		}
		core, neg := normCond(ifi.Cond)
		if ex, isEx := core.(*ssa.Extract); isEx {
			// the split sits in a helper returning (..., ok): the branch on which the helper reports
			// "not three fields" is the malformed-line edge
			g := GNeq(isFieldsLen, func(v ssa.Value) bool { _, ok := constInt(v); return ok })
			if _, isCall := ex.Tuple.(*ssa.Call); isCall {
				for i, s := range b.Succs {
					if predEstablishes(ifi.Cond, i == 0, g, 0) {
						check("a line without three fields", b, s)
					}
				}
			}
			continue
		}
		bo, ok := core.(*ssa.BinOp)
		if !ok {
			continue
		}
		// len(fields) != 3
		if isFieldsLen(bo.X) || isFieldsLen(bo.Y) {
			g := GNeq(isFieldsLen, func(v ssa.Value) bool { _, ok := constInt(v); return ok })
			for i, s := range b.Succs {
				if g(ifi.Cond, i == 0) {
					check("a line without three fields", b, s)
				}
			}
		}
		// Atoi error
		for _, side := range []ssa.Value{bo.X, bo.Y} {
			if ex, ok := side.(*ssa.Extract); ok && ex.Index == 1 {
				if call, ok := ex.Tuple.(*ssa.Call); ok && calleeName(call) == "strconv.Atoi" {
					g := GNeq(isVal(ex), anyNil)
					for i, s := range b.Succs {
						if g(ifi.Cond, i == 0) {
							check("a bad integer", b, s)
						}
					}
				}
			}
		}
		// type letter chain
		if k, ok := constString(bo.Y); ok && len(k) == 1 && !neg && bo.Op.String() == "==" {
			if typeVal == nil {
				typeVal = bo.X
			}
		}
	}
	// default of the letter switch: the false successor that is not another letter comparison
	letters := map[string]bool{}
	for _, b := range fn.Blocks {
		if len(b.Instrs) == 0 {
			continue
		}
		ifi, ok := b.Instrs[len(b.Instrs)-1].(*ssa.If)
		if !ok {
			continue
		}
		bo, ok := ifi.Cond.(*ssa.BinOp)
		if !ok || typeVal == nil || bo.X != typeVal {
			continue
		}
		k, _ := constString(bo.Y)
		letters[k] = true
		next := b.Succs[1]
		isCmp := false
		if len(next.Instrs) > 0 {
			if nif, ok := next.Instrs[len(next.Instrs)-1].(*ssa.If); ok {
				if nbo, ok := nif.Cond.(*ssa.BinOp); ok && nbo.X == typeVal {
					isCmp = true
				}
			}
		}
		if !isCmp {
			check("an unknown type letter", b, next)
		}
	}
	c.Stat("parser_letters", len(letters))
	if badEdges < 3 {
		c.Undecided(rule, "Unmarshal malformed edges", fn.Pos(), "found %d malformed-line edges (field count, bad integer, unknown letter expected)", badEdges)
	}
	c.Floor(rule, 6, "split, stores, 3 malformed edges")
}

func c19Letters(c *Ctx) {
	rule := "C19/letters"
	un := c.Fn("cmd/rdpgw/rdp/koanf/parsers/rdp", "RDP.Unmarshal")
	ma := c.Fn("cmd/rdpgw/rdp/koanf/parsers/rdp", "RDP.Marshal")
	accepted := map[string]bool{}
	eachInstr(un, func(in ssa.Instruction) {
		if bo, ok := in.(*ssa.BinOp); ok {
			if k, ok := constString(bo.Y); ok && len(k) == 1 && bo.Op.String() == "==" {
				accepted[k] = true
			}
		}
	})
	intViaAtoi := len(callsTo(un, "strconv.Atoi")) > 0
	n := 0
	for _, ci := range callsTo(ma, "fmt.Fprintf") {
		f, ok := constString(arg(ci, 1))
		if !ok {
			continue
		}
		parts := strings.SplitN(f, ":", 3)
		if len(parts) != 3 || parts[0] != "%s" {
			if f == "\r\n" {
				continue
			}
			c.Bad(rule, "Marshal format "+strconv.Quote(f), ci.Pos(), "a line is not formatted as name:letter:value")
			continue
		}
		n++
		letter, val := parts[1], parts[2]
		good := accepted[letter]
		switch letter {
		case "i":
			good = good && intViaAtoi && (val == "%d" || val == "1" || val == "0")
		case "s":
			good = good && val == "%s"
		default:
			good = false
		}
		c.Check(good, rule, "Marshal format "+strconv.Quote(f), ci.Pos(), "letter "+letter+" with value "+val+" is accepted and inverted by Unmarshal", "Marshal writes "+strconv.Quote(f)+" which Unmarshal does not read back to the same value")
	}
	// the same lines written piecewise: b.WriteString(key); b.WriteString(":i:1") / ":i:0" / ":i:" +
	// decimal digits / ":s:" + the string
	if n == 0 {
		hasDecimal := len(callsTo(ma, "strconv.AppendInt", "strconv.Itoa", "strconv.FormatInt")) > 0
		hasRawString := false
		for _, ci := range callsTo(ma, "(*bytes.Buffer).WriteString", "(*strings.Builder).WriteString") {
			if _, isC := constString(arg(ci, 0)); !isC {
				hasRawString = true
			}
		}
		for _, ci := range callsTo(ma, "(*bytes.Buffer).WriteString", "(*strings.Builder).WriteString") {
			f, ok := constString(arg(ci, 0))
			if !ok || len(f) < 3 || f[0] != ':' || f[2] != ':' {
				continue
			}
			n++
			letter, val := f[1:2], f[3:]
			good := accepted[letter]
			switch letter {
			case "i":
				good = good && intViaAtoi && (val == "1" || val == "0" || val == "" && hasDecimal)
			case "s":
				good = good && val == "" && hasRawString
			default:
				good = false
			}
			shown := "%s" + f
			if val == "" && letter == "i" {
				shown += "%d"
			} else if val == "" {
				shown += "%s"
			}
			c.Check(good, rule, "Marshal format "+strconv.Quote(shown), ci.Pos(), "letter "+letter+" with value "+val+" is accepted and inverted by Unmarshal", "Marshal writes "+strconv.Quote(f)+" which Unmarshal does not read back to the same value")
		}
	}
	// line terminator
	crlf := false
	for _, ci := range callsTo(ma, "fmt.Fprint", "fmt.Fprintf") {
		for _, a := range ci.Common().Args {
			if elems, ok := sliceLitElems(a); ok {
				for _, e := range elems {
					if s, ok := constString(e); ok && s == "\r\n" {
						crlf = true
					}
				}
			}
		}
	}
	for _, ci := range callsTo(ma, "(*bytes.Buffer).WriteString", "(*strings.Builder).WriteString") {
		if s, ok := constString(arg(ci, 0)); ok && s == "\r\n" {
			crlf = true
		}
	}
	c.Check(crlf, rule, "Marshal CRLF", ma.Pos(), "lines end with CRLF", "Marshal does not terminate lines with CRLF")
	c.Floor(rule, 5, "4 formats + CRLF")
	_ = n
}

func c19Forced(c *Ctx) {
	rule := "C19/forced"
	fn := c.Fn("cmd/rdpgw/web", "Handler.HandleDownload")
	var str *ssa.Call
	for _, ci := range callsTo(fn, "(*"+rdpPkgPath+".Builder).String") {
		str = ci.(*ssa.Call)
	}
	if str == nil {
		c.Bad(rule, "HandleDownload render", fn.Pos(), "the builder is never rendered")
		return
	}
	d := recvOf(str)
	// d is NewBuilder() or NewBuilderFromFile(): forced settings are stored into that very builder
	for _, o := range c.originsDeep(d, 0, rdpPkgPath+".NewBuilder", rdpPkgPath+".NewBuilderFromFile") {
		if o.Kind != "call" || !(calleeName(o.Call) == rdpPkgPath+".NewBuilder" || calleeName(o.Call) == rdpPkgPath+".NewBuilderFromFile") {
			c.Bad(rule, "HandleDownload builder", str.Pos(), "the rendered builder is %s", o.String())
		}
	}
	// stores into the rendered builder's Settings, by the handler or a helper it hands the builder to
	all := c.nestedFieldStores(fn, "Settings", func(v ssa.Value) bool { return strip(v) == strip(d) || v == d })
	stores := map[string][]*ssa.Store{}
	sites := map[*ssa.Store]ssa.Instruction{}
	vals := map[*ssa.Store]ssa.Value{}
	for name, fss := range all {
		for _, fs := range fss {
			stores[name] = append(stores[name], fs.store)
			sites[fs.store] = fs.at
			vals[fs.store] = fs.val
		}
	}
	srcCookie := c.ConstInt("cmd/rdpgw/rdp", "SourceCookie")
	wantConst := map[string]int64{"GatewayCredentialsSource": srcCookie, "GatewayCredentialMethod": 1, "GatewayUsageMethod": 1}
	for _, name := range []string{"FullAddress", "GatewayHostname", "GatewayCredentialsSource", "GatewayAccessToken", "GatewayCredentialMethod", "GatewayUsageMethod"} {
		ss := stores[name]
		key := "HandleDownload " + name
		if len(ss) == 0 {
			c.Bad(rule, key, fn.Pos(), "the gateway-controlled setting %s is not forced into the file", name)
			continue
		}
		allp := !reachWithoutMarker(fn, str, func(in ssa.Instruction) bool {
			for _, s := range ss {
				if in == sites[s] {
					return true
				}
			}
			return false
		})
		good := allp
		if k, ok := wantConst[name]; ok {
			for _, s := range ss {
				if v, isC := constInt(vals[s]); !isC || v != k {
					good = false
				}
			}
		}
		c.Check(good, rule, key, ss[0].Pos(), "stored into the loaded builder on every path before rendering", "the setting "+name+" is not forced (on every path, with the gateway's value) after the template is loaded")
	}
	// user name unless suppressed
	ss := stores["Username"]
	isNoUser := func(v ssa.Value) bool { _, f, ok := fieldLoad(strip(v)); return ok && f.Name() == "NoUsername" }
	if len(ss) == 0 {
		c.Bad(rule, "HandleDownload Username", fn.Pos(), "the user name is never written")
	} else {
		leak := reachWithoutMarkerAvoiding(fn, str, func(in ssa.Instruction) bool { return in == sites[ss[0]] }, GTrue(isNoUser))
		c.Check(!leak, rule, "HandleDownload Username", ss[0].Pos(), "written unless NoUsername", "the template's user name survives although NoUsername is off")
	}
	// ... and, with NoUsername set, neither the user name nor the domain is forced (the template's stay)
	for _, name := range []string{"Username", "Domain"} {
		for i, st := range stores[name] {
			ok, why := mustPass(fn, sites[st], GFalse(isNoUser))
			c.Check(ok, rule, fmt.Sprintf("HandleDownload %s suppressed#%d", name, i), st.Pos(), name+" is written only when NoUsername is off", "the "+name+" setting is forced "+why+" of !NoUsername: with user name and domain suppressed the file still carries (or overwrites the template's) "+name)
		}
	}
	// response body is the rendered builder
	bodyOK := false
	for _, use := range derivedUses(str) {
		if calleeName(use) == "net/http.ServeContent" {
			bodyOK = true
		}
	}
	c.Check(bodyOK, rule, "HandleDownload body", str.Pos(), "the response body is d.String()", "the rendered file is not what is served")
	c.Floor(rule, 8, "6 settings + user + body")
}

// c19FreshBuilder: HandleDownload writes the per-request settings straight into the builder it got;
// a builder shared between downloads (a template cache) carries one user's name, domain, host and
// token into the next user's file.
func c19FreshBuilder(c *Ctx) {
	rule := "C19/fresh-builder"
	for _, name := range []string{"NewBuilder", "NewBuilderFromFile"} {
		fn := c.Fn("cmd/rdpgw/rdp", name)
		good := true
		why := ""
		for _, r := range returnsOf(fn) {
			v := strip(unspill(r.Results[0]))
			if isNil(v) {
				continue
			}
			al, ok := v.(*ssa.Alloc)
			if !ok || al.Parent() != fn || !al.Heap {
				good, why = false, "returns "+describeValue(v)
			}
		}
		c.Check(good, rule, name+" fresh", fn.Pos(), "returns a Builder allocated by this call", "the builder returned is not allocated by this call ("+why+"): downloads share one builder and overwrite each other's settings")
	}
	// no package-level builder storage in package rdp
	rp := c.P.Pkg("cmd/rdpgw/rdp")
	n := 0
	if rp != nil {
		for _, nm := range rp.Types.Scope().Names() {
			if v, ok := rp.Types.Scope().Lookup(nm).(*types.Var); ok {
				ts := v.Type().String()
				if strings.Contains(ts, "sync.Map") || strings.Contains(ts, "map[") || strings.Contains(ts, "Builder") || strings.Contains(ts, "cache") {
					n++
					c.Bad(rule, "package variable "+nm, v.Pos(), "package rdp keeps state of type %s across calls: a place for builders or parsed templates to be shared between downloads", ts)
				}
			}
		}
	}
	if n == 0 {
		c.OKTrivial(rule, "package state", token.NoPos, "package rdp has no package-level container")
	}
}

func describeValue(v ssa.Value) string {
	if in, ok := v.(ssa.Instruction); ok {
		return describe(in)
	}
	return v.String()
}

// c19ParserCut: Unmarshal splits a line with key, rest, ok := strings.Cut(line, ":") and
// t, val, ok := strings.Cut(rest, ":") — the value keeps further ':' — and stores a setting only when
// both separators were found; a line lacking one ends the parse. Returns false when the function
// does not have this shape (the caller then reports).
func c19ParserCut(c *Ctx, rule string, fn *ssa.Function) bool {
	var cuts []*ssa.Call
	for _, ci := range callsTo(fn, "strings.Cut") {
		if sep, ok := constString(arg(ci, 1)); ok && sep == ":" {
			cuts = append(cuts, ci.(*ssa.Call))
		}
	}
	if len(cuts) != 2 {
		return false
	}
	first, second := cuts[0], cuts[1]
	if strip(arg(second, 0)) != resultOf(first, 1) {
		first, second = second, first
	}
	chained := strip(arg(second, 0)) == resultOf(first, 1)
	c.Check(chained, rule, "Unmarshal split", first.Pos(), "Cut(line, \":\") then Cut(rest, \":\"): three fields, a value may contain ':'", "the two strings.Cut calls are not chained (the second must split the remainder of the first)")
	var head *ssa.BasicBlock
	for _, ci := range callsTo(fn, "(*bufio.Scanner).Scan") {
		head = ci.Block()
	}
	if head == nil {
		c.Undecided(rule, "Unmarshal loop", fn.Pos(), "scanner loop not found")
		return true
	}
	for _, ci := range callsTo(fn, "(*bufio.Scanner).Buffer") {
		k, isC := constInt(arg(ci, 1))
		c.Check(isC && k >= 64*1024, rule, "Unmarshal scanner-buffer", ci.Pos(), "line buffer limit >= 64 KiB", "the parser caps its line buffer below the default: a longer line stops the scan without an error and the rest of the file, malformed lines included, is dropped")
	}
	ok1, ok2 := resultOf(first, 2), resultOf(second, 2)
	nUpd := 0
	eachInstr(fn, func(in ssa.Instruction) {
		mu, ok := in.(*ssa.MapUpdate)
		if !ok {
			return
		}
		nUpd++
		a, _ := mustPass(fn, mu, GTrue(isVal(ok1)))
		b, why := mustPass(fn, mu, GTrue(isVal(ok2)))
		c.Check(a && b, rule, fmt.Sprintf("Unmarshal store#%d three-fields", nUpd), mu.Pos(), "a setting is stored only from a line with exactly three fields", "a setting is stored "+why+" of both separators having been found")
	})
	badEdges := 0
	for _, b := range fn.Blocks {
		if len(b.Instrs) == 0 {
			continue
		}
		ifi, ok := b.Instrs[len(b.Instrs)-1].(*ssa.If)
		if !ok {
			continue
		}
		for i, succ := range b.Succs {
			malformed := ""
			if GFalse(isVal(ok1))(ifi.Cond, i == 0) || GFalse(isVal(ok2))(ifi.Cond, i == 0) {
				malformed = "a line without three fields"
			}
			core, _ := normCond(ifi.Cond)
			if bo, isBo := core.(*ssa.BinOp); isBo {
				for _, side := range []ssa.Value{bo.X, bo.Y} {
					if ex, ok := side.(*ssa.Extract); ok && ex.Index == 1 {
						if call, ok := ex.Tuple.(*ssa.Call); ok && calleeName(call) == "strconv.Atoi" && GNeq(isVal(ex), anyNil)(ifi.Cond, i == 0) {
							malformed = "a bad integer"
						}
					}
				}
			}
			if malformed != "" {
				badEdges++
				c.Check(!reachableBlock(fn, succ, head), rule, "Unmarshal malformed "+malformed, ifi.Pos(), "ends the parse (no path back to the next line)", "after "+malformed+" the parser continues with the next line: malformed template lines are silently skipped")
			}
		}
	}
	if badEdges < 3 {
		c.Undecided(rule, "Unmarshal malformed edges", fn.Pos(), "found %d refusing edges (two missing separators and a bad integer expected)", badEdges)
	}
	// unknown type letters end the parse: the switch on the type string has a default that returns an error
	tv := resultOf(second, 0)
	unknownOK := false
	for _, b := range fn.Blocks {
		if len(b.Instrs) == 0 {
			continue
		}
		ifi, ok := b.Instrs[len(b.Instrs)-1].(*ssa.If)
		if !ok {
			continue
		}
		bo, ok := ifi.Cond.(*ssa.BinOp)
		if !ok {
			continue
		}
		isT := false
		for _, o := range origins(bo.X) {
			if o.Kind == "call" && strings.HasPrefix(calleeName(o.Call), "strings.TrimSpace") {
				if strip(arg(o.Call, 0)) == tv {
					isT = true
				}
			}
		}
		if strip(bo.X) == tv {
			isT = true
		}
		if !isT {
			continue
		}
		next := b.Succs[1]
		if len(next.Instrs) > 0 {
			if nif, ok := next.Instrs[len(next.Instrs)-1].(*ssa.If); ok {
				if nbo, ok := nif.Cond.(*ssa.BinOp); ok && nbo.X == bo.X {
					continue // another letter comparison follows
				}
			}
		}
		unknownOK = !reachableBlock(fn, next, head)
	}
	c.Check(unknownOK, rule, "Unmarshal malformed an unknown type letter", fn.Pos(), "ends the parse", "an unknown type letter does not end the parse")
	return true
}
