package main

import (
	"go/token"
	"go/types"
	"strings"

	"golang.org/x/tools/go/ssa"
)

func init() {
	register(&Property{
		ID:          "C02",
		Title:       "Access cookies are accepted only if gateway-minted, unexpired and IdP-valid",
		DesignRef:   "DESIGN.md §3 C02",
		Technique:   "checked must-pass-through chain (edge-cut reachability on go/ssa) + SSA value origin + who-may-call/write inventory",
		LevelText:   "Static: on every path of security.CheckPAACookie to an accepting return, the HS256-only parse, the MAC check under SigningKey, issuer/expiry validation against time.Now and the IdP UserInfo call each gate the exit with their error tested; the mint side uses the same key, algorithm, issuer and a constant lifetime <= 5 min behind a key-length guard; no verification-bypass API or foreign SigningKey writer exists; the packet loop answers a refused cookie with E_PROXY_COOKIE_AUTHENTICATION_ACCESS_DENIED and ends. Decides the structural chain, not go-jose's cryptography or the IdP.",
		LevelNote:   "Trusted: go-jose (ParseSigned allow-list, Claims verifies the MAC, Validate checks iss/exp/nbf with 1 min leeway), go-oidc UserInfo, go/ssa construction. Not decided: behaviour for every forged string (cryptographic), what the IdP answers.",
		Explanation: "For security.CheckPAACookie every return whose first result is not the constant false must be reachable only over the success edges of ParseSigned({HS256}) -> Claims(SigningKey,&standard,&custom) -> Validate(Expected{Issuer: const, Time: time.Now()}) -> OIDCProvider.UserInfo(token source built from custom.AccessToken); argument shapes are checked on SSA values. GeneratePAAToken must sign with HS256 under the same variable, the same issuer constant, expiry time.Now().Add(const<=5m), behind len(SigningKey)>=32. Whole-program inventory: no UnsafeClaimsWithoutVerification, every jose/jwt Parse* call has a constant allow-list from the frozen set, SigningKey written only by main. The typestate model of Process gives the refusal status.",
		Assumptions: []string{
			"go-jose v4: jwt.ParseSigned rejects algorithms outside the list; (*JSONWebToken).Claims(key, ...) verifies the signature before filling the destinations; Claims.Validate checks issuer and expiry",
			"go-oidc: (*Provider).UserInfo fails when the IdP does not honour the access token",
			"package variables of security are written only at start-up (checked: who-may-write)",
		},
		Rules: []RuleDef{
			{"C02/buffer-ownership", "the cookie that is examined is the one this connection sent: a packet is read, assembled and handed on in storage of the call or the connection, no package-level or pooled buffer that the returned packet still aliases", func(c *Ctx) { packetBuffersPrivate(c, "C02/buffer-ownership") }},
			{"C02/accept-chain", "every accepting return of CheckPAACookie is gated by parse, MAC, validate and UserInfo, each with checked result and the right arguments", c02AcceptChain},
			{"C02/no-bypass", "no unverified-claims API, only frozen algorithm allow-lists, SigningKey written only at start-up", c02NoBypass},
			{"C02/mint", "GeneratePAAToken: HS256 under SigningKey, same issuer as the verifier, constant lifetime <= 5 min, key length guard", c02Mint},
			{"C02/reject-status", "packet loop: a refused cookie is answered with the cookie-access-denied status and the tunnel ends; success only after the callback accepted", c02RejectStatus},
			{"C02/key-wiring", "the verification key is the configured PAA token signing key: main copies conf.Security.PAATokenSigningKey into security.SigningKey", func(c *Ctx) { keyWiring(c, "C02/key-wiring", "SigningKey") }},
			{"C02/key-defaults", "config.Load's defaults carry no value for the PAA token keys: a built-in key would pass the length test and be the same on every installation", func(c *Ctx) { keyDefaults(c, "C02/key-defaults", []string{"Security.PAATokenSigningKey", "Security.PAATokenEncryptionKey"}) }},
			{"C02/cookie-length", "the size of the cookie field is not capped by a constant: a cookie the gateway minted is decoded whatever its length", c02CookieLength},
			{"C02/cookie-decoding", "the cookie string handed to the check is the whole cookie field: the UTF-16 decoder visits every code unit and removes at most one trailing NUL", func(c *Ctx) { nameDecodingAs(c, "C02/cookie-decoding", "Processor.tunnelRequest", 1) }},
			{"C02/config-tags", "the configuration fields this property depends on are read from the documented keys: koanf tag = lower-cased field name", func(c *Ctx) { configTags(c, "C02/config-tags", map[string][]string{"Configuration": {"Security"}, "SecurityConfig": {"PAATokenSigningKey", "PAATokenEncryptionKey"}}) }},
		},
	})
}

const fiveMinutesNs = int64(5 * 60 * 1e9)

// verifierIssuer is filled by accept-chain and compared by mint (sibling agreement).
type paaVerifierFacts struct {
	issuer string
	ok     bool
}

func c02VerifierFacts(c *Ctx, rule string, report bool) paaVerifierFacts {
	var facts paaVerifierFacts
	fn := c.Fn("cmd/rdpgw/security", "CheckPAACookie")
	key := shortFn(fn)
	signingKey := c.Global("cmd/rdpgw/security", "SigningKey")
	provider := c.Global("cmd/rdpgw/security", "OIDCProvider")

	exits := acceptingReturns(fn, 0, isConstFalse)
	if len(exits) == 0 {
		if report {
			c.Undecided(rule, key+" accepting-exit", fn.Pos(), "no accepting return found")
		}
		return facts
	}
	if !report {
		// only extract the issuer constant
		for _, st := range c.findSteps(fn, "("+joseJWT+".Claims).Validate") {
			if iss, _, _, ok := c.expectedLiteralR(st, arg(st.call, 0)); ok && iss != nil {
				if s, ok := constString(iss); ok {
					facts.issuer, facts.ok = s, true
				}
			}
		}
		return facts
	}

	// step 1: ParseSigned(tokenString, {HS256})
	parses := c.findSteps(fn, joseJWT+".ParseSigned")
	if len(parses) != 1 {
		c.Bad(rule, key+" ParseSigned", fn.Pos(), "expected exactly one jwt.ParseSigned call, found %d", len(parses))
		return facts
	}
	parseS := parses[0]
	parse := parseS.call
	if p, ok := c.normIn(parseS, arg(parse, 0)).(*ssa.Parameter); !ok || p != fn.Params[1] {
		c.Bad(rule, key+" ParseSigned.arg0", parse.Pos(), "the string parsed is not the cookie parameter")
	} else {
		c.OK(rule, key+" ParseSigned.arg0", parse.Pos(), "parses the cookie parameter itself")
	}
	if ok, how := algListIs(arg(parse, 1), "HS256"); !ok {
		c.Bad(rule, key+" ParseSigned.algs", parse.Pos(), "signature algorithm allow-list must be exactly {HS256}: %s", how)
	} else {
		c.OK(rule, key+" ParseSigned.algs", parse.Pos(), "allow-list %s", how)
	}

	// step 2: token.Claims(SigningKey, &standard, &custom)
	claims := c.findSteps(fn, "(*"+joseJWT+".JSONWebToken).Claims")
	if len(claims) != 1 {
		c.Bad(rule, key+" Claims", fn.Pos(), "expected exactly one (*JSONWebToken).Claims call, found %d", len(claims))
		return facts
	}
	clS := claims[0]
	cl := clS.call
	if c.normIn(clS, recvOf(cl)) != resultOf(parse, 0) {
		c.Bad(rule, key+" Claims.recv", cl.Pos(), "Claims is not called on the token returned by ParseSigned")
	} else {
		c.OK(rule, key+" Claims.recv", cl.Pos(), "called on the parsed token")
	}
	if !isLoadOfGlobal(c.upIn(clS, arg(cl, 0)), signingKey) {
		c.Bad(rule, key+" Claims.key", cl.Pos(), "the verification key is not security.SigningKey")
	} else {
		c.OK(rule, key+" Claims.key", cl.Pos(), "key is a load of security.SigningKey")
	}
	var standard, custom *ssa.Alloc
	for _, al := range c.variadicAllocsUp(clS, arg(cl, 1)) {
		et := al.Type().Underlying().(*types.Pointer).Elem()
		if typeIs(et, joseJWT, "Claims") {
			standard = al
		} else if typeIs(et, modPath+"/cmd/rdpgw/security", "customClaims") {
			custom = al
		}
	}
	if standard == nil || custom == nil {
		c.Bad(rule, key+" Claims.dests", cl.Pos(), "Claims must fill both the standard claims and the custom claims (found standard=%v custom=%v)", standard != nil, custom != nil)
		return facts
	}
	c.OK(rule, key+" Claims.dests", cl.Pos(), "fills jwt.Claims and customClaims locals")

	// step 3: standard.Validate(Expected{Issuer: const, Time: time.Now()})
	vals := c.findSteps(fn, "("+joseJWT+".Claims).Validate")
	if len(vals) != 1 {
		c.Bad(rule, key+" Validate", fn.Pos(), "expected exactly one Claims.Validate call, found %d", len(vals))
		return facts
	}
	valS := vals[0]
	val := valS.call
	vrecv := c.upIn(valS, recvOf(val))
	if a, ok := loadAddr(vrecv); !ok || a != ssa.Value(standard) {
		c.Bad(rule, key+" Validate.recv", val.Pos(), "Validate is not applied to the claims filled by the verified Claims call")
	} else if !c.before(fn, clS, vrecv.(ssa.Instruction)) {
		c.Bad(rule, key+" Validate.recv", val.Pos(), "the claims are read for validation before the verifying Claims call filled them")
	} else {
		c.OK(rule, key+" Validate.recv", val.Pos(), "validates the verified standard claims, read after Claims")
	}
	iss, now, _, ok := c.expectedLiteralR(valS, arg(val, 0))
	if !ok {
		c.Undecided(rule, key+" Validate.expected", val.Pos(), "jwt.Expected argument is not a local literal")
	} else {
		s, isConst := constString(iss)
		if iss == nil || !isConst || s == "" {
			c.Bad(rule, key+" Validate.issuer", val.Pos(), "expected issuer must be a non-empty constant")
		} else {
			facts.issuer, facts.ok = s, true
			c.OK(rule, key+" Validate.issuer", val.Pos(), "expected issuer constant %q", s)
		}
		if !now {
			c.Bad(rule, key+" Validate.time", val.Pos(), "expected time is not time.Now() (expiry would not be checked against the clock)")
		} else {
			c.OK(rule, key+" Validate.time", val.Pos(), "expected time is time.Now()")
		}
	}

	// step 4: OIDCProvider.UserInfo(ctx, TokenSource(ctx, &oauth2.Token{AccessToken: custom.AccessToken}))
	uis := c.findSteps(fn, "(*github.com/coreos/go-oidc/v3/oidc.Provider).UserInfo")
	if len(uis) != 1 {
		c.Bad(rule, key+" UserInfo", fn.Pos(), "expected exactly one OIDCProvider.UserInfo call, found %d", len(uis))
		return facts
	}
	uiS := uis[0]
	ui := uiS.call
	if !isLoadOfGlobal(recvOf(ui), provider) {
		c.Bad(rule, key+" UserInfo.recv", ui.Pos(), "UserInfo is not called on security.OIDCProvider")
	} else {
		c.OK(rule, key+" UserInfo.recv", ui.Pos(), "called on security.OIDCProvider")
	}
	tokOK := false
	if ts, ok := strip(arg(ui, 1)).(*ssa.Call); ok && calleeName(ts) == "(*golang.org/x/oauth2.Config).TokenSource" {
		if tokAlloc, ok := arg(ts, 1).(*ssa.Alloc); ok {
			st := structFieldStores(tokAlloc)
			if vs := st["AccessToken"]; len(vs) == 1 {
				tv := c.upIn(uiS, vs[0])
				if b, f, ok := fieldLoad(tv); ok && f.Name() == "AccessToken" && c.sameStruct(b, custom) {
					if c.before(fn, clS, tv.(ssa.Instruction)) {
						tokOK = true
					}
				}
			}
		}
	}
	if !tokOK {
		c.Bad(rule, key+" UserInfo.token", ui.Pos(), "the access token presented to the IdP is not the AccessToken claim of the verified cookie")
	} else {
		c.OK(rule, key+" UserInfo.token", ui.Pos(), "token source carries custom.AccessToken read after the verified Claims call")
	}

	// gating of every accepting exit
	for i, e := range exits {
		ek := key + " exit#" + itoa(i)
		c.requireStep(rule, ek+" parse", fn, e, parseS, 1, "HS256 parse")
		c.requireStep(rule, ek+" mac", fn, e, clS, 0, "MAC verification")
		c.requireStep(rule, ek+" validate", fn, e, valS, 0, "issuer/expiry validation")
		c.requireStep(rule, ek+" userinfo", fn, e, uiS, 1, "IdP UserInfo")
	}

	// what the accepted cookie binds: stores into the tunnel come from the verified claims
	tgtF := c.FieldVar("cmd/rdpgw/protocol", "Tunnel", "TargetServer")
	addrF := c.FieldVar("cmd/rdpgw/protocol", "Tunnel", "RemoteAddr")
	eachInstr(fn, func(in ssa.Instruction) {
		s, ok := in.(*ssa.Store)
		if !ok {
			return
		}
		_, f, ok := fieldOfAddr(s.Addr)
		if !ok {
			return
		}
		want := ""
		switch f {
		case tgtF:
			want = "RemoteServer"
		case addrF:
			want = "ClientIP"
		default:
			return
		}
		b, sf, ok := fieldLoad(s.Val)
		if ok && sf.Name() == want && c.sameStruct(b, custom) && c.before(fn, clS, s) {
			c.OK(rule, key+" bind."+f.Name(), s.Pos(), "Tunnel.%s = verified claim %s", f.Name(), want)
		} else {
			c.Bad(rule, key+" bind."+f.Name(), s.Pos(), "Tunnel.%s is not set from the verified claim %s", f.Name(), want)
		}
	})
	return facts
}

func c02AcceptChain(c *Ctx) {
	c02VerifierFacts(c, "C02/accept-chain", true)
	c.Floor("C02/accept-chain", 12, "argument shapes + 4 gates per accepting exit")
}

// frozen allow-lists per parse function (first-party code only)
var allowedAlgLists = map[string][][]string{
	joseJWT + ".ParseSigned":             {{"HS256"}},
	joseJWT + ".ParseEncrypted":          {{"dir"}, {"A128CBC-HS256"}},
	joseJWT + ".ParseSignedAndEncrypted": {{"dir"}, {"A128CBC-HS256"}, {"HS256"}},
	jose + ".ParseSigned":                {{"HS256"}},
	jose + ".ParseSignedCompact":         {{"HS256"}},
	jose + ".ParseEncrypted":             {{"dir"}, {"A128CBC-HS256"}},
}

func c02NoBypass(c *Ctx) {
	rule := "C02/no-bypass"
	// the forbidden API must still exist under this name in the dependency, else the matcher is blind
	found := false
	for _, pk := range c.P.All {
		if pk.PkgPath == joseJWT {
			if o := pk.Types.Scope().Lookup("JSONWebToken"); o != nil {
				ms := types.NewMethodSet(types.NewPointer(o.Type()))
				for i := 0; i < ms.Len(); i++ {
					if ms.At(i).Obj().Name() == "UnsafeClaimsWithoutVerification" {
						found = true
					}
				}
			}
		}
	}
	if !found {
		c.Undecided(rule, "matcher-fixture", token.NoPos, "go-jose no longer has (*JSONWebToken).UnsafeClaimsWithoutVerification; the bypass matcher must be revised")
	} else {
		c.OKTrivial(rule, "matcher-fixture", token.NoPos, "forbidden API resolved in the dependency: (*jwt.JSONWebToken).UnsafeClaimsWithoutVerification")
	}
	algInventory(c, rule)
	c02KeyWriters(c, rule)
	c.Floor(rule, 5, "fixture + 4 parse sites + key writers")
}

// algInventory: every first-party jose/jwt Parse* call has the frozen constant allow-lists;
// no unverified-claims API is used.
func algInventory(c *Ctx, rule string) {
	nParse := 0
	for _, fn := range c.allFirstPartyFuncs() {
		for _, ci := range callsIn(fn) {
			n := calleeName(ci)
			if strings.Contains(n, "UnsafeClaimsWithoutVerification") || strings.Contains(n, "UnsafePayloadWithoutVerification") {
				c.Bad(rule, shortFn(fn)+" "+n, ci.Pos(), "claims are read without signature verification")
				continue
			}
			lists, ok := allowedAlgLists[n]
			if !ok {
				continue
			}
			nParse++
			k := shortFn(fn) + " " + n[strings.LastIndex(n, "/")+1:]
			good := true
			for i, want := range lists {
				if ok, how := algListIs(arg(ci, 1+i), want...); !ok {
					good = false
					c.Bad(rule, k+" list#"+itoa(i), ci.Pos(), "algorithm allow-list %d must be exactly {%s}: %s", i, strings.Join(want, ","), how)
				}
			}
			if good {
				c.OK(rule, k, ci.Pos(), "constant allow-lists as frozen")
			}
		}
	}
	c.Stat("jose_parse_calls", nParse)
}

func c02KeyWriters(c *Ctx, rule string) {
	// who may write the verification keys
	for _, gname := range []string{"SigningKey", "OIDCProvider", "Oauth2Config"} {
		g := c.Global("cmd/rdpgw/security", gname)
		n := 0
		for _, fn := range c.allFirstPartyFuncs() {
			eachInstr(fn, func(in ssa.Instruction) {
				s, ok := in.(*ssa.Store)
				if !ok {
					return
				}
				if root := addrRootGlobal(s.Addr); root == g {
					n++
					sf := shortFn(fn)
					if sf == "cmd/rdpgw.main" || sf == "cmd/rdpgw.initOIDC" || strings.HasSuffix(sf, ".init") || c.inMainScope(fn) {
						c.OK(rule, "write "+gname+" in "+sf, s.Pos(), "start-up code")
					} else {
						c.Bad(rule, "write "+gname+" in "+sf, s.Pos(), "security.%s is written outside start-up code", gname)
					}
				}
			})
		}
	}
}

// addrRootGlobal: the global an address points into (through field/index addressing).
func addrRootGlobal(a ssa.Value) *ssa.Global {
	for i := 0; i < 8; i++ {
		switch x := a.(type) {
		case *ssa.Global:
			return x
		case *ssa.FieldAddr:
			a = x.X
		case *ssa.IndexAddr:
			a = x.X
		default:
			return nil
		}
	}
	return nil
}

func c02Mint(c *Ctx) {
	rule := "C02/mint"
	fn := c.Fn("cmd/rdpgw/security", "GeneratePAAToken")
	key := shortFn(fn)
	signingKey := c.Global("cmd/rdpgw/security", "SigningKey")
	ver := c02VerifierFacts(c, rule, false)

	// signer
	signers := c.findSteps(fn, jose+".NewSigner")
	if len(signers) != 1 {
		c.Bad(rule, key+" NewSigner", fn.Pos(), "expected exactly one jose.NewSigner call, found %d", len(signers))
		return
	}
	sgS := signers[0]
	sg := sgS.call
	skOK := false
	if a, ok := loadAddr(strip(arg(sg, 0))); ok {
		st := structFieldStores(a)
		alg, _ := constString(first(st["Algorithm"]))
		keyOK := len(st["Key"]) == 1 && isLoadOfGlobal(c.upIn(sgS, st["Key"][0]), signingKey)
		if alg == "HS256" && keyOK {
			skOK = true
		}
	}
	c.Check(skOK, rule, key+" NewSigner.key", sg.Pos(), "signs with HS256 under security.SigningKey (the variable the verifier loads)", "the signer is not HS256 under security.SigningKey: a freshly minted token would not verify, or a different key/algorithm is in use")

	// claims
	st, stdPos, holdsStd, okStd := c.claimsOf(fn)
	if !okStd {
		c.Undecided(rule, key+" claims", fn.Pos(), "standard claims literal not found")
		return
	}
	iss, isConst := constString(first(st["Issuer"]))
	c.Check(isConst && ver.ok && iss == ver.issuer && iss != "", rule, key+" issuer", stdPos,
		"issuer constant "+strconvQuote(iss)+" equals the verifier's expected issuer",
		"minted issuer "+strconvQuote(iss)+" differs from the verifier's expected issuer "+strconvQuote(ver.issuer))
	if ok, how := expiryShape(first(st["Expiry"]), fiveMinutesNs); ok {
		c.OK(rule, key+" expiry", stdPos, "expiry is %s", how)
	} else {
		c.Bad(rule, key+" expiry", stdPos, "minted tokens must expire within five minutes of issuance: %s", how)
	}
	if nb := st["NotBefore"]; len(nb) > 0 {
		c.Undecided(rule, key+" nbf", stdPos, "NotBefore is set; a freshly minted token may not be accepted")
	}
	if sub := first(st["Subject"]); sub == nil || sub != ssa.Value(fn.Params[1]) {
		c.Bad(rule, key+" subject", stdPos, "subject is not the user name parameter")
	} else {
		c.OK(rule, key+" subject", stdPos, "subject is the user name parameter")
	}

	// builder: token = jwt.Signed(sig).Claims(standard).Claims(private).Serialize()
	exits := acceptingReturns(fn, 1, func(v ssa.Value) bool { return !isNil(v) })
	if len(exits) == 0 {
		c.Undecided(rule, key+" exit", fn.Pos(), "no success return found")
	}
	for i, e := range exits {
		ek := key + " exit#" + itoa(i)
		ok, why := mustPass(fn, e, lenAtLeast(func(v ssa.Value) bool { return isLoadOfGlobal(v, signingKey) }, 32))
		c.Check(ok, rule, ek+" keylen", e.Pos(), "success return only after len(SigningKey) >= 32", "success return "+why+": signing key shorter than 32 bytes is used")
		c.requireStep(rule, ek+" signer", fn, e, sgS, 1, "signer construction")
		// the returned token is the Serialize result of a builder rooted at jwt.Signed(sig) with both claim sets
		okTok := false
		var msg string
		for _, o := range origins(e.Results[0]) {
			if o.Kind != "call" || !strings.HasSuffix(calleeName(o.Call), ".Serialize") {
				msg = "returned token is " + o.String()
				okTok = false
				break
			}
			chain := builderChain(o.Call)
			nClaims, rooted := 0, false
			hasStd, hasPriv := false, false
			for _, bc := range chain {
				n := calleeName(bc)
				if strings.HasSuffix(n, ".Claims") {
					nClaims++
					a0 := strip(arg(bc, 0))
					if holdsStd(a0) {
						hasStd = true
					} else if ad, ok := loadAddr(a0); ok {
						if al, ok := ad.(*ssa.Alloc); ok && typeIs(al.Type(), modPath+"/cmd/rdpgw/security", "customClaims") {
							hasPriv = true
						}
					}
				}
				if n == joseJWT+".Signed" && (strip(arg(bc, 0)) == resultOf(sg, 0) || c.norm(arg(bc, 0)) == resultOf(sg, 0)) {
					rooted = true
				}
			}
			okTok = rooted && hasStd && hasPriv
			if !okTok {
				msg = "builder chain lacks jwt.Signed(sig), the standard claims or the private claims"
			}
			c.requireChecked(rule, ek+" serialize", fn, e, o.Call, 1, "serialization")
		}
		c.Check(okTok, rule, ek+" token", e.Pos(), "returned token = jwt.Signed(sig).Claims(standard).Claims(private).Serialize()", "returned token is not the signed serialization of both claim sets: "+msg)
	}
	c.Floor(rule, 6, "signer, issuer, expiry, subject, key length, token")
}

// builderChain follows receiver links of a fluent call chain back to its root.
func builderChain(ci ssa.CallInstruction) []ssa.CallInstruction {
	var out []ssa.CallInstruction
	cur := ci
	for i := 0; i < 12 && cur != nil; i++ {
		out = append(out, cur)
		r := recvOf(cur)
		if r == nil {
			break
		}
		next, ok := strip(r).(*ssa.Call)
		if !ok {
			break
		}
		cur = next
	}
	return out
}

func first(vs []ssa.Value) ssa.Value {
	if len(vs) == 1 {
		return vs[0]
	}
	return nil
}

func c02RejectStatus(c *Ctx) {
	rule := "C02/reject-status"
	m := c.ProcessModel(rule)
	if m == nil {
		return
	}
	deny := c.ConstInt("cmd/rdpgw/protocol", "E_PROXY_COOKIE_AUTHENTICATION_ACCESS_DENIED")
	if uint32(deny) != 0x800759F8 {
		c.Bad(rule, "const E_PROXY_COOKIE_AUTHENTICATION_ACCESS_DENIED", token.NoPos, "value %#x differs from MS-TSGU 0x800759F8", uint32(deny))
	} else {
		c.OK(rule, "const E_PROXY_COOKIE_AUTHENTICATION_ACCESS_DENIED", token.NoPos, "value 0x800759F8 as in MS-TSGU")
	}
	nRefuse, nAccept := 0, 0
	for _, p := range m.Paths {
		chk := p.Check("CheckPAACookie")
		if chk == nil {
			continue
		}
		pk := p.Key()
		if !chk.Passed {
			nRefuse++
			resp := p.Responses()
			good := len(resp) == 1 && resp[0].Status == deny && resp[0].PktType == c.ConstInt("cmd/rdpgw/protocol", "PKT_TYPE_TUNNEL_RESPONSE") && p.Exit == "return" && !p.Has("SET")
			if good {
				c.OK(rule, pk, p.Pos, "refused cookie: TUNNEL_RESPONSE with 0x800759F8, no state change, loop ends")
			} else {
				c.Bad(rule, pk, p.Pos, "refused cookie must be answered with one TUNNEL_RESPONSE carrying 0x800759F8 and end the tunnel; path does: %s", p.Describe())
			}
		} else {
			nAccept++
		}
	}
	// a success TUNNEL_RESPONSE never on a path where the callback is configured but was not consulted
	for _, p := range m.Paths {
		for _, r := range p.Responses() {
			if r.PktType == c.ConstInt("cmd/rdpgw/protocol", "PKT_TYPE_TUNNEL_RESPONSE") && r.Status == 0 {
				chk := p.Check("CheckPAACookie")
				if p.CallbackNonNil("CheckPAACookie") && (chk == nil || !chk.Passed) {
					c.Bad(rule, p.Key()+" success", p.Pos, "tunnel creation succeeds although the configured cookie check did not accept: %s", p.Describe())
				} else {
					c.OK(rule, p.Key()+" success", p.Pos, "success response only after the cookie callback accepted (or none configured)")
				}
			}
		}
	}
	if nRefuse == 0 {
		c.Undecided(rule, "refusal-path", token.NoPos, "no path found on which CheckPAACookie refuses")
	}
}

func itoa(i int) string { return strconvItoa(i) }
