package main

import (
	"go/constant"
	"go/token"
	"go/types"
	"strings"

	"golang.org/x/tools/go/ssa"
)

const (
	ntlmPkgPath = modPath + "/cmd/auth/ntlm"
	goNtlm      = "github.com/m7913d/go-ntlm/ntlm"
)

func init() {
	register(&Property{
		ID:          "C14",
		Title:       "NTLM verifier authenticates only proof of the configured password",
		DesignRef:   "DESIGN.md §3 C14",
		Technique:   "who-may-write inventory of NtlmResponse.Authenticated + edge-cut guarded reachability of the accepting store + SSA value identity (same user/password/session) + pairing rule: the session context is dropped on every path on which no challenge is outstanding",
		LevelText:   "Static: the only non-false store to NtlmResponse.Authenticated is in ntlmContext.authenticate and is reachable only over: a session exists, the configured password of the user named in the message is non-empty, and ProcessAuthenticateMessage on that same session succeeded after SetUserInfo with exactly that user and password; the user name returned is that same value. Sessions are created only by negotiate, fresh per negotiate (new challenge). Contexts are keyed by the caller's session string; after the verifier examined a message the context is removed on every path except when a challenge was just issued, so a server session never examines two authenticate messages (go-ntlm caches the first user's response keys). Empty session or message is refused before any lookup. Decides who can set the flag and under which checked conditions; the NTLMv2 mathematics is go-ntlm's. The verifier's packages never assign to a configured user entry's Username or Password (no trimmed or case-folded credentials).",
		LevelNote:   "Trusted: go-ntlm ProcessAuthenticateMessage (NTLMv2 response against the stored challenge), go-cache. Not decided: the liveness clause (a correct client is always authenticated) and cache expiry timing.",
		Explanation: "C14/accept-site inventories all stores to NtlmResponse.Authenticated and cuts the CFG edges of the three required conditions; argument identity ties SetUserInfo, GetPassword, ProcessAuthenticateMessage and the returned name to one user value and one session. C14/session-origin inventories writers of ntlmContext.session. C14/context-scope checks keys and the removal rule in NTLMAuth.Authenticate. C14/empty-args checks the early refusals. C14/database checks the exact-key password lookup.",
		Assumptions: []string{"go-ntlm's ServerSession verifies the NTLMv2 response against the challenge it generated in the same session"},
		Rules: []RuleDef{
			{"C14/accept-site", "Authenticated=true only in ntlmContext.authenticate, over session!=nil, password!=\"\", ProcessAuthenticateMessage ok on the same session/user/password; Username is that user", c14AcceptSite},
			{"C14/session-origin", "ntlmContext.session written only by negotiate, from a fresh CreateServerSession(Version2, ConnectionOriented)", c14SessionOrigin},
			{"C14/context-scope", "contexts keyed by the request's session; removed on every path unless a challenge is outstanding; challenges issued only by negotiate", c14ContextScope},
			{"C14/empty-args", "empty session or message refused before any context lookup", c14EmptyArgs},
			{"C14/context-holders", "session contexts live in the context cache only: no verifier field or package variable remembers one", c14ContextHolders},
			{"C14/database", "GetPassword is an exact map lookup by the given user name", c14Database},
		},
	})
}

func c14AcceptSite(c *Ctx) { c14AcceptSiteAs(c, "C14/accept-site") }

func c14AcceptSiteAs(c *Ctx, rule string) {
	authF := c.FieldVar("shared/auth", "NtlmResponse", "Authenticated")
	userF := c.FieldVar("shared/auth", "NtlmResponse", "Username")
	fn := c.Fn("cmd/auth/ntlm", "ntlmContext.authenticate")
	nTrue := 0
	for _, f := range c.allFirstPartyFuncs() {
		if f.Pkg != nil && f.Pkg.Pkg.Path() == modPath+"/shared/auth" {
			continue // generated protobuf code (Reset etc.)
		}
		eachInstr(f, func(in ssa.Instruction) {
			s, ok := in.(*ssa.Store)
			if !ok {
				return
			}
			_, fv, ok := fieldOfAddr(s.Addr)
			if !ok || fv != authF {
				return
			}
			if b, isC := constBool(s.Val); isC && !b {
				return
			}
			nTrue++
			if f != fn {
				c.Bad(rule, "Authenticated=true in "+shortFn(f), s.Pos(), "NtlmResponse.Authenticated is set outside ntlmContext.authenticate")
			}
		})
	}
	key := shortFn(fn)
	cP, amP, rP := fn.Params[0], fn.Params[1], fn.Params[2]
	isSessionLoad := func(v ssa.Value) bool {
		b, f, ok := fieldLoad(strip(v))
		return ok && f.Name() == "session" && b == ssa.Value(cP)
	}
	// calls (in authenticate itself or in a helper it calls statically)
	one := func(method string) (stepRef, bool) {
		sts := c.findInvokeSteps(fn, method)
		if len(sts) != 1 {
			return stepRef{}, false
		}
		return sts[0], true
	}
	getPwS, ok1 := one("GetPassword")
	setUIS, ok2 := one("SetUserInfo")
	procS, ok3 := one("ProcessAuthenticateMessage")
	if !ok1 || !ok2 || !ok3 || len(setUIS.via) > 0 || len(procS.via) > 0 {
		c.Bad(rule, key+" calls", fn.Pos(), "GetPassword / SetUserInfo / ProcessAuthenticateMessage not all present exactly once")
		return
	}
	getPw, setUI, proc := getPwS.call, setUIS.call, procS.call
	user := strip(c.upIn(getPwS, getPw.Call.Args[0]))
	// user = am.UserName.String()
	userOK := false
	if sc, ok := user.(*ssa.Call); ok && calleeName(sc) == "(*"+goNtlm+".PayloadStruct).String" {
		if b, f, ok := fieldLoad(strip(recvOf(sc))); ok && f.Name() == "UserName" && b == ssa.Value(amP) {
			userOK = true
		}
	}
	c.Check(userOK, rule, key+" user", getPw.Pos(), "the user looked up is the UserName of the message being verified", "the password looked up is not for the user named in the authenticate message")
	dbOK := false
	if root, path := c.fieldPathIn(getPwS, getPw.Call.Value); root == ssa.Value(cP) && len(path) == 2 && path[0] == "h" && path[1] == "Database" {
		dbOK = true
	}
	c.Check(dbOK, rule, key+" database", getPw.Pos(), "password from the verifier's configured database", "the password does not come from c.h.Database")
	c.Check(isSessionLoad(setUI.Call.Value) && strip(setUI.Call.Args[0]) == user && c.norm(setUI.Call.Args[1]) == ssa.Value(getPw), rule, key+" SetUserInfo", setUI.Pos(),
		"session primed with exactly that user and its configured password", "SetUserInfo is not given the looked-up user and its configured password on c.session")
	c.Check(isSessionLoad(proc.Call.Value) && proc.Call.Args[0] == ssa.Value(amP) && dominatesInstr(setUI, proc), rule, key+" Process", proc.Pos(),
		"the message is verified by c.session after SetUserInfo", "ProcessAuthenticateMessage is not applied to the message on c.session after SetUserInfo")

	eachInstr(fn, func(in ssa.Instruction) {
		s, ok := in.(*ssa.Store)
		if !ok {
			return
		}
		b, fv, ok := fieldOfAddr(s.Addr)
		if !ok {
			return
		}
		switch fv {
		case authF:
			if bv, isC := constBool(s.Val); isC && !bv {
				return
			}
			if b != ssa.Value(rP) {
				c.Bad(rule, key+" response", s.Pos(), "the flag is set on something other than this call's response")
			}
			g1 := GNeq(isSessionLoad, anyNil)
			ok1, w1 := mustPass(fn, s, g1)
			c.Check(ok1, rule, key+" accept session", s.Pos(), "only with an existing session (a negotiate preceded in this context)", "accepting store "+w1+" of c.session != nil")
			isPw := func(v ssa.Value) bool { return isVal(getPw)(v) || c.norm(rv(v)) == ssa.Value(getPw) }
			ok2, w2 := mustPass(fn, s, GNeq(isPw, func(v ssa.Value) bool { x, ok := constString(v); return ok && x == "" }))
			c.Check(ok2, rule, key+" accept password", s.Pos(), "only with a non-empty configured password", "accepting store "+w2+" of password != \"\": unknown users or empty passwords can be authenticated")
			ok3, w3 := mustPass(fn, s, GErrNil(proc))
			c.Check(ok3, rule, key+" accept proof", s.Pos(), "only when ProcessAuthenticateMessage succeeded", "accepting store "+w3+" of the NTLMv2 verification")
		case userF:
			c.Check(strip(s.Val) == user, rule, key+" username", s.Pos(), "returns exactly the verified user name", "the user name returned is not the one that was verified")
		}
	})
	if nTrue == 0 {
		c.Undecided(rule, key+" accept", fn.Pos(), "no accepting store found")
	}
	c.Floor(rule, 8, "shapes + 3 guards + username")
}

func c14SessionOrigin(c *Ctx) {
	rule := "C14/session-origin"
	sessF := c.FieldVar("cmd/auth/ntlm", "ntlmContext", "session")
	neg := c.Fn("cmd/auth/ntlm", "ntlmContext.negotiate")
	n := 0
	for _, f := range c.allFirstPartyFuncs() {
		eachInstr(f, func(in ssa.Instruction) {
			s, ok := in.(*ssa.Store)
			if !ok {
				return
			}
			if _, fv, ok := fieldOfAddr(s.Addr); !ok || fv != sessF {
				return
			}
			n++
			if f != neg {
				c.Bad(rule, "write session in "+shortFn(f), s.Pos(), "a server session is installed outside negotiate (shared or reused challenge possible)")
				return
			}
			if isNil(s.Val) {
				c.OK(rule, "write session nil in negotiate", s.Pos(), "cleared on failure")
				return
			}
			good := false
			for _, o := range origins(s.Val) {
				if o.Kind == "call" && o.Index == 0 && calleeName(o.Call) == goNtlm+".CreateServerSession" && o.Call.Parent() == neg {
					v, ok1 := constInt(arg(o.Call, 0))
					m, ok2 := constInt(arg(o.Call, 1))
					// Version2 = 2, ConnectionOrientedMode = 0 in go-ntlm; compare with the library's constants
					good = ok1 && ok2 && v == c.libConst(goNtlm, "Version2") && m == c.libConst(goNtlm, "ConnectionOrientedMode")
				} else {
					good = false
					break
				}
			}
			c.Check(good, rule, "write session in negotiate", s.Pos(), "fresh CreateServerSession(Version2, ConnectionOrientedMode) per negotiate", "the session installed is not a fresh NTLMv2 connection-oriented server session created by this negotiate")
		})
	}
	// the challenge returned is generated by that session
	for _, ci := range callsIn(neg) {
		call, ok := ci.(*ssa.Call)
		if ok && call.Call.IsInvoke() && call.Call.Method.Name() == "GenerateChallengeMessage" {
			c.OK(rule, "negotiate challenge", call.Pos(), "challenge generated by the context's session")
		}
	}
	c.Floor(rule, 2, "session store + challenge")
	_ = n
	_ = token.NoPos
}

// libConst returns the integer value of a constant of a dependency.
func (c *Ctx) libConst(pkgPath, name string) int64 {
	for _, pk := range c.P.All {
		if pk.PkgPath == pkgPath {
			if o, ok := pk.Types.Scope().Lookup(name).(*types.Const); ok {
				v, _ := constant.Int64Val(constant.ToInt(o.Val()))
				return v
			}
		}
	}
	c.Missing("constant %s.%s", pkgPath, name)
	return 0
}

func c14ContextScope(c *Ctx) { c14ContextScopeAs(c, "C14/context-scope") }

func c14ContextScopeAs(c *Ctx, rule string) {
	fn := c.Fn("cmd/auth/ntlm", "NTLMAuth.Authenticate")
	key := shortFn(fn)
	sessField := func(v ssa.Value) bool {
		_, f, ok := fieldLoad(localVal(strip(v)))
		return ok && f.Name() == "Session" && f.Pkg().Path() == modPath+"/shared/auth"
	}
	var getCtx, inner *ssa.Call
	var removes []*ssa.Call
	for _, ci := range callsIn(fn) {
		call, ok := ci.(*ssa.Call)
		if !ok {
			continue
		}
		switch calleeName(call) {
		case "(*" + ntlmPkgPath + ".NTLMAuth).getContext":
			getCtx = call
		case "(*" + ntlmPkgPath + ".NTLMAuth).removeContext":
			removes = append(removes, call)
		case "(*" + ntlmPkgPath + ".ntlmContext).Authenticate":
			inner = call
		}
	}
	if getCtx == nil || inner == nil {
		c.Bad(rule, key+" calls", fn.Pos(), "getContext / context.Authenticate not found")
		return
	}
	c.Check(sessField(arg(getCtx, 0)), rule, key+" getContext.key", getCtx.Pos(), "context looked up by the request's own Session", "the context is not looked up by the request's Session")
	c.Check(recvOf(inner) == ssa.Value(getCtx), rule, key+" context-used", inner.Pos(), "the message is examined in that context", "the message is examined in a different context")
	// removeContext calls anywhere in the package (the decision may live in a helper of Authenticate)
	nRem := 0
	for _, f := range c.allFirstPartyFuncs() {
		if f.Pkg == nil || f.Pkg.Pkg.Path() != ntlmPkgPath {
			continue
		}
		for _, r := range callsTo(f, "(*"+ntlmPkgPath+".NTLMAuth).removeContext") {
			c.Check(c.allUp(arg(r, 0), sessField), rule, key+" removeContext.key#"+itoa(nRem), r.Pos(), "removes this request's context", "removeContext is not keyed by the request's Session")
			nRem++
		}
	}
	_ = removes
	isRemove := func(in ssa.Instruction) bool {
		call, ok := in.(*ssa.Call)
		if !ok || calleeName(call) != "(*"+ntlmPkgPath+".NTLMAuth).removeContext" {
			return false
		}
		return sessField(rv(strip(arg(call, 0))))
	}
	respT := c.NamedType("shared/auth", "NtlmResponse")
	respField := func(name string) func(ssa.Value) bool {
		return func(v ssa.Value) bool {
			b, f, ok := fieldLoad(strip(v))
			if !ok || f.Name() != name || f.Pkg().Path() != modPath+"/shared/auth" {
				return false
			}
			// a field of the response being built (not the request's field of the same name)
			bt := rv(b).Type()
			if pt, isPtr := bt.Underlying().(*types.Pointer); isPtr {
				bt = pt.Elem()
			}
			return types.Identical(bt, respT)
		}
	}
	errV := ssa.Value(inner)
	isEmpty := func(v ssa.Value) bool { s, ok := constString(v); return ok && s == "" }
	conds := []struct {
		name string
		g    Guard
		bad  string
	}{
		{"challenge-outstanding", GNeq(respField("NtlmMessage"), isEmpty), "the context survives a processed message although no challenge was issued: a server session can examine a second authenticate message (go-ntlm caches the first user's keys)"},
		{"no-error", GErrNil(errV), "the context survives an error"},
		{"not-authenticated", GFalse(respField("Authenticated")), "the context survives a successful authentication (replay in the same session)"},
	}
	for _, r := range returnsOf(fn) {
		if !reachableBlock(fn, inner.Block(), r.Block()) {
			continue
		}
		for _, cd := range conds {
			keep := reachFromWithoutMarkerAvoiding(inner.Block(), r, isRemove, cd.g)
			c.Check(!keep, rule, key+" keep-only-if "+cd.name, r.Pos(), "after examining a message the context is kept only if "+cd.name, cd.bad)
		}
	}
	// challenges are issued only by negotiate
	msgF := c.FieldVar("shared/auth", "NtlmResponse", "NtlmMessage")
	for _, f := range c.allFirstPartyFuncs() {
		if f.Pkg != nil && f.Pkg.Pkg.Path() == modPath+"/shared/auth" {
			continue
		}
		eachInstr(f, func(in ssa.Instruction) {
			s, ok := in.(*ssa.Store)
			if !ok {
				return
			}
			if _, fv, ok := fieldOfAddr(s.Addr); ok && fv == msgF {
				if x, isC := constString(s.Val); isC && x == "" {
					return
				}
				c.Check(shortFn(f) == "(*cmd/auth/ntlm.ntlmContext).negotiate", rule, "NtlmMessage set in "+shortFn(f), s.Pos(), "challenge issued by negotiate", "a response message is produced outside negotiate: the keep-context rule no longer means 'challenge outstanding'")
			}
		})
	}
	// every access to the context cache is keyed by the request's own Session (followed up through
	// the parameters of getContext / removeContext and any helper between them and the cache)
	nKeys := 0
	for _, f := range c.allFirstPartyFuncs() {
		if f.Pkg == nil || f.Pkg.Pkg.Path() != ntlmPkgPath {
			continue
		}
		for _, ci := range callsIn(f) {
			n := calleeName(ci)
			if n == "(*"+cachePkg+".cache).Get" || n == "(*"+cachePkg+".cache).Set" || n == "(*"+cachePkg+".cache).Delete" {
				nKeys++
				c.Check(c.allUp(arg(ci, 0), sessField), rule, "NTLMAuth."+f.Name()+" "+n[len(n)-3:]+" key", ci.Pos(), "cache keyed by the request's Session", "the context cache is not keyed by the request's Session itself")
			}
		}
	}
	if nKeys < 3 {
		c.Undecided(rule, "cache keys", fn.Pos(), "found %d context cache accesses (Get, Set, Delete confirmed by hand)", nKeys)
	}
	c.Floor(rule, 8, "keys, 3 keep conditions, challenge writer, cache keys")
}

func c14EmptyArgs(c *Ctx) {
	rule := "C14/empty-args"
	fn := c.Fn("cmd/auth/ntlm", "NTLMAuth.Authenticate")
	key := shortFn(fn)
	var getCtx *ssa.Call
	for _, ci := range callsTo(fn, "(*"+ntlmPkgPath+".NTLMAuth).getContext") {
		getCtx = ci.(*ssa.Call)
	}
	if getCtx == nil {
		c.Missing("getContext call")
	}
	isEmpty := func(v ssa.Value) bool { s, ok := constString(v); return ok && s == "" }
	for _, fld := range []string{"Session", "NtlmMessage"} {
		f := fld
		want := c.FieldVar("shared/auth", "NtlmRequest", f)
		m := func(v ssa.Value) bool {
			_, fv, ok := fieldLoad(localVal(strip(v)))
			return ok && fv == want
		}
		ok, why := mustPass(fn, getCtx, GNeq(m, isEmpty))
		c.Check(ok, rule, key+" nonempty "+f, getCtx.Pos(), "context lookup only with a non-empty "+f, "the context lookup is "+why+" of "+f+" != \"\"")
	}
}

func c14Database(c *Ctx) {
	rule := "C14/database"
	fn := c.Fn("cmd/auth/database", "Config.GetPassword")
	// every non-empty result is the Password field of the users-map entry looked up under the given
	// name (the lookup may sit in a helper and may use the comma-ok form)
	var lookupsOf func(v ssa.Value, depth int) ([]*ssa.Lookup, bool)
	lookupsOf = func(v ssa.Value, depth int) ([]*ssa.Lookup, bool) {
		v = strip(v)
		switch x := v.(type) {
		case *ssa.Lookup:
			return []*ssa.Lookup{x}, true
		case *ssa.Extract:
			if lk, ok := x.Tuple.(*ssa.Lookup); ok && x.Index == 0 {
				return []*ssa.Lookup{lk}, true
			}
			if call, ok := x.Tuple.(*ssa.Call); ok && depth < 2 {
				cal := call.Call.StaticCallee()
				if cal == nil || !IsFirstParty(cal) || cal.Blocks == nil {
					return nil, false
				}
				var out []*ssa.Lookup
				for _, r := range returnsOf(cal) {
					ls, ok := lookupsOf(unspill(r.Results[x.Index]), depth+1)
					if !ok {
						return nil, false
					}
					out = append(out, ls...)
				}
				return out, true
			}
		case *ssa.Call:
			cal := x.Call.StaticCallee()
			if cal == nil || !IsFirstParty(cal) || cal.Blocks == nil || depth >= 2 {
				return nil, false
			}
			var out []*ssa.Lookup
			for _, r := range returnsOf(cal) {
				ls, ok := lookupsOf(unspill(r.Results[0]), depth+1)
				if !ok {
					return nil, false
				}
				out = append(out, ls...)
			}
			return out, true
		case *ssa.UnOp:
			if x.Op == token.MUL {
				return lookupsOf(x.X, depth)
			}
		case *ssa.Alloc:
			// a local struct copy: the one value stored into it
			var val ssa.Value
			n := 0
			for _, r := range *x.Referrers() {
				if st, ok := r.(*ssa.Store); ok && st.Addr == ssa.Value(x) {
					val = st.Val
					n++
				}
			}
			if n == 1 {
				return lookupsOf(val, depth)
			}
		case *ssa.Phi:
			var out []*ssa.Lookup
			for _, e := range x.Edges {
				ls, ok := lookupsOf(e, depth)
				if !ok {
					return nil, false
				}
				out = append(out, ls...)
			}
			return out, true
		}
		return nil, false
	}
	isName := func(v ssa.Value) bool { return strip(v) == ssa.Value(fn.Params[1]) }
	good := false
	bad := false
	for _, r := range returnsOf(fn) {
		for _, o := range origins(r.Results[0]) {
			switch {
			case o.Kind == "const":
				if x, ok := constString(o.Value); !ok || x != "" {
					bad = true
				}
			case o.Kind == "field" && o.Field.Name() == "Password":
				ls, ok := lookupsOf(o.Base, 0)
				if !ok || len(ls) == 0 {
					bad = true
					break
				}
				for _, lk := range ls {
					if _, f, isF := fieldLoad(strip(lk.X)); !isF || f.Name() != "users" || !c.allUp(lk.Index, isName) {
						bad = true
					} else {
						good = true
					}
				}
			case o.Kind == "other" && isLookup(o.Value):
				// a map from user name to password, filled by NewConfig with m[u.Username] = u.Password
				lk := o.Value.(*ssa.Lookup)
				_, mf, isF := fieldLoad(strip(lk.X))
				if !isF || !c.allUp(lk.Index, isName) || !c.passwordMapFilledExactly(mf) {
					bad = true
				} else {
					good = true
				}
			default:
				bad = true
			}
		}
	}
	good = good && !bad
	c.Check(good, rule, shortFn(fn), fn.Pos(), "password = users[<the given name>].Password (exact key; unknown users yield \"\")", "GetPassword is not an exact lookup of the given user name")
	nc := c.Fn("cmd/auth/database", "NewConfig")
	okKey := false
	eachInstr(nc, func(in ssa.Instruction) {
		if mu, ok := in.(*ssa.MapUpdate); ok {
			if _, f, ok := fieldLoad(strip(mu.Key)); ok && f.Name() == "Username" {
				okKey = true
			}
		}
	})
	c.Check(okKey, rule, shortFn(nc), nc.Pos(), "users are keyed by their configured Username", "the user map is not keyed by the configured Username")
	// the configured credentials are kept as configured: the verifier's packages never assign to a
	// user entry's Username or Password (a trimmed or case-folded copy proves a password that was
	// not configured, and refuses the one that was)
	nW := 0
	for _, f := range c.allFirstPartyFuncs() {
		if f.Pkg == nil || !(strings.HasSuffix(f.Pkg.Pkg.Path(), "/cmd/auth/database") || strings.HasSuffix(f.Pkg.Pkg.Path(), "/cmd/auth/ntlm")) {
			continue
		}
		f := f
		eachInstr(f, func(in ssa.Instruction) {
			st, ok := in.(*ssa.Store)
			if !ok {
				return
			}
			fa, ok := st.Addr.(*ssa.FieldAddr)
			if !ok {
				return
			}
			_, fld, ok := fieldOfAddr(fa)
			if !ok || fld.Pkg() == nil || !strings.HasSuffix(fld.Pkg().Path(), "/cmd/auth/config") || (fld.Name() != "Username" && fld.Name() != "Password") {
				return
			}
			if _, isLoad := loadedFieldNamed(st.Val, fld.Name()); isLoad {
				return // copying an entry field by field
			}
			nW++
			c.Bad(rule, "credential rewritten in "+shortFn(f)+" ("+fld.Name()+")", st.Pos(), "the configured %s of a user entry is rewritten in %s before it is used: the verifier no longer proves exactly the configured credentials", fld.Name(), shortFn(f))
		})
	}
	if nW == 0 {
		c.OK(rule, "credentials as configured", nc.Pos(), "no function of the verifier's packages assigns to UserConfig.Username or UserConfig.Password")
	}
}

// loadedFieldNamed: v is a load of a struct field with the given name.
func loadedFieldNamed(v ssa.Value, name string) (*types.Var, bool) {
	if _, f, ok := fieldLoad(strip(v)); ok && f.Name() == name {
		return f, true
	}
	return nil, false
}

func isLookup(v ssa.Value) bool {
	lk, ok := v.(*ssa.Lookup)
	return ok && !lk.CommaOk
}

// passwordMapFilledExactly: every update of a map that ends up in Config.<field> stores, under
// element.Username, that same element's Password — and the field is set only by NewConfig.
func (c *Ctx) passwordMapFilledExactly(field *types.Var) bool {
	nc := c.FnOpt("cmd/auth/database", "NewConfig")
	if nc == nil {
		return false
	}
	ok := true
	n := 0
	eachInstr(nc, func(in ssa.Instruction) {
		mu, isMU := in.(*ssa.MapUpdate)
		if !isMU {
			return
		}
		if _, isStr := mu.Map.Type().Underlying().(*types.Map).Elem().Underlying().(*types.Basic); !isStr {
			return
		}
		n++
		kb, kf, okk := fieldLoad(strip(mu.Key))
		vb, vf, okv := fieldLoad(strip(mu.Value))
		if !okk || !okv || kf.Name() != "Username" || vf.Name() != "Password" || !sameLoc(kb, vb) && kb != vb {
			ok = false
		}
	})
	// other writers of the field
	for _, f := range c.allFirstPartyFuncs() {
		if f == nc {
			continue
		}
		eachInstr(f, func(in ssa.Instruction) {
			if st, isSt := in.(*ssa.Store); isSt {
				if _, fv, isF := fieldOfAddr(st.Addr); isF && fv == field {
					ok = false
				}
			}
		})
	}
	return ok && n > 0
}
