package main

import (
	"strings"

	"golang.org/x/tools/go/ssa"
)

// Transport edge rules shared by C06 (exact relay) and C08 (framing): the two Transport
// implementations hand over whole reads and whole packets, unchanged.

const transportPkg = modPath + "/cmd/rdpgw/transport"

func transportRules(c *Ctx, rule string, withWrites bool) {
	gorilla := "github.com/gorilla/websocket"
	// --- websocket: one ReadMessage per packet, returned as is
	rp := c.Fn("cmd/rdpgw/transport", "WSPKT.ReadPacket")
	var rm *ssa.Call
	otherReads := 0
	for _, ci := range callsIn(rp) {
		n := calleeName(ci)
		switch {
		case n == "(*"+gorilla+".Conn).ReadMessage":
			if rm != nil {
				otherReads++
			}
			rm, _ = ci.(*ssa.Call)
		case benignConnCall(n):
			// names the peer in a log line or an error: no I/O
		case strings.HasPrefix(n, "(*"+gorilla+".Conn)."):
			otherReads++ // NextReader, SetReadLimit, ... : partial or limited reads
		case ci.Common().IsInvoke() && ci.Common().Method.Name() == "Read":
			otherReads++
		}
	}
	good := rm != nil && otherReads == 0
	if good {
		msg := resultOf(rm, 1)
		for _, r := range returnsOf(rp) {
			if len(r.Results) != 3 {
				good = false
				continue
			}
			if !isNil(unspill(r.Results[2])) && !mustErr(rp, r, rm) {
				// error returns may carry anything
			}
			if isNil(unspill(r.Results[2])) {
				if strip(unspill(r.Results[1])) != msg || !isLenOf(strip(unspill(r.Results[0])), msg) {
					good = false
				}
			}
		}
	}
	c.Check(good, rule, "WSPKT.ReadPacket whole-message", rp.Pos(), "a packet read is exactly one websocket message as ReadMessage returned it (n = its length)", "WSPKT.ReadPacket does not return the whole websocket message unchanged (a partial read, a reused buffer or another Conn read is involved): client bytes can be dropped or glued to the next message")

	// --- legacy: one Read of the chunked body per call, returned as a copy of exactly the bytes read
	lp := c.Fn("cmd/rdpgw/transport", "LegacyPKT.ReadPacket")
	var rd *ssa.Call
	nReads := 0
	for _, ci := range callsIn(lp) {
		if ci.Common().IsInvoke() && ci.Common().Method.Name() == "Read" {
			nReads++
			rd, _ = ci.(*ssa.Call)
		}
	}
	good = rd != nil && nReads == 1
	if good {
		_, f, ok := fieldLoad(strip(rd.Call.Value))
		good = ok && f.Name() == "ChunkedReader"
		n := resultOf(rd, 0)
		buf := rd.Call.Args[0]
		for _, r := range returnsOf(lp) {
			if len(r.Results) != 3 {
				good = false
				continue
			}
			if strip(unspill(r.Results[0])) != n {
				good = false
			}
			p := strip(unspill(r.Results[1]))
			if p == strip(buf) {
				// the read buffer itself: must be cut to n
				good = false
			}
			if sl, ok := p.(*ssa.Slice); ok && sameBuf(sl.X, buf) && sl.High == n && sl.Low == nil {
				continue
			}
			ms, isMake := p.(*ssa.MakeSlice)
			if !isMake || strip(ms.Len) != n {
				good = false
				continue
			}
			copied := false
			for _, ci := range callsIn(lp) {
				if b, ok := ci.Common().Value.(*ssa.Builtin); ok && b.Name() == "copy" {
					if strip(ci.Common().Args[0]) == ssa.Value(ms) && sameBuf(ci.Common().Args[1], buf) {
						copied = true
					}
				}
			}
			if !copied {
				good = false
			}
		}
	}
	c.Check(good, rule, "LegacyPKT.ReadPacket copy", lp.Pos(), "one Read of the chunked request body per call; returns n and exactly the n bytes read", "LegacyPKT.ReadPacket does not return exactly the bytes one Read of the chunked body delivered")

	// --- legacy constructor: the body reader is net/http's buffered reader of the hijacked connection
	nl := c.Fn("cmd/rdpgw/transport", "NewLegacy")
	good = false
	var hj *ssa.Call
	for _, ci := range callsIn(nl) {
		if ci.Common().IsInvoke() && ci.Common().Method.Name() == "Hijack" {
			hj, _ = ci.(*ssa.Call)
		}
	}
	for _, ci := range callsTo(nl, "net/http/httputil.NewChunkedReader") {
		src := strip(arg(ci, 0))
		if b, f, ok := fieldLoad(src); ok && f.Name() == "Reader" && hj != nil && strip(b) == resultOf(hj, 1) {
			good = true
		}
	}
	c.Check(good, rule, "NewLegacy reader-source", nl.Pos(), "the chunked body is read through the bufio.Reader Hijack returned (bytes net/http already buffered are not lost)", "the legacy transport does not read the request body through the buffered reader returned by Hijack: body bytes that arrived with the request head are skipped")

	if !withWrites {
		return
	}
	// --- writes: one library write of exactly the packet given
	wp := c.Fn("cmd/rdpgw/transport", "WSPKT.WritePacket")
	good = false
	nConn := 0
	for _, ci := range callsIn(wp) {
		n := calleeName(ci)
		if strings.HasPrefix(n, "(*"+gorilla+".Conn).") && !benignConnCall(n) {
			nConn++
			if n == "(*"+gorilla+".Conn).WriteMessage" {
				k, isC := constInt(arg(ci, 0))
				good = isC && k == 2 && strip(arg(ci, 1)) == ssa.Value(wp.Params[1])
			}
		}
	}
	c.Check(good && nConn == 1, rule, "WSPKT.WritePacket whole-message", wp.Pos(), "a packet is written as one binary websocket message carrying exactly the bytes given", "WSPKT.WritePacket does not write exactly the given packet as one binary message")
	lw := c.Fn("cmd/rdpgw/transport", "LegacyPKT.WritePacket")
	good = false
	nConn = 0
	for _, ci := range callsIn(lw) {
		if ci.Common().IsInvoke() {
			if _, f, ok := fieldLoad(strip(ci.Common().Value)); ok && f.Name() == "Conn" {
				if m := ci.Common().Method.Name(); m == "RemoteAddr" || m == "LocalAddr" {
					continue
				}
				nConn++
				good = ci.Common().Method.Name() == "Write" && strip(ci.Common().Args[0]) == ssa.Value(lw.Params[1])
			}
		}
	}
	c.Check(good && nConn == 1, rule, "LegacyPKT.WritePacket direct", lw.Pos(), "a packet is written with one Write of exactly the bytes given and nothing else is done to the connection", "LegacyPKT.WritePacket does more than one Write of the given packet (e.g. arms a deadline: a timed-out write leaves a torn packet on a connection that keeps being used)")
	// --- no deadlines on client connections anywhere in the relay path
	nDl := 0
	for _, f := range c.allFirstPartyFuncs() {
		if f.Pkg == nil {
			continue
		}
		pp := f.Pkg.Pkg.Path()
		if pp != transportPkg && pp != protoPkg {
			continue
		}
		for _, ci := range callsIn(f) {
			m := ""
			if ci.Common().IsInvoke() {
				m = ci.Common().Method.Name()
			} else if cal := ci.Common().StaticCallee(); cal != nil {
				m = cal.Name()
			}
			if m == "SetDeadline" || m == "SetWriteDeadline" {
				nDl++
				c.Bad(rule, "write deadline in "+shortFn(f), ci.Pos(), "a write deadline is armed on a relay connection: Tunnel.Write ignores write errors, so a timed-out partial write is followed by the next packet (torn stream)")
			}
		}
	}
	if nDl == 0 {
		c.OKTrivial(rule, "no write deadlines", wp.Pos(), "no SetDeadline/SetWriteDeadline in the transport and protocol packages")
	}
}

// mustErr is a placeholder for symmetry (error returns are unconstrained).
func mustErr(fn *ssa.Function, r *ssa.Return, call *ssa.Call) bool { return true }

// benignConnCall: accessors of a websocket connection that neither read nor write it.
func benignConnCall(name string) bool {
	for _, m := range []string{"RemoteAddr", "LocalAddr", "Subprotocol"} {
		if name == "(*github.com/gorilla/websocket.Conn)."+m {
			return true
		}
	}
	return false
}
