package main

import (
	"fmt"
	"go/token"
	"go/types"
	"sort"
	"strings"

	"golang.org/x/tools/go/ssa"
)

func init() {
	register(&Property{
		ID:          "C09",
		Title:       "No data races or interleaved writes under concurrent use",
		DesignRef:   "DESIGN.md §3 C09",
		Technique:   "field-based lockset analysis over go/ssa with may-happen-in-parallel contexts taken from the source (handler || handler, packet loop after 'go forward' || forward, gRPC method || gRPC method): every access to a location written on a request path must hold the location's mutex (exclusive for writes), or the location is internally synchronised or written only at start-up; single-writer third-party APIs on shared receivers count as writes; Lock/Unlock pairing on all exits",
		LevelText:   "Static: (1) every package-level variable that request-serving code writes is accessed, in request-serving code, only while its mutex is held (writes under the exclusive lock); (2) every Tunnel field that both the packet loop's side and the relay goroutine's side touch, with at least one write, is accessed only under the tunnel's write mutex, and the outbound transport's writer (WritePacket) is called on the shared tunnel only under that mutex; (3) no request-serving code stores to fields of process-wide singletons (Gateway, web Handler, OIDC, proxies, auth handlers); (4) every Lock is released on all exits; (5) the legacy OUT->IN hand-off publishes the tunnel through go-cache after its last write; (6) the client connections are written by no first-party code other than Transport.WritePacket (a close frame or ping written elsewhere would bypass the tunnel mutex); (7) no function hands an object back to a sync.Pool while returning, storing or sending memory that aliases it. A lockset analysis is sound for the frozen location set and conservative for new sharing; orderings that exist only through protocol behaviour are named as such.",
		LevelNote:   "Trusted: sync.Mutex semantics, internal synchronisation of go-cache, prometheus collectors, channels. Not decided: races inside dependencies (gokrb5's randServOrder permutes the shared config slice), actual schedules. Named orderings: ntlmContext.session is shared only between requests of one NTLM session id (the client's TCP address; HTTP/1.1 requests on one connection are sequential, HTTP/2 is disabled in main).",
		Explanation: "C09/globals inventories stores, map updates and deletes through package variables in request-reachable functions and checks the lock held at every request-reachable access of those variables. C09/tunnel intersects the Tunnel fields touched from forward's call tree with those touched from Process's call tree. C09/singletons inventories stores to fields of singleton types. C09/lock-pairing pairs every Lock/RLock with its Unlock/RUnlock. C09/handoff checks the publication order in the legacy handler. C09/conn-writers is a who-may-call rule over the gorilla/websocket write family and the hijacked connection. C09/pool-alias follows values derived from a pooled object to returns, stores and sends.",
		Assumptions: []string{"HTTP/2 stays disabled (TLSNextProto set to an empty map in main), so requests on one connection are sequential"},
		Rules: []RuleDef{
			{"C09/globals", "package variables written on request paths are accessed only under their mutex (writes exclusive)", c09Globals},
			{"C09/tunnel", "Tunnel state shared between the packet loop and the relay goroutine is accessed only under the tunnel's write mutex; WritePacket on the shared tunnel only under it", c09Tunnel},
			{"C09/singletons", "no request-serving store to fields of process-wide singletons", c09Singletons},
			{"C09/lock-pairing", "every Lock/RLock is released on all exits", c09LockPairing},
			{"C09/conn-writers", "client connections are written only by Transport.WritePacket (which C09/tunnel shows runs under the tunnel's write mutex)", c09ConnWriters},
			{"C09/pool-alias", "no object is returned to a sync.Pool while memory aliasing it is returned, stored or sent", c09PoolAlias},
			{"C09/buffer-ownership", "a packet is assembled and handed on in storage of the call or the connection: no package-level buffer, no pooled buffer that the returned payload still aliases", func(c *Ctx) { packetBuffersPrivate(c, "C09/buffer-ownership") }},
			{"C09/handoff", "legacy hand-off: the OUT handler's last write precedes publication in the cache; HTTP/2 disabled", c09Handoff},
		},
	})
}

type lockHeld struct {
	key       string    // "global:<pkg>.<name>" or "field:<Type>.<name>"
	base      ssa.Value // for field mutexes: the struct the mutex belongs to
	exclusive bool
}

// mutexOf: the mutex a Lock/Unlock-style call operates on.
func mutexOf(ci ssa.CallInstruction) (key string, base ssa.Value, op string, ok bool) {
	n := calleeName(ci)
	var m string
	switch {
	case strings.HasPrefix(n, "(*sync.Mutex)."):
		m = strings.TrimPrefix(n, "(*sync.Mutex).")
	case strings.HasPrefix(n, "(*sync.RWMutex)."):
		m = strings.TrimPrefix(n, "(*sync.RWMutex).")
	default:
		return "", nil, "", false
	}
	addr := ci.Common().Args[0]
	switch a := addr.(type) {
	case *ssa.Global:
		return "global:" + a.Pkg.Pkg.Path() + "." + a.Name(), nil, m, true
	case *ssa.FieldAddr:
		b, f, _ := fieldOfAddr(a)
		t := b.Type()
		if p, ok := t.(*types.Pointer); ok {
			t = p.Elem()
		}
		// the receiver may be a parameter spilled to a local because a closure captures it: every
		// load of that local is the same object
		return "field:" + t.String() + "." + f.Name(), localVal(b), m, true
	}
	return "", nil, m, false
}

// locksHeldAt: mutexes certainly held when in executes (acquired on every path, not released since).
func locksHeldAt(fn *ssa.Function, in ssa.Instruction) []lockHeld {
	var out []lockHeld
	for _, ci := range callsIn(fn) {
		if _, isDefer := ci.(*ssa.Defer); isDefer {
			continue
		}
		key, base, op, ok := mutexOf(ci)
		if !ok || (op != "Lock" && op != "RLock") {
			continue
		}
		l := ci.(ssa.Instruction)
		if !dominatesInstr(l, in) {
			continue
		}
		// an explicit (non-deferred) unlock between the lock and the access?
		released := false
		for _, cj := range callsIn(fn) {
			if _, isDefer := cj.(*ssa.Defer); isDefer {
				continue
			}
			k2, b2, op2, ok2 := mutexOf(cj)
			if !ok2 || k2 != key || b2 != base || (op2 != "Unlock" && op2 != "RUnlock") {
				continue
			}
			u := cj.(ssa.Instruction)
			// L ... U ... in  on some path
			if (dominatesInstr(l, u) || reachableBlock(fn, l.Block(), u.Block())) && (u.Block() == in.Block() && instrIndex(u) < instrIndex(in) || u.Block() != in.Block() && reachableBlock(fn, u.Block(), in.Block())) {
				released = true
			}
		}
		if !released {
			out = append(out, lockHeld{key: key, base: base, exclusive: op == "Lock"})
		}
	}
	return out
}

type globalAccess struct {
	fn    *ssa.Function
	in    ssa.Instruction
	write bool
	what  string
}

// globalAccesses: loads/stores/map operations through a package variable (first-party, non-sync types).
func (c *Ctx) globalAccesses(fn *ssa.Function) map[*ssa.Global][]globalAccess {
	out := map[*ssa.Global][]globalAccess{}
	add := func(g *ssa.Global, in ssa.Instruction, write bool, what string) {
		if g.Pkg == nil || !strings.HasPrefix(g.Pkg.Pkg.Path(), modPath) {
			return
		}
		out[g] = append(out[g], globalAccess{fn, in, write, what})
	}
	eachInstr(fn, func(in ssa.Instruction) {
		switch x := in.(type) {
		case *ssa.Store:
			if g := addrRootGlobal(x.Addr); g != nil {
				add(g, x, true, "store")
			}
		case *ssa.UnOp:
			if x.Op == token.MUL {
				if g := addrRootGlobal(x.X); g != nil {
					// classify by use: a loaded map/slice that is updated is a write
					w, what := false, "load"
					for _, r := range *x.Referrers() {
						switch y := r.(type) {
						case *ssa.MapUpdate:
							if y.Map == ssa.Value(x) {
								w, what = true, "map update"
							}
						case *ssa.Call:
							if b, ok := y.Call.Value.(*ssa.Builtin); ok && b.Name() == "delete" && y.Call.Args[0] == ssa.Value(x) {
								w, what = true, "map delete"
							}
						}
					}
					add(g, x, w, what)
				}
			}
		}
	})
	return out
}

func isSyncType(t types.Type) bool {
	s := t.String()
	for _, p := range []string{"sync.", "*sync.", "sync/atomic.", "*github.com/patrickmn/go-cache.Cache", "github.com/prometheus/client_golang/prometheus.", "*github.com/gorilla/websocket.Upgrader", "github.com/gorilla/websocket.Upgrader", "chan "} {
		if strings.HasPrefix(s, p) {
			return true
		}
	}
	return false
}

func c09Globals(c *Ctx) {
	rule := "C09/globals"
	c.skipGenerated = true
	defer func() { c.skipGenerated = false }()
	reach := c.ReqReachable()
	acc := map[*ssa.Global][]globalAccess{}
	for _, fn := range c.allFirstPartyFuncs() {
		if !reach[fn] {
			continue
		}
		for g, as := range c.globalAccesses(fn) {
			acc[g] = append(acc[g], as...)
		}
	}
	var gs []*ssa.Global
	for g := range acc {
		gs = append(gs, g)
	}
	sort.Slice(gs, func(i, j int) bool { return gs[i].String() < gs[j].String() })
	nWritten := 0
	for _, g := range gs {
		elem := g.Type().(*types.Pointer).Elem()
		if isSyncType(elem) {
			continue
		}
		written := false
		for _, a := range acc[g] {
			if a.write {
				written = true
			}
		}
		if !written {
			continue // read-only on request paths (set at start-up)
		}
		nWritten++
		gname := strings.TrimPrefix(g.Pkg.Pkg.Path(), modPath+"/") + "." + g.Name()
		// all accesses must hold one common mutex; writes exclusively
		common := map[string]int{}
		for _, a := range acc[g] {
			for _, l := range c.locksHeldAtUp(a.fn, a.in, 0) {
				common[l.key]++
			}
		}
		var mu string
		for k, n := range common {
			if n == len(acc[g]) {
				mu = k
			}
		}
		for i, a := range acc[g] {
			key := fmt.Sprintf("%s %s in %s#%d", gname, a.what, shortFn(a.fn), i)
			held := c.locksHeldAtUp(a.fn, a.in, 0)
			ok, excl := false, false
			for _, l := range held {
				if mu != "" && l.key == mu {
					ok, excl = true, l.exclusive
				}
			}
			switch {
			case !ok:
				c.Bad(rule, key, a.in.Pos(), "package variable %s is written by request-serving code and this %s does not hold a mutex common to all its accesses: concurrent connection goroutines race on it (for a map: fatal 'concurrent map writes')", gname, a.what)
			case a.write && !excl:
				c.Bad(rule, key, a.in.Pos(), "%s of %s under a read lock only: writers are not excluded from each other", a.what, gname)
			default:
				c.OK(rule, key, a.in.Pos(), "under %s", mu)
			}
		}
	}
	c.Stat("request_written_globals", nWritten)
	c.Floor(rule, 3, "registry accesses")
}

// tunnelFieldAccesses: field accesses on *Tunnel in fn (loads, stores, and single-writer API calls on loaded fields).
type fieldAccess struct {
	fn    *ssa.Function
	in    ssa.Instruction
	field *types.Var
	base  ssa.Value
	write bool
	what  string
}

var singleWriterMethods = map[string]bool{"WritePacket": true, "WriteMessage": true, "Write": true, "WriteString": true, "Flush": true, "SetUserInfo": true, "ProcessAuthenticateMessage": true}

func fieldAccessesOf(fn *ssa.Function, structName string) []fieldAccess {
	var out []fieldAccess
	eachInstr(fn, func(in ssa.Instruction) {
		fa, ok := in.(*ssa.FieldAddr)
		if !ok {
			return
		}
		b, f, _ := fieldOfAddr(fa)
		if !typeIs(b.Type(), protoPkg, structName) {
			return
		}
		if isSyncType(f.Type()) {
			return
		}
		for _, r := range *fa.Referrers() {
			switch x := r.(type) {
			case *ssa.Store:
				if x.Addr == ssa.Value(fa) {
					out = append(out, fieldAccess{fn, x, f, b, true, "store"})
				}
			case *ssa.UnOp:
				w, what := false, "load"
				for _, rr := range *x.Referrers() {
					if call, ok := rr.(ssa.CallInstruction); ok {
						cc := call.Common()
						if cc.IsInvoke() && cc.Value == ssa.Value(x) && singleWriterMethods[cc.Method.Name()] {
							w, what = true, "call "+cc.Method.Name()+" on"
						}
					}
				}
				out = append(out, fieldAccess{fn, x, f, b, w, what})
			}
		}
	})
	return out
}

// reachFrom: first-party functions reachable from root in the call graph.
func (c *Ctx) reachFrom(root *ssa.Function) map[*ssa.Function]bool {
	cg := c.P.CallGraph()
	out := map[*ssa.Function]bool{}
	work := []*ssa.Function{root}
	for len(work) > 0 {
		f := work[len(work)-1]
		work = work[:len(work)-1]
		if out[f] || !IsFirstParty(f) {
			continue
		}
		out[f] = true
		if n := cg.Nodes[f]; n != nil {
			for _, e := range n.Out {
				work = append(work, e.Callee.Func)
			}
		}
		for _, a := range f.AnonFuncs {
			work = append(work, a)
		}
	}
	return out
}

func c09Tunnel(c *Ctx) { c09TunnelAs(c, "C09/tunnel") }

func c09TunnelAs(c *Ctx, rule string) {
	fw := c.Fn("cmd/rdpgw/protocol", "forward")
	pr := c.Fn("cmd/rdpgw/protocol", "Processor.Process")
	side := map[string]map[*ssa.Function]bool{"relay": c.reachFrom(fw), "loop": c.reachFrom(pr)}
	delete(side["loop"], fw) // forward is started, not called, by the loop
	for f := range c.reachFrom(fw) {
		if f != c.FnOpt("cmd/rdpgw/protocol", "Tunnel.Write") && f != c.FnOpt("cmd/rdpgw/protocol", "createPacket") {
			// functions only reachable through forward stay on the relay side
		}
	}
	hbFns := c.preSpawnCallbackFns(rule, pr)
	hbInstr := c.preSpawnAccesses(rule)
	acc := map[*types.Var]map[string][]fieldAccess{}
	for s, fns := range side {
		for f := range fns {
			for _, a := range fieldAccessesOf(f, "Tunnel") {
				if acc[a.field] == nil {
					acc[a.field] = map[string][]fieldAccess{}
				}
				acc[a.field][s] = append(acc[a.field][s], a)
			}
		}
	}
	var fields []*types.Var
	for f := range acc {
		fields = append(fields, f)
	}
	sort.Slice(fields, func(i, j int) bool { return fields[i].Name() < fields[j].Name() })
	nShared := 0
	for _, f := range fields {
		both := len(acc[f]["relay"]) > 0 && len(acc[f]["loop"]) > 0
		written := false
		for _, s := range []string{"relay", "loop"} {
			for _, a := range acc[f][s] {
				if a.write {
					written = true
				}
			}
		}
		if !both || !written {
			continue
		}
		nShared++
		// a field all of whose writes are ordered before the relay goroutine's start is read-only
		// while both goroutines run
		frozen := true
		for _, s := range []string{"loop", "relay"} {
			for _, a := range acc[f][s] {
				if !a.write {
					continue
				}
				if s == "relay" || side["relay"][a.fn] || !(hbInstr[a.in] || hbFns[a.fn]) {
					frozen = false
				}
			}
		}
		seen := map[ssa.Instruction]bool{}
		i := 0
		for _, s := range []string{"loop", "relay"} {
			for _, a := range acc[f][s] {
				if seen[a.in] {
					continue
				}
				seen[a.in] = true
				i++
				key := fmt.Sprintf("Tunnel.%s %s in %s#%d", f.Name(), a.what, shortFn(a.fn), i)
				held := false
				for _, l := range c.locksHeldAtUp(a.fn, a.in, 0) {
					if strings.HasPrefix(l.key, "field:"+protoPkg+".Tunnel.") && (l.base == a.base || l.base == localVal(a.base)) && l.exclusive {
						held = true
					}
				}
				// ordered exception: accesses in the loop that dominate the go statement
				if !held && a.fn == pr {
					before := true
					eachInstr(pr, func(in ssa.Instruction) {
						if g, ok := in.(*ssa.Go); ok && !dominatesInstr(a.in, g) {
							before = false
						}
					})
					if before && !inCycle(a.in.Block()) {
						c.OK(rule, key, a.in.Pos(), "before the relay goroutine is started (happens-before through the go statement)")
						continue
					}
				}
				if !held && frozen {
					c.OK(rule, key, a.in.Pos(), "the field is written only before the relay goroutine is started (typestate model: every write runs in a phase no spawn can precede); both goroutines only read it afterwards")
					continue
				}
				if !held && hbInstr[a.in] && !side["relay"][a.fn] {
					c.OK(rule, key, a.in.Pos(), "executed by the packet loop only before the relay goroutine is started (typestate model: on every path that reaches it no spawn has happened yet, and it is not reachable from a phase that follows a spawn)")
					continue
				}
				if !held && hbFns[a.fn] && !side["relay"][a.fn] {
					c.OK(rule, key, a.in.Pos(), "inside a policy callback that the packet loop consults only in phases before the relay goroutine exists (typestate model: every consultation precedes the spawn, and no phase before the spawn is re-entered after it)")
					continue
				}
				if held {
					c.OK(rule, key, a.in.Pos(), "under the tunnel's write mutex")
				} else {
					c.Bad(rule, key, a.in.Pos(), "Tunnel.%s is used by both the packet loop and the relay goroutine (with a write) and this %s does not hold the tunnel's write mutex: racy counter / interleaved packets on one client connection", f.Name(), a.what)
				}
			}
		}
	}
	c.Stat("tunnel_fields_shared_with_write", nShared)
	c.Floor(rule, 2, "transportOut and BytesSent in Tunnel.Write")
}

var singletonTypes = []struct{ pkg, name string }{
	{protoPkg, "Gateway"}, {webPkgPath, "Handler"}, {webPkgPath, "OIDC"}, {webPkgPath, "AuthMux"},
	{webPkgPath, "NTLMAuthHandler"}, {webPkgPath, "BasicAuthHandler"}, {kdcPkgPath, "KerberosProxy"},
	{ntlmPkgPath, "NTLMAuth"}, {modPath + "/cmd/auth", "AuthServiceImpl"}, {cfgPkgPath, "Configuration"},
}

func c09Singletons(c *Ctx) {
	rule := "C09/singletons"
	c.skipGenerated = true
	defer func() { c.skipGenerated = false }()
	reach := c.ReqReachable()
	n := 0
	for _, fn := range c.allFirstPartyFuncs() {
		if !reach[fn] {
			continue
		}
		eachInstr(fn, func(in ssa.Instruction) {
			s, ok := in.(*ssa.Store)
			if !ok {
				return
			}
			b, f, ok := fieldOfAddr(s.Addr)
			if !ok {
				return
			}
			for _, st := range singletonTypes {
				if typeIs(b.Type(), st.pkg, st.name) {
					// a literal being initialised is not shared yet
					if al := baseAlloc(b); al != nil && al.Parent() == fn {
						return
					}
					n++
					c.Bad(rule, fmt.Sprintf("store %s.%s in %s", st.name, f.Name(), shortFn(fn)), s.Pos(), "request-serving code writes %s.%s, a field of a process-wide singleton shared by all connection goroutines, without synchronisation", st.name, f.Name())
				}
			}
			// ntlmContext.session: ordered by the NTLM session id (named ordering)
			if typeIs(b.Type(), ntlmPkgPath, "ntlmContext") {
				c.OKTrivial(rule, fmt.Sprintf("store ntlmContext.%s in %s", f.Name(), shortFn(fn)), s.Pos(), "per-session context; requests of one NTLM session id are sequential (one TCP connection, HTTP/2 disabled)")
			}
		})
	}
	if n == 0 {
		c.OK(rule, "singleton stores", token.NoPos, "no request-reachable store to a field of %d singleton types", len(singletonTypes))
	}
}

func c09LockPairing(c *Ctx) {
	rule := "C09/lock-pairing"
	n := 0
	for _, fn := range c.allFirstPartyFuncs() {
		for _, ci := range callsIn(fn) {
			if _, isDefer := ci.(*ssa.Defer); isDefer {
				continue
			}
			key, base, op, ok := mutexOf(ci)
			if !ok || (op != "Lock" && op != "RLock") {
				continue
			}
			n++
			want := map[string]string{"Lock": "Unlock", "RLock": "RUnlock"}[op]
			okp, where := releasedOnAllExits(fn, ci.(ssa.Instruction), func(x ssa.CallInstruction) bool {
				k2, b2, op2, ok2 := mutexOf(x)
				return ok2 && k2 == key && b2 == base && op2 == want
			})
			msg := ""
			if where != nil {
				msg = " (return at " + c.P.Pos(where.Pos()) + ")"
			}
			c.Check(okp, rule, fmt.Sprintf("%s %s in %s", op, key[strings.LastIndex(key, ".")+1:], shortFn(fn)), ci.Pos(), "released by "+want+" on every exit", "a "+op+" is not followed by "+want+" on every exit"+msg+": the next connection blocks forever")
		}
	}
	c.Floor(rule, 2, "registry + Tunnel.Write (three registry sites on the pinned tree; a shared lock wrapper makes it one)")
	_ = n
}

func c09Handoff(c *Ctx) {
	rule := "C09/handoff"
	lg := c.Fn("cmd/rdpgw/protocol", "Gateway.handleLegacyProtocol")
	outF := c.FieldVar("cmd/rdpgw/protocol", "Tunnel", "transportOut")
	// the store may sit in the handler or in a helper it calls (attachLegacyOut); the publication must
	// follow it in the same function
	var store *ssa.Store
	var storeFn *ssa.Function
	for _, sf := range scopeFuncs(lg, 1) {
		if sf.Parent() != nil {
			continue
		}
		sf := sf
		eachInstr(sf, func(in ssa.Instruction) {
			if s, ok := in.(*ssa.Store); ok {
				if _, f, ok := fieldOfAddr(s.Addr); ok && f == outF {
					store, storeFn = s, sf
				}
			}
		})
	}
	if store == nil {
		c.Undecided(rule, "handleLegacyProtocol transportOut", lg.Pos(), "no store to Tunnel.transportOut")
		return
	}
	// a cache Set of the tunnel after the store, in the same branch
	pub := false
	nSet := 0
	for _, ci := range callsIn(storeFn) {
		if strings.HasSuffix(calleeName(ci), cachePkg+".cache).Set") {
			nSet++
			if dominatesInstr(store, ci.(ssa.Instruction)) && ci.Block() == store.Block() {
				pub = true
			} else if reachableBlock(storeFn, ci.Block(), store.Block()) && ci.Block() != store.Block() || ci.Block() == store.Block() && instrIndex(ci.(ssa.Instruction)) < instrIndex(store) {
				pub = false // published before the write
				nSet = -100
			}
		}
	}
	if storeFn != lg {
		// the helper's caller must not have published the tunnel before calling it
		for _, ci := range callsIn(lg) {
			if ci.Common().StaticCallee() == storeFn {
				for _, cj := range callsIn(lg) {
					if strings.HasSuffix(calleeName(cj), cachePkg+".cache).Set") && cj.Block() == ci.Block() && instrIndex(cj.(ssa.Instruction)) < instrIndex(ci.(ssa.Instruction)) {
						pub = false
					}
				}
			}
		}
	}
	pub = pub && nSet > 0
	c.Check(pub, rule, "handleLegacyProtocol publication", store.Pos(), "Tunnel.transportOut is written before the tunnel is published in the connection cache (go-cache's mutex orders the IN handler's read after it)", "the OUT handler publishes the tunnel before (or without) its last write to transportOut: the IN handler can read a half-initialised tunnel")
	// HTTP/2 disabled
	mainFn := c.Fn("cmd/rdpgw", "main")
	h2off := false
	c.eachMainInstr(func(in ssa.Instruction) {
		if s, ok := in.(*ssa.Store); ok {
			if _, f, ok := fieldOfAddr(s.Addr); ok && f.Name() == "TLSNextProto" {
				if _, isMk := s.Val.(*ssa.MakeMap); isMk {
					h2off = true
				}
			}
		}
	})
	c.Check(h2off, rule, "main http2-disabled", mainFn.Pos(), "TLSNextProto is an empty map: requests on one connection are sequential", "HTTP/2 is no longer disabled: requests of one connection (one NTLM session id) can run concurrently")
}

// c09ConnWriters: who-may-call on the client connections. gorilla/websocket allows one writer at a
// time and a hijacked net.Conn interleaves concurrent writes; the only writer of a tunnel's client
// connection once the relay runs is Transport.WritePacket, which C09/tunnel shows is called under the
// tunnel's write mutex. Any other first-party call that writes to such a connection (a close frame
// in Close(), a ping from another goroutine) bypasses that mutex.
func c09ConnWriters(c *Ctx) { c09ConnWritersAs(c, "C09/conn-writers") }

func c09ConnWritersAs(c *Ctx, rule string) {
	gorilla := "github.com/gorilla/websocket"
	writeFamily := map[string]bool{"WriteMessage": true, "WriteControl": true, "NextWriter": true, "WriteJSON": true, "WritePreparedMessage": true}
	n := 0
	for _, f := range c.allFirstPartyFuncs() {
		for _, ci := range callsIn(f) {
			name := calleeName(ci)
			if strings.HasPrefix(name, "(*"+gorilla+".Conn).") {
				m := name[strings.LastIndex(name, ".")+1:]
				if !writeFamily[m] {
					continue
				}
				n++
				sf := shortFn(f)
				c.Check(sf == "(*cmd/rdpgw/transport.WSPKT).WritePacket" || strings.HasPrefix(sf, "cmd/rdpgw/protocol.(*ClientConfig)") || strings.Contains(sf, "protocol.ClientConfig"), rule, "websocket "+m+" in "+sf, ci.Pos(),
					"the websocket is written only by WritePacket (serialised by the tunnel's write mutex)", "a websocket write ("+m+") outside WSPKT.WritePacket: it is not serialised with the relay goroutine's packet writes (gorilla/websocket panics on concurrent writers; packets interleave)")
			}
			// hijacked legacy connection: LegacyPKT.Conn.Write only in WritePacket (SendAccept/Drain use the bufio halves before the relay starts)
			if ci.Common().IsInvoke() && ci.Common().Method.Name() == "Write" {
				if _, fld, ok := fieldLoad(strip(ci.Common().Value)); ok && fld.Name() == "Conn" && fld.Pkg() != nil && fld.Pkg().Path() == transportPkg {
					n++
					sf := shortFn(f)
					c.Check(sf == "(*cmd/rdpgw/transport.LegacyPKT).WritePacket", rule, "legacy Conn.Write in "+sf, ci.Pos(), "the hijacked connection is written only by WritePacket", "the hijacked connection is written outside LegacyPKT.WritePacket: not serialised with the relay's packet writes")
				}
			}
		}
	}
	// the transports' WritePacket itself is invoked only by Tunnel.Write (which holds the write mutex)
	for _, f := range c.allFirstPartyFuncs() {
		if f.Pkg == nil || f.Pkg.Pkg.Path() != protoPkg || !c.Reachable()[f] {
			continue // the gateway's serving code only (client.go is the client side of the protocol)
		}
		for _, ci := range callsIn(f) {
			if ci.Common().IsInvoke() && ci.Common().Method.Name() == "WritePacket" {
				n++
				sf := shortFn(f)
				c.Check(sf == "(*cmd/rdpgw/protocol.Tunnel).Write", rule, "WritePacket in "+sf, ci.Pos(), "packets are written through Tunnel.Write only", "a packet is written with Transport.WritePacket outside Tunnel.Write: it is not serialised with the relay goroutine's writes on the same client connection (on websocket both legs are one connection)")
			}
		}
	}
	c.Floor(rule, 3, "WSPKT.WritePacket, LegacyPKT.WritePacket, Tunnel.Write")
	_ = n
}

// c09PoolAlias: an object handed back to a sync.Pool must not stay referenced: a function that Puts
// (or defers the Put of) an object and returns, stores or sends something that aliases it lets two
// goroutines use the same memory (the classic pooled-buffer race).
func c09PoolAlias(c *Ctx) {
	rule := "C09/pool-alias"
	n := 0
	for _, f := range c.allFirstPartyFuncs() {
		for _, ci := range callsIn(f) {
			if calleeName(ci) != "(*sync.Pool).Put" {
				continue
			}
			n++
			obj := strip(arg(ci, 0))
			// values that alias the pooled object: the object itself, slices of it, results of its methods
			// that hand out internal storage (slices, pointers, maps)
			aliases := map[ssa.Value]bool{obj: true}
			eachInstr(f, func(in ssa.Instruction) {
				switch x := in.(type) {
				case *ssa.Slice:
					if strip(x.X) == obj {
						aliases[x] = true
					}
				case *ssa.Call:
					if len(x.Call.Args) > 0 && strip(x.Call.Args[0]) == obj && !x.Call.IsInvoke() || x.Call.IsInvoke() && strip(x.Call.Value) == obj {
						switch x.Type().Underlying().(type) {
						case *types.Slice, *types.Pointer, *types.Map:
							aliases[x] = true
						}
					}
				}
			})
			// the Get the object came from: a value with the same origin is the same object
			objFrom := map[ssa.Value]bool{}
			for _, o := range c.bufOrigins(obj) {
				if o.Kind == "call" && o.Call != nil && calleeName(o.Call) == "(*sync.Pool).Get" {
					objFrom[o.Value] = true
				}
			}
			escapes := ""
			eachInstr(f, func(in ssa.Instruction) {
				switch x := in.(type) {
				case *ssa.Return:
					for _, r := range x.Results {
						if aliases[strip(unspill(r))] {
							escapes = "returned"
						}
						for _, o := range c.bufOrigins(r) {
							if o.Value != nil && (aliases[strip(o.Value)] || objFrom[o.Value]) {
								escapes = "returned"
							}
						}
					}
				case *ssa.Store:
					if aliases[strip(x.Val)] {
						if _, isAlloc := x.Addr.(*ssa.Alloc); !isAlloc {
							escapes = "stored"
						}
					}
				case *ssa.Send:
					if aliases[strip(x.X)] {
						escapes = "sent on a channel"
					}
				}
			})
			c.Check(escapes == "", rule, "Pool.Put in "+shortFn(f), ci.Pos(), "nothing that aliases the pooled object outlives the Put", "the object is handed back to the pool while memory that aliases it is "+escapes+": the next Get (another tunnel's goroutine) overwrites bytes that are still being written to a client")
		}
	}
	if n == 0 {
		c.OKTrivial(rule, "no sync.Pool", token.NoPos, "first-party code recycles no objects through sync.Pool")
	}
}

// preSpawnCallbackFns: the functions that run only inside a policy callback of the Gateway
// (CheckPAACookie, CheckClientName, CheckHost) which, by the typestate model of the packet loop, is
// consulted only before the relay goroutine of the tunnel can exist: on every path of the model the
// consultation precedes any spawn, starts in a phase that is never re-entered after a spawn, and
// the function is not reachable from the loop by any other call edge. Accesses in them
// happen-before everything the relay goroutine does (the go statement orders them).
func (c *Ctx) preSpawnCallbackFns(rule string, pr *ssa.Function) map[*ssa.Function]bool {
	out := map[*ssa.Function]bool{}
	m := c.ProcessModel(rule)
	if m == nil {
		return out
	}
	// phases reachable without a spawn, and phases reachable after one
	pre := map[int64]bool{m.Init: true}
	for changed := true; changed; {
		changed = false
		for _, p := range m.Paths {
			if !pre[p.Start] || p.Has("SPAWN") {
				continue
			}
			for _, e := range p.All("SET") {
				if !pre[e.Int] {
					pre[e.Int], changed = true, true
				}
			}
		}
	}
	post := map[int64]bool{}
	for _, p := range m.Paths {
		if p.Has("SPAWN") {
			post[p.End] = true
			for _, e := range p.All("SET") {
				post[e.Int] = true
			}
		}
	}
	for changed := true; changed; {
		changed = false
		for _, p := range m.Paths {
			if !post[p.Start] {
				continue
			}
			if !post[p.End] {
				post[p.End], changed = true, true
			}
			for _, e := range p.All("SET") {
				if !post[e.Int] {
					post[e.Int], changed = true, true
				}
			}
		}
	}
	okCb := map[string]bool{}
	sites := map[ssa.Instruction]string{}
	for _, p := range m.Paths {
		spawned := false
		for _, e := range p.Effects {
			switch e.Kind {
			case "SPAWN":
				spawned = true
			case "CHECK":
				sites[e.Instr] = e.Name
				if _, seen := okCb[e.Name]; !seen {
					okCb[e.Name] = true
				}
				if spawned || !pre[p.Start] || post[p.Start] {
					okCb[e.Name] = false
				}
			}
		}
	}
	cg := c.P.CallGraph()
	walk := func(roots []*ssa.Function, skipCb bool) map[*ssa.Function]bool {
		seen := map[*ssa.Function]bool{}
		work := append([]*ssa.Function(nil), roots...)
		for len(work) > 0 {
			f := work[len(work)-1]
			work = work[:len(work)-1]
			if f == nil || seen[f] || !IsFirstParty(f) {
				continue
			}
			seen[f] = true
			if n := cg.Nodes[f]; n != nil {
				for _, e := range n.Out {
					if skipCb && e.Site != nil {
						if _, isCb := sites[e.Site.(ssa.Instruction)]; isCb {
							continue
						}
					}
					work = append(work, e.Callee.Func)
				}
			}
			for _, a := range f.AnonFuncs {
				work = append(work, a)
			}
		}
		return seen
	}
	direct := walk([]*ssa.Function{pr}, true)
	var good, bad []*ssa.Function
	for f := range direct {
		if n := cg.Nodes[f]; n != nil {
			for _, e := range n.Out {
				if e.Site == nil {
					continue
				}
				if name, isCb := sites[e.Site.(ssa.Instruction)]; isCb {
					if okCb[name] {
						good = append(good, e.Callee.Func)
					} else {
						bad = append(bad, e.Callee.Func)
					}
				}
			}
		}
	}
	badSet := walk(bad, false)
	for f := range walk(good, false) {
		if !direct[f] && !badSet[f] {
			out[f] = true
		}
	}
	return out
}

// modelPhases: the phases reachable without any spawn (pre) and the phases reachable after one (post).
func modelPhases(m *Model) (pre, post map[int64]bool) {
	pre = map[int64]bool{m.Init: true}
	for changed := true; changed; {
		changed = false
		for _, p := range m.Paths {
			if !pre[p.Start] || p.Has("SPAWN") {
				continue
			}
			for _, e := range p.All("SET") {
				if !pre[e.Int] {
					pre[e.Int], changed = true, true
				}
			}
		}
	}
	post = map[int64]bool{}
	for _, p := range m.Paths {
		if p.Has("SPAWN") {
			post[p.End] = true
			for _, e := range p.All("SET") {
				post[e.Int] = true
			}
		}
	}
	for changed := true; changed; {
		changed = false
		for _, p := range m.Paths {
			if !post[p.Start] {
				continue
			}
			if !post[p.End] {
				post[p.End], changed = true, true
			}
			for _, e := range p.All("SET") {
				if !post[e.Int] {
					post[e.Int], changed = true, true
				}
			}
		}
	}
	return pre, post
}

// preSpawnAccesses: the field loads and stores of the packet loop (and of the helpers the model
// inlines) that, on every path of the typestate model on which they execute, run in a phase that no
// spawn can precede and before any spawn of that path. The go statement orders them before
// everything the relay goroutine does.
func (c *Ctx) preSpawnAccesses(rule string) map[ssa.Instruction]bool {
	out := map[ssa.Instruction]bool{}
	m := c.ProcessModel(rule)
	if m == nil {
		return out
	}
	pre, post := modelPhases(m)
	bad := map[ssa.Instruction]bool{}
	for _, p := range m.Paths {
		for _, a := range p.Mem {
			if a.AfterSpawns > 0 || !pre[p.Start] || post[p.Start] {
				bad[a.Instr] = true
			} else {
				out[a.Instr] = true
			}
		}
	}
	for in := range bad {
		delete(out, in)
	}
	return out
}
