package main

import (
	"fmt"
	"go/token"
	"go/types"
	"strings"

	"golang.org/x/tools/go/ssa"
)

const protoPkg = modPath + "/cmd/rdpgw/protocol"

func init() {
	register(&Property{
		ID:          "C01",
		Title:       "No backend connection or relay before the full authorization sequence",
		DesignRef:   "DESIGN.md §3 C01",
		Technique:   "typestate path model of the packet loop over go/ssa (constant propagation on Processor.state, all acyclic paths x all reachable states) + who-may-write/call inventories + dominance rules on main's wiring",
		LevelText:   "Static: the transition relation of the real packet loop is extracted from go/ssa for every reachable value of Processor.state and every packet type, and compared with the MS-TSGU phase table: dial/relay/spawn only in the right phase after the host check, success responses only from the exact predecessor phase followed by the successor store, every error response or out-of-order packet ends the loop, at most one dial per processor. Inventories show state is written only by NewProcessor/Process, a processor runs Process once, client packets are read only by Process, and main wires CheckHost on all paths (CheckPAACookie under the token switch). Decides the loop's control structure for all packet histories; library calls are trusted.",
		LevelNote:   "Trusted: go/ssa construction, net.DialTimeout connecting where told, the parse helpers not touching Processor.state (checked by the who-may-write inventory). Not covered: a second transport re-attaching to a cached legacy Tunnel with the same connection id (outside the quantifier).",
		Explanation: "Model A3: each acyclic SSA path of one loop iteration of (*Processor).Process is abstracted to (start state, packet type, branch decisions, effects RESP/CHECK/DIAL/SPAWN/RELAY/SET, exit); comparisons on Processor.state are evaluated concretely per abstract state; a fixpoint gives the states reachable at the loop head. Each (state, path) is one obligation checked against the phase table. Further rules: who-may-write Processor.state; NewProcessor call sites followed by exactly one Process call outside any loop; readers of the inbound transport; all net.Dial* call sites; main stores CheckHost on every path before the handler is registered.",
		Assumptions: []string{
			"one goroutine runs Process per Processor (checked: one Process call per NewProcessor, not in a loop, no go statement on it)",
			"library calls behave as documented (DialTimeout, transports)",
		},
		Rules: []RuleDef{
			{"C01/state-owner", "Processor.state written only by NewProcessor/Process; one Process per processor; client packets read only via Tunnel.Read<-Process", c01StateOwner},
			{"C01/typestate", "every (state, packet type, path) of the loop agrees with the MS-TSGU phase table", c01Typestate},
			{"C01/dial-owner", "the only first-party network dials are the one in Process, the KDC proxy's and the unix-socket dials of the auth client", c01DialOwner},
			{"C01/wiring", "main stores CheckHost on every path before registering the gateway handler; CheckPAACookie and the session wrapper under the token-auth switch", func(c *Ctx) { wiringRule(c, "C01/wiring") }},
			{"C01/legacy-claim", "the legacy IN leg claims the tunnel (stores transportIn) before any I/O on the new connection, so a second IN request for the same connection id cannot start a second packet loop", c01LegacyClaim},
		},
	})
}

// phase table (names resolved to the repository's constants at run time)
type phaseRow struct {
	req, pred, resp, succ string
}

var phaseTable = []phaseRow{
	{"PKT_TYPE_HANDSHAKE_REQUEST", "SERVER_STATE_INITIALIZED", "PKT_TYPE_HANDSHAKE_RESPONSE", "SERVER_STATE_HANDSHAKE"},
	{"PKT_TYPE_TUNNEL_CREATE", "SERVER_STATE_HANDSHAKE", "PKT_TYPE_TUNNEL_RESPONSE", "SERVER_STATE_TUNNEL_CREATE"},
	{"PKT_TYPE_TUNNEL_AUTH", "SERVER_STATE_TUNNEL_CREATE", "PKT_TYPE_TUNNEL_AUTH_RESPONSE", "SERVER_STATE_TUNNEL_AUTHORIZE"},
	{"PKT_TYPE_CHANNEL_CREATE", "SERVER_STATE_TUNNEL_AUTHORIZE", "PKT_TYPE_CHANNEL_RESPONSE", "SERVER_STATE_CHANNEL_CREATE"},
	{"PKT_TYPE_CLOSE_CHANNEL", "SERVER_STATE_OPENED", "PKT_TYPE_CLOSE_CHANNEL_RESPONSE", "SERVER_STATE_CLOSED"},
}

type phase struct {
	req, pred, resp, succ int64
	name                  string
}

func (c *Ctx) phases() (rows map[int64]phase, chCreate, opened, closed, data, keepalive int64) {
	k := func(n string) int64 { return c.ConstInt("cmd/rdpgw/protocol", n) }
	rows = map[int64]phase{}
	for _, r := range phaseTable {
		rows[k(r.req)] = phase{k(r.req), k(r.pred), k(r.resp), k(r.succ), r.req}
	}
	return rows, k("SERVER_STATE_CHANNEL_CREATE"), k("SERVER_STATE_OPENED"), k("SERVER_STATE_CLOSED"), k("PKT_TYPE_DATA"), k("PKT_TYPE_KEEPALIVE")
}

func c01Typestate(c *Ctx) {
	rule := "C01/typestate"
	m := c.ProcessModel(rule)
	if m == nil {
		return
	}
	rows, chCreate, opened, closed, dataT, keepT := c.phases()
	closeReq := c.ConstInt("cmd/rdpgw/protocol", "PKT_TYPE_CLOSE_CHANNEL")
	chReq := c.ConstInt("cmd/rdpgw/protocol", "PKT_TYPE_CHANNEL_CREATE")
	tcReq := c.ConstInt("cmd/rdpgw/protocol", "PKT_TYPE_TUNNEL_CREATE")
	authz := c.ConstInt("cmd/rdpgw/protocol", "SERVER_STATE_TUNNEL_AUTHORIZE")

	// the phase names stand for different phases: two state constants with one value make a guard
	// written against the one also admit the other (a second channel create while in CHANNEL_CREATE)
	for _, pfx := range []string{"SERVER_STATE_", "PKT_TYPE_"} {
		dup := c.duplicateConsts("cmd/rdpgw/protocol", pfx)
		c.Check(len(dup) == 0, rule, pfx+"* distinct", m.Fn.Pos(), "the constants have pairwise different values", fmt.Sprintf("constants with the same value: %s; a phase guard on one of them also lets the other through", strings.Join(dup, ", ")))
	}

	// 5. reachable loop-head states: exactly the chain INITIALIZED..OPENED
	want := map[int64]bool{}
	for _, r := range rows {
		if r.pred != opened || true {
			want[r.pred] = true
		}
	}
	want[chCreate] = true
	got := map[int64]bool{}
	for _, s := range m.Reachable {
		got[s] = true
	}
	okStates := len(got) == len(want)
	for s := range want {
		if !got[s] {
			okStates = false
		}
	}
	if got[closed] {
		okStates = false
	}
	c.Check(okStates, rule, "Process reachable-states", m.Fn.Pos(),
		fmt.Sprintf("states reachable at the loop head are exactly %v (initial %d)", m.Reachable, m.Init),
		fmt.Sprintf("states reachable at the loop head are %v; expected exactly the chain INITIALIZED..OPENED %v and never CLOSED", m.Reachable, sortedInts(want)))
	if m.Init != c.ConstInt("cmd/rdpgw/protocol", "SERVER_STATE_INITIALIZED") {
		c.Bad(rule, "NewProcessor initial-state", m.Fn.Pos(), "a new processor starts in state %d, not SERVER_STATE_INITIALIZED", m.Init)
	}
	// every handled request type has a case
	for t, r := range rows {
		found := false
		for _, h := range m.Handled {
			if h == t {
				found = true
			}
		}
		if !found {
			c.Bad(rule, "Process case "+r.name, m.Fn.Pos(), "no case handles %s", r.name)
		}
	}

	for _, p := range m.Paths {
		key := p.Key()
		var bad []string
		add := func(f string, a ...any) { bad = append(bad, fmt.Sprintf(f, a...)) }
		resps := p.Responses()
		row, isReq := rows[p.Pkt]
		accepted := false

		// success responses
		for _, r := range resps {
			if r.Status == 0 {
				if !isReq {
					add("success response %s for packet type %s which has no response in the phase table", r.Name, pktName(p.Pkt))
					continue
				}
				if p.Start != row.pred {
					add("success response to %s from state %d (only state %d may accept it)", row.name, p.Start, row.pred)
				}
				if r.PktType != row.resp {
					add("success response for %s has packet type %#x, expected %#x", row.name, r.PktType, row.resp)
				}
				accepted = true
			}
		}
		nSucc := 0
		for _, r := range resps {
			if r.Status == 0 {
				nSucc++
			}
		}
		if nSucc > 1 {
			add("more than one success response on one packet")
		}
		// error responses end the tunnel without changing state
		for _, r := range resps {
			if r.Status != 0 {
				if p.Exit != "return" {
					add("error response %s(%#x) but the loop continues", r.Name, uint32(r.Status))
				}
				if isReq && r.PktType != row.resp {
					add("error response for %s has packet type %#x, expected %#x", row.name, r.PktType, row.resp)
				}
				if accepted {
					add("both a success and an error response on one packet")
				}
			}
		}
		// state changes
		sets := p.All("SET")
		switch {
		case accepted:
			if len(sets) != 1 || sets[0].Int != row.succ {
				add("accepted %s must advance the state to %d exactly once (stores: %d)", row.name, row.succ, len(sets))
			} else if p.Index("SET") < indexOfSuccess(p) {
				add("state advanced before the success response was written")
			}
			if p.Pkt == closeReq {
				if p.Exit != "return" {
					add("channel close accepted but the loop continues")
				}
			} else if p.Exit != "loop" {
				add("accepted %s but the loop ends", row.name)
			}
		case p.Pkt == dataT && (p.Start == chCreate || p.Start == opened) && (p.Exit == "loop" || p.Exit == "return" && !p.RetNil):
			// (a DATA packet whose relay to the host fails may end the tunnel with an error: the
			// processor is not used again, C01/state-owner)
			for _, s := range sets {
				if s.Int != opened {
					add("DATA moves the state to %d", s.Int)
				}
			}
		default:
			if len(sets) > 0 {
				add("state changed to %d on a path that did not accept a request", sets[0].Int)
			}
		}
		// out-of-order handled packets end the tunnel
		if isReq && p.Start != row.pred && p.Exit != "return" {
			add("%s in state %d does not end the tunnel", row.name, p.Start)
		}
		if (p.Pkt == dataT || p.Pkt == keepT) && p.Start < chCreate && p.Exit != "return" {
			add("%s before the channel exists (state %d) does not end the tunnel", pktName(p.Pkt), p.Start)
		}
		// refused callbacks end the tunnel
		for _, e := range p.All("CHECK") {
			if e.Decided && !e.Passed {
				if p.Exit != "return" || accepted {
					add("%s refused but the request is accepted or the loop continues", e.Name)
				}
			}
		}
		// 1. dial
		dials := p.All("DIAL")
		if len(dials) > 1 {
			add("more than one dial on one packet")
		}
		for _, d := range dials {
			if p.Start != authz || p.Pkt != chReq {
				add("dial in state %d on packet %s (only CHANNEL_CREATE in state TUNNEL_AUTHORIZE may dial)", p.Start, pktName(p.Pkt))
			}
			if p.CallbackNonNil("CheckHost") {
				chk := p.Check("CheckHost")
				if chk == nil || !chk.Decided || !chk.Passed || indexOfEffect(p, chk) > indexOfEffect(p, d) {
					add("dial without a preceding accepted CheckHost although the callback is configured")
				}
			}
		}
		// 2. relay / spawn
		for _, e := range p.All("RELAY") {
			if !(p.Pkt == dataT && (p.Start == chCreate || p.Start == opened)) {
				add("payload relayed (%s) in state %d on packet %s", e.Name, p.Start, pktName(p.Pkt))
			}
		}
		for _, e := range p.All("SPAWN") {
			if len(dials) != 1 || indexOfEffect(p, dials[0]) > indexOfEffect(p, e) || !accepted {
				add("goroutine %s started without a successful dial on the same accepted channel request", e.Name)
			}
		}
		// 6. cookie
		if accepted && p.Pkt == tcReq && p.CallbackNonNil("CheckPAACookie") {
			chk := p.Check("CheckPAACookie")
			if chk == nil || !chk.Decided || !chk.Passed {
				add("tunnel creation accepted without an accepted cookie although the cookie callback is configured")
			}
		}
		// unknown packets: no effect
		if p.Pkt == -1 {
			if len(resps)+len(dials)+len(sets)+len(p.All("RELAY"))+len(p.All("SPAWN")) > 0 {
				add("unknown packet type has protocol effects")
			}
		}
		// read error ends the loop
		if p.Pkt == -2 && p.Exit != "return" {
			add("a failed read does not end the loop")
		}
		if len(bad) == 0 {
			c.OK(rule, key, p.Pos, "%s", p.Describe())
		} else {
			pos := p.Pos
			if len(p.Effects) > 0 && p.Effects[len(p.Effects)-1].Instr != nil {
				pos = p.Effects[len(p.Effects)-1].Instr.Pos()
			}
			c.Bad(rule, key, pos, "%s; path: %s", strings.Join(bad, "; "), p.Describe())
		}
	}
	c.Stat("paths", len(m.Paths))
	c.Stat("states", len(m.Reachable))
	c.Floor(rule, 40, "6 states x 8 packet classes")
}

func indexOfSuccess(p *MPath) int {
	for i, e := range p.Effects {
		if e.Kind == "RESP" && e.Status == 0 {
			return i
		}
	}
	return -1
}

func indexOfEffect(p *MPath, e *Effect) int {
	for i, x := range p.Effects {
		if x == e {
			return i
		}
	}
	return -1
}

func sortedInts(m map[int64]bool) []int64 {
	var out []int64
	for k := range m {
		out = append(out, k)
	}
	for i := range out {
		for j := i + 1; j < len(out); j++ {
			if out[j] < out[i] {
				out[i], out[j] = out[j], out[i]
			}
		}
	}
	return out
}

// inCycle: the block can reach itself.
func inCycle(b *ssa.BasicBlock) bool {
	seen := map[*ssa.BasicBlock]bool{}
	work := append([]*ssa.BasicBlock(nil), b.Succs...)
	for len(work) > 0 {
		x := work[0]
		work = work[1:]
		if x == b {
			return true
		}
		if seen[x] {
			continue
		}
		seen[x] = true
		work = append(work, x.Succs...)
	}
	return false
}

func c01StateOwner(c *Ctx) {
	rule := "C01/state-owner"
	stateF := c.FieldVar("cmd/rdpgw/protocol", "Processor", "state")
	allowed := map[string]bool{"cmd/rdpgw/protocol.NewProcessor": true, "(*cmd/rdpgw/protocol.Processor).Process": true}
	nWrites := 0
	for _, fn := range c.allFirstPartyFuncs() {
		eachInstr(fn, func(in ssa.Instruction) {
			switch x := in.(type) {
			case *ssa.Store:
				if _, f, ok := fieldOfAddr(x.Addr); ok && f == stateF {
					nWrites++
					if allowed[shortFn(fn)] {
						c.OK(rule, "write state in "+shortFn(fn), x.Pos(), "allowed writer")
					} else if c.onlyCalledFromAny(fn, map[string]bool{"(*cmd/rdpgw/protocol.Processor).Process": true}, 0) {
						// a helper that only Process calls (statically): the typestate model inlines it,
						// so the transition it makes is part of the model (or the model is undecided)
						c.OK(rule, "write state in "+shortFn(fn), x.Pos(), "helper called only from Process; inlined by the typestate model")
					} else {
						c.Bad(rule, "write state in "+shortFn(fn), x.Pos(), "Processor.state is written outside NewProcessor/Process: the typestate model no longer covers all transitions")
					}
				}
			case *ssa.FieldAddr:
				// address of state escaping anywhere but a direct load/store
				if _, f, ok := fieldOfAddr(x); ok && f == stateF {
					for _, r := range *x.Referrers() {
						switch rr := r.(type) {
						case *ssa.Store:
							if rr.Addr != x {
								c.Bad(rule, "state address escapes in "+shortFn(fn), x.Pos(), "&Processor.state is stored")
							}
						case *ssa.UnOp:
						case *ssa.DebugRef:
						default:
							c.Bad(rule, "state address escapes in "+shortFn(fn), x.Pos(), "&Processor.state is used by %T", r)
						}
					}
				}
			}
		})
	}
	// NewProcessor call sites
	procName := "(*" + protoPkg + ".Processor).Process"
	nSites := 0
	for _, fn := range c.allFirstPartyFuncs() {
		for _, ci := range callsTo(fn, protoPkg+".NewProcessor") {
			nSites++
			k := "NewProcessor in " + shortFn(fn)
			call, _ := ci.(*ssa.Call)
			if call == nil {
				c.Bad(rule, k, ci.Pos(), "processor created in a go/defer statement")
				continue
			}
			var procCalls []ssa.Instruction
			okUse := true
			for _, r := range *call.Referrers() {
				switch x := r.(type) {
				case *ssa.Call:
					n := calleeName(x)
					if n == procName && recvOf(x) == ssa.Value(call) {
						procCalls = append(procCalls, x)
					} else if n == protoPkg+".RegisterTunnel" {
					} else {
						okUse = false
					}
				case *ssa.DebugRef:
				case *ssa.Go, *ssa.Defer:
					okUse = false
				default:
					okUse = false
				}
			}
			switch {
			case !okUse:
				c.Bad(rule, k, ci.Pos(), "the processor is used other than by one Process call and the registry (second loop, goroutine or alias possible)")
			case len(procCalls) != 1:
				c.Bad(rule, k, ci.Pos(), "a processor must run Process exactly once; found %d calls", len(procCalls))
			case inCycle(procCalls[0].Block()) || inCycle(call.Block()):
				c.Bad(rule, k, ci.Pos(), "processor creation or its Process call sits in a loop")
			case !dominatesInstr(call, procCalls[0]):
				c.Bad(rule, k, ci.Pos(), "Process call not dominated by the creation")
			default:
				c.OK(rule, k, ci.Pos(), "created once, Process called once at %s, straight-line", c.P.Pos(procCalls[0].Pos()))
			}
		}
	}
	// who reads client packets
	readName := "(*" + protoPkg + ".Tunnel).Read"
	reach := c.Reachable()
	for _, fn := range c.allFirstPartyFuncs() {
		if !reach[fn] {
			// e.g. the protocol client role (client.go), which no serving code references
			c.Stat("functions_outside_serving_path", 1)
			continue
		}
		for _, ci := range callsIn(fn) {
			n := calleeName(ci)
			sf := shortFn(fn)
			switch {
			case n == readName:
				c.Check(sf == "(*cmd/rdpgw/protocol.Processor).Process", rule, "Tunnel.Read in "+sf, ci.Pos(), "packets are read by the packet loop", "client packets are read outside the packet loop: they bypass the phase checks")
			case n == protoPkg+".readMessage":
				c.Check(sf == "(*cmd/rdpgw/protocol.Tunnel).Read", rule, "readMessage in "+sf, ci.Pos(), "only Tunnel.Read frames packets", "readMessage is called outside Tunnel.Read")
			case strings.HasSuffix(n, "transport.Transport).ReadPacket"):
				okRd := sf == "cmd/rdpgw/protocol.readMessage" || c.onlyCalledFromAny(fn, map[string]bool{"cmd/rdpgw/protocol.readMessage": true}, 0)
				c.Check(okRd, rule, "ReadPacket in "+sf, ci.Pos(), "only readMessage (or a helper only it calls) reads the inbound transport", "the inbound transport is read outside readMessage")
			}
		}
	}
	if nWrites == 0 {
		c.Note("no explicit store to Processor.state found in NewProcessor (zero value)")
	}
	c.Floor(rule, 5, "state writers, creation sites (two on the pinned tree, one when both handlers share a helper), 3 readers")
	if nSites < 1 {
		c.Undecided(rule, "NewProcessor sites", token.NoPos, "no NewProcessor call site found")
	}
}

func c01DialOwner(c *Ctx) {
	rule := "C01/dial-owner"
	n := 0
	for _, fn := range c.allFirstPartyFuncs() {
		for _, ci := range callsIn(fn) {
			name := calleeName(ci)
			isDial := strings.HasPrefix(name, "net.Dial") || strings.HasPrefix(name, "(*net.Dialer).Dial") || strings.HasPrefix(name, "crypto/tls.Dial") || strings.HasPrefix(name, "(*crypto/tls.Dialer).Dial")
			if !isDial {
				continue
			}
			n++
			sf := shortFn(fn)
			k := name + " in " + sf
			netw, isConst := constString(arg(ci, 0))
			if strings.Contains(name, ".Dialer).DialContext") {
				netw, isConst = constString(arg(ci, 1)) // (ctx, network, address)
			}
			switch {
			case sf == "(*cmd/rdpgw/protocol.Processor).Process" || c.onlyCalledFrom(fn, c.Fn("cmd/rdpgw/protocol", "Processor.Process"), 0):
				c.OK(rule, k, ci.Pos(), "the backend dial of the packet loop (governed by C01/typestate, which inlines the loop's helpers)")
			case sf == "(*cmd/rdpgw/kdcproxy.KerberosProxy).forward":
				c.OK(rule, k, ci.Pos(), "KDC proxy dial (reachable only from the KDC proxy handler; C20)")
			case isConst && netw == "unix":
				c.OK(rule, k, ci.Pos(), "unix-socket dial to the local authentication service")
			default:
				c.Bad(rule, k, ci.Pos(), "network dial outside the packet loop and the KDC proxy: a backend connection can be opened without the authorization sequence")
			}
		}
	}
	c.Floor(rule, 3, "Process, kdcproxy.forward, auth client")
}

// structInitStores: field stores that initialise the struct at alloc, including a
// composite literal copied into it as a whole.
func structInitStores(alloc ssa.Value) map[string][]*ssa.Store {
	out := map[string][]*ssa.Store{}
	collect := func(a ssa.Value) {
		if a.Referrers() == nil {
			return
		}
		for _, r := range *a.Referrers() {
			if fa, ok := r.(*ssa.FieldAddr); ok && fa.X == a {
				_, f, _ := fieldOfAddr(fa)
				for _, rr := range *fa.Referrers() {
					if s, ok := rr.(*ssa.Store); ok && s.Addr == fa {
						out[f.Name()] = append(out[f.Name()], s)
					}
				}
			}
		}
	}
	collect(alloc)
	for _, src := range copiedFrom(alloc) {
		collect(src)
	}
	return out
}

// copiedFrom: the struct storage whose content is copied into alloc as a whole: a literal
// assigned to the variable, or the local that a first-party constructor function fills and returns
// by value (gw := newGateway()).
func copiedFrom(alloc ssa.Value) []ssa.Value {
	var out []ssa.Value
	if alloc.Referrers() == nil {
		return nil
	}
	for _, r := range *alloc.Referrers() {
		s, ok := r.(*ssa.Store)
		if !ok || s.Addr != alloc {
			continue
		}
		if src, ok := loadAddr(s.Val); ok {
			out = append(out, src)
			continue
		}
		if call, ok := strip(s.Val).(*ssa.Call); ok {
			if h := call.Call.StaticCallee(); h != nil && IsFirstParty(h) && h.Blocks != nil {
				for _, ret := range returnsOf(h) {
					if len(ret.Results) == 1 {
						if src, ok := loadAddr(strip(unspill(ret.Results[0]))); ok {
							out = append(out, src)
						}
					}
				}
			}
		}
	}
	return out
}

// reachWithoutMarker: target can be reached from the entry without executing an instruction accepted by marker.
func reachWithoutMarker(fn *ssa.Function, target ssa.Instruction, marker func(ssa.Instruction) bool) bool {
	return reachFromWithoutMarkerAvoiding(fn.Blocks[0], target, marker, nil)
}

// confFieldPath: v is a load of <global conf>.A.B...; returns "A.B".
func confFieldPath(v ssa.Value) (string, bool) {
	// main's package variable conf, also when a start-up helper is handed (a pointer to) it
	return confVarPath(v, "conf")
}

func wiringRule(c *Ctx, rule string) {
	mainFn := c.Fn("cmd/rdpgw", "main")
	// the Gateway whose bound method is registered
	var gw ssa.Value
	var regs []*ssa.MakeClosure
	c.eachMainInstr(func(in ssa.Instruction) {
		mc, ok := in.(*ssa.MakeClosure)
		if !ok {
			return
		}
		f := mc.Fn.(*ssa.Function)
		if f.Synthetic != "" && strings.HasPrefix(f.Name(), "HandleGatewayProtocol$bound") && len(mc.Bindings) == 1 {
			regs = append(regs, mc)
			if gw == nil {
				gw = c.upOne(mc.Bindings[0])
			} else if gw != c.upOne(mc.Bindings[0]) {
				c.Bad(rule, "main gateway-identity", mc.Pos(), "handlers are registered on different Gateway values")
			}
		}
	})
	if gw == nil {
		c.Missing("no bound gw.HandleGatewayProtocol in main")
	}
	init := structInitStores(gw)
	gwSet := map[ssa.Value]bool{gw: true}
	for _, src := range copiedFrom(gw) {
		gwSet[src] = true
	}
	isStoreTo := func(field string) func(ssa.Instruction) bool {
		return func(in ssa.Instruction) bool {
			s, ok := in.(*ssa.Store)
			if !ok {
				return false
			}
			b, f, ok := fieldOfAddr(s.Addr)
			return ok && gwSet[b] && f.Name() == field
		}
	}
	for i, r := range regs {
		k := fmt.Sprintf("main registration#%d", i)
		if reachWithoutMarker(mainFn, r, isStoreTo("CheckHost")) {
			c.Bad(rule, k+" CheckHost", r.Pos(), "the gateway handler can be registered on a path on which Gateway.CheckHost was never set: channels would be created without a host policy check")
		} else {
			c.OK(rule, k+" CheckHost", r.Pos(), "every path to this registration stores Gateway.CheckHost")
		}
	}
	// what is stored
	secPkg := modPath + "/cmd/rdpgw/security"
	tokenCondOK := func(s *ssa.Store, wantBranch bool) bool {
		g := GTrue(func(v ssa.Value) bool { p, ok := confFieldPath(v); return ok && p == "Caps.TokenAuth" })
		if !wantBranch {
			g = GFalse(func(v ssa.Value) bool { p, ok := confFieldPath(v); return ok && p == "Caps.TokenAuth" })
		}
		ok, _ := mustPass(s.Parent(), s, g) // the store may sit in a constructor helper of main
		return ok
	}
	nHost := 0
	for _, s := range init["CheckHost"] {
		nHost++
		v := strip(s.Val)
		if f, ok := v.(*ssa.Function); ok && fnName(f) == secPkg+".CheckHost" {
			if tokenCondOK(s, false) {
				c.OK(rule, "main CheckHost plain", s.Pos(), "without token auth the policy check is security.CheckHost")
			} else {
				c.Bad(rule, "main CheckHost plain", s.Pos(), "security.CheckHost is installed without the session wrapper on a path where token authentication may be on")
			}
			continue
		}
		if call, ok := v.(*ssa.Call); ok && calleeName(call) == secPkg+".CheckSession" {
			if inner, ok := strip(arg(call, 0)).(*ssa.Function); ok && fnName(inner) == secPkg+".CheckHost" {
				c.OK(rule, "main CheckHost session", s.Pos(), "token auth: security.CheckSession(security.CheckHost)")
				continue
			}
		}
		c.Bad(rule, "main CheckHost other", s.Pos(), "Gateway.CheckHost is set to something other than security.CheckHost or security.CheckSession(security.CheckHost)")
	}
	if nHost == 0 {
		c.Bad(rule, "main CheckHost", mainFn.Pos(), "Gateway.CheckHost is never set")
	}
	// cookie check under the same switch as TokenAuth
	ta := init["TokenAuth"]
	if len(ta) != 1 {
		c.Undecided(rule, "main TokenAuth", mainFn.Pos(), "Gateway.TokenAuth initialised %d times", len(ta))
	} else if p, ok := confFieldPath(ta[0].Val); !ok || p != "Caps.TokenAuth" {
		c.Bad(rule, "main TokenAuth", ta[0].Pos(), "Gateway.TokenAuth is not initialised from conf.Caps.TokenAuth")
	} else {
		c.OK(rule, "main TokenAuth", ta[0].Pos(), "Gateway.TokenAuth = conf.Caps.TokenAuth")
	}
	ck := init["CheckPAACookie"]
	if len(ck) != 1 {
		c.Bad(rule, "main CheckPAACookie", mainFn.Pos(), "Gateway.CheckPAACookie stored %d times (expected once, under the token switch)", len(ck))
	} else {
		f, ok := strip(ck[0].Val).(*ssa.Function)
		if !ok || fnName(f) != secPkg+".CheckPAACookie" {
			c.Bad(rule, "main CheckPAACookie", ck[0].Pos(), "Gateway.CheckPAACookie is not security.CheckPAACookie")
		} else {
			// stored whenever token auth is on: the block storing it must be entered on the true edge,
			// and every registration must pass either the store or the false edge
			storeMarker := isStoreTo("CheckPAACookie")
			good := true
			for _, r := range regs {
				// delete false edges of the switch: then each registration must be unreachable without the store
				if reachWithoutMarkerAvoiding(mainFn, r, storeMarker, GFalse(func(v ssa.Value) bool { p, ok := confFieldPath(v); return ok && p == "Caps.TokenAuth" })) {
					good = false
				}
			}
			c.Check(good, rule, "main CheckPAACookie", ck[0].Pos(), "with conf.Caps.TokenAuth set, every registration is preceded by Gateway.CheckPAACookie = security.CheckPAACookie", "with token authentication on, the handler can be registered without the cookie check installed")
		}
	}
	_ = types.Typ
	c.Floor(rule, 5, "registrations + CheckHost values + TokenAuth + CheckPAACookie")
}

// reachWithoutMarkerAvoiding: like reachWithoutMarker, with the edges establishing g deleted.
func reachWithoutMarkerAvoiding(fn *ssa.Function, target ssa.Instruction, marker func(ssa.Instruction) bool, g Guard) bool {
	return reachFromWithoutMarkerAvoiding(fn.Blocks[0], target, marker, g)
}

// reachFromWithoutMarkerAvoiding starts at the beginning of block start.
func reachFromWithoutMarkerAvoiding(start *ssa.BasicBlock, target ssa.Instruction, marker func(ssa.Instruction) bool, g Guard) bool {
	type st struct{ b, pred *ssa.BasicBlock }
	seen := map[st]bool{}
	work := []st{{start, nil}}
	for len(work) > 0 {
		s := work[0]
		work = work[1:]
		if seen[s] {
			continue
		}
		seen[s] = true
		b := s.b
		blocked := false
		for _, in := range b.Instrs {
			if in == target {
				return true
			}
			if marker(in) || callPasses(in, marker, g) {
				blocked = true
				break
			}
		}
		if blocked || blockNeverReturns(b) {
			continue
		}
		var ifi *ssa.If
		if n := len(b.Instrs); n > 0 {
			ifi, _ = b.Instrs[n-1].(*ssa.If)
		}
		for i, succ := range b.Succs {
			if ifi != nil && !edgeOpen(ifi, b, s.pred, i == 0, g) {
				continue
			}
			work = append(work, st{succ, b})
		}
	}
	return false
}

// c01LegacyClaim: one packet loop (one ordered phase sequence, at most one backend connection) per
// tunnel. On the legacy transport the IN request finds the tunnel in the cache and starts the loop
// only if no IN leg is attached yet (transportIn == nil). Between that test and the store that
// attaches the leg there must be no call that blocks on the network (sending the accept, draining the
// client's first bytes): otherwise a second IN request with the same connection id passes the same
// test and runs a second Processor, in its initial state, on the same tunnel.
func c01LegacyClaim(c *Ctx) {
	rule := "C01/legacy-claim"
	inF := c.FieldVar("cmd/rdpgw/protocol", "Tunnel", "transportIn")
	// claimsFirst: walking forward from instruction index idx of block bb, every path stores a
	// non-nil IN leg into tv.transportIn before any call that waits on the network; a static call of a
	// first-party helper that is handed tv is entered (depth 1). Returns "" or what goes wrong.
	var claimsFirst func(bb *ssa.BasicBlock, idx int, tv ssa.Value, seen map[*ssa.BasicBlock]bool, depth int) string
	claimsFirst = func(bb *ssa.BasicBlock, idx int, tv ssa.Value, seen map[*ssa.BasicBlock]bool, depth int) string {
		if idx == 0 {
			if seen[bb] {
				return ""
			}
			seen[bb] = true
		}
		for j := idx; j < len(bb.Instrs); j++ {
			in := bb.Instrs[j]
			if s, ok := in.(*ssa.Store); ok {
				if b, f, ok := fieldOfAddr(s.Addr); ok && f == inF && strip(b) == tv && !isNil(s.Val) {
					return "" // claimed
				}
			}
			ci, ok := in.(ssa.CallInstruction)
			if !ok {
				continue
			}
			if blocksOnNetwork(ci) {
				return calleeName(ci) + " at " + c.P.Pos(ci.Pos())
			}
			if calleeName(ci) == protoPkg+".NewProcessor" && len(ci.Common().Args) > 1 && strip(ci.Common().Args[1]) == tv {
				return "the packet loop is set up without attaching the IN leg"
			}
			if h := ci.Common().StaticCallee(); h != nil && IsFirstParty(h) && h.Blocks != nil && depth < 1 && h.Pkg == bb.Parent().Pkg {
				for i, a := range ci.Common().Args {
					if strip(a) == tv && i < len(h.Params) {
						if why := claimsFirst(h.Blocks[0], 0, h.Params[i], map[*ssa.BasicBlock]bool{}, depth+1); why != "" {
							return why
						}
						// the helper claims on every path that returns? it must not return unclaimed
						return ""
					}
				}
			}
		}
		if len(bb.Succs) == 0 {
			if _, isRet := bb.Instrs[len(bb.Instrs)-1].(*ssa.Return); isRet && depth > 0 {
				return "a path through helper " + bb.Parent().Name() + " returns without attaching the IN leg"
			}
			return ""
		}
		for _, s2 := range bb.Succs {
			if why := claimsFirst(s2, 0, tv, seen, depth); why != "" {
				return why
			}
		}
		return ""
	}
	n := 0
	for _, fn := range c.allFirstPartyFuncs() {
		if !c.Reachable()[fn] || fn.Pkg == nil || fn.Pkg.Pkg.Path() != protoPkg {
			continue
		}
		for _, b := range fn.Blocks {
			if len(b.Instrs) == 0 {
				continue
			}
			ifi, ok := b.Instrs[len(b.Instrs)-1].(*ssa.If)
			if !ok {
				continue
			}
			var tv ssa.Value
			isIn := func(v ssa.Value) bool {
				bb, f, ok := fieldLoad(strip(v))
				if ok && f == inF {
					tv = strip(bb)
					return true
				}
				return false
			}
			for i, succ := range b.Succs {
				tv = nil
				if !GEq(isIn, anyNil)(ifi.Cond, i == 0) || tv == nil {
					continue
				}
				// only tests that lead to a packet loop on this tunnel matter
				n++
				why := claimsFirst(succ, 0, tv, map[*ssa.BasicBlock]bool{}, 0)
				c.Check(why == "", rule, "claim in "+shortFn(fn)+"#"+itoa(n), ifi.Pos(), "after 'no IN leg yet' the leg is attached before any call that waits on the client", "between the transportIn == nil test and the store that attaches the IN leg there is "+why+": a second RDG_IN_DATA request for the same connection id passes the same test meanwhile and starts a second packet loop (state INITIALIZED, its own backend dial) on the tunnel")
			}
		}
	}
	c.Floor(rule, 1, "legacy IN branch")
}

// blocksOnNetwork: a call that can wait on the peer: methods of the transport package, of net.Conn /
// bufio / io readers and writers, and first-party functions that (directly) make such calls.
func blocksOnNetwork(ci ssa.CallInstruction) bool {
	name := calleeName(ci)
	if strings.HasPrefix(name, "(*"+transportPkg+".") && !strings.HasSuffix(name, ").Close") {
		return true
	}
	cc := ci.Common()
	if cc.IsInvoke() {
		switch cc.Method.Name() {
		case "Read", "Write", "ReadPacket", "WritePacket", "ReadMessage", "WriteMessage", "Flush":
			return true
		}
		return false
	}
	for _, p := range []string{"(*bufio.", "(*net.", "io.Read", "io.Copy", "(*net/http.", "time.Sleep"} {
		if strings.HasPrefix(name, p) {
			return true
		}
	}
	return false
}
