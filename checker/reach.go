package main

import (
	"strings"

	"golang.org/x/tools/go/ssa"
)

// A2 — serving reachability. Roots are extracted from the source: the two
// main functions, package initialisers, every first-party function or closure
// whose value is taken (handlers registered on the router, middleware closures,
// callbacks stored in structs, go/defer targets) and every method of a
// first-party type that implements the generated gRPC service interface.
// Reachability follows the VTA call graph. A function that is not reachable
// (e.g. the protocol *client* in client.go, used by tests only) is outside the
// serving path.
func (c *Ctx) Reachable() map[*ssa.Function]bool {
	if c.reach != nil {
		return c.reach
	}
	cg := c.P.CallGraph()
	roots := map[*ssa.Function]bool{}
	all := c.allFirstPartyFuncs()
	for _, fn := range all {
		sf := shortFn(fn)
		if sf == "cmd/rdpgw.main" || sf == "cmd/auth.main" || fn.Name() == "init" || strings.HasPrefix(fn.Name(), "init#") {
			roots[fn] = true
		}
		if fn.Signature.Recv() != nil && typeIs(fn.Signature.Recv().Type(), modPath+"/cmd/auth", "AuthServiceImpl") {
			roots[fn] = true
		}
	}
	for _, fn := range all {
		eachInstr(fn, func(in ssa.Instruction) {
			var ops []*ssa.Value
			ops = in.Operands(ops)
			isCallPos := func(v ssa.Value) bool {
				if ci, ok := in.(ssa.CallInstruction); ok {
					return ci.Common().Value == v && !ci.Common().IsInvoke()
				}
				return false
			}
			for _, op := range ops {
				if op == nil || *op == nil {
					continue
				}
				switch x := (*op).(type) {
				case *ssa.Function:
					if IsFirstParty(x) {
						if isCallPos(x) {
							if _, isCall := in.(*ssa.Call); isCall {
								continue // plain static call: followed through the graph
							}
						}
						roots[x] = true
					}
				case *ssa.MakeClosure:
					if f, ok := x.Fn.(*ssa.Function); ok && IsFirstParty(f) && !isCallPos(x) {
						roots[f] = true
					}
				}
			}
			if mc, ok := in.(*ssa.MakeClosure); ok {
				if f, ok := mc.Fn.(*ssa.Function); ok {
					// bound method wrappers: the method itself becomes a root
					if f.Synthetic != "" && strings.HasSuffix(f.Name(), "$bound") {
						roots[f] = true
					}
				}
			}
		})
	}
	reach := map[*ssa.Function]bool{}
	var work []*ssa.Function
	for r := range roots {
		// a root only counts if its taker is itself reachable; approximate by taking all (conservative: adds obligations)
		work = append(work, r)
	}
	for len(work) > 0 {
		f := work[len(work)-1]
		work = work[:len(work)-1]
		if reach[f] {
			continue
		}
		reach[f] = true
		if n := cg.Nodes[f]; n != nil {
			for _, e := range n.Out {
				if !reach[e.Callee.Func] {
					work = append(work, e.Callee.Func)
				}
			}
		}
		for _, a := range f.AnonFuncs {
			// closures defined in a reachable function and called or stored there
			_ = a
		}
	}
	c.reach = reach
	return reach
}

// ReqReachable: functions reachable while serving a request. Roots: every
// first-party function/closure whose value is taken anywhere (router handlers,
// middleware closures, callbacks stored in structs), go-statement targets, and
// the gRPC service methods; not main/init themselves, so start-up-only code
// (config.Load, NewHandler, initOIDC, InitKdcProxy, InitStore) is outside unless
// a handler also calls it.
func (c *Ctx) ReqReachable() map[*ssa.Function]bool {
	if c.reqReach != nil {
		return c.reqReach
	}
	cg := c.P.CallGraph()
	roots := map[*ssa.Function]bool{}
	all := c.allFirstPartyFuncs()
	for _, fn := range all {
		if fn.Signature.Recv() != nil && typeIs(fn.Signature.Recv().Type(), modPath+"/cmd/auth", "AuthServiceImpl") && fn.Parent() == nil {
			roots[fn] = true
		}
		eachInstr(fn, func(in ssa.Instruction) {
			if g, ok := in.(*ssa.Go); ok {
				if f := g.Call.StaticCallee(); f != nil && IsFirstParty(f) {
					roots[f] = true
				}
				if mc, ok := g.Call.Value.(*ssa.MakeClosure); ok {
					if f, ok := mc.Fn.(*ssa.Function); ok {
						roots[f] = true
					}
				}
			}
			var ops []*ssa.Value
			ops = in.Operands(ops)
			for _, op := range ops {
				if op == nil || *op == nil {
					continue
				}
				switch x := (*op).(type) {
				case *ssa.Function:
					if !IsFirstParty(x) {
						continue
					}
					if ci, ok := in.(*ssa.Call); ok && ci.Call.Value == ssa.Value(x) {
						continue // direct call
					}
					if d, ok := in.(*ssa.Defer); ok && d.Call.Value == ssa.Value(x) {
						continue
					}
					roots[x] = true
				case *ssa.MakeClosure:
					f, ok := x.Fn.(*ssa.Function)
					if !ok || !IsFirstParty(f) {
						continue
					}
					if d, ok := in.(*ssa.Defer); ok && d.Call.Value == ssa.Value(x) {
						continue // deferred closure: reached through its parent
					}
					if ci, ok := in.(*ssa.Call); ok && ci.Call.Value == ssa.Value(x) {
						continue
					}
					roots[f] = true
				}
			}
			if mc, ok := in.(*ssa.MakeClosure); ok {
				if f, ok := mc.Fn.(*ssa.Function); ok && f.Synthetic != "" && strings.HasSuffix(f.Name(), "$bound") {
					roots[f] = true
				}
			}
		})
	}
	reach := map[*ssa.Function]bool{}
	var work []*ssa.Function
	for r := range roots {
		sf := shortFn(r)
		if sf == "cmd/rdpgw.main" || sf == "cmd/auth.main" {
			continue
		}
		work = append(work, r)
	}
	for len(work) > 0 {
		f := work[len(work)-1]
		work = work[:len(work)-1]
		if reach[f] {
			continue
		}
		reach[f] = true
		if n := cg.Nodes[f]; n != nil {
			for _, e := range n.Out {
				if !reach[e.Callee.Func] {
					work = append(work, e.Callee.Func)
				}
			}
		}
		// deferred closures and closures called in place
		eachInstr(f, func(in ssa.Instruction) {
			if ci, ok := in.(ssa.CallInstruction); ok {
				if mc, ok := ci.Common().Value.(*ssa.MakeClosure); ok {
					if g, ok := mc.Fn.(*ssa.Function); ok && !reach[g] {
						work = append(work, g)
					}
				}
			}
		})
	}
	c.reqReach = reach
	return reach
}
