package main

// Rules added after the seventh round of seeded changes ("places one would not look at first"):
// constants that stop being distinct, scratch buffers that stop being per call, a transport-level
// size cap below the packet format's range, defaults that pre-fill a key, a generator that hands
// back a partial result together with its error.

import (
	"fmt"
	"go/constant"
	"go/token"
	"go/types"
	"sort"
	"strings"

	"golang.org/x/tools/go/ssa"
)

// duplicateConsts: groups of package-level constants with the given name prefix that share a value.
func (c *Ctx) duplicateConsts(pkgRel, prefix string) []string {
	pk := c.P.Pkg(pkgRel)
	if pk == nil {
		c.Missing("package %s", pkgRel)
	}
	byVal := map[string][]string{}
	sc := pk.Types.Scope()
	for _, n := range sc.Names() {
		k, ok := sc.Lookup(n).(*types.Const)
		if !ok || !strings.HasPrefix(n, prefix) {
			continue
		}
		v := constant.ToInt(k.Val())
		if v.Kind() != constant.Int {
			continue
		}
		byVal[v.ExactString()] = append(byVal[v.ExactString()], n)
	}
	var out []string
	for v, ns := range byVal {
		if len(ns) > 1 {
			sort.Strings(ns)
			out = append(out, strings.Join(ns, " = ")+" = "+v)
		}
	}
	sort.Strings(out)
	return out
}

// ---------------------------------------------------------------------------
// packet buffers are per call / per connection

var packetPathRoots = map[string]bool{
	"cmd/rdpgw/protocol.readMessage": true, "cmd/rdpgw/protocol.readHeader": true,
	"cmd/rdpgw/protocol.receive": true, "cmd/rdpgw/protocol.forward": true, "cmd/rdpgw/protocol.createPacket": true,
	"(*cmd/rdpgw/transport.LegacyPKT).ReadPacket": true, "(*cmd/rdpgw/transport.WSPKT).ReadPacket": true,
	"(*cmd/rdpgw/transport.LegacyPKT).WritePacket": true, "(*cmd/rdpgw/transport.WSPKT).WritePacket": true,
	"(*cmd/rdpgw/protocol.Tunnel).Read": true, "(*cmd/rdpgw/protocol.Tunnel).Write": true,
}

func isByteStore(t types.Type) bool {
	switch u := t.Underlying().(type) {
	case *types.Slice:
		b, ok := u.Elem().Underlying().(*types.Basic)
		return ok && b.Kind() == types.Uint8
	case *types.Array:
		b, ok := u.Elem().Underlying().(*types.Basic)
		return ok && b.Kind() == types.Uint8
	case *types.Pointer:
		return isByteStore(u.Elem())
	}
	return false
}

// bufOrigins: origins of a buffer value, looking through the dereference of a pointer that was
// taken out of a pool or a global (*p where p = pool.Get().(*[]byte)).
func (c *Ctx) bufOrigins(v ssa.Value) []Origin {
	var out []Origin
	for _, o := range c.originsDeep(v, 0) {
		// append(buf[:i], more...) writes into buf's backing array when it has room
		if o.Kind == "call" && o.Call != nil {
			if bi, isB := o.Call.Common().Value.(*ssa.Builtin); isB && bi.Name() == "append" && len(o.Call.Common().Args) > 0 {
				if k, isC := strip(o.Call.Common().Args[0]).(*ssa.Const); !isC || !k.IsNil() {
					out = append(out, c.bufOrigins(o.Call.Common().Args[0])...)
					continue
				}
			}
		}
		// buf.Bytes() of a bytes.Buffer: the storage is the buffer object's
		if o.Kind == "call" && o.Call != nil && calleeName(o.Call) == "(*bytes.Buffer).Bytes" && len(o.Call.Common().Args) > 0 {
			sub := c.bufOrigins(o.Call.Common().Args[0])
			shared := false
			for _, so := range sub {
				if _, sh := sharedOrigin(so, true); sh {
					shared = true
				}
			}
			if shared {
				out = append(out, sub...)
				continue
			}
		}
		if o.Kind == "other" {
			if u, ok := o.Value.(*ssa.UnOp); ok && u.Op == token.MUL {
				out = append(out, c.bufOrigins(u.X)...)
				continue
			}
		}
		out = append(out, o)
	}
	return out
}

// sharedOrigin: the origin is storage every tunnel shares: a package-level variable, or (when
// pooled is asked for) an object taken from a sync.Pool.
func sharedOrigin(o Origin, pooled bool) (string, bool) {
	switch o.Kind {
	case "global":
		if g, ok := o.Value.(*ssa.Global); ok {
			return "package-level variable " + g.Name(), true
		}
	case "call":
		if pooled && o.Call != nil && calleeName(o.Call) == "(*sync.Pool).Get" {
			return "object taken from a sync.Pool (handed to the next caller after Put)", true
		}
	case "other":
		if pooled {
			if u, ok := o.Value.(*ssa.UnOp); ok && u.Op == token.ARROW {
				return "object received from a channel (a free list every tunnel takes from)", true
			}
			if ex, ok := o.Value.(*ssa.Extract); ok {
				if _, isSel := ex.Tuple.(*ssa.Select); isSel {
					return "object received from a channel in a select (a free list every tunnel takes from)", true
				}
			}
		}
	case "field":
		if o.Base != nil {
			if g, ok := globalLoad(strip(o.Base)); ok {
				return "field of package-level variable " + g.Name(), true
			}
			if fa, ok := strip(o.Base).(*ssa.Global); ok {
				return "field of package-level variable " + fa.Name(), true
			}
		}
	}
	return "", false
}

// packetBuffersPrivate: the functions a packet passes through (framer, both transports' reads and
// writes, the two relay loops, Tunnel.Read/Write and the helpers only they call) assemble and hand
// on packets in storage that belongs to the call or the connection. A buffer that is a package-level
// variable is written by every tunnel's reader at once; a pooled buffer that is still referenced by
// the returned payload is handed to another tunnel's reader while the first one parses it. Either
// way one connection's bytes show up in another's packet.
func packetBuffersPrivate(c *Ctx, rule string) {
	n := 0
	var fns []*ssa.Function
	for _, f := range c.allFirstPartyFuncs() {
		if f.Blocks == nil {
			continue
		}
		if packetPathRoots[shortFn(f)] || c.onlyCalledFromAny(f, packetPathRoots, 0) {
			fns = append(fns, f)
		}
	}
	sort.Slice(fns, func(i, j int) bool { return shortFn(fns[i]) < shortFn(fns[j]) })
	// write: the site writes into the buffer (a shared one is then written by every tunnel);
	// escape: the site hands the buffer on (a shared one is a problem when somebody writes it, a
	// pooled one when it goes back to the pool)
	type site struct {
		kind  string
		v     ssa.Value
		pos   token.Pos
		write bool
	}
	sitesOf := map[*ssa.Function][]site{}
	for _, f := range fns {
		var sites []site
		eachInstr(f, func(in ssa.Instruction) {
			switch x := in.(type) {
			case *ssa.Return:
				for i, r := range x.Results {
					if isByteStore(r.Type()) {
						sites = append(sites, site{fmt.Sprintf("result %d", i), unspill(r), x.Pos(), false})
					}
				}
			case *ssa.Call:
				if bi, isB := x.Call.Value.(*ssa.Builtin); isB {
					switch bi.Name() {
					case "copy":
						sites = append(sites, site{"copy destination", x.Call.Args[0], x.Pos(), true})
					case "append":
						if k, isC := strip(x.Call.Args[0]).(*ssa.Const); (!isC || !k.IsNil()) && isByteStore(x.Call.Args[0].Type()) {
							sites = append(sites, site{"append base", x.Call.Args[0], x.Pos(), true})
						}
					}
					return
				}
				if x.Call.IsInvoke() && x.Call.Method.Name() == "Read" && len(x.Call.Args) >= 1 && isByteStore(x.Call.Args[0].Type()) {
					sites = append(sites, site{"read destination", x.Call.Args[0], x.Pos(), true})
					return
				}
				if n := calleeName(x); n == "io.ReadFull" || n == "io.ReadAtLeast" {
					sites = append(sites, site{"read destination", x.Call.Args[1], x.Pos(), true})
					return
				}
				if cal := x.Call.StaticCallee(); cal != nil && IsFirstParty(cal) && cal.Blocks != nil {
					for i, a := range x.Call.Args {
						if isByteStore(a.Type()) && i < len(cal.Params) && writesThroughParam(cal.Params[i]) {
							sites = append(sites, site{"argument " + cal.Name() + " writes into", a, x.Pos(), true})
						}
					}
				}
			case *ssa.Store:
				if ia, ok := x.Addr.(*ssa.IndexAddr); ok && isByteStore(ia.X.Type()) {
					sites = append(sites, site{"element store", ia.X, x.Pos(), true})
				}
			case *ssa.Send:
				if isByteStore(x.X.Type()) {
					sites = append(sites, site{"channel send", x.X, x.Pos(), false})
				}
			}
		})
		sitesOf[f] = sites
	}
	// package-level storage some packet-path function writes into
	written := map[ssa.Value]bool{}
	for _, f := range fns {
		for _, s := range sitesOf[f] {
			if !s.write {
				continue
			}
			for _, o := range c.bufOrigins(s.v) {
				if o.Kind == "global" {
					written[o.Value] = true
				}
			}
		}
	}
	for _, f := range fns {
		sf := shortFn(f)
		sites := sitesOf[f]
		if len(sites) == 0 {
			continue
		}
		var bad []string
		var at token.Pos
		for _, s := range sites {
			for _, o := range c.bufOrigins(s.v) {
				why, shared := sharedOrigin(o, !s.write)
				if !shared {
					continue
				}
				if o.Kind == "global" && !s.write && !written[o.Value] {
					continue // a table nobody on the packet path writes: handing it on shares nothing that changes
				}
				bad = append(bad, s.kind+": "+why)
				if at == token.NoPos {
					at = s.pos
				}
			}
		}
		n++
		if len(bad) == 0 {
			c.OK(rule, sf+" buffers", f.Pos(), "%d buffer sites (results, copy/read destinations, append bases, element stores, helper arguments written through): none is written package-level storage or pooled-and-returned storage", len(sites))
		} else {
			c.Bad(rule, sf+" buffers", at, "%s works in storage shared by all tunnels (%s): two connections reading at the same time overwrite each other's packet", sf, strings.Join(dedupe(bad), "; "))
		}
	}
	c.Floor(rule, 5, "framer, two transport reads, two relay loops")
	_ = n
}

// writesThroughParam: the function writes into the buffer it is handed (copy/read destination,
// append base, element store), directly.
func writesThroughParam(p *ssa.Parameter) bool {
	w := false
	var scan func(v ssa.Value, depth int)
	scan = func(v ssa.Value, depth int) {
		refs := v.Referrers()
		if refs == nil || depth > 2 {
			return
		}
		for _, r := range *refs {
			switch x := r.(type) {
			case *ssa.Slice:
				if x.X == v {
					scan(x, depth+1)
				}
			case *ssa.IndexAddr:
				if x.X == v {
					for _, u := range *x.Referrers() {
						if st, ok := u.(*ssa.Store); ok && st.Addr == ssa.Value(x) {
							w = true
						}
					}
				}
			case *ssa.Call:
				if bi, isB := x.Call.Value.(*ssa.Builtin); isB && (bi.Name() == "copy" || bi.Name() == "append") && x.Call.Args[0] == v {
					w = true
				}
				if x.Call.IsInvoke() && x.Call.Method.Name() == "Read" && len(x.Call.Args) >= 1 && x.Call.Args[0] == v {
					w = true
				}
				if n := calleeName(x); (n == "io.ReadFull" || n == "io.ReadAtLeast") && x.Call.Args[1] == v {
					w = true
				}
			}
		}
	}
	scan(p, 0)
	return w
}

func dedupe(xs []string) []string {
	seen := map[string]bool{}
	var out []string
	for _, x := range xs {
		if !seen[x] {
			seen[x] = true
			out = append(out, x)
		}
	}
	return out
}

// ---------------------------------------------------------------------------
// C08: no size cap below the packet format's range on the websocket connection

// c08ReadLimit: a websocket message may carry any number of packet bytes; the largest single packet
// is header (8) + length field (2) + 65535 payload bytes, and one message may carry several. A
// SetReadLimit below that ends a tunnel depending on how the client cut its stream into messages.
func c08ReadLimit(c *Ctx) {
	rule := "C08/read-limit"
	const maxPacket = 8 + 2 + 0xFFFF
	n := 0
	for _, f := range c.allFirstPartyFuncs() {
		for _, ci := range callsIn(f) {
			name := calleeName(ci)
			if !strings.HasSuffix(name, "websocket.Conn).SetReadLimit") {
				continue
			}
			n++
			k, isC := constInt(arg(ci, 0))
			key := shortFn(f) + " SetReadLimit"
			switch {
			case isC && (k <= 0 || k >= maxPacket):
				c.OK(rule, key, ci.Pos(), "limit %d is not below the largest packet (%d bytes)", k, maxPacket)
			case isC:
				c.Bad(rule, key, ci.Pos(), "websocket messages are capped at %d bytes, below the largest packet the format allows (%d): the same packet stream is accepted or ends the tunnel depending on how it is cut into messages", k, maxPacket)
			case noLimitOrAtLeast(f, arg(ci, 0), ci, maxPacket, 0):
				c.OK(rule, key, ci.Pos(), "the limit is zero or negative (none) or raised to at least the largest packet (%d bytes) on every path", maxPacket)
			default:
				c.Bad(rule, key, ci.Pos(), "websocket messages are capped at a size this analysis cannot bound from below by the largest packet (%d bytes)", maxPacket)
			}
		}
	}
	// the constructor is inspected on every run, whether or not it sets a limit
	nw := c.Fn("cmd/rdpgw/transport", "NewWS")
	c.OK(rule, "NewWS inspected", nw.Pos(), "%d SetReadLimit calls in first-party code", n)
	c.Floor(rule, 1, "constructor")
}

// ---------------------------------------------------------------------------
// keys have no built-in default

// keyDefaults: config.Load's table of defaults carries no value for a key: a default that is long
// enough passes the length test, is never replaced by a random one, and is the same on every
// installation.
func keyDefaults(c *Ctx, rule string, paths []string) {
	load := c.Fn("cmd/rdpgw/config", "Load")
	want := map[string]bool{}
	for _, p := range paths {
		want[strings.ToLower(p)] = true
	}
	bad := map[string]token.Pos{}
	nDefaults := 0
	for _, sf := range scopeFuncs(load, 1) {
		eachInstr(sf, func(in ssa.Instruction) {
			mu, ok := in.(*ssa.MapUpdate)
			if !ok {
				return
			}
			k, isC := constString(mu.Key)
			if !isC {
				return
			}
			nDefaults++
			if !want[strings.ToLower(k)] {
				return
			}
			if s, isS := constString(mu.Value); isS && s == "" {
				return
			}
			bad[k] = mu.Pos()
		})
	}
	if nDefaults == 0 {
		c.Undecided(rule, "config.Load defaults", load.Pos(), "no table of defaults with constant keys found in config.Load")
		return
	}
	for _, p := range paths {
		hit := false
		for k, pos := range bad {
			if strings.EqualFold(k, p) {
				hit = true
				c.Bad(rule, "config.Load default "+p, pos, "the defaults carry a value for %s: an installation that configures no key runs with this built-in one, which every other installation (and the source) shares", p)
			}
		}
		if !hit {
			c.OK(rule, "config.Load default "+p, load.Pos(), "no built-in default among %d default entries", nDefaults)
		}
	}
}

var allKeyPaths = []string{
	"Security.PAATokenEncryptionKey", "Security.PAATokenSigningKey",
	"Security.UserTokenEncryptionKey", "Security.UserTokenSigningKey", "Security.QueryTokenSigningKey",
	"Server.SessionKey", "Server.SessionEncryptionKey",
}

// ---------------------------------------------------------------------------
// generators return nothing together with an error

// generatorErrorResult: when the random source fails, the generators return the zero value with the
// error. config.Load drops that error, so whatever string comes back becomes the key: an empty one
// is refused downstream (shorter than 32), a partially filled buffer of the right length is not.
func generatorErrorResult(c *Ctx, rule string) {
	for _, name := range []string{"GenerateRandomString", "GenerateRandomBytes"} {
		fn := c.Fn("cmd/rdpgw/security", name)
		for i, r := range returnsOf(fn) {
			if len(r.Results) != 2 || isNil(r.Results[1]) {
				continue
			}
			v := strip(unspill(r.Results[0]))
			k, isC := v.(*ssa.Const)
			zero := isC && isZeroConst(k)
			if !zero {
				// acceptable when every caller looks at the error
				sites, ok := c.staticCallers(fn)
				checked := ok && len(sites) > 0
				for _, s := range sites {
					cv, isV := s.(*ssa.Call)
					if !isV || !errResultUsed(cv) {
						checked = false
					}
				}
				zero = checked
			}
			c.Check(zero, rule, fmt.Sprintf("%s error-return %d", name, i), r.Pos(), "returns the zero value with the error (or every caller checks the error)", name+" returns a non-empty result together with an error and a caller drops the error: on a failing random source the partially filled buffer becomes the key, identical on every instance")
		}
	}
}

func errResultUsed(call *ssa.Call) bool {
	refs := call.Referrers()
	if refs == nil {
		return false
	}
	for _, r := range *refs {
		if ex, ok := r.(*ssa.Extract); ok && ex.Index == 1 {
			if rr := ex.Referrers(); rr != nil && len(*rr) > 0 {
				return true
			}
		}
	}
	return false
}

// noLimitOrAtLeast: at instruction `at` of fn the value v is <= 0 (gorilla: no limit) or >= min on
// every path: a constant, max(x, K), a phi of such values (an edge value that is not constant must
// be behind v >= K on that edge), the result of a first-party helper all of whose returns are such
// values, or a value tested against a constant >= min on the way to `at`.
func noLimitOrAtLeast(fn *ssa.Function, v ssa.Value, at ssa.Instruction, min int64, depth int) bool {
	if depth > 4 {
		return false
	}
	for {
		switch x := v.(type) {
		case *ssa.Convert:
			v = x.X
			continue
		case *ssa.ChangeType:
			v = x.X
			continue
		}
		break
	}
	if k, ok := constInt(v); ok {
		return k <= 0 || k >= min
	}
	atLeast := func(w ssa.Value) Guard {
		return GCmp(func(a ssa.Value, op token.Token, b ssa.Value) bool {
			if strip(a) == strip(w) {
				if k, ok := constInt(b); ok {
					return op == token.GEQ && k >= min || op == token.GTR && k >= min-1
				}
			}
			if strip(b) == strip(w) {
				if k, ok := constInt(a); ok {
					return op == token.LEQ && k >= min || op == token.LSS && k >= min-1
				}
			}
			return false
		})
	}
	switch x := v.(type) {
	case *ssa.Call:
		if bi, isB := x.Call.Value.(*ssa.Builtin); isB && bi.Name() == "max" {
			for _, a := range x.Call.Args {
				if k, ok := constInt(a); ok && k >= min {
					return true
				}
			}
			return false
		}
		if cal := x.Call.StaticCallee(); cal != nil && IsFirstParty(cal) && cal.Blocks != nil && cal.Signature.Results().Len() == 1 {
			for _, r := range returnsOf(cal) {
				if !noLimitOrAtLeast(cal, unspill(r.Results[0]), r, min, depth+1) {
					return false
				}
			}
			return true
		}
	case *ssa.Phi:
		for i, e := range x.Edges {
			if k, ok := constInt(e); ok {
				if k > 0 && k < min {
					return false
				}
				continue
			}
			pred := x.Block().Preds[i]
			g := atLeast(e)
			established := false
			if ifi, ok := pred.Instrs[len(pred.Instrs)-1].(*ssa.If); ok {
				branch := pred.Succs[0] == x.Block()
				if pred.Succs[0] != pred.Succs[1] && !edgeOpen(ifi, pred, nil, branch, g) {
					established = true
				}
			}
			if !established {
				if pass, _ := mustPass(fn, pred.Instrs[len(pred.Instrs)-1], g); pass {
					established = true
				}
			}
			if !established && !noLimitOrAtLeast(fn, e, pred.Instrs[len(pred.Instrs)-1], min, depth+1) {
				return false
			}
		}
		return true
	}
	if pass, _ := mustPass(fn, at, atLeast(v)); pass {
		return true
	}
	return false
}
