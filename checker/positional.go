package main

// Positional packet assembly: a packet (or packet body) laid out in one byte slice by writes at
// constant offsets — binary.LittleEndian.PutUintN(p[a:], v), copy(p[a:], src), p[i] = v,
// r.Read(p[a:]) — instead of a stream of appends. The rules that check a wire layout accept this
// form by turning it into the same ordered field list they use for the stream forms.

import (
	"go/constant"
	"go/types"
	"sort"

	"golang.org/x/tools/go/ssa"
)

var posHelperDepth int

type posWrite struct {
	off   int64           // constant byte offset in the base slice
	width int             // bytes written; -1: as many as the source holds (copy) or the reader delivers (read)
	kind  string          // "put", "copy", "read", "store"
	val   ssa.Value       // value written (put/store), source slice (copy), nil (read)
	at    ssa.Instruction // the writing instruction
	n     ssa.Value       // read: the count the Read returned
	// a write made by a first-party helper that was handed the window (putHeader(p, T)): `at` is the
	// call in this function; val is the call's argument where the helper wrote one of its
	// parameters (conv: the basic kind it converted it to first, 0 for none); lenOf is the window
	// when the helper wrote the length of the slice it was handed
	conv  types.BasicKind
	lenOf ssa.Value
}

var putWidths = map[string]int{
	"(encoding/binary.littleEndian).PutUint16": 2,
	"(encoding/binary.littleEndian).PutUint32": 4,
	"(encoding/binary.littleEndian).PutUint64": 8,
}

// posWrites lists the writes into base made in its function. exact=false when base is also written
// in a way this analysis cannot place (a non-constant offset, a callee that is handed a writable
// window and is not one of the recognised writers).
func posWrites(base ssa.Value) (ws []posWrite, exact bool) {
	exact = true
	// window: a value that aliases base from constant offset off on
	var scan func(win ssa.Value, off int64, depth int)
	scan = func(win ssa.Value, off int64, depth int) {
		refs := win.Referrers()
		if refs == nil || depth > 3 {
			return
		}
		for _, r := range *refs {
			switch x := r.(type) {
			case *ssa.Slice:
				if x.X != win {
					continue
				}
				lo := int64(0)
				if x.Low != nil {
					k, ok := constInt(x.Low)
					if !ok {
						// a window at a variable offset: a write through it cannot be placed
						if writesThrough(x) {
							exact = false
						}
						continue
					}
					lo = k
				}
				scan(x, off+lo, depth+1)
			case *ssa.IndexAddr:
				if x.X != win {
					continue
				}
				for _, u := range *x.Referrers() {
					if st, ok := u.(*ssa.Store); ok && st.Addr == ssa.Value(x) {
						if k, ok := constInt(x.Index); ok {
							ws = append(ws, posWrite{off: off + k, width: 1, kind: "store", val: st.Val, at: st})
						} else {
							exact = false
						}
					}
				}
			case *ssa.Call:
				name := calleeName(x)
				if w, ok := putWidths[name]; ok && len(x.Call.Args) >= 2 && x.Call.Args[len(x.Call.Args)-2] == win {
					ws = append(ws, posWrite{off: off, width: w, kind: "put", val: x.Call.Args[len(x.Call.Args)-1], at: x})
					continue
				}
				if bi, isB := x.Call.Value.(*ssa.Builtin); isB && bi.Name() == "copy" {
					if x.Call.Args[0] == win {
						ws = append(ws, posWrite{off: off, width: -1, kind: "copy", val: x.Call.Args[1], at: x})
					}
					continue
				}
				if x.Call.IsInvoke() && x.Call.Method.Name() == "Read" && len(x.Call.Args) == 1 && x.Call.Args[0] == win {
					ws = append(ws, posWrite{off: off, width: -1, kind: "read", at: x, n: resultOf(x, 0)})
					continue
				}
				// a first-party helper that lays fields out in the slice it is handed: its writes, at
				// the window's offset, with its parameters replaced by this call's arguments
				if cal := x.Call.StaticCallee(); cal != nil && IsFirstParty(cal) && cal.Blocks != nil && posHelperDepth < 2 && cal != x.Parent() {
					posHelperDepth++
					for j, a := range x.Call.Args {
						if a != win || j >= len(cal.Params) {
							continue
						}
						sub, subExact := posWrites(cal.Params[j])
						if !subExact {
							exact = false
						}
						rets := returnsOf(cal)
						for _, w := range sub {
							unconditional := !inCycle(w.at.Block())
							for _, r := range rets {
								if !dominatesInstr(w.at, r) {
									unconditional = false
								}
							}
							mw, ok := mapHelperWrite(w, cal, x, win)
							if !unconditional || !ok {
								exact = false
								continue
							}
							mw.off += off
							ws = append(ws, mw)
						}
					}
					posHelperDepth--
				}
			}
		}
	}
	scan(base, 0, 0)
	sort.SliceStable(ws, func(i, j int) bool { return ws[i].off < ws[j].off })
	return ws, exact
}

// writesThrough: the slice value is used as the destination of a recognised writer.
func writesThrough(sl *ssa.Slice) bool {
	for _, u := range *sl.Referrers() {
		switch x := u.(type) {
		case *ssa.Call:
			if _, ok := putWidths[calleeName(x)]; ok {
				return true
			}
			if bi, isB := x.Call.Value.(*ssa.Builtin); isB && bi.Name() == "copy" && x.Call.Args[0] == ssa.Value(sl) {
				return true
			}
			if x.Call.IsInvoke() && x.Call.Method.Name() == "Read" {
				return true
			}
		case *ssa.IndexAddr:
			return true
		}
	}
	return false
}

// positionalFields: the writes into base tile [0, limit) without overlap (limit < 0: up to a final
// copy of variable length), every one of them dominating `before` and outside loops. Bytes that no
// write touches count as a zero field (fresh memory is zero); adjacent single-byte stores form one
// field. Returns the ordered field list.
func positionalFields(base ssa.Value, limit int64, before ssa.Instruction) (writes []bufWrite, ok bool) {
	ws, exact := posWrites(base)
	if !exact || len(ws) == 0 {
		return nil, false
	}
	zero := func(at ssa.Instruction, width int64) bufWrite {
		return bufWrite{call: at, width: int(width), val: ssa.NewConst(constant.MakeInt64(0), types.Typ[types.Uint64])}
	}
	next := int64(0)
	for i := 0; i < len(ws); i++ {
		w := ws[i]
		if w.off < next || inCycle(w.at.Block()) || !dominatesInstr(w.at, before) {
			return nil, false
		}
		if w.off > next {
			writes = append(writes, zero(w.at, w.off-next))
			next = w.off
		}
		switch w.kind {
		case "put":
			writes = append(writes, bufWrite{call: w.at, width: w.width, val: w.val, conv: w.conv, lenOf: w.lenOf})
			next += int64(w.width)
		case "store":
			// p[i], p[i+1], ... = a, b, ...: one field of as many bytes
			n := 1
			elems := []ssa.Value{w.val}
			for i+n < len(ws) && ws[i+n].kind == "store" && ws[i+n].off == w.off+int64(n) {
				elems = append(elems, ws[i+n].val)
				n++
			}
			writes = append(writes, bufWrite{call: w.at, width: n, val: w.val, elems: elems})
			next += int64(n)
			i += n - 1
		case "copy":
			if i != len(ws)-1 || limit >= 0 {
				return nil, false
			}
			writes = append(writes, bufWrite{call: w.at, width: -1, val: w.val})
			return writes, true
		default:
			return nil, false
		}
	}
	if limit < 0 {
		return nil, false // no variable-length tail
	}
	if next > limit {
		return nil, false
	}
	if next < limit {
		writes = append(writes, zero(before, limit-next))
	}
	return writes, true
}

// positionalBuilder: fn returns a slice it allocated with make and filled by positional writes: either
// the whole packet (make([]byte, K+len(data)), fields, copy(p[K:], data)), or the fixed part
// (make([]byte, K, cap), fields) with the variable part appended (return append(p, data...)).
// Returns the writes as an ordered field list (the form bufferWrites yields) and the value that
// stands for the assembled buffer (the allocation, or the final append).
func positionalBuilder(fn *ssa.Function) (writes []bufWrite, buf ssa.Value, ok bool) {
	rets := returnsOf(fn)
	if len(rets) != 1 || len(rets[0].Results) == 0 {
		return nil, nil, false
	}
	rv0 := strip(unspill(rets[0].Results[0]))
	if ms, isMake := rv0.(*ssa.MakeSlice); isMake && !inCycle(ms.Block()) {
		ws, ok := positionalFields(ms, -1, rets[0])
		return ws, ms, ok
	}
	if ap, isCall := rv0.(*ssa.Call); isCall {
		if bi, isB := ap.Call.Value.(*ssa.Builtin); isB && bi.Name() == "append" && len(ap.Call.Args) == 2 && !inCycle(ap.Block()) {
			if ms, isMake := strip(ap.Call.Args[0]).(*ssa.MakeSlice); isMake && !inCycle(ms.Block()) {
				if k, isC := constInt(ms.Len); isC && k > 0 {
					ws, ok := positionalFields(ms, k, ap)
					if !ok {
						return nil, nil, false
					}
					ws = append(ws, bufWrite{call: ap, width: -1, val: ap.Call.Args[1]})
					return ws, ap, true
				}
			}
		}
	}
	return nil, nil, false
}

// positionalArrayBody: fn lays a packet body out in a local byte array (var body [N]byte) by
// positional writes and hands body[:] on (to createPacket, or as its result). Returns the field
// list and the slice value that stands for the body.
func positionalArrayBody(fn *ssa.Function) (writes []bufWrite, body ssa.Value, ok bool) {
	for _, b := range fn.Blocks {
		for _, in := range b.Instrs {
			al, isAl := in.(*ssa.Alloc)
			if !isAl || inCycle(al.Block()) {
				continue
			}
			arr, isArr := al.Type().Underlying().(*types.Pointer).Elem().Underlying().(*types.Array)
			if !isArr {
				continue
			}
			if bt, isB := arr.Elem().Underlying().(*types.Basic); !isB || bt.Kind() != types.Uint8 {
				continue
			}
			// the whole-array slice that is handed on
			for _, r := range *al.Referrers() {
				sl, isSl := r.(*ssa.Slice)
				if !isSl || sl.X != ssa.Value(al) || sl.Low != nil || sl.Max != nil {
					continue
				}
				if sl.High != nil {
					if k, isC := constInt(sl.High); !isC || k != arr.Len() {
						continue
					}
				}
				handedOn := false
				for _, u := range *sl.Referrers() {
					switch x := u.(type) {
					case *ssa.Call:
						if calleeName(x) == protoPkg+".createPacket" {
							handedOn = true
						}
					case *ssa.Return:
						handedOn = true
					}
				}
				if !handedOn {
					continue
				}
				ws, ok := positionalFields(al, arr.Len(), sl)
				if ok {
					return ws, sl, true
				}
			}
		}
	}
	return nil, nil, false
}

// mapHelperWrite: a positional write found in helper cal (through its slice parameter), seen from
// the call site: constants stay, a parameter (possibly converted to a basic integer kind) becomes
// the call's argument, len(<the slice parameter>) becomes "length of the window".
func mapHelperWrite(w posWrite, cal *ssa.Function, call *ssa.Call, win ssa.Value) (posWrite, bool) {
	out := w
	out.at = call
	if w.kind != "put" && w.kind != "store" {
		return out, false // copies and reads inside a helper are not followed
	}
	v := w.val
	var conv types.BasicKind
	if cv, ok := v.(*ssa.Convert); ok {
		if bt, isB := cv.Type().Underlying().(*types.Basic); isB {
			conv = bt.Kind()
			v = cv.X
		}
	}
	if _, isC := v.(*ssa.Const); isC {
		return out, true
	}
	if p, isP := v.(*ssa.Parameter); isP {
		for j, q := range cal.Params {
			if q == p && j < len(call.Call.Args) {
				out.val = call.Call.Args[j]
				out.conv = conv
				return out, true
			}
		}
		return out, false
	}
	if lc, isCall := v.(*ssa.Call); isCall {
		if bi, isB := lc.Call.Value.(*ssa.Builtin); isB && bi.Name() == "len" {
			if p, isP := lc.Call.Args[0].(*ssa.Parameter); isP {
				for j, q := range cal.Params {
					if q == p && j < len(call.Call.Args) && call.Call.Args[j] == win {
						out.val = nil
						out.lenOf = win
						out.conv = conv
						return out, true
					}
				}
			}
		}
	}
	return out, false
}
