package main

// Positional packet assembly: a packet (or packet body) laid out in one byte slice by writes at
// constant offsets — binary.LittleEndian.PutUintN(p[a:], v), copy(p[a:], src), p[i] = v,
// r.Read(p[a:]) — instead of a stream of appends. The rules that check a wire layout accept this
// form by turning it into the same ordered field list they use for the stream forms.

import (
	"sort"

	"golang.org/x/tools/go/ssa"
)

type posWrite struct {
	off   int64           // constant byte offset in the base slice
	width int             // bytes written; -1: as many as the source holds (copy) or the reader delivers (read)
	kind  string          // "put", "copy", "read", "store"
	val   ssa.Value       // value written (put/store), source slice (copy), nil (read)
	at    ssa.Instruction // the writing instruction
	n     ssa.Value       // read: the count the Read returned
}

var putWidths = map[string]int{
	"(encoding/binary.littleEndian).PutUint16": 2,
	"(encoding/binary.littleEndian).PutUint32": 4,
	"(encoding/binary.littleEndian).PutUint64": 8,
}

// posWrites lists the writes into base made in its function. exact=false when base is also written
// in a way this analysis cannot place (a non-constant offset, a callee that is handed a writable
// window and is not one of the recognised writers).
func posWrites(base ssa.Value) (ws []posWrite, exact bool) {
	exact = true
	// window: a value that aliases base from constant offset off on
	var scan func(win ssa.Value, off int64, depth int)
	scan = func(win ssa.Value, off int64, depth int) {
		refs := win.Referrers()
		if refs == nil || depth > 3 {
			return
		}
		for _, r := range *refs {
			switch x := r.(type) {
			case *ssa.Slice:
				if x.X != win {
					continue
				}
				lo := int64(0)
				if x.Low != nil {
					k, ok := constInt(x.Low)
					if !ok {
						// a window at a variable offset: a write through it cannot be placed
						if writesThrough(x) {
							exact = false
						}
						continue
					}
					lo = k
				}
				scan(x, off+lo, depth+1)
			case *ssa.IndexAddr:
				if x.X != win {
					continue
				}
				for _, u := range *x.Referrers() {
					if st, ok := u.(*ssa.Store); ok && st.Addr == ssa.Value(x) {
						if k, ok := constInt(x.Index); ok {
							ws = append(ws, posWrite{off: off + k, width: 1, kind: "store", val: st.Val, at: st})
						} else {
							exact = false
						}
					}
				}
			case *ssa.Call:
				name := calleeName(x)
				if w, ok := putWidths[name]; ok && len(x.Call.Args) >= 2 && x.Call.Args[len(x.Call.Args)-2] == win {
					ws = append(ws, posWrite{off: off, width: w, kind: "put", val: x.Call.Args[len(x.Call.Args)-1], at: x})
					continue
				}
				if bi, isB := x.Call.Value.(*ssa.Builtin); isB && bi.Name() == "copy" {
					if x.Call.Args[0] == win {
						ws = append(ws, posWrite{off: off, width: -1, kind: "copy", val: x.Call.Args[1], at: x})
					}
					continue
				}
				if x.Call.IsInvoke() && x.Call.Method.Name() == "Read" && len(x.Call.Args) == 1 && x.Call.Args[0] == win {
					ws = append(ws, posWrite{off: off, width: -1, kind: "read", at: x, n: resultOf(x, 0)})
					continue
				}
			}
		}
	}
	scan(base, 0, 0)
	sort.SliceStable(ws, func(i, j int) bool { return ws[i].off < ws[j].off })
	return ws, exact
}

// writesThrough: the slice value is used as the destination of a recognised writer.
func writesThrough(sl *ssa.Slice) bool {
	for _, u := range *sl.Referrers() {
		switch x := u.(type) {
		case *ssa.Call:
			if _, ok := putWidths[calleeName(x)]; ok {
				return true
			}
			if bi, isB := x.Call.Value.(*ssa.Builtin); isB && bi.Name() == "copy" && x.Call.Args[0] == ssa.Value(sl) {
				return true
			}
			if x.Call.IsInvoke() && x.Call.Method.Name() == "Read" {
				return true
			}
		case *ssa.IndexAddr:
			return true
		}
	}
	return false
}

// positionalBuilder: fn returns a slice it allocated with make and filled by positional writes that
// tile it from offset 0 without gap or overlap, the last one being a copy of variable length.
// Returns the writes as an ordered field list (the form bufferWrites yields) and the allocation.
func positionalBuilder(fn *ssa.Function) (writes []bufWrite, base *ssa.MakeSlice, ok bool) {
	rets := returnsOf(fn)
	if len(rets) != 1 || len(rets[0].Results) == 0 {
		return nil, nil, false
	}
	ms, isMake := strip(unspill(rets[0].Results[0])).(*ssa.MakeSlice)
	if !isMake || inCycle(ms.Block()) {
		return nil, nil, false
	}
	ws, exact := posWrites(ms)
	if !exact || len(ws) == 0 {
		return nil, nil, false
	}
	next := int64(0)
	for i, w := range ws {
		call, isCall := w.at.(*ssa.Call)
		if !isCall || w.off != next || inCycle(w.at.Block()) || !dominatesInstr(w.at, rets[0]) {
			return nil, nil, false
		}
		switch w.kind {
		case "put":
			writes = append(writes, bufWrite{call: call, width: w.width, val: w.val})
			next += int64(w.width)
		case "copy":
			if i != len(ws)-1 {
				return nil, nil, false
			}
			writes = append(writes, bufWrite{call: call, width: -1, val: w.val})
		default:
			return nil, nil, false
		}
	}
	return writes, ms, true
}
