package main

import (
	"fmt"
	"go/token"
	"go/types"
	"sort"
	"strings"

	"golang.org/x/tools/go/ssa"
)

func init() {
	register(&Property{
		ID:          "C07",
		Title:       "Concurrent tunnels are isolated from each other",
		DesignRef:   "DESIGN.md §3 C07",
		Technique:   "ownership analysis: inventory of shared mutable state reachable from request-serving code against a frozen table, SSA value origin of container keys, who-may-construct inventory of Tunnel/Processor, and origin of every Tunnel the security callbacks touch (only the calling context's)",
		LevelText:   "Static: isolation is decided as ownership. (1) The only process-wide mutable state that request-serving code touches is the frozen set {connection registry under its mutex, the legacy-tunnel cache, prometheus gauges, the session store, the OIDC state store, the NTLM context cache}; any other package variable written (or pool/cache/channel used) on a request path, and any package variable or singleton field whose type can hold a Tunnel, Processor, Identity, Transport or connection, is a violation. (2) The legacy cache is read with the request's Rdg-Connection-Id and written under the tunnel's own RDGId, which was initialised from that same header; the registry is keyed by a fresh UUID. (3) Tunnels are constructed only in HandleGatewayProtocol and processors only in NewProcessor. (4) Every tunnel the security callbacks read or write is the one found in the callback's own context, and the context given to the packet loop carries the tunnel the processor was built on. Actual interleavings are not explored; a second client presenting the same connection id is outside the property's quantifier.",
		LevelNote:   "Trusted: go-cache keyed lookups, context.WithValue/Value, uuid.New uniqueness. Noted, outside the quantifier: a websocket request reusing a cached legacy tunnel with the same connection id.",
		Explanation: "C07/shared-state classifies every first-party package variable used by request-reachable functions (read-only, frozen container, or violation) and scans variable and singleton field types for tunnel carriers. C07/keys follows cache and registry keys. C07/fresh inventories composite literals of Tunnel/Processor. C07/context-only follows every *Tunnel value in package security back to getTunnel(own ctx) and the ctx handed to Process back to WithValue(CtxTunnel, t).",
		Assumptions: []string{"distinct tunnels carry distinct connection identifiers (the property's quantifier)"},
		Rules: []RuleDef{
			{"C07/shared-state", "request-serving code touches only the frozen shared containers; no other shared mutable state, no variable able to hold a tunnel carrier", c07SharedState},
			{"C07/keys", "legacy cache keyed by the request's connection id / the tunnel's RDGId from that header; registry keyed by a fresh UUID", c07Keys},
			{"C07/fresh", "Tunnel values constructed only per request in HandleGatewayProtocol; Processor only in NewProcessor", c07Fresh},
			{"C07/ntlm-session", "the NTLM exchange of a request is keyed by that connection's address, so tunnels setting up from one host do not share a server session (C05's NTLM gate rule)", func(c *Ctx) { c05NtlmGateAs(c, "C07/ntlm-session") }},
			{"C07/context-only", "security callbacks use only the tunnel of their own context; the packet loop's context carries its own tunnel", c07ContextOnly},
			{"C07/shared-slices", "request-serving code never writes into a slice shared between requests (element store or append(s[:0], ...) on a package-variable / long-lived-field slice)", func(c *Ctx) { sharedSliceWrites(c, "C07/shared-slices") }},
			{"C07/buffer-ownership", "a packet is assembled and handed on in storage of the call or the connection: no package-level buffer, no pooled buffer that the returned payload still aliases", func(c *Ctx) { packetBuffersPrivate(c, "C07/buffer-ownership") }},
		},
	})
}

// frozen table of shared containers request-serving code may use (one line of reason each)
var frozenShared = map[string]string{
	"cmd/rdpgw/protocol.Connections":          "registry of live tunnels, keyed by the tunnel's UUID, under connectionsMu (C09/globals, C11/registry)",
	"cmd/rdpgw/protocol.connectionsMu":        "mutex of the registry",
	"cmd/rdpgw/protocol.c":                    "legacy tunnel cache keyed by Rdg-Connection-Id (C07/keys)",
	"cmd/rdpgw/protocol.connectionCache":      "prometheus gauge (internally synchronised, aggregate count only)",
	"cmd/rdpgw/protocol.websocketConnections": "prometheus gauge",
	"cmd/rdpgw/protocol.legacyConnections":    "prometheus gauge",
	"cmd/rdpgw/protocol.upgrader":             "websocket upgrader configuration (read-only)",
	"cmd/rdpgw/web.sessionStore":              "gorilla session store, keyed by the MACed session cookie (holds identities, no tunnel state)",
}

var carrierTypes = []struct{ pkg, name string }{
	{protoPkg, "Tunnel"}, {protoPkg, "Processor"}, {protoPkg, "Monitor"}, {identPkgPath, "Identity"}, {identPkgPath, "User"},
	{modPath + "/cmd/rdpgw/transport", "Transport"}, {modPath + "/cmd/rdpgw/transport", "WSPKT"}, {modPath + "/cmd/rdpgw/transport", "LegacyPKT"},
	{"net", "Conn"}, {"github.com/gorilla/websocket", "Conn"},
}

// mentionsCarrier: the type can (transitively, through first-party structs, pointers, containers) hold a carrier.
func mentionsCarrier(t types.Type, seen map[types.Type]bool) (bool, string) {
	if seen[t] {
		return false, ""
	}
	seen[t] = true
	for _, ct := range carrierTypes {
		if typeIs(t, ct.pkg, ct.name) {
			return true, ct.name
		}
	}
	switch x := t.(type) {
	case *types.Pointer:
		return mentionsCarrier(x.Elem(), seen)
	case *types.Slice:
		return mentionsCarrier(x.Elem(), seen)
	case *types.Array:
		return mentionsCarrier(x.Elem(), seen)
	case *types.Map:
		if ok, n := mentionsCarrier(x.Key(), seen); ok {
			return ok, n
		}
		return mentionsCarrier(x.Elem(), seen)
	case *types.Chan:
		return mentionsCarrier(x.Elem(), seen)
	case *types.Named:
		if x.Obj().Pkg() == nil || !strings.HasPrefix(x.Obj().Pkg().Path(), modPath) {
			return false, ""
		}
		return mentionsCarrier(x.Underlying(), seen)
	case *types.Struct:
		for i := 0; i < x.NumFields(); i++ {
			if ok, n := mentionsCarrier(x.Field(i).Type(), seen); ok {
				return ok, n
			}
		}
	}
	return false, ""
}

func isContainerType(t types.Type) bool {
	switch x := t.Underlying().(type) {
	case *types.Chan:
		return true
	case *types.Pointer:
		return isContainerType(x.Elem())
	}
	s := t.String()
	return strings.Contains(s, "sync.Pool") || strings.Contains(s, "go-cache.Cache") || strings.Contains(s, "container/list") || strings.Contains(s, "sync.Map")
}

type gUse struct {
	write, method bool
	pos           token.Pos
	fn            string
}

// globalUses: how the first-party functions selected by in use first-party package variables
// (written; used through a method/channel operation/call; or only read).
func (c *Ctx) globalUses(in func(*ssa.Function) bool) map[*ssa.Global][]gUse {
	type use = gUse
	reach := map[*ssa.Function]bool{}
	for _, fn := range c.allFirstPartyFuncs() {
		if in(fn) {
			reach[fn] = true
		}
	}
	uses := map[*ssa.Global][]use{}
	for _, fn := range c.allFirstPartyFuncs() {
		if !reach[fn] {
			continue
		}
		eachInstr(fn, func(in ssa.Instruction) {
			var ops []*ssa.Value
			for _, op := range in.Operands(ops) {
				if op == nil || *op == nil {
					continue
				}
				g, ok := (*op).(*ssa.Global)
				if !ok || g.Pkg == nil || !strings.HasPrefix(g.Pkg.Pkg.Path(), modPath) {
					continue
				}
				u := use{pos: in.Pos(), fn: shortFn(fn)}
				switch x := in.(type) {
				case *ssa.Store:
					if x.Addr == ssa.Value(g) || addrRootGlobal(x.Addr) == g {
						u.write = true
					}
				case *ssa.UnOp:
					// a loaded container that is mutated, or an API call / channel operation on the loaded value
					w, m := derefUses(x, 0)
					u.write = u.write || w
					u.method = u.method || m
				case ssa.CallInstruction:
					u.method = true // &global passed as receiver/argument (e.g. mutex, pool)
				case *ssa.FieldAddr, *ssa.IndexAddr:
					for _, rr := range *in.(ssa.Value).Referrers() {
						if st, ok := rr.(*ssa.Store); ok && st.Addr == in.(ssa.Value) {
							u.write = true
						}
					}
				}
				uses[g] = append(uses[g], u)
			}
		})
	}
	return uses
}

func c07SharedState(c *Ctx) {
	rule := "C07/shared-state"
	c.skipGenerated = true
	defer func() { c.skipGenerated = false }()
	reach := c.ReqReachable()
	uses := c.globalUses(func(fn *ssa.Function) bool { return reach[fn] })
	var gs []*ssa.Global
	for g := range uses {
		gs = append(gs, g)
	}
	sort.Slice(gs, func(i, j int) bool { return gs[i].String() < gs[j].String() })
	for _, g := range gs {
		name := strings.TrimPrefix(g.Pkg.Pkg.Path(), modPath+"/") + "." + g.Name()
		elem := g.Type().(*types.Pointer).Elem()
		if why, ok := frozenShared[c.frozenName(name)]; ok {
			c.OK(rule, "global "+name, g.Pos(), "frozen shared container: %s", why)
			continue
		}
		written, method := false, false
		var first gUse
		for _, u := range uses[g] {
			if u.write && !written {
				written, first = true, u
			}
			if u.method && !method {
				method = true
				if !written {
					first = u
				}
			}
		}
		switch {
		case written:
			c.Bad(rule, "global "+name, first.pos, "package variable %s is written by request-serving code (%s): state shared by all tunnels that is not one of the frozen containers — one tunnel's packets can affect another's", name, first.fn)
		case method && isContainerType(elem):
			c.Bad(rule, "global "+name, first.pos, "package-level %s of type %s is used by request-serving code (%s): a new shared container (pool, cache, channel) that is not in the frozen table; objects placed in it by one tunnel can be observed by another", name, elem, first.fn)
		default:
			c.OKTrivial(rule, "global "+name, g.Pos(), "read-only on request paths (configured at start-up)")
		}
	}
	// types: any package variable or singleton field able to hold a carrier
	for _, pk := range c.P.First {
		sc := pk.Types.Scope()
		for _, n := range sc.Names() {
			v, ok := sc.Lookup(n).(*types.Var)
			if !ok {
				continue
			}
			name := strings.TrimPrefix(pk.PkgPath, modPath+"/") + "." + n
			if ok2, what := mentionsCarrier(v.Type(), map[types.Type]bool{}); ok2 {
				if _, frozen := frozenShared[c.frozenName(name)]; frozen {
					continue
				}
				c.Bad(rule, "carrier-variable "+name, v.Pos(), "package variable %s can hold a %s: per-tunnel state in process-wide storage", name, what)
			}
		}
	}
	for _, st := range singletonTypes {
		pkRel := strings.TrimPrefix(st.pkg, modPath+"/")
		pk := c.P.Pkg(pkRel)
		if pk == nil {
			continue
		}
		o := pk.Types.Scope().Lookup(st.name)
		if o == nil {
			continue
		}
		s, ok := o.Type().Underlying().(*types.Struct)
		if !ok {
			continue
		}
		for i := 0; i < s.NumFields(); i++ {
			if ok2, what := mentionsCarrier(s.Field(i).Type(), map[types.Type]bool{}); ok2 {
				c.Bad(rule, fmt.Sprintf("carrier-field %s.%s", st.name, s.Field(i).Name()), s.Field(i).Pos(), "singleton field %s.%s can hold a %s", st.name, s.Field(i).Name(), what)
			}
		}
	}
	// interface{}-valued caches: what is stored in them
	for _, fn := range c.allFirstPartyFuncs() {
		for _, ci := range callsIn(fn) {
			n := calleeName(ci)
			if !(strings.HasSuffix(n, cachePkg+".cache).Set") || strings.HasSuffix(n, cachePkg+".cache).Add") || strings.HasSuffix(n, cachePkg+".cache).SetDefault")) {
				continue
			}
			store := cacheIdentity(recvOf(ci))
			mi, ok := arg(ci, 1).(*ssa.MakeInterface)
			if !ok {
				continue
			}
			isCarrier, what := mentionsCarrier(mi.X.Type(), map[types.Type]bool{})
			key := "cache " + strings.TrimPrefix(store, modPath+"/") + " in " + shortFn(fn)
			if isCarrier && store != protoPkg+"."+c.legacyCacheName() {
				c.Bad(rule, key, ci.Pos(), "a %s is stored in the shared cache %s, which is not the legacy tunnel cache", what, store)
			} else {
				c.OK(rule, key, ci.Pos(), "stores %s", mi.X.Type())
			}
		}
	}
	c.Floor(rule, 6, "frozen containers + caches")
}

func c07Keys(c *Ctx) {
	rule := "C07/keys"
	hg := c.Fn("cmd/rdpgw/protocol", "Gateway.HandleGatewayProtocol")
	cG := c.Global("cmd/rdpgw/protocol", c.legacyCacheName())
	isConnID := func(v ssa.Value) bool {
		call, ok := strip(v).(*ssa.Call)
		if !ok || calleeName(call) != "(net/http.Header).Get" {
			return false
		}
		s, ok := constString(arg(call, 0))
		if !ok || !strings.EqualFold(s, "Rdg-Connection-Id") {
			return false
		}
		_, f, ok := fieldLoad(strip(recvOf(call)))
		return ok && f.Name() == "Header"
	}
	rdgF := c.FieldVar("cmd/rdpgw/protocol", "Tunnel", "RDGId")
	idF := c.FieldVar("cmd/rdpgw/protocol", "Tunnel", "Id")
	onC := func(ci ssa.CallInstruction) bool { return cacheIdentity(recvOf(ci)) == protoPkg+"."+cG.Name() }
	nGet, nSet := 0, 0
	for _, fn := range c.allFirstPartyFuncs() {
		for _, ci := range callsIn(fn) {
			n := calleeName(ci)
			switch {
			case strings.HasSuffix(n, cachePkg+".cache).Get") && onC(ci):
				nGet++
				c.Check(c.onlyCalledFrom(fn, hg, 0) && c.allUp(arg(ci, 0), isConnID), rule, "c.Get in "+shortFn(fn), ci.Pos(), "looked up by this request's Rdg-Connection-Id header", "the legacy tunnel cache is read with a key other than the request's Rdg-Connection-Id")
			case strings.HasSuffix(n, cachePkg+".cache).Set") && onC(ci):
				nSet++
				b, f, ok := fieldLoad(strip(arg(ci, 0)))
				sameT := false
				if ok {
					if mi, ok2 := arg(ci, 1).(*ssa.MakeInterface); ok2 && mi.X == b {
						sameT = true
					}
				}
				c.Check(ok && f == rdgF && sameT, rule, "c.Set in "+shortFn(fn)+"#"+itoa(nSet), ci.Pos(), "stored under the tunnel's own RDGId", "a tunnel is cached under a key other than its own RDGId")
			}
		}
	}
	// RDGId initialised from the header value; never reassigned
	nInit := 0
	for _, fn := range c.allFirstPartyFuncs() {
		if !c.Reachable()[fn] {
			continue
		}
		eachInstr(fn, func(in ssa.Instruction) {
			s, ok := in.(*ssa.Store)
			if !ok {
				return
			}
			_, f, ok := fieldOfAddr(s.Addr)
			if !ok {
				return
			}
			switch f {
			case rdgF:
				nInit++
				c.Check(c.onlyCalledFrom(fn, hg, 0) && c.allUp(s.Val, isConnID), rule, "Tunnel.RDGId in "+shortFn(fn), s.Pos(), "initialised from the request's Rdg-Connection-Id", "Tunnel.RDGId is set from something other than the request's connection id header")
			case idF:
				good := false
				if call, ok := strip(s.Val).(*ssa.Call); ok && strings.HasSuffix(calleeName(call), "uuid.UUID).String") {
					if nu, ok := strip(recvOf(call)).(*ssa.Call); ok && strings.HasSuffix(calleeName(nu), "uuid.New") {
						good = true
					}
				}
				c.Check(good, rule, "Tunnel.Id in "+shortFn(fn), s.Pos(), "a fresh UUID per tunnel", "Tunnel.Id (the registry key) is not a fresh UUID")
			}
		})
	}
	if nGet == 0 || nSet == 0 || nInit == 0 {
		c.Undecided(rule, "sites", token.NoPos, "cache Get=%d Set=%d RDGId init=%d", nGet, nSet, nInit)
	}
	c.Floor(rule, 5, "get, 2 sets, RDGId, 2 ids")
}

func c07Fresh(c *Ctx) {
	rule := "C07/fresh"
	reach := c.Reachable()
	n := 0
	for _, fn := range c.allFirstPartyFuncs() {
		if !reach[fn] {
			continue
		}
		eachInstr(fn, func(in ssa.Instruction) {
			al, ok := in.(*ssa.Alloc)
			if !ok {
				return
			}
			et := al.Type().(*types.Pointer).Elem()
			sf := shortFn(fn)
			switch {
			case isNamedStruct(et, protoPkg, "Tunnel"):
				n++
				hg := c.FnOpt("cmd/rdpgw/protocol", "Gateway.HandleGatewayProtocol")
				c.Check(hg != nil && c.onlyCalledFrom(fn, hg, 0) && !inCycle(al.Block()), rule, "Tunnel literal in "+sf, al.Pos(), "one tunnel object per request, when the connection id is not cached", "a Tunnel is constructed outside HandleGatewayProtocol")
			case isNamedStruct(et, protoPkg, "Processor"):
				n++
				c.Check(sf == "cmd/rdpgw/protocol.NewProcessor", rule, "Processor literal in "+sf, al.Pos(), "constructed by NewProcessor only (C01/state-owner: once per handler invocation)", "a Processor is constructed outside NewProcessor")
			}
		})
	}
	c.Floor(rule, 2, "Tunnel and Processor literals")
	_ = n
}

func c07ContextOnly(c *Ctx) {
	rule := "C07/context-only"
	// every *Tunnel value used in package security comes from getTunnel(<own ctx parameter>)
	tunT := types.NewPointer(c.NamedType("cmd/rdpgw/protocol", "Tunnel"))
	nUses := 0
	nCtxReads := 0
	for _, fn := range c.allFirstPartyFuncs() {
		fn := fn
		if fn.Pkg == nil && fn.Parent() == nil {
			continue
		}
		root := fn
		for root.Parent() != nil {
			root = root.Parent()
		}
		if root.Pkg == nil || root.Pkg.Pkg.Path() != secPkgPath {
			continue
		}
		ctxKey := c.constStringOf("cmd/rdpgw/protocol", "CtxTunnel")
		ownCtx := func(v ssa.Value) bool {
			p, ok := v.(*ssa.Parameter)
			return ok && p.Parent() == fn && len(fn.Params) > 0 && p == fn.Params[0] && p.Type().String() == "context.Context"
		}
		// fromOwnContext: v is (a component of) ctx.Value(CtxTunnel) of this function's own context
		// parameter, or of a call of another function of this package given that same parameter
		var fromOwnContext func(v ssa.Value, depth int) bool
		fromOwnContext = func(v ssa.Value, depth int) bool {
			if depth > 4 {
				return false
			}
			switch x := v.(type) {
			case *ssa.Const:
				return x.IsNil()
			case *ssa.Phi:
				for _, e := range x.Edges {
					if e != v && !fromOwnContext(e, depth+1) {
						return false
					}
				}
				return true
			case *ssa.Extract:
				return fromOwnContext(x.Tuple, depth+1)
			case *ssa.TypeAssert:
				call, ok := x.X.(*ssa.Call)
				if !ok || !call.Call.IsInvoke() || call.Call.Method.Name() != "Value" || !ownCtx(call.Call.Value) {
					return false
				}
				k, isC := constString(call.Call.Args[0])
				if isC && k == ctxKey {
					nCtxReads++
					return true
				}
				return false
			case *ssa.Call:
				cal := x.Call.StaticCallee()
				if cal != nil && cal.Pkg != nil && cal.Pkg.Pkg.Path() == secPkgPath && len(x.Call.Args) > 0 && ownCtx(x.Call.Args[0]) {
					return true
				}
				// an accessor of package protocol: TunnelFromContext(ctx) = ctx.Value(CtxTunnel).(*Tunnel)
				if cal != nil && len(x.Call.Args) > 0 && ownCtx(x.Call.Args[0]) && tunnelAccessor(cal, ctxKey) {
					nCtxReads++
					return true
				}
				return false
			}
			return false
		}
		eachInstr(fn, func(in ssa.Instruction) {
			v, ok := in.(ssa.Value)
			if !ok || !types.Identical(v.Type(), tunT) {
				return
			}
			nUses++
			c.Check(fromOwnContext(v, 0), rule, "tunnel value in "+shortFn(fn)+"#"+itoa(nUses), in.Pos(), "the tunnel of this call's own context", "a tunnel other than the one in the callback's own context is obtained ("+describe(in)+")")
		})
	}
	c.Check(nCtxReads > 0, rule, "getTunnel", token.NoPos, "the package reads ctx.Value(protocol.CtxTunnel) of the given context", "getTunnel does not read the CtxTunnel value of the given context")
	// the packet loop's context carries the tunnel its processor was built on
	hg := c.Fn("cmd/rdpgw/protocol", "Gateway.HandleGatewayProtocol")
	var wv *ssa.Call
	for _, ci := range callsTo(hg, "context.WithValue") {
		if s, ok := constString(arg(ci, 1)); ok && s == c.constStringOf("cmd/rdpgw/protocol", "CtxTunnel") {
			wv = ci.(*ssa.Call)
		}
	}
	wvTunnelArg := 2
	if wv == nil {
		// through a constructor of package protocol: ContextWithTunnel(ctx, t) = context.WithValue(ctx, CtxTunnel, t)
		for _, ci := range callsIn(hg) {
			call, ok := ci.(*ssa.Call)
			if !ok {
				continue
			}
			h := call.Call.StaticCallee()
			if h == nil || !IsFirstParty(h) || h.Blocks == nil || len(h.Params) != 2 {
				continue
			}
			rets := returnsOf(h)
			if len(rets) != 1 || len(rets[0].Results) != 1 {
				continue
			}
			inner, ok := strip(rets[0].Results[0]).(*ssa.Call)
			if !ok || calleeName(inner) != "context.WithValue" {
				continue
			}
			if s, ok := constString(arg(inner, 1)); !ok || s != c.constStringOf("cmd/rdpgw/protocol", "CtxTunnel") {
				continue
			}
			if strip(arg(inner, 0)) == ssa.Value(h.Params[0]) && strip(arg(inner, 2)) == ssa.Value(h.Params[1]) {
				wv, wvTunnelArg = call, 1
			}
		}
	}
	if wv == nil {
		c.Bad(rule, "HandleGatewayProtocol WithValue", hg.Pos(), "the tunnel is not placed in the request context")
	} else {
		tv := strip(arg(wv, wvTunnelArg))
		good := true
		for _, ci := range callsIn(hg) {
			n := calleeName(ci)
			if strings.HasSuffix(n, ".Gateway).handleWebsocketProtocol") {
				if arg(ci, 0) != ssa.Value(wv) || strip(arg(ci, 2)) != tv {
					good = false
				}
			}
			if strings.HasSuffix(n, ".Gateway).handleLegacyProtocol") {
				rq, ok := strip(arg(ci, 1)).(*ssa.Call)
				if !ok || calleeName(rq) != "(*net/http.Request).WithContext" || arg(rq, 0) != ssa.Value(wv) || strip(arg(ci, 2)) != tv {
					good = false
				}
			}
		}
		c.Check(good, rule, "HandleGatewayProtocol context", wv.Pos(), "both handlers receive the context holding the same tunnel they operate on", "a handler receives a context whose tunnel is not the tunnel it operates on")
	}
	// every processor is built on, and every packet loop runs with the context of, the tunnel that
	// HandleGatewayProtocol put into that context (followed through helper parameters)
	if wv != nil {
		tv := strip(arg(wv, wvTunnelArg))
		isTunnel := func(v ssa.Value) bool { return strip(v) == tv }
		isCtx := func(v ssa.Value) bool {
			v = strip(v)
			if v == ssa.Value(wv) {
				return true
			}
			if call, ok := v.(*ssa.Call); ok && calleeName(call) == "(*net/http.Request).Context" {
				return c.allUp(recvOf(call), func(u ssa.Value) bool {
					rq, ok := strip(u).(*ssa.Call)
					return ok && calleeName(rq) == "(*net/http.Request).WithContext" && arg(rq, 0) == ssa.Value(wv)
				})
			}
			return false
		}
		n := 0
		for _, f := range c.allFirstPartyFuncs() {
			if !c.Reachable()[f] {
				continue
			}
			for _, ci := range callsTo(f, protoPkg+".NewProcessor") {
				n++
				c.Check(c.allUp(arg(ci, 1), isTunnel), rule, "processor-tunnel in "+shortFn(f), ci.Pos(), "the processor is built on the tunnel of this request", "the processor is built on a tunnel other than the one placed in the request context")
			}
			for _, ci := range callsTo(f, "(*"+protoPkg+".Processor).Process") {
				n++
				c.Check(c.allUp(arg(ci, 0), isCtx), rule, "loop-context in "+shortFn(f), ci.Pos(), "the packet loop runs with the context holding its tunnel", "the packet loop runs with a context other than the one holding its tunnel")
			}
		}
		if n < 2 {
			c.Undecided(rule, "processor sites", hg.Pos(), "found %d NewProcessor/Process sites (4 on the pinned tree, 2 when both handlers share a helper)", n)
		}
	}
	c.Floor(rule, 8, "security tunnel uses + context wiring")
}

func (c *Ctx) constStringOf(pkgRel, name string) string {
	pk := c.P.Pkg(pkgRel)
	if pk == nil {
		c.Missing("package %s", pkgRel)
	}
	o, ok := pk.Types.Scope().Lookup(name).(*types.Const)
	if !ok {
		c.Missing("constant %s.%s", pkgRel, name)
	}
	s := o.Val().ExactString()
	if len(s) >= 2 && s[0] == '"' {
		s = s[1 : len(s)-1]
	}
	return s
}

func isNamedStruct(t types.Type, pkgPath, name string) bool {
	n, ok := t.(*types.Named)
	return ok && n.Obj().Name() == name && n.Obj().Pkg() != nil && n.Obj().Pkg().Path() == pkgPath
}

// derefUses follows a value loaded from a package variable through field/element
// addressing and loads, and reports whether something is stored through it (write) or
// whether it is used by a call, send, receive or select (api).
func derefUses(v ssa.Value, depth int) (write, api bool) {
	if depth > 6 || v.Referrers() == nil {
		return
	}
	for _, r := range *v.Referrers() {
		switch y := r.(type) {
		case *ssa.MapUpdate:
			if y.Map == v {
				write = true
			}
		case *ssa.Store:
			if y.Addr == v {
				write = true
			}
		case *ssa.Send:
			write, api = true, true
		case *ssa.Select:
			api = true
			for _, st := range y.States {
				if st.Chan == v && st.Send != nil {
					write = true
				}
			}
		case *ssa.UnOp:
			if y.Op == token.ARROW {
				api = true
			} else {
				w, a := derefUses(y, depth+1)
				write, api = write || w, api || a
			}
		case ssa.CallInstruction:
			if b, ok := y.Common().Value.(*ssa.Builtin); ok {
				if b.Name() == "delete" && y.Common().Args[0] == v {
					write = true
				}
			} else {
				api = true
			}
		case *ssa.FieldAddr:
			w, a := derefUses(y, depth+1)
			write, api = write || w, api || a
		case *ssa.IndexAddr:
			w, a := derefUses(y, depth+1)
			write, api = write || w, api || a
		case *ssa.Field:
			w, a := derefUses(y, depth+1)
			write, api = write || w, api || a
		case *ssa.MakeInterface:
			w, a := derefUses(y, depth+1)
			write, api = write || w, api || a
		case *ssa.ChangeType:
			w, a := derefUses(y, depth+1)
			write, api = write || w, api || a
		}
	}
	return
}

// sharedSliceWrites: request-serving code must not write into slices it shares with other requests:
// the configured host lists (security.Hosts, Handler.hosts — main hands the same backing array to
// both) and any other slice held in a package variable or in a field of a long-lived object. Two
// shapes are flagged in request-reachable first-party code: storing to an element of such a slice,
// and the in-place rebuild idiom append(s[:0], ...) on such a slice (directly or through a helper's
// parameter). One request's substitution of its user name then becomes every later request's list.
func sharedSliceWrites(c *Ctx, rule string) {
	reach := c.Reachable()
	// isShared: the slice value is loaded from a package variable or a struct field, or is a
	// parameter that some static caller fills with such a value
	var isShared func(v ssa.Value, depth int) (bool, string)
	isShared = func(v ssa.Value, depth int) (bool, string) {
		if depth > 3 {
			return false, ""
		}
		switch x := strip(v).(type) {
		case *ssa.UnOp:
			if x.Op != token.MUL {
				return false, ""
			}
			if g, ok := x.X.(*ssa.Global); ok {
				return true, "package variable " + g.Name()
			}
			if _, f, ok := fieldOfAddr(x.X); ok {
				if _, isAlloc := baseOfFieldAddr(x.X).(*ssa.Alloc); !isAlloc {
					return true, "field " + f.Name()
				}
			}
		case *ssa.Slice:
			return isShared(x.X, depth+1)
		case *ssa.Parameter:
			for _, u := range c.upValues(x, 0) {
				if u == ssa.Value(x) {
					continue
				}
				if ok, what := isShared(u, depth+1); ok {
					return true, what + " (through parameter " + x.Name() + ")"
				}
			}
		case *ssa.Phi:
			for _, e := range x.Edges {
				if e == ssa.Value(x) {
					continue
				}
				if ok, what := isShared(e, depth+1); ok {
					return true, what
				}
			}
		}
		return false, ""
	}
	n := 0
	for _, fn := range c.allFirstPartyFuncs() {
		if !reach[fn] {
			continue
		}
		eachInstr(fn, func(in ssa.Instruction) {
			switch x := in.(type) {
			case *ssa.Call:
				b, ok := x.Call.Value.(*ssa.Builtin)
				if !ok || b.Name() != "append" || len(x.Call.Args) == 0 {
					return
				}
				// the destination: s[:0] itself, or the loop variable that starts as s[:0]
				var sl *ssa.Slice
				var find func(v ssa.Value, d int)
				find = func(v ssa.Value, d int) {
					if sl != nil || d > 2 {
						return
					}
					switch y := strip(v).(type) {
					case *ssa.Slice:
						if y.High != nil {
							if k, isC := constInt(y.High); isC && k == 0 {
								sl = y
							}
						}
					case *ssa.Phi:
						for _, e := range y.Edges {
							find(e, d+1)
						}
					}
				}
				find(x.Call.Args[0], 0)
				if sl == nil {
					return
				}
				if shared, what := isShared(sl.X, 0); shared {
					n++
					c.Bad(rule, "in-place append in "+shortFn(fn), x.Pos(), "append(s[:0], ...) rebuilds %s in place: the slice is shared by all requests (the same backing array feeds the download handler and the tunnel's host policy), so what one request writes every later request reads", what)
				}
			case *ssa.Store:
				ia, ok := x.Addr.(*ssa.IndexAddr)
				if !ok {
					return
				}
				if _, isSlice := ia.X.Type().Underlying().(*types.Slice); !isSlice {
					return
				}
				if shared, what := isShared(ia.X, 0); shared {
					n++
					c.Bad(rule, "element store in "+shortFn(fn), x.Pos(), "an element of %s is overwritten while serving a request: the slice is shared by all requests", what)
				}
			}
		})
	}
	if n == 0 {
		c.OK(rule, "shared slices", token.NoPos, "request-serving code neither stores into nor rebuilds in place any slice held in a package variable or a long-lived object's field")
	}
}

func baseOfFieldAddr(a ssa.Value) ssa.Value {
	for {
		fa, ok := a.(*ssa.FieldAddr)
		if !ok {
			return a
		}
		a = fa.X
		if u, ok := a.(*ssa.UnOp); ok && u.Op == token.MUL {
			a = u.X
		}
	}
}

// legacyCacheName: the package variable of package protocol that is the legacy tunnel cache: "c" on
// the pinned tree; when that name is gone, the one go-cache variable of the package (a rename).
func (c *Ctx) legacyCacheName() string {
	sp := c.P.SSAPkg("cmd/rdpgw/protocol")
	if sp == nil {
		return "c"
	}
	if sp.Var("c") != nil {
		return "c"
	}
	var names []string
	for name, m := range sp.Members {
		g, ok := m.(*ssa.Global)
		if !ok {
			continue
		}
		if pt, ok := g.Type().(*types.Pointer); ok && typeIs(pt.Elem(), cachePkg, "Cache") {
			names = append(names, name)
		}
	}
	if len(names) == 1 {
		return names[0]
	}
	return "c"
}

// frozenName maps the renamed legacy tunnel cache back to its entry in the frozen table.
func (c *Ctx) frozenName(name string) string {
	if name == "cmd/rdpgw/protocol."+c.legacyCacheName() {
		return "cmd/rdpgw/protocol.c"
	}
	return name
}

// tunnelAccessor: f(ctx, ...) returns, as its first result, ctx.Value(<the tunnel key>).(*Tunnel) of
// its own first parameter on every path that returns a non-nil tunnel.
func tunnelAccessor(f *ssa.Function, key string) bool {
	if f == nil || !IsFirstParty(f) || f.Blocks == nil || len(f.Params) == 0 || f.Params[0].Type().String() != "context.Context" {
		return false
	}
	var ok func(v ssa.Value, depth int) bool
	ok = func(v ssa.Value, depth int) bool {
		if depth > 4 {
			return false
		}
		switch x := strip(unspill(v)).(type) {
		case *ssa.Const:
			return x.IsNil()
		case *ssa.Phi:
			for _, e := range x.Edges {
				if e != ssa.Value(x) && !ok(e, depth+1) {
					return false
				}
			}
			return true
		case *ssa.Extract:
			return ok(x.Tuple, depth+1)
		case *ssa.TypeAssert:
			call, isCall := x.X.(*ssa.Call)
			if !isCall || !call.Call.IsInvoke() || call.Call.Method.Name() != "Value" || call.Call.Value != ssa.Value(f.Params[0]) {
				return false
			}
			k, isC := constString(call.Call.Args[0])
			return isC && k == key
		}
		return false
	}
	some := false
	for _, r := range returnsOf(f) {
		if len(r.Results) == 0 || !ok(r.Results[0], 0) {
			return false
		}
		some = true
	}
	return some
}
