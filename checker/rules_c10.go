package main

import (
	"fmt"
	"go/token"
	"go/types"
	"strings"

	"golang.org/x/tools/go/ssa"
)

func init() {
	register(&Property{
		ID:          "C10",
		Title:       "No client input can panic, crash or wedge the gateway",
		DesignRef:   "DESIGN.md §3 C10",
		Technique:   "inventory of partial operations on request-reachable first-party functions: compiler-unproven bounds checks (Go prove/BCE listing) discharged by guards and library post-conditions, unchecked type assertions discharged by who-may-write arguments, reflect partial methods, client-sized allocations, exit/panic calls; plus containment of third-party parsers of client bytes behind a directly recovering defer (call-graph reachability)",
		LevelText:   "Static: every index/slice expression in request-serving first-party code is either proven in-bounds by the Go compiler or discharged by a recognised guard, a library post-condition (copy/Read/EncodeRune counts, Split results, url.Values presence, HasPrefix) or a named reason whose condition is re-checked; every unchecked type assertion is matched with the static types of all writers of the asserted value; allocations sized by client data are bounded; no request-reachable path calls panic/os.Exit/log.Fatal except the entries justified by the settings table or the PAM stack; reflect walks are flagged; the gRPC NTLM method and every go-statement target reach third-party parsers of client bytes only through a function whose deferred closure calls recover() directly; the legacy IN leg starts the packet loop only with both transports set. Decides absence of these panic classes in first-party code and containment of dependency panics; not resource exhaustion or slow clients. A pointer result of a call whose error the code tests is dereferenced only where that test protects it (a failing gRPC, parse or constructor call returns nil); client connections have one writer at a time (WritePacket only under the tunnel's write mutex).",
		LevelNote:   "Trusted: the Go compiler's prove pass (bounds-check elimination), net/http recovering handler panics per connection (counted as 'closes that one connection', never as absence of panics), library post-conditions listed in partial.go. Known findings: kdcproxy.forward indexing and Gateway.setSendReceiveBuffers' reflection walk.",
		Explanation: "C10/bounds maps the compiler's unproven-bounds listing to SSA instructions, keeps those in request-reachable functions (VTA call graph from handler roots) and discharges each. C10/assert, C10/alloc, C10/exit, C10/reflect, C10/div inventory the other partial operations. C10/contain walks the call graph from gRPC methods and go targets to third-party parsers. C10/hijack-nil checks the legacy handler's nil guards.",
		Assumptions: []string{"panics inside dependencies are in scope only through containment", "net/http recovers panics of handler goroutines and closes that connection"},
		Rules: []RuleDef{
			{"C10/bounds", "every compiler-unproven index/slice in request-reachable code is discharged by a guard, a post-condition or a checked reason", c10Bounds},
			{"C10/assert", "every unchecked type assertion in request-reachable code matches the static type of all writers of the asserted value", c10Assert},
			{"C10/alloc", "allocations sized by non-constant data are bounded (16-bit fields, checked upper bound, or a library count)", c10Alloc},
			{"C10/exit", "no panic/os.Exit/log.Fatal on request-reachable paths except justified entries", c10Exit},
			{"C10/reflect", "reflect partial methods are dominated by a Kind test of the same value", c10Reflect},
			{"C10/contain", "gRPC methods and go targets reach third-party parsers of client bytes only behind a directly recovering defer", c10Contain},
			{"C10/binary-width", "every direct byte-order read or write (binary.LittleEndian.UintN / PutUintN) on a request path has an argument proven long enough", c10BinaryWidth},
			{"C10/relay-conn", "the relay goroutine is started only with a connection that was dialled successfully", c10RelayConn},
			{"C10/hijack-nil", "the packet loop starts only with both transports set", c10HijackNil},
			{"C10/nil-result", "a pointer result of a call whose error is tested is dereferenced only where that test protects it (a failing gRPC/parse call returns nil)", c10NilResult},
			{"C10/write-serialised", "one writer at a time on a client connection: WritePacket only under the tunnel's write mutex (two concurrent writers make the websocket library panic; C09's tunnel rule)", func(c *Ctx) { c09TunnelAs(c, "C10/write-serialised") }},
			{"C10/conn-writers", "client connections are written only through Tunnel.Write: two writers on one websocket connection make the library panic (C09's rule)", func(c *Ctx) { c09ConnWritersAs(c, "C10/conn-writers") }},
		},
	})
}

func c10Bounds(c *Ctx) {
	c.skipGenerated = true
	defer func() { c.skipGenerated = false }()
	rule := "C10/bounds"
	sites, err := c.unprovenSites()
	if err != nil {
		c.Undecided(rule, "bce-listing", token.NoPos, "%v", err)
		return
	}
	reach := c.ReqReachable()
	n := 0
	for _, s := range sites {
		if !reach[s.Fn] {
			c.Stat("unproven_sites_startup_only", 1)
			continue
		}
		n++
		ok, how := dischargeBounds(c, s)
		if ok {
			c.OK(rule, s.Key(), s.Pos, "%s: %s", s.Kind, how)
		} else {
			if how == "" {
				how = "no dominating guard or library post-condition bounds it"
			}
			c.nextAlt = s.AltKey(c)
			c.Bad(rule, s.Key(), s.Pos, "%s not proven by the compiler and not discharged: %s; client-controlled data can make this expression panic", s.Expr, how)
		}
	}
	c.Stat("unproven_sites_request_reachable", n)
	c.Stat("unproven_sites_total", len(sites))
	c.Floor(rule, 12, "compiler-unproven sites in request-reachable code confirmed by hand")
}

// ---------------------------------------------------------------------------

func c10Assert(c *Ctx) {
	rule := "C10/assert"
	c.skipGenerated = true
	defer func() { c.skipGenerated = false }()
	reach := c.ReqReachable()
	n := 0
	for _, fn := range c.allFirstPartyFuncs() {
		if !reach[fn] {
			continue
		}
		eachInstr(fn, func(in ssa.Instruction) {
			ta, ok := in.(*ssa.TypeAssert)
			if !ok || ta.CommaOk {
				return
			}
			n++
			key := shortFn(fn) + " (" + describeSrc(ta.X) + ").(" + types.TypeString(ta.AssertedType, func(p *types.Package) string { return p.Name() }) + ")"
			ok2, how := dischargeAssert(c, fn, ta)
			if ok2 {
				c.OK(rule, key, ta.Pos(), "%s", how)
			} else {
				c.Bad(rule, key, ta.Pos(), "unchecked type assertion on a value whose writers are not all of that type: %s", how)
			}
		})
	}
	c.Floor(rule, 6, "unchecked assertions in request-reachable code")
	_ = n
}

func describeSrc(v ssa.Value) string {
	for _, o := range origins(v) {
		switch o.Kind {
		case "call":
			n := calleeName(o.Call)
			if i := strings.LastIndex(n, "."); i >= 0 {
				n = n[i+1:]
			}
			a := ""
			if len(o.Call.Common().Args) > 0 {
				if s, ok := constString(o.Call.Common().Args[len(o.Call.Common().Args)-1]); ok {
					a = fmt.Sprintf("%q", s)
				}
				if o.Call.Common().IsInvoke() && len(o.Call.Common().Args) > 0 {
					if s, ok := constString(o.Call.Common().Args[0]); ok {
						a = fmt.Sprintf("%q", s)
					}
				}
			}
			return n + "(" + a + ")"
		case "other":
			if lk, ok := o.Value.(*ssa.Lookup); ok {
				if s, ok := constString(lk.Index); ok {
					return fmt.Sprintf("map[%q]", s)
				}
				return "map lookup"
			}
		}
	}
	return "value"
}

// dischargeAssert: who-may-write arguments for the value being asserted.
func dischargeAssert(c *Ctx, fn *ssa.Function, ta *ssa.TypeAssert) (bool, string) {
	want := ta.AssertedType
	src := strip(ta.X)
	// (1) identity attributes: GetAttribute(const k) — all SetAttribute(const k, v) sites store that type
	if call, ok := src.(*ssa.Call); ok && call.Call.IsInvoke() && call.Call.Method.Name() == "GetAttribute" {
		k, ok := constString(call.Call.Args[0])
		if !ok {
			return false, "attribute key not constant"
		}
		nSet := 0
		for _, f := range c.allFirstPartyFuncs() {
			for _, ci := range callsIn(f) {
				cc := ci.Common()
				if cc.IsInvoke() && cc.Method.Name() == "SetAttribute" {
					if kk, ok := constString(cc.Args[0]); ok && kk == k {
						nSet++
						mi, ok := cc.Args[1].(*ssa.MakeInterface)
						if !ok || !types.Identical(mi.X.Type(), want) {
							return false, fmt.Sprintf("attribute %q is also written with another type in %s", k, shortFn(f))
						}
					} else if !ok {
						return false, "an attribute is written under a non-constant key in " + shortFn(f)
					}
				}
			}
		}
		if nSet == 0 {
			return false, fmt.Sprintf("attribute %q is never written", k)
		}
		// presence: the attribute must have been set for this identity
		switch k {
		case "clientIp", "remoteAddr":
			return true, fmt.Sprintf("all %d writers of attribute %q store %s; EnrichContext sets it on every request before any handler (C04/source)", nSet, k, want)
		case "accessToken":
			// set in the callback before the identity is saved as authenticated; consumers run only for authenticated sessions (C12/gate)
			return true, fmt.Sprintf("all %d writers of attribute %q store %s; written by the verified callback before the authenticated identity is saved, read only behind the authenticated gate (C12/gate, C13/callback-chain)", nSet, k, want)
		}
		return false, fmt.Sprintf("no presence argument for attribute %q", k)
	}
	// (2) values from a go-cache: all Set sites on the same store pass that type
	if ex, ok := src.(*ssa.Extract); ok && ex.Index == 0 {
		if call, ok := ex.Tuple.(*ssa.Call); ok && strings.HasSuffix(calleeName(call), cachePkg+".cache).Get") {
			store := cacheIdentity(recvOf(call))
			if store == "" {
				return false, "cache not identified"
			}
			// found flag must gate the assertion
			var found ssa.Value
			for _, r := range *call.Referrers() {
				if e2, ok := r.(*ssa.Extract); ok && e2.Index == 1 {
					found = e2
				}
			}
			if found == nil {
				return false, "the found flag of the cache lookup is discarded"
			}
			if pass, why := mustPass(fn, ta, GTrue(isVal(found))); !pass {
				return false, "assertion " + why + " of the found flag (nil interface on a miss)"
			}
			nSet := 0
			for _, f := range c.allFirstPartyFuncs() {
				for _, ci := range callsIn(f) {
					n := calleeName(ci)
					if !(strings.HasSuffix(n, cachePkg+".cache).Set") || strings.HasSuffix(n, cachePkg+".cache).SetDefault") || strings.HasSuffix(n, cachePkg+".cache).Add")) {
						continue
					}
					if cacheIdentity(recvOf(ci)) != store {
						continue
					}
					nSet++
					mi, ok := arg(ci, 1).(*ssa.MakeInterface)
					if !ok || !types.Identical(mi.X.Type(), want) {
						return false, fmt.Sprintf("cache %s is also filled with another type in %s", store, shortFn(f))
					}
				}
			}
			if nSet == 0 {
				return false, "cache " + store + " is never filled"
			}
			return true, fmt.Sprintf("lookup found, and all %d Set sites of %s store %s", nSet, store, want)
		}
	}
	// (3) session value: Values[identityKey] assigned only with that type
	for _, o := range origins(src) {
		if o.Kind == "other" {
			if lk, ok := o.Value.(*ssa.Lookup); ok {
				nUpd := 0
				good := true
				for _, f := range c.allFirstPartyFuncs() {
					eachInstr(f, func(in ssa.Instruction) {
						mu, ok := in.(*ssa.MapUpdate)
						if !ok || !types.Identical(mu.Map.Type(), lk.X.Type()) {
							return
						}
						if !sameConst(mu.Key, lk.Index) {
							return
						}
						nUpd++
						mi, ok := mu.Value.(*ssa.MakeInterface)
						if !ok || !types.Identical(mi.X.Type(), want) {
							good = false
						}
					})
				}
				// nil test before the assertion
				nilOK, _ := mustPass(fn, ta, GNeq(func(v ssa.Value) bool { return v == ssa.Value(lk) || strip(v) == ssa.Value(lk) }, anyNil))
				if nUpd > 0 && good && nilOK {
					return true, fmt.Sprintf("map entry tested non-nil, and all %d writers of that key store %s (cookie values are MACed, so only this gateway wrote them)", nUpd, want)
				}
				return false, fmt.Sprintf("map entry: writers=%d sameType=%v nil-tested=%v", nUpd, good, nilOK)
			}
		}
	}
	// (4) structs.Field.Value() under a Kind() case of the same kind
	if call, ok := src.(*ssa.Call); ok && calleeName(call) == "(*"+structsPkg+".Field).Value" {
		kinds := map[types.BasicKind]int64{types.String: 24, types.Int: 2, types.Bool: 1}
		if bt, ok := want.Underlying().(*types.Basic); ok {
			if kv, ok := kinds[bt.Kind()]; ok {
				g := GEq(func(v ssa.Value) bool {
					kc, ok := v.(*ssa.Call)
					return ok && calleeName(kc) == "(*"+structsPkg+".Field).Kind" && recvOf(kc) == recvOf(call)
				}, func(v ssa.Value) bool { k, ok := constInt(v); return ok && k == kv })
				if pass, _ := mustPass(fn, ta, g); pass {
					return true, "under the case f.Kind() == " + bt.Name() + " of the same field"
				}
			}
		}
		return false, "field value asserted outside the matching Kind() case"
	}
	// (5) context values: comma-ok form is required (handled: not here)
	return false, "no who-may-write argument known for this value (" + describeSrc(src) + ")"
}

func sameConst(a, b ssa.Value) bool {
	ca, cb := constOf(a), constOf(b)
	if ca == nil || cb == nil || ca.Value == nil || cb.Value == nil {
		return false
	}
	return ca.Value.ExactString() == cb.Value.ExactString()
}

// cacheIdentity names the cache a (*cache.cache) receiver belongs to: a package variable or a struct field.
func cacheIdentity(recv ssa.Value) string {
	root, path := fieldPath(recv)
	if len(path) > 0 && path[len(path)-1] == "cache" {
		path = path[:len(path)-1]
	}
	if a, ok := loadAddr(root); ok {
		if g, ok := a.(*ssa.Global); ok {
			return g.Pkg.Pkg.Path() + "." + g.Name()
		}
	}
	if len(path) > 0 {
		t := root.Type()
		if p, ok := t.(*types.Pointer); ok {
			t = p.Elem()
		}
		return t.String() + "." + strings.Join(path, ".")
	}
	if a, ok := loadAddr(root); ok {
		if fv, ok := a.(*ssa.FreeVar); ok {
			return "freevar " + fv.Name() + " of " + fv.Parent().Name()
		}
	}
	return ""
}

func c10Alloc(c *Ctx) {
	c.skipGenerated = true
	defer func() { c.skipGenerated = false }()
	rule := "C10/alloc"
	reach := c.ReqReachable()
	for _, fn := range c.allFirstPartyFuncs() {
		if !reach[fn] {
			continue
		}
		eachInstr(fn, func(in ssa.Instruction) {
			ms, ok := in.(*ssa.MakeSlice)
			if !ok {
				return
			}
			if _, isC := constInt(ms.Len); isC {
				return
			}
			key := shortFn(fn) + " make(" + ms.Type().String() + ", " + describeLen(ms.Len) + ")"
			ok2, how := boundedLen(fn, ms)
			if ok2 {
				c.OK(rule, key, ms.Pos(), "%s", how)
			} else {
				c.Bad(rule, key, ms.Pos(), "allocation sized by data that is not bounded: %s", how)
			}
		})
	}
	c.Floor(rule, 4, "client-sized allocations")
}

func describeLen(v ssa.Value) string {
	for _, o := range origins(v) {
		return o.String()
	}
	return "n"
}

// boundedTerm: a constant, the length of an existing value, a count returned by Read, a value of
// a narrow unsigned type, or a sum of such terms.
func boundedTerm(v ssa.Value, depth int) bool {
	v = strip(v)
	if _, ok := constInt(v); ok {
		return true
	}
	switch x := v.(type) {
	case *ssa.Call:
		if b, ok := x.Call.Value.(*ssa.Builtin); ok && (b.Name() == "len" || b.Name() == "cap") {
			return true
		}
	case *ssa.Extract:
		if call, ok := x.Tuple.(*ssa.Call); ok && x.Index == 0 && call.Call.IsInvoke() && call.Call.Method.Name() == "Read" {
			return true
		}
	case *ssa.BinOp:
		if x.Op == token.ADD && depth < 3 {
			return boundedTerm(x.X, depth+1) && boundedTerm(x.Y, depth+1)
		}
	case *ssa.Convert:
		if bt, ok := x.X.Type().Underlying().(*types.Basic); ok {
			switch bt.Kind() {
			case types.Uint8, types.Uint16:
				return true
			}
		}
		return boundedTerm(x.X, depth+1)
	}
	return false
}

func boundedLen(fn *ssa.Function, ms *ssa.MakeSlice) (bool, string) {
	l := ms.Len
	if bo, ok := strip(l).(*ssa.BinOp); ok && bo.Op == token.ADD && boundedTerm(bo, 0) {
		return true, "a constant plus the length of an existing value (or a count bounded by a buffer)"
	}
	// narrow integer converted up: at most 65535
	for _, o := range origins(l) {
		switch o.Kind {
		case "alloc":
			if bt, ok := o.Value.Type().Underlying().(*types.Pointer).Elem().Underlying().(*types.Basic); ok {
				switch bt.Kind() {
				case types.Uint8, types.Uint16, types.Int8, types.Int16:
					return true, "length is a " + bt.Name() + " field (at most 65535 elements)"
				}
			}
		case "call":
			if b, ok := o.Call.Common().Value.(*ssa.Builtin); ok && b.Name() == "len" {
				return true, "length of an existing value"
			}
			if o.Call.Common().IsInvoke() && o.Call.Common().Method.Name() == "Read" {
				return true, "byte count returned by Read (bounded by its buffer)"
			}
		case "other":
			// sum of configuration-derived counts
			if bo, ok := o.Value.(*ssa.BinOp); ok && bo.Op == token.ADD {
				cfg := true
				for _, side := range []ssa.Value{bo.X, bo.Y} {
					for _, so := range origins(side) {
						if so.Kind != "call" || !strings.Contains(calleeName(so.Call), "gokrb5/v8/config.Config).GetKDCs") {
							cfg = false
						}
					}
				}
				if cfg {
					return true, "number of KDCs in the Kerberos configuration (not client data)"
				}
			}
		case "param":
			if strings.HasSuffix(shortFn(fn), "GenerateRandomBytes") || strings.HasSuffix(shortFn(fn), "GenerateRandomString") {
				return true, "length parameter, constant at all call sites (C18/key-substitution)"
			}
		}
	}
	if cv, ok := strip(l).(*ssa.UnOp); ok {
		if al, ok := cv.X.(*ssa.Alloc); ok {
			if bt, ok := al.Type().Underlying().(*types.Pointer).Elem().Underlying().(*types.Basic); ok {
				switch bt.Kind() {
				case types.Uint8, types.Uint16:
					return true, "length is a " + bt.Name() + " read from the packet (at most 65535)"
				}
			}
		}
	}
	if bt, ok := strip(l).Type().Underlying().(*types.Basic); ok {
		switch bt.Kind() {
		case types.Uint8, types.Uint16:
			return true, "length is a " + bt.Name() + " (at most 65535)"
		}
	}
	// dominating upper bound against a constant
	g := GCmp(func(x ssa.Value, op token.Token, y ssa.Value) bool {
		if sameValueModConv(x, l) {
			k, ok := constInt(y)
			return ok && (op == token.LEQ || op == token.LSS) && k <= 1<<24
		}
		if sameValueModConv(y, l) {
			k, ok := constInt(x)
			return ok && (op == token.GEQ || op == token.GTR) && k <= 1<<24
		}
		return false
	})
	if ok, _ := mustPass(fn, ms, g); ok {
		return true, "dominated by a comparison with a constant upper bound"
	}
	// a helper that allocates what it is told to: bounded at every static call site
	if p, isParam := stripConv(l).(*ssa.Parameter); isParam && theCtx != nil {
		if sites, ok := theCtx.staticCallers(fn); ok && len(sites) > 0 {
			idx := -1
			for i, q := range fn.Params {
				if q == p {
					idx = i
				}
			}
			all := idx >= 0
			for _, cs := range sites {
				if !all || idx >= len(cs.Common().Args) {
					all = false
					continue
				}
				if k, isC := constInt(cs.Common().Args[idx]); isC && k >= 0 && k <= 1<<24 {
					continue // a constant length at this call site
				}
				if !upperBoundedAt(cs.Parent(), cs.(ssa.Instruction), cs.Common().Args[idx]) {
					all = false
				}
			}
			if all {
				return true, "length parameter, dominated by a comparison with a constant upper bound at every call site"
			}
		}
	}
	return false, "length " + describeLen(l) + " has no 16-bit type and no dominating constant upper bound"
}

func stripConv(v ssa.Value) ssa.Value {
	for {
		switch x := v.(type) {
		case *ssa.Convert:
			v = x.X
		case *ssa.ChangeType:
			v = x.X
		default:
			return v
		}
	}
}

// upperBoundedAt: on every path to `at`, v (modulo integer conversions) was compared below a constant <= 2^24.
func upperBoundedAt(fn *ssa.Function, at ssa.Instruction, v ssa.Value) bool {
	g := GCmp(func(x ssa.Value, op token.Token, y ssa.Value) bool {
		if sameValueModConv(x, v) {
			k, ok := constInt(y)
			return ok && (op == token.LEQ || op == token.LSS) && k <= 1<<24
		}
		if sameValueModConv(y, v) {
			k, ok := constInt(x)
			return ok && (op == token.GEQ || op == token.GTR) && k <= 1<<24
		}
		return false
	})
	ok, _ := mustPass(fn, at, g)
	return ok
}

func sameValueModConv(a, b ssa.Value) bool {
	a, b = strip(a), strip(b)
	return a == b || unspill(a) == unspill(b)
}

var exitCalls = map[string]bool{"log.Fatal": true, "log.Fatalf": true, "log.Fatalln": true, "log.Panic": true, "log.Panicf": true, "log.Panicln": true, "os.Exit": true, "builtin.panic": true}

func c10Exit(c *Ctx) {
	c.skipGenerated = true
	defer func() { c.skipGenerated = false }()
	rule := "C10/exit"
	reach := c.ReqReachable()
	n := 0
	for _, fn := range c.allFirstPartyFuncs() {
		if !reach[fn] {
			continue
		}
		eachInstr(fn, func(in ssa.Instruction) {
			var name string
			switch x := in.(type) {
			case ssa.CallInstruction:
				name = calleeName(x)
			case *ssa.Panic:
				name = "builtin.panic"
			default:
				return
			}
			if !exitCalls[name] {
				return
			}
			n++
			sf := shortFn(fn)
			key := sf + " " + name
			switch {
			case sf == "cmd/rdpgw/rdp.isZero" || sf == "cmd/rdpgw/rdp.initStruct":
				// discharged by the settings table: every int default parses, every kind is handled
				bad := settingsTableProblems(c)
				c.Check(bad == "", rule, key, in.Pos(), "unreachable: every default of RdpSettings parses and every field kind is handled (settings table, C19/tags)", "reachable from the download handler: "+bad)
			case sf == "(*cmd/auth.AuthServiceImpl).Authenticate$2" || sf == "(*cmd/auth.AuthServiceImpl).Authenticate$1":
				c.OK(rule, key, in.Pos(), "exits only when the PAM stack fails to end a transaction: depends on the local PAM installation, not on client bytes")
			default:
				c.Bad(rule, key, in.Pos(), "%s on a request-reachable path: one request can terminate the process", name)
			}
		})
	}
	c.Stat("exit_calls_request_reachable", n)
	c.Floor(rule, 2, "settings-table fatals")
}

// settingsTableProblems re-evaluates the struct tags that make the Fatalf sites unreachable.
func settingsTableProblems(c *Ctx) string {
	sub := &Ctx{P: c.P, Prop: c.Prop}
	c19Tags(sub)
	var bad []string
	for _, o := range sub.Obls {
		if o.Status != StDischarged && o.Key != "floor" {
			bad = append(bad, o.Key+": "+o.Msg)
		}
	}
	return strings.Join(bad, "; ")
}

var reflectPartial = map[string]bool{"Elem": true, "Field": true, "FieldByName": true, "Int": true, "Uint": true, "Index": true, "NumField": true, "Len": true, "MapIndex": true, "Bool": true, "String": false, "Call": true}

func c10Reflect(c *Ctx) {
	c.skipGenerated = true
	defer func() { c.skipGenerated = false }()
	rule := "C10/reflect"
	reach := c.ReqReachable()
	n := 0
	for _, fn := range c.allFirstPartyFuncs() {
		if !reach[fn] {
			continue
		}
		var undominated []string
		var firstPos token.Pos
		nfn := 0
		for _, ci := range callsIn(fn) {
			name := calleeName(ci)
			if !strings.HasPrefix(name, "(reflect.Value).") {
				continue
			}
			m := strings.TrimPrefix(name, "(reflect.Value).")
			if !reflectPartial[m] {
				continue
			}
			n++
			nfn++
			recv := recvOf(ci)
			g := GCmp(func(x ssa.Value, op token.Token, y ssa.Value) bool {
				kc, ok := x.(*ssa.Call)
				if !ok || calleeName(kc) != "(reflect.Value).Kind" {
					return false
				}
				return sameValueModConv(recvOf(kc), recv) && op == token.EQL
			})
			ok, _ := mustPass(fn, ci.(ssa.Instruction), g)
			if !ok {
				// reflect.ValueOf(f.Value()).Int() under a test of f.Kind() (fatih/structs): the kind of
				// the field is the kind of its value
				if vo, isCall := strip(recv).(*ssa.Call); isCall && calleeName(vo) == "reflect.ValueOf" {
					if fv, isCall := strip(arg(vo, 0)).(*ssa.Call); isCall && calleeName(fv) == "(*"+structsPkg+".Field).Value" {
						fld := recvOf(fv)
						g2 := GCmp(func(x ssa.Value, op token.Token, y ssa.Value) bool {
							kc, ok := x.(*ssa.Call)
							return ok && calleeName(kc) == "(*"+structsPkg+".Field).Kind" && sameValueModConv(recvOf(kc), fld) && op == token.EQL
						})
						ok, _ = mustPass(fn, ci.(ssa.Instruction), g2)
					}
				}
			}
			if !ok {
				undominated = append(undominated, fmt.Sprintf("%s at %s", m, c.P.Pos(ci.Pos())))
				if !firstPos.IsValid() {
					firstPos = ci.Pos()
				}
			}
		}
		if nfn == 0 {
			continue
		}
		// keyed by what is walked (the static type handed to reflect.ValueOf), not by the function
		// the walk happens to live in
		key := shortFn(fn) + " reflect-walk"
		for _, ci := range callsTo(fn, "reflect.ValueOf") {
			switch x := arg(ci, 0).(type) {
			case *ssa.MakeInterface:
				key = "reflect-walk of " + x.X.Type().String()
			case *ssa.ChangeInterface:
				key = "reflect-walk of " + x.X.Type().String()
			}
		}
		if len(undominated) == 0 {
			c.OK(rule, key, fn.Pos(), "all %d reflect partial calls are dominated by a Kind() test of the same value", nfn)
		} else {
			c.Bad(rule, key, firstPos, "%d of %d reflect.Value partial calls (%s) have no dominating Kind() test of the value they are applied to: they panic when the connection is not shaped as assumed (e.g. a plain *net.TCPConn instead of *tls.Conn)", len(undominated), nfn, strings.Join(undominated, ", "))
		}
	}
	c.Stat("reflect_partial_calls", n)
}

// parser functions of dependencies that consume client bytes and are known (or must be assumed) to panic on malformed input
func isClientParser(name string) bool {
	switch {
	case strings.HasPrefix(name, goNtlm+".Parse"),
		strings.Contains(name, goNtlm+".") && (strings.Contains(name, "ProcessNegotiateMessage") || strings.Contains(name, "ProcessAuthenticateMessage") || strings.Contains(name, "ProcessChallengeMessage")):
		return true
	}
	return false
}

func c10Contain(c *Ctx) {
	c.skipGenerated = true
	defer func() { c.skipGenerated = false }()
	rule := "C10/contain"
	cg := c.P.CallGraph()
	// entries outside net/http's per-connection recovery
	var entries []*ssa.Function
	for _, fn := range c.allFirstPartyFuncs() {
		if fn.Signature.Recv() != nil && typeIs(fn.Signature.Recv().Type(), modPath+"/cmd/auth", "AuthServiceImpl") && fn.Parent() == nil {
			entries = append(entries, fn)
		}
		eachInstr(fn, func(in ssa.Instruction) {
			if g, ok := in.(*ssa.Go); ok {
				if f := g.Call.StaticCallee(); f != nil && IsFirstParty(f) {
					entries = append(entries, f)
				} else if mc, ok := g.Call.Value.(*ssa.MakeClosure); ok {
					if f, ok := mc.Fn.(*ssa.Function); ok {
						entries = append(entries, f)
					}
				}
			}
		})
	}
	// grpc.NewServer without a recovery interceptor: note
	seen := map[*ssa.Function]bool{}
	for _, e := range entries {
		if seen[e] {
			continue
		}
		seen[e] = true
		key := "entry " + shortFn(e)
		// DFS over first-party functions, not descending below a recovering function
		var hit []string
		visited := map[*ssa.Function]bool{}
		var dfs func(f *ssa.Function, trail []string)
		dfs = func(f *ssa.Function, trail []string) {
			if visited[f] || len(hit) > 3 {
				return
			}
			visited[f] = true
			// a recovering defer covers what runs after the defer statement, not the calls before it
			rds := recoveringDefers(f)
			n := cg.Nodes[f]
			if n == nil {
				return
			}
			for _, ed := range n.Out {
				if len(rds) > 0 {
					covered := ed.Site == nil
					for _, d := range rds {
						if ed.Site != nil && dominatesInstr(d, ed.Site) {
							covered = true
						}
					}
					if covered {
						continue
					}
				}
				cal := ed.Callee.Func
				name := fnName(cal)
				if isClientParser(name) {
					hit = append(hit, strings.Join(append(trail, shortFn(f), name), " -> "))
					continue
				}
				if IsFirstParty(cal) {
					dfs(cal, append(trail, shortFn(f)))
				}
			}
		}
		dfs(e, nil)
		if len(hit) == 0 {
			c.OK(rule, key, e.Pos(), "no third-party parser of client bytes is reachable outside a function with a directly recovering defer")
		} else {
			c.Bad(rule, key, e.Pos(), "client bytes reach a third-party parser with no recover() on the way, outside net/http's recovery: %s; a parser panic terminates the process", hit[0])
		}
	}
	// the recovering function must turn the panic into a refusal
	au := c.Fn("cmd/auth/ntlm", "NTLMAuth.Authenticate")
	if hasRecoveringDefer(au) {
		c.OK(rule, "NTLMAuth.Authenticate recover", au.Pos(), "deferred closure calls recover() directly")
	} else {
		c.Bad(rule, "NTLMAuth.Authenticate recover", au.Pos(), "no deferred closure of NTLMAuth.Authenticate calls recover() directly (recover() called from a helper of the deferred function does not stop a panic)")
	}
	c.Floor(rule, 4, "gRPC methods + go targets")
}

func c10HijackNil(c *Ctx) {
	rule := "C10/hijack-nil"
	// setOrTested: on every path to `at` in fn, field f of tunnel tv was stored non-nil or tested
	// non-nil; when tv is a parameter of a helper that is only called statically, the same is
	// asked at each call site for the corresponding argument.
	var setOrTested func(fn *ssa.Function, at ssa.Instruction, tv ssa.Value, f string, depth int) bool
	setOrTested = func(fn *ssa.Function, at ssa.Instruction, tv ssa.Value, f string, depth int) bool {
		isFld := func(v ssa.Value) bool {
			b, fv, ok := fieldLoad(strip(v))
			return ok && fv.Name() == f && strip(b) == tv
		}
		var storesField func(in ssa.Instruction, tv ssa.Value, d int) bool
		storesField = func(in ssa.Instruction, tv ssa.Value, d int) bool {
			if s, ok := in.(*ssa.Store); ok {
				b, fv, ok := fieldOfAddr(s.Addr)
				return ok && fv.Name() == f && strip(b) == tv && !isNil(s.Val)
			}
			// a helper that is handed the tunnel and sets the field on every path (attachLegacyIn)
			call, ok := in.(*ssa.Call)
			if !ok || d > 0 {
				return false
			}
			h := call.Call.StaticCallee()
			if h == nil || !IsFirstParty(h) || h.Blocks == nil {
				return false
			}
			for i, a := range call.Call.Args {
				if strip(a) != tv || i >= len(h.Params) {
					continue
				}
				hp := ssa.Value(h.Params[i])
				all := len(returnsOf(h)) > 0
				for _, r := range returnsOf(h) {
					if reachFromWithoutMarkerAvoiding(h.Blocks[0], r, func(x ssa.Instruction) bool { return storesField(x, hp, d+1) }, nil) {
						all = false
					}
				}
				if all {
					return true
				}
			}
			return false
		}
		isStore := func(in ssa.Instruction) bool { return storesField(in, tv, 0) }
		if !reachWithoutMarkerAvoiding(fn, at, isStore, GNeq(isFld, anyNil)) {
			return true
		}
		p, isParam := tv.(*ssa.Parameter)
		if !isParam || depth > 2 {
			return false
		}
		idx := -1
		for i, q := range fn.Params {
			if q == p {
				idx = i
			}
		}
		sites, okc := c.staticCallers(fn)
		if !okc || idx < 0 || len(sites) == 0 {
			return false
		}
		for _, cs := range sites {
			args := cs.Common().Args
			if idx >= len(args) || !setOrTested(cs.Parent(), cs.(ssa.Instruction), strip(args[idx]), f, depth+1) {
				return false
			}
		}
		return true
	}
	for _, fn := range c.allFirstPartyFuncs() {
		if !c.Reachable()[fn] {
			continue
		}
		for _, ci := range callsTo(fn, protoPkg+".NewProcessor") {
			for _, f := range []string{"transportOut", "transportIn"} {
				ok := setOrTested(fn, ci.(ssa.Instruction), strip(arg(ci, 1)), f, 0)
				c.Check(ok, rule, fn.Name()+" "+f, ci.Pos(), "the packet loop starts only after "+f+" was set or tested non-nil", "the packet loop can start with Tunnel."+f+" nil: the first read/response dereferences a nil transport")
			}
		}
	}
	c.Floor(rule, 2, "two transports per creation site (two sites on the pinned tree, one when both handlers share a helper)")
}

// c10RelayConn: forward dereferences its connection in a goroutine nothing recovers; it must be
// started only over the success edge of the dial whose result it is given.
func c10RelayConn(c *Ctx) {
	rule := "C10/relay-conn"
	n := 0
	for _, fn := range c.allFirstPartyFuncs() {
		if !c.Reachable()[fn] {
			continue
		}
		dials := c.dialLikeIn(fn)
		eachInstr(fn, func(in ssa.Instruction) {
			g, ok := in.(*ssa.Go)
			if !ok {
				return
			}
			if f := g.Call.StaticCallee(); f == nil || fnName(f) != protoPkg+".forward" {
				return
			}
			n++
			good := len(dials) > 0
			why := "no dial in the function that starts the relay"
			for _, d := range dials {
				if ok, w := mustPass(fn, g, GErrNil(resultOf(d, 1))); !ok {
					good, why = false, w
				}
			}
			c.Check(good, rule, "go forward in "+shortFn(fn), g.Pos(), "started only after the dial succeeded", "the relay goroutine is started "+why+" of the dial error: with a failed dial it dereferences a nil connection in a goroutine of its own, which ends the whole gateway process")
		})
	}
	c.Floor(rule, 1, "go forward")
}
