package main

import (
	"fmt"
	"go/token"
	"go/types"
	"sort"
	"strings"

	"golang.org/x/tools/go/ssa"
)

const cfgPkgPath = modPath + "/cmd/rdpgw/config"

func init() {
	register(&Property{
		ID:          "C18",
		Title:       "Unsafe or inconsistent configurations are refused at startup",
		DesignRef:   "DESIGN.md §3 C18",
		Technique:   "guard inventory by edge-cut reachability on config.Load / NewHandler (the normal return must be unreachable when a refusal row holds; log.Fatal blocks terminate paths) + pairing of short-key guards with CSPRNG substitution + callee resolution of the random source + start-up value-flow of keys",
		LevelText:   "Static: for each of the six documented unsafe combinations, when both conjuncts of the row hold no path of config.Load (resp. Config.NewHandler) reaches its normal return — every such path ends in log.Fatal*; the mechanism predicates compare with the documented words. For each of the five keys, every path to Load's return either crossed an edge establishing len(key) >= 32 or stored the result of security.GenerateRandomString(n >= 32) into that key (the user-token key only under its enable switch). The generator draws only from crypto/rand and returns n characters of a constant alphabet. main loads the configuration and builds the handler before serving, and copies each key into the variable its consumer reads; each consumer refuses keys shorter than 32. The settings the refusals test are compared as raw text everywhere, including the struct fields they are copied into (a consumer that lower-cases or trims its copy would treat spellings as the refused value that Load let through).",
		LevelNote:   "Trusted: koanf file/environment loading and precedence, log.Fatal* not returning. Not decided: that two instances draw different random keys (probability), configuration parsing itself.",
		Explanation: "C18/fatal-guards: per row, the CFG edges on which one of the row's conjuncts is false are deleted; the function's return must then be unreachable. C18/key-substitution: per key, edges establishing len >= 32 and the substitution store are deleted/marked; the return must be unreachable. C18/csprng resolves callees in security/string.go. C18/mechanism-words checks the ...Enabled() predicates. C18/wiring and C18/downstream-minimums follow keys from the configuration to their consumers.",
		Assumptions: []string{"log.Fatal, log.Fatalf and log.Fatalln terminate the process"},
		Rules: []RuleDef{
			{"C18/fatal-guards", "six unsafe combinations: no path reaches the normal return while the combination holds", c18FatalGuards},
			{"C18/raw-compare", "every consumer of the settings the refusals test compares them the same way (exact equality with a constant), so a spelling that is not refused is not treated as the refused value later", c18RawCompare},
			{"C18/key-substitution", "five keys: at return, len >= 32 was established or a fresh GenerateRandomString(n>=32) was stored", c18KeySubstitution},
			{"C18/key-defaults", "config.Load's defaults carry no value for any of the seven keys: a built-in key would pass the length test and be the same on every installation", func(c *Ctx) { keyDefaults(c, "C18/key-defaults", allKeyPaths) }},
			{"C18/checked-settings", "the settings the refusals test are returned as they were tested: Load does not rewrite them", c18CheckedSettings},
			{"C18/csprng", "GenerateRandomString / GenerateRandomBytes draw only from crypto/rand and return n symbols", c18CSPRNG},
			{"C18/mechanism-words", "OpenIDEnabled / KerberosEnabled / BasicAuthEnabled / NtlmEnabled test membership of the documented words", c18Words},
			{"C18/wiring", "main: Load and NewHandler precede serving; every key is copied to the variable its consumer reads", c18Wiring},
			{"C18/downstream-minimums", "session store, PAA, user and query token code refuse keys shorter than 32", c18Downstream},
			{"C18/config-tags", "the configuration fields this property depends on are read from the documented keys: koanf tag = lower-cased field name", func(c *Ctx) {
				configTags(c, "C18/config-tags", map[string][]string{"Configuration": {"*"}, "ServerConfig": {"*"}, "SecurityConfig": {"*"}, "KerberosConfig": {"*"}, "RDGCapsConfig": {"TokenAuth"}})
			}},
			{"C18/settings-writers", "the settings the refusals test are written only by the configuration loader", func(c *Ctx) { settingsWriters(c, "C18/settings-writers") }},
		},
	})
}

// confGlobalPath: v is a load of <package var Conf>.A.B in package config.
func confVarPath(v ssa.Value, varName string) (string, bool) {
	v = localVal(peelCopy(v))
	a, ok := loadAddr(strip(v))
	if !ok {
		return "", false
	}
	return confAddrPath(a, varName)
}

// peelCopy: a defensive copy carries the same setting: slices.Clone(x), strings.Clone(x),
// maps.Clone(x), append([]T(nil), x...) are looked through.
func peelCopy(v ssa.Value) ssa.Value {
	v = strip(v)
	for i := 0; i < 2; i++ {
		call, isCall := v.(*ssa.Call)
		if !isCall {
			break
		}
		f := call.Call.StaticCallee()
		if f != nil && f.Origin() != nil {
			f = f.Origin()
		}
		if f != nil && f.Pkg != nil && (f.Pkg.Pkg.Path() == "slices" || f.Pkg.Pkg.Path() == "strings" || f.Pkg.Pkg.Path() == "maps" || f.Pkg.Pkg.Path() == "bytes") && f.Name() == "Clone" && len(call.Call.Args) == 1 {
			v = strip(call.Call.Args[0])
			continue
		}
		if bi, isB := call.Call.Value.(*ssa.Builtin); isB && bi.Name() == "append" && len(call.Call.Args) == 2 {
			if k, isC := strip(call.Call.Args[0]).(*ssa.Const); isC && k.IsNil() {
				v = strip(call.Call.Args[1])
				continue
			}
		}
		break
	}
	return v
}

func confAddrPath(a ssa.Value, varName string) (string, bool) {
	var path []string
	for {
		fa, ok := a.(*ssa.FieldAddr)
		if !ok {
			break
		}
		_, f, _ := fieldOfAddr(fa)
		path = append([]string{f.Name()}, path...)
		a = fa.X
	}
	// a helper that is handed (a pointer into) the configuration: follow the parameter to the
	// caller's value, prepending the path it was taken at
	for i := 0; i < 3; i++ {
		p, isParam := a.(*ssa.Parameter)
		if !isParam {
			break
		}
		var up ssa.Value = rv(a)
		if up == a && theCtx != nil {
			up = theCtx.upOne(a)
		}
		if up == a || up == nil {
			break
		}
		_ = p
		a = up
		for {
			fa, ok := a.(*ssa.FieldAddr)
			if !ok {
				break
			}
			_, f, _ := fieldOfAddr(fa)
			path = append([]string{f.Name()}, path...)
			a = fa.X
		}
	}
	g, ok := a.(*ssa.Global)
	if !ok || g.Name() != varName {
		return "", false
	}
	return strings.Join(path, "."), true
}

func c18FatalGuards(c *Ctx) {
	rule := "C18/fatal-guards"
	load := c.Fn("cmd/rdpgw/config", "Load")
	isConf := func(path string) func(ssa.Value) bool {
		return func(v ssa.Value) bool { p, ok := confVarPath(v, "Conf"); return ok && p == path }
	}
	isStr := func(s string) func(ssa.Value) bool {
		return func(v ssa.Value) bool { x, ok := constString(v); return ok && x == s }
	}
	enabled := func(method string) func(ssa.Value) bool {
		return func(v ssa.Value) bool {
			call, ok := strip(v).(*ssa.Call)
			if !ok || calleeName(call) != "(*"+cfgPkgPath+".ServerConfig)."+method {
				return false
			}
			p, ok := confAddrPath(recvOf(call), "Conf")
			return ok && p == "Server"
		}
	}
	lenZero := func(path string) Guard { // G: len(conf path) == 0 ; we need its negation as "conjunct false"
		return lenAtLeast(isConf(path), 1)
	}
	type row struct {
		name string
		// guards establishing that a conjunct is FALSE
		notA, notB Guard
	}
	rows := []row{
		{"signed host selection without query token key", GNeq(isConf("Server.HostSelection"), isStr("signed")), lenZero("Security.QueryTokenSigningKey")},
		{"local/basic authentication with TLS disabled", GFalse(enabled("BasicAuthEnabled")), GNeq(isConf("Server.Tls"), isStr("disable"))},
		{"NTLM together with Kerberos", GFalse(enabled("NtlmEnabled")), GFalse(enabled("KerberosEnabled"))},
		{"OpenID without token (cookie) authentication", GTrue(isConf("Caps.TokenAuth")), GFalse(enabled("OpenIDEnabled"))},
		{"Kerberos without keytab", GFalse(enabled("KerberosEnabled")), GNeq(isConf("Kerberos.Keytab"), isStr(""))},
	}
	rets := returnsOf(load)
	if len(rets) == 0 {
		c.Missing("return of config.Load")
	}
	for _, r := range rows {
		reach := false
		var path []int
		for _, ret := range rets {
			if ok, p := reachAvoiding(load, ret.Block(), GOr(r.notA, r.notB)); ok && reachInstrAvoiding(load, ret, GOr(r.notA, r.notB)) {
				reach, path = true, p
			}
		}
		c.Check(!reach, rule, "config.Load refuses: "+r.name, load.Pos(), "with both conditions true every path ends in log.Fatal*", fmt.Sprintf("with %s, config.Load still returns (blocks %v): the gateway starts in this unsafe configuration", r.name, path))
	}
	// no hosts
	nh := c.Fn("cmd/rdpgw/web", "Config.NewHandler")
	isHosts := func(v ssa.Value) bool {
		b, f, ok := fieldLoad(strip(v))
		return ok && f.Name() == "Hosts" && b == ssa.Value(nh.Params[0])
	}
	reach := false
	for _, ret := range returnsOf(nh) {
		if ok, _ := reachAvoiding(nh, ret.Block(), lenAtLeast(isHosts, 1)); ok {
			reach = true
		}
	}
	c.Check(!reach, rule, "NewHandler refuses: no hosts configured", nh.Pos(), "with an empty host list every path ends in log.Fatal*", "with no hosts configured NewHandler still returns a handler")
	c.Floor(rule, 6, "six rows")
}

func c18KeySubstitution(c *Ctx) {
	rule := "C18/key-substitution"
	load := c.Fn("cmd/rdpgw/config", "Load")
	keys := []struct {
		path, under string
	}{
		{"Security.PAATokenEncryptionKey", ""},
		{"Security.PAATokenSigningKey", ""},
		{"Security.UserTokenEncryptionKey", "Security.EnableUserToken"},
		{"Server.SessionKey", ""},
		{"Server.SessionEncryptionKey", ""},
	}
	rets := returnsOf(load)
	for _, k := range keys {
		isKey := func(v ssa.Value) bool { p, ok := confVarPath(v, "Conf"); return ok && p == k.path }
		// substitution store
		nStores := 0
		freshKey := func(v ssa.Value) bool { return c.freshRandomKey(v, 32) }
		// ensures: a helper that, given a pointer to a key, returns only with len(*p) >= 32
		// established or a fresh random string stored through p
		ensures := func(callee *ssa.Function, idx int) bool {
			if callee == nil || !IsFirstParty(callee) || callee.Blocks == nil || idx >= len(callee.Params) {
				return false
			}
			p := callee.Params[idx]
			isDeref := func(v ssa.Value) bool {
				u, ok := strip(v).(*ssa.UnOp)
				return ok && u.Op == token.MUL && u.X == ssa.Value(p)
			}
			isStoreThrough := func(in ssa.Instruction) bool {
				s, ok := in.(*ssa.Store)
				return ok && s.Addr == ssa.Value(p) && freshKey(s.Val)
			}
			// no other store through p
			clean := true
			eachInstr(callee, func(in ssa.Instruction) {
				if s, ok := in.(*ssa.Store); ok && s.Addr == ssa.Value(p) && !freshKey(s.Val) {
					clean = false
				}
			})
			if !clean {
				return false
			}
			for _, r := range returnsOf(callee) {
				if reachWithoutMarkerAvoiding(callee, r, isStoreThrough, lenAtLeast(isDeref, 32)) {
					return false
				}
			}
			return true
		}
		// ensuresValue: a helper that, given a key, returns it only behind len(key) >= 32 and returns a
		// fresh random string otherwise (key = ensureKey(key, name))
		ensuresValue := func(callee *ssa.Function, idx int) bool {
			if callee == nil || !IsFirstParty(callee) || callee.Blocks == nil || idx >= len(callee.Params) || callee.Signature.Results().Len() != 1 {
				return false
			}
			p := callee.Params[idx]
			isP := func(v ssa.Value) bool { return strip(v) == ssa.Value(p) }
			for _, r := range returnsOf(callee) {
				rv0 := unspill(r.Results[0])
				if isP(rv0) {
					if pass, _ := mustPass(callee, r, lenAtLeast(isP, 32)); !pass {
						return false
					}
					continue
				}
				if !freshKey(rv0) {
					return false
				}
			}
			return true
		}
		isSubst := func(in ssa.Instruction) bool {
			if call, ok := in.(*ssa.Call); ok {
				for i, a := range call.Call.Args {
					if p, ok := confAddrPath(a, "Conf"); ok && p == k.path {
						return ensures(call.Call.StaticCallee(), i)
					}
				}
				return false
			}
			s, ok := in.(*ssa.Store)
			if !ok {
				return false
			}
			p, ok := confAddrPath(s.Addr, "Conf")
			if !ok || p != k.path {
				return false
			}
			if freshKey(s.Val) {
				return true
			}
			// Conf.key = ensureKey(Conf.key, ...)
			if call, isCall := strip(s.Val).(*ssa.Call); isCall {
				for i, a := range call.Call.Args {
					if ap, ok := confVarPath(a, "Conf"); ok && ap == k.path && ensuresValue(call.Call.StaticCallee(), i) {
						return true
					}
				}
			}
			return false
		}
		eachInstr(load, func(in ssa.Instruction) {
			if isSubst(in) {
				nStores++
			}
			// any other store to the key after loading is suspicious
			if s, ok := in.(*ssa.Store); ok && !isSubst(in) {
				if p, ok := confAddrPath(s.Addr, "Conf"); ok && p == k.path {
					c.Bad(rule, "config.Load "+k.path+" other-store", s.Pos(), "the key is overwritten with something that is not a fresh GenerateRandomString(n>=32)")
				}
			}
		})
		g := lenAtLeast(isKey, 32)
		if k.under != "" {
			g = GOr(g, GFalse(func(v ssa.Value) bool { p, ok := confVarPath(v, "Conf"); return ok && p == k.under }))
		}
		reach := false
		for _, ret := range rets {
			if reachWithoutMarkerAvoiding(load, ret, isSubst, g) {
				reach = true
			}
		}
		what := "absent or shorter than 32"
		if k.under != "" {
			what += " while " + k.under + " is set"
		}
		c.Check(!reach && nStores > 0, rule, "config.Load "+k.path, load.Pos(), "at return: len >= 32 was established or a fresh GenerateRandomString(>=32) was stored", fmt.Sprintf("config.Load can return with %s %s and no random replacement (substitution sites: %d)", k.path, what, nStores))
	}
	c.Floor(rule, 5, "five keys")
}

func c18CSPRNG(c *Ctx) { c18CSPRNGAs(c, "C18/csprng") }

func c18CSPRNGAs(c *Ctx, rule string) {
	for _, name := range []string{"GenerateRandomString", "GenerateRandomBytes"} {
		fn := c.Fn("cmd/rdpgw/security", name)
		nCrypto := 0
		good := true
		for _, ci := range callsIn(fn) {
			n := calleeName(ci)
			if strings.HasPrefix(n, "math/rand") || strings.Contains(n, "math/rand/v2") {
				good = false
				c.Bad(rule, name+" "+n, ci.Pos(), "key material drawn from %s, which is not a CSPRNG", n)
			}
			if strings.HasPrefix(n, "crypto/rand.") {
				nCrypto++
			}
			if n == "io.ReadFull" || n == "io.ReadAtLeast" {
				// bytes read from crypto/rand.Reader
				if g, isG := globalLoad(strip(arg(ci, 0))); isG && g.Pkg != nil && g.Pkg.Pkg.Path() == "crypto/rand" && g.Name() == "Reader" {
					nCrypto++
				} else {
					good = false
					c.Bad(rule, name+" "+n, ci.Pos(), "key material read from a reader that is not crypto/rand.Reader")
				}
			}
		}
		// every read of crypto/rand.Reader or crypto/rand function
		c.Check(good && nCrypto > 0, rule, name+" source", fn.Pos(), "draws from crypto/rand only", "no crypto/rand call found in the generator")
		// result has n symbols
		for _, r := range returnsOf(fn) {
			if isNil(r.Results[1]) {
				v := strip(r.Results[0])
				okLen := false
				if n, ok := sliceLenValue(v); ok && n == ssa.Value(fn.Params[0]) {
					okLen = true
				}
				if !okLen {
					// a buffer grown symbol by symbol: the return is reached only once len(buffer) >= n
					var bufV ssa.Value = v
					if cv, isCv := v.(*ssa.Convert); isCv {
						bufV = strip(cv.X)
					}
					nP := ssa.Value(fn.Params[0])
					g := GCmp(func(a ssa.Value, op token.Token, b ssa.Value) bool {
						if isLenOf(a, bufV) && strip(b) == nP {
							return op == token.GEQ
						}
						if strip(a) == nP && isLenOf(b, bufV) {
							return op == token.LEQ
						}
						return false
					})
					if pass, _ := mustPass(fn, r, g); pass {
						okLen = true
					}
				}
				c.Check(okLen, rule, name+" length", r.Pos(), "returns n symbols (a buffer of length n, or one grown until it holds n)", "the generator's result is not a buffer of the requested length n")
			}
		}
	}
	// every symbol is drawn separately: the draw sits inside the per-symbol loop (or the string is
	// built from GenerateRandomBytes of the same length)
	{
		gs := c.Fn("cmd/rdpgw/security", "GenerateRandomString")
		perSymbol := false
		for _, ci := range callsIn(gs) {
			n := calleeName(ci)
			if (n == "crypto/rand.Int" || n == "crypto/rand.Read" || n == "io.ReadFull") && inCycle(ci.Block()) {
				perSymbol = true
			}
			if n == secPkgPath+".GenerateRandomBytes" && ci.Common().Args[0] == ssa.Value(gs.Params[0]) {
				perSymbol = true
			}
		}
		c.Check(perSymbol, rule, "GenerateRandomString per-symbol", gs.Pos(), "one crypto/rand draw per symbol", "the random draw is not made once per symbol (hoisted out of the loop): a generated key is one symbol repeated, guessable in a few thousand tries")
	}
	// alphabet: constant with at least 32 distinct symbols, index bounded by its length
	fn := c.Fn("cmd/rdpgw/security", "GenerateRandomString")
	for _, ci := range callsTo(fn, "math/big.NewInt") {
		n, ok := constInt(arg(ci, 0))
		c.Check(ok && n >= 32, rule, "GenerateRandomString alphabet", ci.Pos(), fmt.Sprintf("uniform over %d symbols", n), "alphabet smaller than 32 symbols or not constant")
	}
	// no math/rand import anywhere in package security
	for _, f := range c.allFirstPartyFuncs() {
		if f.Pkg == nil || f.Pkg.Pkg.Path() != secPkgPath {
			continue
		}
		for _, ci := range callsIn(f) {
			if strings.HasPrefix(calleeName(ci), "math/rand") {
				c.Bad(rule, "math/rand in "+shortFn(f), ci.Pos(), "package security uses math/rand")
			}
		}
	}
	generatorErrorResult(c, rule)
	c.Floor(rule, 4, "two generators: source and length")
}

// sliceLenValue: the length operand of make([]T, n) for a (converted) slice value.
func sliceLenValue(v ssa.Value) (ssa.Value, bool) {
	switch x := v.(type) {
	case *ssa.MakeSlice:
		return x.Len, true
	case *ssa.Convert:
		return sliceLenValue(x.X)
	}
	return nil, false
}

func c18Words(c *Ctx) {
	rule := "C18/mechanism-words"
	want := map[string][]string{
		"OpenIDEnabled":    {"openid"},
		"KerberosEnabled":  {"kerberos"},
		"BasicAuthEnabled": {"local", "basic"},
		"NtlmEnabled":      {"ntlm"},
	}
	for _, m := range sortedKeys(want) {
		fn := c.Fn("cmd/rdpgw/config", "ServerConfig."+m)
		var got []string
		for _, ci := range callsTo(fn, "(*"+cfgPkgPath+".ServerConfig).matchAuth") {
			if s, ok := constString(arg(ci, 0)); ok {
				got = append(got, s)
			}
		}
		// returns true iff one of the calls is true: every `return false` must have passed all calls false
		ok := len(got) == len(want[m])
		for i := range got {
			if ok && got[i] != want[m][i] {
				ok = false
			}
		}
		c.Check(ok, rule, "ServerConfig."+m, fn.Pos(), fmt.Sprintf("tests %v", got), fmt.Sprintf("tests %v, documented words are %v", got, want[m]))
	}
	// matchAuth: true only over an equality of an element of s.Authentication with the needle
	ma := c.Fn("cmd/rdpgw/config", "ServerConfig.matchAuth")
	isAuthList := func(v ssa.Value) bool {
		_, f, ok := fieldLoad(strip(v))
		return ok && f.Name() == "Authentication"
	}
	isNeedle := func(v ssa.Value) bool { return strip(v) == ssa.Value(ma.Params[1]) }
	for i, r := range returnsOf(ma) {
		// the membership test handed on as is: return slices.Contains(s.Authentication, needle)
		if call, ok := strip(r.Results[0]).(*ssa.Call); ok && isSlicesContains(call) {
			c.Check(isAuthList(call.Call.Args[0]) && isNeedle(call.Call.Args[1]), rule, fmt.Sprintf("matchAuth true#%d", i), r.Pos(), "slices.Contains(Authentication, needle)", "matchAuth does not test membership of the needle in s.Authentication")
			continue
		}
		if b, ok := constBool(r.Results[0]); ok && b {
			g := GOr(GContains(isAuthList, isNeedle), GEq(func(v ssa.Value) bool {
				a, ok := loadAddr(strip(v))
				if !ok {
					return false
				}
				ia, ok := a.(*ssa.IndexAddr)
				if !ok {
					return false
				}
				_, f, ok := fieldLoad(strip(ia.X))
				return ok && f.Name() == "Authentication"
			}, func(v ssa.Value) bool { return strip(v) == ssa.Value(ma.Params[1]) }))
			okp, why := mustPass(ma, r, g)
			c.Check(okp, rule, fmt.Sprintf("matchAuth true#%d", i), r.Pos(), "true only over Authentication[i] == needle", "matchAuth returns true "+why)
		}
	}
	c.Floor(rule, 5, "four predicates + matchAuth")
}

func c18Wiring(c *Ctx) {
	rule := "C18/wiring"
	mainFn := c.Fn("cmd/rdpgw", "main")
	var loadCall, nhCall ssa.Instruction
	var serves []ssa.Instruction
	for _, ci := range callsIn(mainFn) {
		switch calleeName(ci) {
		case cfgPkgPath + ".Load":
			loadCall = ci.(ssa.Instruction)
		case "(*" + webPkgPath + ".Config).NewHandler":
			nhCall = ci.(ssa.Instruction)
		case "(*net/http.Server).ListenAndServe", "(*net/http.Server).ListenAndServeTLS":
			serves = append(serves, ci.(ssa.Instruction))
		}
	}
	if loadCall == nil || nhCall == nil || len(serves) == 0 {
		c.Bad(rule, "main order", mainFn.Pos(), "config.Load / NewHandler / ListenAndServe not all found in main")
		return
	}
	good := true
	for _, s := range serves {
		if !dominatesInstr(loadCall, s) || !dominatesInstr(nhCall, s) {
			good = false
		}
	}
	c.Check(good, rule, "main order", loadCall.Pos(), "config.Load and NewHandler (with their fatal checks) run before the server starts", "the server can start before the configuration checks ran")
	// conf = config.Load(...)
	okStore := false
	c.eachMainInstr(func(in ssa.Instruction) {
		if s, ok := in.(*ssa.Store); ok && s.Val == loadCall.(ssa.Value) {
			if g, ok := s.Addr.(*ssa.Global); ok && g.Name() == "conf" {
				okStore = true
			}
		}
	})
	c.Check(okStore, rule, "main conf", loadCall.Pos(), "the checked configuration is the one used (conf = config.Load(...))", "main does not use the configuration returned by config.Load")
	// key copies
	keyWiring(c, rule, "SigningKey", "EncryptionKey", "UserEncryptionKey", "UserSigningKey", "QuerySigningKey")
	pairs := map[string]string{}
	seen := map[string]bool{}
	c.eachMainInstr(func(in ssa.Instruction) {
		s, ok := in.(*ssa.Store)
		if !ok {
			return
		}
		g, ok := s.Addr.(*ssa.Global)
		if !ok || g.Pkg.Pkg.Path() != secPkgPath {
			return
		}
		want, ok := pairs[g.Name()]
		if !ok {
			return
		}
		seen[g.Name()] = true
		p, okp := confFieldPath(s.Val)
		c.Check(okp && p == want, rule, "main security."+g.Name(), s.Pos(), "= conf."+want, fmt.Sprintf("security.%s is set from conf.%s, its consumer expects conf.%s", g.Name(), p, want))
	})
	for _, n := range sortedKeys(pairs) {
		if !seen[n] {
			c.Bad(rule, "main security."+n, mainFn.Pos(), "security.%s is never set from the configuration", n)
		}
	}
	for _, ci := range c.mainCallsTo(webPkgPath + ".InitStore") {
		p0, ok0 := confFieldPath(arg(ci, 0))
		p1, ok1 := confFieldPath(arg(ci, 1))
		c.Check(ok0 && ok1 && p0 == "Server.SessionKey" && p1 == "Server.SessionEncryptionKey", rule, "main InitStore keys", ci.Pos(), "InitStore(conf.Server.SessionKey, conf.Server.SessionEncryptionKey, ...)", fmt.Sprintf("InitStore receives conf.%s and conf.%s", p0, p1))
	}
	c.Floor(rule, 8, "order, conf, 5 keys, session keys")
}

func c18Downstream(c *Ctx) {
	rule := "C18/downstream-minimums"
	type item struct {
		pkg, fn, global string
	}
	for _, it := range []item{
		{"cmd/rdpgw/security", "GeneratePAAToken", "SigningKey"},
		{"cmd/rdpgw/security", "GenerateUserToken", "UserEncryptionKey"},
		{"cmd/rdpgw/security", "GenerateQueryToken", "QuerySigningKey"},
	} {
		fn := c.Fn(it.pkg, it.fn)
		g := c.Global(it.pkg, it.global)
		guard := lenAtLeast(func(v ssa.Value) bool { return isLoadOfGlobal(v, g) }, 32)
		n := 0
		good := true
		for _, r := range returnsOf(fn) {
			if s, ok := constString(r.Results[0]); ok && s == "" {
				continue
			}
			n++
			if ok, _ := mustPass(fn, r, guard); !ok {
				good = false
			}
		}
		c.Check(good && n > 0, rule, it.fn+" len("+it.global+")", fn.Pos(), "tokens are produced only with len(key) >= 32", "a token can be produced with a key shorter than 32 bytes")
	}
	// session store
	fn := c.Fn("cmd/rdpgw/web", "InitStore")
	for i, pn := range []string{"sessionKey", "encryptionKey"} {
		isP := func(v ssa.Value) bool { return strip(v) == ssa.Value(fn.Params[i]) }
		good, n := true, 0
		for _, ci := range callsIn(fn) {
			if strings.HasPrefix(calleeName(ci), sessPkg+".New") {
				n++
				if ok, _ := mustPass(fn, ci.(ssa.Instruction), lenAtLeast(isP, 32)); !ok {
					good = false
				}
			}
		}
		c.Check(good && n > 0, rule, "InitStore len("+pn+")", fn.Pos(), "stores are built only with len("+pn+") >= 32", "a session store can be built with a short "+pn)
	}
	// the key list handed to the store constructors consists of the two checked parameters only
	for _, ci := range callsIn(fn) {
		name := calleeName(ci)
		var keys ssa.Value
		switch name {
		case sessPkg + ".NewCookieStore":
			keys = arg(ci, 0)
		case sessPkg + ".NewFilesystemStore":
			keys = arg(ci, 1)
		default:
			continue
		}
		elems, ok := sliceLitElems(keys)
		good := ok
		for _, e := range elems {
			if pe := localVal(peelCopy(localVal(strip(e)))); pe != ssa.Value(fn.Params[0]) && pe != ssa.Value(fn.Params[1]) {
				good = false
			}
		}
		c.Check(good, rule, "InitStore "+name[strings.LastIndex(name, ".")+1:]+" key list", ci.Pos(), "the store's keys are the length-checked sessionKey and encryptionKey only", "the session store is built with keys other than the two length-checked parameters: cookies signed with a key that was never checked for its length are accepted")
	}
	_ = token.NoPos
	c.Floor(rule, 5, "3 token generators + 2 session keys")
}

// c18CheckedSettings: the refusals in Load compare raw setting strings; the rest of the program
// compares the same settings again (main: Tls == "disable", web: hostSelection == "signed"). If Load
// rewrites such a setting (normalising case or blanks) after — or at all, since the refusals see the
// raw text — a spelling that slipped past the refusal becomes the unsafe canonical value afterwards.
func c18CheckedSettings(c *Ctx) {
	rule := "C18/checked-settings"
	load := c.Fn("cmd/rdpgw/config", "Load")
	checked := map[string]bool{"Server.HostSelection": true, "Server.Tls": true, "Server.Authentication": true, "Server.BasicAuthTimeout": false,
		"Caps.TokenAuth": true, "Kerberos.Keytab": true, "Security.QueryTokenSigningKey": true, "Server.SessionStore": true}
	n := 0
	for _, f := range scopeFuncs(load, 2) {
		eachInstr(f, func(in ssa.Instruction) {
			s, ok := in.(*ssa.Store)
			if !ok {
				return
			}
			p, ok := confAddrPath(s.Addr, "Conf")
			if !ok || !checked[p] {
				return
			}
			n++
			c.Bad(rule, "store "+p+" in "+shortFn(f), s.Pos(), "Load rewrites %s, which the start-up refusals (and later main/web) compare as raw text: a spelling that is not refused can become the refused value after the check", p)
		})
	}
	if n == 0 {
		c.OK(rule, "config.Load checked settings", load.Pos(), "no store to HostSelection, Tls, Authentication, TokenAuth, Keytab, QueryTokenSigningKey, SessionStore in Load or its helpers (they are filled by the unmarshalling library only)")
	}
}

// securityKeyPairs: the variable of package security each token function reads, and the
// configuration field that is documented to feed it.
var securityKeyPairs = map[string]string{
	"SigningKey":        "Security.PAATokenSigningKey",
	"EncryptionKey":     "Security.PAATokenEncryptionKey",
	"UserEncryptionKey": "Security.UserTokenEncryptionKey",
	"UserSigningKey":    "Security.UserTokenSigningKey",
	"QuerySigningKey":   "Security.QueryTokenSigningKey",
}

// keyWiring: main (or a start-up helper of it) stores conf.<field> into security.<name> for each
// of the named variables, and nothing else.
func keyWiring(c *Ctx, rule string, names ...string) {
	mainFn := c.Fn("cmd/rdpgw", "main")
	want := map[string]string{}
	for _, n := range names {
		want[n] = securityKeyPairs[n]
	}
	seen := map[string]bool{}
	c.eachMainInstr(func(in ssa.Instruction) {
		s, ok := in.(*ssa.Store)
		if !ok {
			return
		}
		g, ok := s.Addr.(*ssa.Global)
		if !ok || g.Pkg.Pkg.Path() != secPkgPath {
			return
		}
		w, ok := want[g.Name()]
		if !ok {
			return
		}
		seen[g.Name()] = true
		p, okp := confFieldPath(s.Val)
		c.Check(okp && p == w, rule, "main security."+g.Name(), s.Pos(), "= conf."+w, fmt.Sprintf("security.%s is set from conf.%s, its consumer expects conf.%s", g.Name(), p, w))
	})
	for _, n := range sortedKeys(want) {
		if !seen[n] {
			c.Bad(rule, "main security."+n, mainFn.Pos(), "security.%s is never set from the configuration", n)
		}
	}
}

// c18RawCompare: the start-up refusals compare Server.Tls, Server.HostSelection and the
// authentication words by exact equality. A consumer that normalises (EqualFold, TrimSpace, ToLower)
// treats "Disable" as disabled although the refusal let it through.
func c18RawCompare(c *Ctx) {
	rule := "C18/raw-compare"
	watch := map[string]bool{"Tls": true, "HostSelection": true, "SessionStore": true}
	n := 0
	for _, f := range c.allFirstPartyFuncs() {
		if f.Pkg == nil {
			continue
		}
		pp := f.Pkg.Pkg.Path()
		if pp != cfgPkgPath && pp != modPath+"/cmd/rdpgw" {
			continue
		}
		f := f
		eachInstr(f, func(in ssa.Instruction) {
			u, ok := in.(*ssa.UnOp)
			if !ok || u.Op != token.MUL {
				return
			}
			fa, ok := u.X.(*ssa.FieldAddr)
			if !ok {
				return
			}
			_, fld, ok := fieldOfAddr(fa)
			if !ok || !watch[fld.Name()] || fld.Pkg() == nil || fld.Pkg().Path() != cfgPkgPath {
				return
			}
			for _, r := range *u.Referrers() {
				switch x := r.(type) {
				case *ssa.DebugRef, *ssa.Store, *ssa.MakeInterface:
				case *ssa.BinOp:
					_, isC1 := constString(x.X)
					_, isC2 := constString(x.Y)
					if (x.Op == token.EQL || x.Op == token.NEQ) && (isC1 || isC2) {
						n++
						continue
					}
					c.Bad(rule, fld.Name()+" use in "+shortFn(f), x.Pos(), "the setting is combined rather than compared with a constant")
				case *ssa.Call:
					name := calleeName(x)
					if strings.HasPrefix(name, "strings.") || strings.HasPrefix(name, "bytes.") {
						n++
						c.Bad(rule, fld.Name()+" "+name+" in "+shortFn(f), x.Pos(), "%s is normalised with %s before it is tested, while config.Load's refusal compares the raw text: a spelling such as \"Disable\" passes the refusal and is then treated as the refused value", fld.Name(), name)
					}
				}
			}
		})
	}
	// the same settings after they were copied into another package's configuration or handler
	// struct (web.Config.HostSelection, Handler.hostSelection): a consumer that normalises its
	// copy treats spellings as the refused value that the loader's raw comparison let through
	carrier := map[*types.Var]string{}
	loadedField := func(v ssa.Value) (*types.Var, bool) {
		u, ok := strip(v).(*ssa.UnOp)
		if !ok || u.Op != token.MUL {
			return nil, false
		}
		fa, ok := u.X.(*ssa.FieldAddr)
		if !ok {
			return nil, false
		}
		_, fld, ok := fieldOfAddr(fa)
		return fld, ok
	}
	isSetting := func(fld *types.Var) (string, bool) {
		if fld == nil {
			return "", false
		}
		if watch[fld.Name()] && fld.Pkg() != nil && fld.Pkg().Path() == cfgPkgPath {
			return fld.Name(), true
		}
		n, ok := carrier[fld]
		return n, ok
	}
	for changed, round := true, 0; changed && round < 4; round++ {
		changed = false
		for _, f := range c.allFirstPartyFuncs() {
			eachInstr(f, func(in ssa.Instruction) {
				st, ok := in.(*ssa.Store)
				if !ok {
					return
				}
				fa, ok := st.Addr.(*ssa.FieldAddr)
				if !ok {
					return
				}
				_, dst, ok := fieldOfAddr(fa)
				if !ok || dst.Pkg() == nil || !strings.HasPrefix(dst.Pkg().Path(), modPath) {
					return
				}
				if src, ok := loadedField(st.Val); ok {
					if name, ok := isSetting(src); ok && src != dst {
						if _, seen := carrier[dst]; !seen && !(watch[dst.Name()] && dst.Pkg().Path() == cfgPkgPath) {
							carrier[dst] = name
							changed = true
						}
					}
				}
			})
		}
	}
	for _, f := range c.allFirstPartyFuncs() {
		f := f
		eachInstr(f, func(in ssa.Instruction) {
			u, ok := in.(*ssa.UnOp)
			if !ok || u.Op != token.MUL {
				return
			}
			fld, ok := loadedField(u)
			if !ok {
				return
			}
			name, isCarrier := carrier[fld]
			if !isCarrier {
				return
			}
			for _, r := range *u.Referrers() {
				if x, ok := r.(*ssa.Call); ok {
					cn := calleeName(x)
					if strings.HasPrefix(cn, "strings.") || strings.HasPrefix(cn, "bytes.") || strings.HasPrefix(cn, "unicode.") {
						c.Bad(rule, name+" copy "+fld.Name()+" "+cn+" in "+shortFn(f), x.Pos(), "%s (a copy of the setting %s) is normalised with %s, while config.Load's refusal compares the raw text: a spelling such as \"Signed\" passes the refusal and is then treated as the refused value", fld.Name(), name, cn)
					}
				}
			}
		})
	}
	if len(carrier) > 0 {
		var cs []string
		for f, n := range carrier {
			cs = append(cs, n+"->"+f.Pkg().Name()+"."+f.Name())
		}
		sort.Strings(cs)
		c.OK(rule, "setting copies", token.NoPos, "copies of the tested settings followed into %d struct fields (%s): none is normalised by its consumers", len(carrier), strings.Join(cs, ", "))
	}
	if n == 0 {
		c.Undecided(rule, "settings uses", token.NoPos, "no comparison of Tls/HostSelection/SessionStore found in config or main")
	} else {
		c.OK(rule, "settings compared raw", token.NoPos, "all %d tests of Tls/HostSelection/SessionStore in config and main are exact comparisons with constants", n)
	}
}

// freshRandomKey: v is result 0 of security.GenerateRandomString(n >= min), directly or handed
// back by a first-party helper (randomKey(name)) whose every non-empty result is that.
func (c *Ctx) freshRandomKey(v ssa.Value, min int64) bool {
	os := c.originsDeep(v, 0, secPkgPath+".GenerateRandomString")
	if len(os) == 0 {
		return false
	}
	for _, o := range os {
		if o.Kind != "call" || o.Index != 0 || calleeName(o.Call) != secPkgPath+".GenerateRandomString" {
			return false
		}
		n, ok := constInt(arg(o.Call, 0))
		if !ok || n < min {
			return false
		}
	}
	return true
}
