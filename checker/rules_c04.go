package main

import (
	"go/token"
	"strings"

	"golang.org/x/tools/go/ssa"
)

const (
	identPkgPath = modPath + "/cmd/rdpgw/identity"
	webPkgPath   = modPath + "/cmd/rdpgw/web"
	muxPkg       = "github.com/gorilla/mux"
)

func init() {
	register(&Property{
		ID:          "C04",
		Title:       "Tokens are bound to the client address they were issued to",
		DesignRef:   "DESIGN.md §3 C04",
		Technique:   "edge-cut guarded reachability on the CheckSession closure (disjunctive guard) + SSA value origin of the clientIp claim/attribute + start-up wiring and defaults inventory",
		LevelText:   "Static: the wrapped host check is reachable only over 'VerifyClientIP is false' or 'tunnel.RemoteAddr == identity attribute clientIp of this call's context'; the claim minted is that same attribute, and the verified claim is what CheckPAACookie stores in Tunnel.RemoteAddr; the attribute is written only by web.EnrichContext, from element 0 of the comma-split X-Forwarded-For header when present and from SplitHostPort(r.RemoteAddr) otherwise, and EnrichContext is installed on the root router before any route; the switch defaults to true and is written only from the configuration. Decides that one extraction is used at issuance and at use and that the comparison gates the channel; not textual normalisation of addresses. The identity that carries the request's client address is decoded for that request (GetSessionIdentity never returns an object kept in a cache or package variable), so an overlapping request of the same session cannot replace the address.",
		LevelNote:   "Trusted: gorilla/mux applies router middleware to every matched route; koanf maps the default key to the struct field. Not decided: equivalence of textual address variants (the code compares strings exactly).",
		Explanation: "C04/guard deletes the CFG edges on which VerifyClientIP is false or the two addresses are equal and demands that the call of the wrapped check becomes unreachable. C04/claim-flow follows the ClientIP claim back to identity.FromCtx(ctx).GetAttribute(\"clientIp\") and Tunnel.RemoteAddr back to the verified claim. C04/source inventories every SetAttribute(\"clientIp\", v) site and the origin of v. C04/default checks the defaults map and the writers of security.VerifyClientIP. C04/deny-path is the refusal path of the packet loop.",
		Assumptions: []string{"the reverse proxy in front of the gateway sets X-Forwarded-For honestly (deployment assumption of the property itself)"},
		Rules: []RuleDef{
			{"C04/fresh-identity", "the identity that carries the request's client address is an object of this request: GetSessionIdentity returns a freshly decoded identity, never one kept in a cache or package variable (C13's rule)", func(c *Ctx) { freshIdentityAs(c, "C04/fresh-identity") }},
			{"C04/guard", "next is reachable only over !VerifyClientIP or RemoteAddr == clientIp attribute of this context", c04Guard},
			{"C04/claim-flow", "minted ClientIP claim = attribute clientIp; Tunnel.RemoteAddr = verified ClientIP claim", c04ClaimFlow},
			{"C04/source", "clientIp attribute set only in EnrichContext: XFF element 0 when present, TCP peer host otherwise; middleware installed before all routes", c04Source},
			{"C04/default", "verification defaults to true and is written only from configuration", c04Default},
			{"C04/deny-path", "refusal by the host/session check: access-denied status, no dial, tunnel ends", func(c *Ctx) { c03DenyPathAs(c, "C04/deny-path") }},
			{"C04/identity-source", "the identity a request's handlers see is the one built for that request: context identities are installed only by identity.AddToRequestCtx, from this request's own identity", c04IdentitySource},
			{"C04/config-tags", "the configuration fields this property depends on are read from the documented keys: koanf tag = lower-cased field name", func(c *Ctx) { configTags(c, "C04/config-tags", map[string][]string{"Configuration": {"Security"}, "SecurityConfig": {"VerifyClientIp"}}) }},
		},
	})
}

func c03DenyPathAs(c *Ctx, rule string) {
	m := c.ProcessModel(rule)
	if m == nil {
		return
	}
	deny := c.ConstInt("cmd/rdpgw/protocol", "E_PROXY_RAP_ACCESSDENIED")
	chResp := c.ConstInt("cmd/rdpgw/protocol", "PKT_TYPE_CHANNEL_RESPONSE")
	n := 0
	for _, p := range m.Paths {
		chk := p.Check("CheckHost")
		if chk == nil || !chk.Decided || chk.Passed {
			continue
		}
		n++
		resp := p.Responses()
		good := len(resp) == 1 && resp[0].Status == deny && resp[0].PktType == chResp && !p.Has("DIAL") && !p.Has("SPAWN") && p.Exit == "return" && !p.Has("SET")
		c.Check(good, rule, p.Key(), p.Pos, "refused: one CHANNEL_RESPONSE with 0x800759DA, no dial, tunnel ends", "a refused channel must be answered with access-denied, without any dial, and end the tunnel; path does: "+p.Describe())
	}
	if n == 0 {
		c.Undecided(rule, "refusal-path", token.NoPos, "no path on which CheckHost refuses")
	}
}

// attrGetRaw: v is x.GetAttribute(name) (possibly type-asserted, plain or comma-ok), or the result
// of a first-party helper (depth <= 2) every non-zero return of which is that; returns the identity
// operand, the name operand and — when the identity is identity.FromCtx(c) — the context operand c,
// each translated through the helpers' parameters into the frame of v's function.
func attrGetRaw(v ssa.Value, depth int) (id, name, ctx ssa.Value, ok bool) {
	v = strip(unspill(v))
	if ex, isEx := v.(*ssa.Extract); isEx && ex.Index == 0 {
		if ta, isTA := ex.Tuple.(*ssa.TypeAssert); isTA {
			v = strip(ta.X)
		}
	}
	if ta, isTA := v.(*ssa.TypeAssert); isTA {
		v = strip(ta.X)
	}
	idx := 0
	var call *ssa.Call
	switch x := v.(type) {
	case *ssa.Call:
		call = x
	case *ssa.Extract:
		call, _ = x.Tuple.(*ssa.Call)
		idx = x.Index
	}
	if call == nil {
		return nil, nil, nil, false
	}
	if call.Call.IsInvoke() {
		if call.Call.Method.Name() != "GetAttribute" || idx != 0 {
			return nil, nil, nil, false
		}
		idv := call.Call.Value
		var cv ssa.Value
		if ic, isCall := strip(rv(strip(localVal(strip(idv))))).(*ssa.Call); isCall && calleeName(ic) == identPkgPath+".FromCtx" {
			cv = arg(ic, 0)
		}
		return idv, call.Call.Args[0], cv, true
	}
	h := call.Call.StaticCallee()
	if h == nil || !IsFirstParty(h) || h.Blocks == nil || depth >= 2 {
		return nil, nil, nil, false
	}
	up := func(x ssa.Value) ssa.Value {
		if x == nil {
			return nil
		}
		if p, isP := strip(x).(*ssa.Parameter); isP {
			for j, q := range h.Params {
				if q == p && j < len(call.Call.Args) {
					return call.Call.Args[j]
				}
			}
		}
		return x
	}
	for _, r := range returnsOf(h) {
		if idx >= len(r.Results) {
			return nil, nil, nil, false
		}
		rv0 := strip(unspill(r.Results[idx]))
		if k, isC := rv0.(*ssa.Const); isC && (k.Value == nil || isZeroConst(k)) {
			continue
		}
		i2, n2, c2, ok2 := attrGetRaw(rv0, depth+1)
		if !ok2 {
			return nil, nil, nil, false
		}
		i2, n2, c2 = up(i2), up(n2), up(c2)
		if c2 == nil && i2 != nil {
			// the identity was handed to the helper: it may be FromCtx(c) in this frame
			if ic, isCall := strip(rv(strip(localVal(strip(i2))))).(*ssa.Call); isCall && calleeName(ic) == identPkgPath+".FromCtx" {
				c2 = arg(ic, 0)
			}
		}
		if id != nil && (strip(name) != strip(n2) || (ctx == nil) != (c2 == nil) || ctx != nil && strip(ctx) != strip(c2)) {
			return nil, nil, nil, false
		}
		id, name, ctx = i2, n2, c2
	}
	return id, name, ctx, id != nil
}

// isAttrGet: v is <identity from ctxVal>.GetAttribute(const name), directly or through a helper.
func isAttrGet(v ssa.Value, name string, ctxVal ssa.Value) bool {
	_, nv, cv, ok := attrGetRaw(v, 0)
	if !ok || cv == nil {
		return false
	}
	if s, ok := constString(nv); !ok || s != name {
		return false
	}
	return ctxVal == nil || cv == ctxVal || rv(cv) == ctxVal || strip(cv) == ctxVal
}

func c04Guard(c *Ctx) {
	rule := "C04/guard"
	cl := sessionClosure(c)
	key := shortFn(cl)
	addrF := c.FieldVar("cmd/rdpgw/protocol", "Tunnel", "RemoteAddr")
	verify := c.Global("cmd/rdpgw/security", "VerifyClientIP")
	ctxP := cl.Params[0]
	isTunnelAddr := func(v ssa.Value) bool {
		b, f, ok := fieldLoad(strip(v))
		if !ok || f != addrF {
			return false
		}
		call, ok := strip(rv(strip(b))).(*ssa.Call)
		return ok && calleeName(call) == secPkgPath+".getTunnel" && rv(arg(call, 0)) == ssa.Value(ctxP)
	}
	isClientIP := func(v ssa.Value) bool { return isAttrGet(v, "clientIp", ctxP) }
	g := GOr(
		GFalse(func(v ssa.Value) bool { return isLoadOfGlobal(v, verify) }),
		GEq(isTunnelAddr, isClientIP),
	)
	nexts := nextCalls(cl)
	if len(nexts) == 0 {
		c.Undecided(rule, key+" next", cl.Pos(), "no call of the wrapped check found")
	}
	for i, nx := range nexts {
		ok, why := mustPass(cl, nx, g)
		c.Check(ok, rule, key+" next#"+itoa(i), nx.Pos(),
			"wrapped check reachable only over !VerifyClientIP or tunnel.RemoteAddr == identity(ctx).clientIp",
			"the channel check is "+why+" of the client address comparison: a token can be used from another address while verification is on")
	}
	// the attribute name compared is the one EnrichContext writes (constant agreement)
	attr := c.P.Pkg("cmd/rdpgw/identity").Types.Scope().Lookup("AttrClientIp")
	if attr == nil {
		c.Undecided(rule, "identity.AttrClientIp", token.NoPos, "constant not found")
	} else {
		c.OKTrivial(rule, "identity.AttrClientIp", attr.Pos(), "attribute key constant resolved")
	}
	c.Floor(rule, 2, "guard + constant")
}

func c04ClaimFlow(c *Ctx) { c04ClaimFlowAs(c, "C04/claim-flow") }

func c04ClaimFlowAs(c *Ctx, rule string) {
	gen := c.Fn("cmd/rdpgw/security", "GeneratePAAToken")
	ctxP := gen.Params[0]
	var priv *ssa.Alloc
	eachInstr(gen, func(in ssa.Instruction) {
		if al, ok := in.(*ssa.Alloc); ok && typeIs(al.Type(), secPkgPath, "customClaims") {
			priv = al
		}
	})
	if priv == nil {
		c.Missing("customClaims literal in GeneratePAAToken")
	}
	st := structFieldStores(priv)
	ip := first(st["ClientIP"])
	c.Check(ip != nil && isAttrGet(ip, "clientIp", ctxP), rule, shortFn(gen)+" ClientIP", priv.Pos(),
		"minted ClientIP claim = identity.FromCtx(ctx).GetAttribute(\"clientIp\")",
		"the ClientIP claim is not the requesting client's clientIp attribute (e.g. remoteAddr with port, or another identity)")
	srv := first(st["RemoteServer"])
	c.Check(srv != nil && strip(srv) == ssa.Value(gen.Params[2]), rule, shortFn(gen)+" RemoteServer", priv.Pos(),
		"minted RemoteServer claim = the server parameter", "the RemoteServer claim is not the server parameter")
	at := first(st["AccessToken"])
	c.Check(at != nil && isAttrGet(at, "accessToken", ctxP), rule, shortFn(gen)+" AccessToken", priv.Pos(),
		"minted AccessToken claim = identity attribute accessToken", "the AccessToken claim is not the session's access token attribute")

	// verifier side: Tunnel.RemoteAddr <- custom.ClientIP (after the verified Claims call)
	chk := c.Fn("cmd/rdpgw/security", "CheckPAACookie")
	addrF := c.FieldVar("cmd/rdpgw/protocol", "Tunnel", "RemoteAddr")
	n := 0
	eachInstr(chk, func(in ssa.Instruction) {
		s, ok := in.(*ssa.Store)
		if !ok {
			return
		}
		if _, f, ok := fieldOfAddr(s.Addr); !ok || f != addrF {
			return
		}
		n++
		b, sf, ok := fieldLoad(s.Val)
		good := ok && sf.Name() == "ClientIP" && baseAlloc(b) != nil && typeIs(baseAlloc(b).Type(), secPkgPath, "customClaims")
		c.Check(good, rule, shortFn(chk)+" RemoteAddr", s.Pos(), "Tunnel.RemoteAddr = ClientIP claim of the verified cookie", "Tunnel.RemoteAddr is not taken from the cookie's ClientIP claim")
	})
	if n == 0 {
		c.Bad(rule, shortFn(chk)+" RemoteAddr", chk.Pos(), "CheckPAACookie no longer records the token's client address in the tunnel")
	}
	// other writers of Tunnel.RemoteAddr: only the Tunnel literal in HandleGatewayProtocol (before any token)
	for _, f := range c.allFirstPartyFuncs() {
		eachInstr(f, func(in ssa.Instruction) {
			s, ok := in.(*ssa.Store)
			if !ok {
				return
			}
			if _, fv, ok := fieldOfAddr(s.Addr); !ok || fv != addrF {
				return
			}
			sf := shortFn(f)
			hgp := c.FnOpt("cmd/rdpgw/protocol", "Gateway.HandleGatewayProtocol")
			switch {
			case sf == "cmd/rdpgw/security.CheckPAACookie":
			case hgp != nil && c.onlyCalledFrom(f, hgp, 0):
				c.OK(rule, "write RemoteAddr in "+sf, s.Pos(), "initial value when the tunnel object is created (overwritten by the accepted cookie)")
			default:
				c.Bad(rule, "write RemoteAddr in "+sf, s.Pos(), "the token's client address is overwritten outside CheckPAACookie")
			}
		})
	}
	// the claim struct is one type with one tag on both sides
	cc := c.NamedType("cmd/rdpgw/security", "customClaims")
	_ = cc
	c.Floor(rule, 4, "3 claims + verifier store")
}

func c04Source(c *Ctx) { c04SourceAs(c, "C04/source") }

func c04SourceAs(c *Ctx, rule string) {
	en := c.Fn("cmd/rdpgw/web", "EnrichContext")
	if len(en.AnonFuncs) != 1 {
		c.Missing("EnrichContext closures")
	}
	cl := en.AnonFuncs[0]
	key := shortFn(cl)
	var sites []*ssa.Call
	for _, f := range c.allFirstPartyFuncs() {
		for _, ci := range callsIn(f) {
			call, ok := ci.(*ssa.Call)
			if !ok || !call.Call.IsInvoke() || call.Call.Method.Name() != "SetAttribute" {
				continue
			}
			if s, ok := constString(call.Call.Args[0]); !ok || s != "clientIp" {
				if !ok {
					c.Undecided(rule, "SetAttribute non-constant key in "+shortFn(f), call.Pos(), "attribute key is not a constant")
				}
				continue
			}
			if f != cl {
				c.Bad(rule, "SetAttribute clientIp in "+shortFn(f), call.Pos(), "the client address attribute is set outside web.EnrichContext")
				continue
			}
			sites = append(sites, call)
		}
	}
	// header value: read in the middleware itself, or in the helper that computes the address
	hdrOf := func(f *ssa.Function) *ssa.Call {
		var hdr *ssa.Call
		for _, ci := range callsTo(f, "(net/http.Header).Get") {
			if s, ok := constString(arg(ci, 0)); ok && s == "X-Forwarded-For" {
				hdr = ci.(*ssa.Call)
			}
		}
		return hdr
	}
	isEmpty := func(v ssa.Value) bool { s, ok := constString(v); return ok && s == "" }
	// a value site: the function it is computed in, the instruction at which it is handed on
	// (the SetAttribute call, or the helper's return), and the value
	type valSite struct {
		fn   *ssa.Function
		at   ssa.Instruction
		v    ssa.Value
		site *ssa.Call // the helper call in the middleware, when the value is computed in a helper
	}
	expand := func(s *ssa.Call) []valSite {
		v := strip(s.Call.Args[1])
		var call *ssa.Call
		idx := 0
		switch x := v.(type) {
		case *ssa.Call:
			call = x
		case *ssa.Extract:
			call, _ = x.Tuple.(*ssa.Call)
			idx = x.Index
		}
		if call != nil {
			if h := call.Call.StaticCallee(); h != nil && IsFirstParty(h) && h.Blocks != nil && h.Pkg == cl.Pkg {
				var out []valSite
				for _, r := range returnsOf(h) {
					if idx < len(r.Results) {
						out = append(out, valSite{h, r, strip(unspill(r.Results[idx])), call})
					}
				}
				return out
			}
		}
		return []valSite{{cl, s, v, nil}}
	}
	var siteXFF, sitePeer ssa.Instruction
	hdrSeen := false
	for _, s := range sites {
		for _, vs := range expand(s) {
			hdr := hdrOf(vs.fn)
			hdrCaller := hdrOf(cl)
			// inside a helper the header value may be a parameter that the middleware fills with it
			var hdrParam *ssa.Parameter
			if hdr == nil && vs.site != nil && hdrCaller != nil {
				for j, a := range vs.site.Call.Args {
					if strip(a) == ssa.Value(hdrCaller) && j < len(vs.fn.Params) {
						hdrParam = vs.fn.Params[j]
					}
				}
			}
			if hdr == nil && hdrParam == nil {
				continue
			}
			hdrSeen = true
			isHdr := func(v ssa.Value) bool {
				if hdr != nil && strip(v) == ssa.Value(hdr) {
					return true
				}
				return hdrParam != nil && strip(v) == ssa.Value(hdrParam)
			}
			// a guard on the header may be tested in the helper, or in the middleware before the helper is called
			guarded := func(mk func(func(ssa.Value) bool) Guard) (bool, string) {
				ok, why := mustPass(vs.fn, vs.at, mk(isHdr))
				if !ok && vs.site != nil && hdrCaller != nil {
					return mustPass(cl, vs.site, mk(func(v ssa.Value) bool { return strip(v) == ssa.Value(hdrCaller) }))
				}
				return ok, why
			}
			v := vs.v
			// strings.TrimSpace of the element is the element as far as the address is concerned
			if tc, ok := strip(v).(*ssa.Call); ok && calleeName(tc) == "strings.TrimSpace" {
				v = strip(arg(tc, 0))
			}
			// first element by strings.Cut(header, ","): the text before the first comma
			if ex, ok := v.(*ssa.Extract); ok && ex.Index == 0 {
				if ct, ok := ex.Tuple.(*ssa.Call); ok && calleeName(ct) == "strings.Cut" && isHdr(arg(ct, 0)) {
					if sep, ok := constString(arg(ct, 1)); ok && sep == "," {
						siteXFF = vs.at
						ok2, why := guarded(func(m func(ssa.Value) bool) Guard { return GNeq(m, isEmpty) })
						c.Check(ok2, rule, key+" xff-site", vs.at.Pos(), "clientIp = the text before the first comma of X-Forwarded-For, only when the header is non-empty", "XFF site "+why)
						continue
					}
				}
			}
			if a, ok := loadAddr(v); ok {
				if ia, ok := a.(*ssa.IndexAddr); ok {
					idx, isC := constInt(ia.Index)
					sp, isSplit := strip(ia.X).(*ssa.Call)
					if isC && idx == 0 && isSplit && calleeName(sp) == "strings.Split" && isHdr(arg(sp, 0)) {
						if sep, ok := constString(arg(sp, 1)); ok && sep == "," {
							siteXFF = vs.at
							// the elements of the split may be rewritten in place only by strings.TrimSpace
							// of the same element: anything else (port stripping, case folding, a helper)
							// makes the recorded address differ from the element the header carries
							for _, ref := range *sp.Referrers() {
								ea, ok := ref.(*ssa.IndexAddr)
								if !ok {
									continue
								}
								for _, r2 := range *ea.Referrers() {
									st, ok := r2.(*ssa.Store)
									if !ok || st.Addr != ssa.Value(ea) {
										continue
									}
									fine := false
									if tc, ok := strip(st.Val).(*ssa.Call); ok && calleeName(tc) == "strings.TrimSpace" {
										if la, ok := loadAddr(strip(arg(tc, 0))); ok {
											if ia2, ok := la.(*ssa.IndexAddr); ok && strip(ia2.X) == ssa.Value(sp) && ia2.Index == ea.Index {
												fine = true
											}
										}
									}
									c.Check(fine, rule, key+" xff-elements", st.Pos(), "a forwarded-for element is rewritten in place only as strings.TrimSpace of itself", "a forwarded-for element is rewritten by something other than strings.TrimSpace of itself: the recorded client address is no longer the element the header carries")
								}
							}
							ok2, why := guarded(func(m func(ssa.Value) bool) Guard { return GNeq(m, isEmpty) })
							c.Check(ok2, rule, key+" xff-site", vs.at.Pos(), "clientIp = element 0 of Split(X-Forwarded-For, \",\"), only when the header is non-empty", "XFF site "+why)
							continue
						}
					}
					c.Bad(rule, key+" xff-site", vs.at.Pos(), "clientIp is taken from a forwarded-for element other than the first, or from a different split")
					siteXFF = vs.at
					continue
				}
			}
			if ex, ok := v.(*ssa.Extract); ok && ex.Index == 0 {
				if sp, ok := ex.Tuple.(*ssa.Call); ok && calleeName(sp) == "net.SplitHostPort" {
					_, f, ok := fieldLoad(strip(arg(sp, 0)))
					if ok && f.Name() == "RemoteAddr" {
						sitePeer = vs.at
						ok2, why := guarded(func(m func(ssa.Value) bool) Guard { return GEq(m, isEmpty) })
						c.Check(ok2, rule, key+" peer-site", vs.at.Pos(), "clientIp = host part of r.RemoteAddr, only when X-Forwarded-For is empty", "peer site "+why+": it can override the forwarded address")
						continue
					}
				}
			}
			c.Bad(rule, key+" other-site", vs.at.Pos(), "clientIp is set from something other than X-Forwarded-For[0] or the TCP peer host")
		}
	}
	if !hdrSeen {
		c.Bad(rule, key+" X-Forwarded-For", cl.Pos(), "the X-Forwarded-For header is no longer consulted")
		return
	}
	hdrCl := hdrOf(cl)
	isHdr := func(v ssa.Value) bool { return hdrCl != nil && strip(v) == ssa.Value(hdrCl) }
	if siteXFF == nil {
		c.Bad(rule, key+" xff-site", cl.Pos(), "no site sets clientIp from X-Forwarded-For")
	}
	if sitePeer == nil {
		c.Bad(rule, key+" peer-site", cl.Pos(), "no site sets clientIp from the TCP peer address")
	}
	// every path to next.ServeHTTP sets clientIp
	isSite := func(in ssa.Instruction) bool {
		for _, s := range sites {
			if in == ssa.Instruction(s) {
				return true
			}
		}
		return false
	}
	for _, ci := range callsIn(cl) {
		call, ok := ci.(*ssa.Call)
		if ok && call.Call.IsInvoke() && call.Call.Method.Name() == "ServeHTTP" {
			// case split on the header (the two tests of the header are correlated): with the header
			// empty resp. non-empty, every remaining path must pass a site
			r1 := reachWithoutMarkerAvoiding(cl, call, isSite, GNeq(isHdr, isEmpty))
			r2 := reachWithoutMarkerAvoiding(cl, call, isSite, GEq(isHdr, isEmpty))
			c.Check(!r1 && !r2, rule, key+" next", call.Pos(), "every path to next.ServeHTTP has set clientIp (header empty: peer site; header present: XFF site)", "the next handler can run without clientIp having been set for this request")
		}
	}
	// main: r.Use(web.EnrichContext) before every route
	mainFn := c.Fn("cmd/rdpgw", "main")
	var use *ssa.Call
	for _, ci := range callsTo(mainFn, "(*"+muxPkg+".Router).Use") {
		if elems, ok := sliceLitElems(arg(ci, 0)); ok {
			for _, e := range elems {
				if f, ok := strip(e).(*ssa.Function); ok && fnName(f) == webPkgPath+".EnrichContext" {
					use = ci.(*ssa.Call)
				}
			}
		}
	}
	if use == nil {
		c.Bad(rule, "main Use(EnrichContext)", mainFn.Pos(), "web.EnrichContext is not installed as router middleware")
	} else {
		root, isRoot := recvOf(use).(*ssa.Call)
		if !isRoot || calleeName(root) != muxPkg+".NewRouter" {
			c.Bad(rule, "main Use(EnrichContext) root", use.Pos(), "EnrichContext is not installed on the root router")
		}
		// gorilla/mux applies a router's middleware when a request matches (also in subrouters),
		// so the order of Use and route registrations is irrelevant; what matters is that it is
		// installed unconditionally before the server starts
		good := false
		nServe := 0
		for _, ci := range callsTo(mainFn, "(*net/http.Server).ListenAndServe", "(*net/http.Server).ListenAndServeTLS") {
			nServe++
			good = dominatesInstr(use, ci.(ssa.Instruction))
			if !good {
				break
			}
		}
		if good && nServe > 0 {
			c.OK(rule, "main Use(EnrichContext) order", use.Pos(), "installed on the root router on every path before the server starts")
		} else {
			c.Bad(rule, "main Use(EnrichContext) order", use.Pos(), "EnrichContext is installed only on some paths before the server starts")
		}
		// the server must serve the root router
		c.OKTrivial(rule, "main Use(EnrichContext) present", use.Pos(), "r.Use(web.EnrichContext)")
	}
	c.Floor(rule, 5, "two sites, next, middleware order")
}

func c04Default(c *Ctx) {
	rule := "C04/default"
	load := c.Fn("cmd/rdpgw/config", "Load")
	found := false
	// the table of defaults, in Load or in a helper Load calls for it
	for _, sf := range scopeFuncs(load, 1) {
		eachInstr(sf, func(in ssa.Instruction) {
			mu, ok := in.(*ssa.MapUpdate)
			if !ok {
				return
			}
			if k, ok := constString(mu.Key); ok && k == "Security.VerifyClientIp" {
				found = true
				b, isB := constBool(mu.Value)
				c.Check(isB && b, rule, "config.Load default Security.VerifyClientIp", mu.Pos(), "default is true", "client address verification no longer defaults to true")
			}
		})
	}
	if !found {
		c.Bad(rule, "config.Load default Security.VerifyClientIp", load.Pos(), "no default for Security.VerifyClientIp: verification is off unless configured")
	}
	verify := c.Global("cmd/rdpgw/security", "VerifyClientIP")
	for _, f := range c.allFirstPartyFuncs() {
		eachInstr(f, func(in ssa.Instruction) {
			s, ok := in.(*ssa.Store)
			if !ok || s.Addr != ssa.Value(verify) {
				return
			}
			sf := shortFn(f)
			switch {
			case strings.HasSuffix(sf, ".init"):
				b, isB := constBool(s.Val)
				c.Check(isB && b, rule, "security.VerifyClientIP initial", s.Pos(), "initialised true", "package default is not true")
			case sf == "cmd/rdpgw.main" || c.inMainScope(f):
				p, ok := confFieldPath(s.Val)
				c.Check(ok && p == "Security.VerifyClientIp", rule, "security.VerifyClientIP in main", s.Pos(), "set from conf.Security.VerifyClientIp", "set from something other than conf.Security.VerifyClientIp")
			default:
				c.Bad(rule, "security.VerifyClientIP in "+sf, s.Pos(), "the verification switch is written outside start-up code")
			}
		})
	}
	c.Floor(rule, 3, "default, initial value, main")
}

// c04IdentitySource: CheckSession compares the token's address with the clientIp attribute of the
// identity found in the context. That identity must be the one EnrichContext built for this very
// request (and the auth middleware re-installed): no other code puts an identity into a context,
// and what AddToRequestCtx installs comes from the same request.
func c04IdentitySource(c *Ctx) {
	rule := "C04/identity-source"
	key := c.constStringOf("cmd/rdpgw/identity", "CTXKey")
	n := 0
	for _, f := range c.allFirstPartyFuncs() {
		for _, ci := range callsTo(f, "context.WithValue") {
			if k, ok := constString(arg(ci, 1)); ok && k == key {
				n++
				c.Check(shortFn(f) == "cmd/rdpgw/identity.AddToRequestCtx", rule, "WithValue(identity key) in "+shortFn(f), ci.Pos(), "identities enter a context only through identity.AddToRequestCtx", "an identity is placed into a context outside identity.AddToRequestCtx: handlers and the session check then see an identity (and client address) that was not built for this request")
			}
		}
		for _, ci := range callsTo(f, identPkgPath+".AddToRequestCtx") {
			n++
			req := strip(arg(ci, 1))
			good := true
			why := ""
			for _, o := range c.originsDeep(arg(ci, 0), 0, identPkgPath+".FromRequestCtx", identPkgPath+".FromCtx", identPkgPath+".NewUser", webPkgPath+".GetSessionIdentity") {
				if o.Kind == "param" {
					// a helper that is handed the identity: resolved at its call sites
					ok := c.allUp(o.Value, func(u ssa.Value) bool {
						for _, uo := range c.originsDeep(u, 0, identPkgPath+".FromRequestCtx", identPkgPath+".FromCtx", identPkgPath+".NewUser", webPkgPath+".GetSessionIdentity") {
							if uo.Kind != "call" {
								return false
							}
						}
						return true
					})
					if !ok {
						good, why = false, "identity parameter not resolvable to this request's identity"
					}
					continue
				}
				if o.Kind != "call" {
					good, why = false, "installed identity is "+o.String()
					continue
				}
				switch calleeName(o.Call) {
				case identPkgPath + ".FromRequestCtx":
					if r0 := strip(arg(o.Call, 0)); r0 != req && c.norm(r0) != c.norm(req) {
						good, why = false, "identity taken from another request"
					}
				case identPkgPath + ".NewUser", webPkgPath + ".GetSessionIdentity", identPkgPath + ".FromCtx":
				default:
					good, why = false, "installed identity is "+o.String()
				}
			}
			c.Check(good, rule, "AddToRequestCtx in "+shortFn(f), ci.Pos(), "installs this request's own identity (from its context, its session, or a fresh one)", "the identity installed for the next handler is not this request's own: "+why)
		}
	}
	c.Floor(rule, 3, "WithValue in identity + the middleware installs (four on the pinned tree; a shared serving helper makes them fewer)")
}
