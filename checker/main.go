// rdpgwlint: repository-specific static checker for bolkedebruin/rdpgw.
// One invocation decides one property of /verif/properties.jsonl from the
// current source of /repo (nothing in /repo is executed).
package main

import (
	"encoding/json"
	"flag"
	"fmt"
	"os"
	"path/filepath"
	"sort"
	"strconv"
	"strings"
	"time"
)

type RuleDef struct {
	Name string
	Doc  string
	Run  func(c *Ctx)
}

type Property struct {
	ID          string
	Title       string
	DesignRef   string
	Technique   string
	LevelText   string
	LevelNote   string
	Explanation string
	Assumptions []string
	Rules       []RuleDef
}

var registry = map[string]*Property{}

func register(p *Property) { registry[p.ID] = p }

func verifDir() string {
	if d := os.Getenv("VERIF_DIR"); d != "" {
		return d
	}
	exe, err := os.Executable()
	if err == nil {
		d := filepath.Dir(filepath.Dir(exe))
		if _, err := os.Stat(filepath.Join(d, "properties.jsonl")); err == nil {
			return d
		}
	}
	return "/verif"
}

type runResult struct {
	Property  string        `json:"property"`
	Obls      []*Obligation `json:"obligations"`
	Notes     []string      `json:"notes"`
	LoadError string        `json:"load_error,omitempty"`
}

func main() {
	var (
		prop    = flag.String("property", "", "property id (C01..C20)")
		tier    = flag.String("tier", "quick", "quick|thorough")
		repo    = flag.String("repo", "/repo", "repository root")
		replay  = flag.String("replay", "", "replay file: re-evaluate and show only the obligations listed there")
		variant = flag.String("variant", "", "internal: JSON file {file: content} overlay (self-test variants)")
		jsonOut = flag.String("json-out", "", "internal: write obligations as JSON here instead of evidence")
		genMan  = flag.Bool("gen-manifest", false, "write MANIFEST.json from the rule registry")
		list    = flag.Bool("list", false, "list properties and rules")
		verbose = flag.Bool("v", false, "print every obligation")
		patch   = flag.String("patch", "", "tool mode: apply this unified diff to the sources in memory (overlay), run every property's quick rules on the result in parallel and print which properties/rules report")
	)
	flag.Parse()
	vdir := verifDir()
	if *patch != "" {
		os.Exit(patchMatrix(*patch, *repo, vdir))
	}

	if *list {
		ids := []string{}
		for id := range registry {
			ids = append(ids, id)
		}
		sort.Strings(ids)
		for _, id := range ids {
			p := registry[id]
			fmt.Printf("%s %s\n", id, p.Title)
			for _, r := range p.Rules {
				fmt.Printf("   %-28s %s\n", r.Name, r.Doc)
			}
		}
		return
	}
	if *genMan {
		if err := genManifest(vdir); err != nil {
			fmt.Fprintln(os.Stderr, "gen-manifest:", err)
			os.Exit(2)
		}
		return
	}
	if t := os.Getenv("VERIF_TIER"); t != "" && !flagSet("tier") {
		*tier = t
	}
	p, ok := registry[*prop]
	if !ok {
		fmt.Fprintf(os.Stderr, "unknown property %q\n", *prop)
		os.Exit(2)
	}
	seed := 0
	if s := os.Getenv("VERIF_SEED"); s != "" {
		if n, err := strconv.Atoi(s); err == nil {
			seed = n
		}
	}
	start := time.Now()

	var overlay map[string][]byte
	if *variant != "" {
		b, err := os.ReadFile(*variant)
		if err != nil {
			fmt.Fprintln(os.Stderr, err)
			os.Exit(2)
		}
		m := map[string]string{}
		if err := json.Unmarshal(b, &m); err != nil {
			fmt.Fprintln(os.Stderr, err)
			os.Exit(2)
		}
		overlay = map[string][]byte{}
		for k, v := range m {
			overlay[filepath.Join(*repo, k)] = []byte(v)
		}
	}

	ctx, loadErr := runProperty(p, *repo, *tier, overlay)

	if *jsonOut != "" {
		rr := runResult{Property: p.ID, Obls: ctx.Obls, Notes: ctx.Notes}
		if loadErr != nil {
			rr.LoadError = loadErr.Error()
		}
		if err := writeJSON(*jsonOut, rr); err != nil {
			fmt.Fprintln(os.Stderr, err)
			os.Exit(2)
		}
		return
	}

	// known findings
	kf, err := loadKnown(filepath.Join(vdir, "known_findings.json"))
	if err != nil {
		fmt.Fprintln(os.Stderr, "known_findings.json:", err)
		os.Exit(2)
	}
	known := map[string]KnownFinding{}
	for _, f := range kf.Findings {
		if f.Property == p.ID {
			known[f.Rule+"|"+f.Key] = f
		}
	}

	var replayKeys map[string]bool
	if *replay != "" {
		replayKeys = map[string]bool{}
		b, err := os.ReadFile(*replay)
		if err != nil {
			fmt.Fprintln(os.Stderr, err)
			os.Exit(2)
		}
		var rf struct {
			Violations []*Obligation `json:"violations"`
		}
		if err := json.Unmarshal(b, &rf); err != nil {
			fmt.Fprintln(os.Stderr, err)
			os.Exit(2)
		}
		for _, o := range rf.Violations {
			replayKeys[o.Rule+"|"+o.Key] = true
		}
	}

	sortObls(ctx.Obls)
	var bad []*Obligation
	nDis, nNontriv := 0, 0
	distinct := map[string]bool{}
	ruleCount := map[string][3]int{}
	for _, o := range ctx.Obls {
		rc := ruleCount[o.Rule]
		switch o.Status {
		case StDischarged:
			nDis++
			rc[0]++
		case StViolated:
			rc[1]++
		default:
			rc[2]++
		}
		ruleCount[o.Rule] = rc
		if o.Nontrivial && !distinct[o.Rule+"|"+o.Key] {
			distinct[o.Rule+"|"+o.Key] = true
			nNontriv++
		}
		if o.Status != StDischarged {
			f, ok := known[o.Rule+"|"+o.Key]
			if !ok && o.AltKey != "" {
				f, ok = known[o.Rule+"|"+o.AltKey]
			}
			if ok && o.Status == StViolated {
				o.Known = true
				fmt.Printf("KNOWN-FINDING: property=%s %s [%s %s] %s\n", p.ID, f.What, o.Rule, o.Key, o.Pos)
				continue
			}
			if replayKeys != nil && !replayKeys[o.Rule+"|"+o.Key] {
				continue
			}
			bad = append(bad, o)
		}
	}

	// thorough: self-test of the rules on seeded / silent variants (measures the checker, never the verdict)
	var variantTable []map[string]any
	if *tier == "thorough" && *variant == "" && loadErr == nil {
		variantTable = runVariants(p, *repo, vdir, ctx)
	}

	fmt.Printf("rdpgwlint property=%s tier=%s repo=%s\n", p.ID, *tier, *repo)
	if ctx.P != nil {
		fmt.Printf("analysed: %d first-party packages, %d packages in all, %d SSA functions in call graph\n", len(ctx.P.First), len(ctx.P.All), ctx.P.NumFuncs())
	}
	rules := []string{}
	for r := range ruleCount {
		rules = append(rules, r)
	}
	sort.Strings(rules)
	for _, r := range rules {
		rc := ruleCount[r]
		fmt.Printf("  rule %-30s discharged=%d violated=%d undecided=%d\n", r, rc[0], rc[1], rc[2])
	}
	if *verbose {
		for _, o := range ctx.Obls {
			fmt.Printf("  [%s] %s %s: %s (%s)\n", o.Status, o.Rule, o.Key, o.Msg, o.Pos)
		}
		for _, n := range ctx.Notes {
			fmt.Printf("  note: %s\n", n)
		}
	}
	for _, o := range bad {
		fmt.Printf("%s: [%s] %s: %s: %s\n", o.Pos, o.Rule, o.Status, o.Key, o.Msg)
	}

	// evidence
	samples := []any{}
	pick := func(o *Obligation) {
		samples = append(samples, map[string]any{"rule": o.Rule, "construct": o.Key, "pos": o.Pos, "status": o.Status, "how": o.Msg})
	}
	// one sample per rule first (rotated by seed), then violations
	byRule := map[string][]*Obligation{}
	for _, o := range ctx.Obls {
		byRule[o.Rule] = append(byRule[o.Rule], o)
	}
	for _, r := range rules {
		l := byRule[r]
		pick(l[seed%len(l)])
		if len(l) > 1 {
			pick(l[(seed+1)%len(l)])
		}
	}
	for _, o := range ctx.Obls {
		if o.Status != StDischarged {
			pick(o)
		}
	}
	if len(samples) > 80 {
		samples = samples[:80]
	}
	ruleDocs := []string{}
	for _, r := range p.Rules {
		ruleDocs = append(ruleDocs, r.Name+": "+r.Doc)
	}
	cov := map[string]any{
		"explanation":         p.Explanation + " Rules: " + strings.Join(ruleDocs, " | "),
		"obligations":         len(ctx.Obls),
		"discharged":          nDis,
		"evaluations":         len(ctx.Obls),
		"distinct_nontrivial": nNontriv,
		"rule":                "an obligation is one rule applied to one construct of /repo's current source (keyed by rule + function + normalised construct); non-trivial = its decision needed a path, dominance, value-flow or table-agreement argument rather than a bare existence test; distinct = distinct keys",
		"samples":             samples,
		"per_rule":            ruleCount,
		"exhaustive":          true,
		"checker_cmd":         fmt.Sprintf("bin/rdpgwlint -property %s -tier %s", p.ID, *tier),
		"trusted_base":        []string{"go/types, go/ssa, callgraph/vta of golang.org/x/tools v0.29.0", "Go 1.23 compiler prove pass (bounds-check elimination listing)", "the frozen tables in /verif/checker/tables"},
		"notes":               ctx.Notes,
		"stats":               ctx.Stats,
	}
	if ctx.P != nil {
		pk := []string{}
		for _, fp := range ctx.P.First {
			pk = append(pk, strings.TrimPrefix(fp.PkgPath, modPath+"/"))
		}
		cov["packages_analysed"] = pk
		cov["packages_total"] = len(ctx.P.All)
		cov["ssa_functions"] = ctx.P.NumFuncs()
		cov["load_notes"] = ctx.P.LoadNotes
	}
	if variantTable != nil {
		cov["selftest_variants"] = variantTable
	}
	ev := Evidence{
		PropertyID: p.ID, Tier: *tier, Seed: seed, Level: "other", Coverage: cov,
		Assumptions: p.Assumptions, WallS: time.Since(start).Seconds(), Violations: len(bad),
	}
	noEvidence := os.Getenv("VERIF_NO_EVIDENCE") != "" // tool runs against scratch trees must not overwrite the evidence of /repo
	if *replay == "" && !noEvidence {
		if err := writeJSON(filepath.Join(vdir, "evidence", p.ID+".json"), ev); err != nil {
			fmt.Fprintln(os.Stderr, "evidence:", err)
			os.Exit(2)
		}
	}
	if len(bad) > 0 {
		rp := filepath.Join(vdir, "evidence", p.ID+".violations.json")
		if noEvidence {
			rp = filepath.Join(os.TempDir(), p.ID+".violations.json")
		}
		if *replay == "" {
			writeJSON(rp, map[string]any{"property": p.ID, "violations": bad, "replay_cmd": fmt.Sprintf("bin/rdpgwlint -property %s -replay %s", p.ID, rp)})
		} else {
			rp = *replay
		}
		fmt.Printf("VIOLATION property=%s replay=%s\n", p.ID, rp)
		os.Exit(1)
	}
	fmt.Printf("OK property=%s obligations=%d discharged=%d wall=%.1fs\n", p.ID, len(ctx.Obls), nDis, time.Since(start).Seconds())
}

func flagSet(name string) bool {
	set := false
	flag.Visit(func(f *flag.Flag) {
		if f.Name == name {
			set = true
		}
	})
	return set
}

// runProperty loads the program and evaluates every rule of p.
func runProperty(p *Property, repo, tier string, overlay map[string][]byte) (*Ctx, error) {
	ctx := &Ctx{Prop: p.ID, Tier: tier}
	prog, err := LoadProg(repo, overlay, "")
	ctx.P = prog
	if ctx.P == nil {
		ctx.P = &Prog{Repo: repo}
	}
	if err != nil {
		ctx.add(StUndecided, p.ID+"/load", "load", 0, true, "cannot load/type-check /repo: %v", err)
		return ctx, err
	}
	if len(prog.First) < 15 {
		ctx.add(StUndecided, p.ID+"/load", "package-count", 0, true, "only %d first-party packages loaded (15 expected)", len(prog.First))
	}
	for _, r := range p.Rules {
		ctx.RunRule(r.Name, r.Run)
	}
	ctx.applyFloors()
	return ctx, nil
}
