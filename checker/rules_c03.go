package main

import (
	"go/token"
	"go/types"
	"strings"

	"golang.org/x/tools/go/ssa"
)

const secPkgPath = modPath + "/cmd/rdpgw/security"

func init() {
	register(&Property{
		ID:          "C03",
		Title:       "The host dialed is exactly the host that was requested and authorized",
		DesignRef:   "DESIGN.md §3 C03",
		Technique:   "SSA value identity (the checked value is the dialled value) + edge-cut guarded reachability on CheckSession/CheckHost + typestate model of Process for the refusal path",
		LevelText:   "Static: in the packet loop the address operand of the dial is the very SSA value passed to CheckHost, built by net.JoinHostPort from the server/port decoded from this iteration's packet; the session wrapper calls the next check only over the edge TargetServer == host with the unchanged host; security.CheckHost accepts only under 'any' or over an exact string equality with a configured entry after placeholder substitution and a non-empty user name ('signed' and unknown modes refuse); a refused host yields RESOURCE-ACCESS-DENIED, no dial, and ends the tunnel. Decides which value is compared and dialled on every path, not DNS/IDNA or UTF-16 value semantics.",
		LevelNote:   "Trusted: net.JoinHostPort/DialTimeout semantics, strings.Replace, the UTF-16 decoder's value semantics (whatever string it yields is the one checked and dialled).",
		Explanation: "C03/same-value follows the dial's address operand and CheckHost's argument to one SSA value whose origin is JoinHostPort(channelRequest(pkt)...) with pkt from this iteration's Tunnel.Read. C03/session-binding and C03/list-policy delete the CFG edges on which the required equality holds and demand that the accepting exit becomes unreachable. C03/deny-path reads the refusal path from the typestate model. C03/wiring re-checks main.",
		Assumptions: []string{"name resolution of odd strings and UTF-16 surrogate handling are out of scope; only identity of the checked and the dialled string is decided"},
		Rules: []RuleDef{
			{"C03/same-value", "dial address == CheckHost argument == JoinHostPort(channelRequest(this packet)); TargetServer writers", c03SameValue},
			{"C03/session-binding", "CheckSession: next is called only when TargetServer == host, with the same host", c03SessionBinding},
			{"C03/list-policy", "security.CheckHost accepts only under 'any' or exact equality with a substituted configured entry and non-empty user", c03ListPolicy},
			{"C03/deny-path", "refused host: CHANNEL_RESPONSE with E_PROXY_RAP_ACCESSDENIED (0x800759DA), no dial, tunnel ends", c03DenyPath},
			{"C03/wiring", "main installs the host check (session-wrapped under token auth) before registering the handler", func(c *Ctx) { wiringRule(c, "C03/wiring") }},
			{"C03/name-decoding", "the requested server name is decoded completely: the UTF-16 decoder visits every code unit and removes at most one trailing NUL", c03NameDecoding},
			{"C03/hosts-immutable", "the configured host list the policy compares against is never rewritten while serving requests", func(c *Ctx) { sharedSliceWrites(c, "C03/hosts-immutable") }},
		},
	})
}

func c03SameValue(c *Ctx) {
	rule := "C03/same-value"
	m := c.ProcessModel(rule)
	if m == nil {
		return
	}
	fn := m.Fn
	reads := callsTo(fn, "(*"+protoPkg+".Tunnel).Read")
	readCall := reads[0]
	nDial := 0
	seenDial := map[ssa.Instruction]bool{}
	for _, p := range m.Paths {
		for _, d := range p.All("DIAL") {
			nDial++
			addr := d.Args[1]
			if strings.HasPrefix(d.Name, "(*net.Dialer)") {
				addr = d.Args[len(d.Args)-1]
			}
			chk := p.Check("CheckHost")
			if chk != nil {
				if chk.Args[1] != addr {
					c.Bad(rule, p.Key()+" dial==checked", d.Instr.Pos(), "the address dialled is not the value that CheckHost approved on this path")
				} else {
					c.OK(rule, p.Key()+" dial==checked", d.Instr.Pos(), "dial operand and CheckHost argument are the same SSA value")
				}
			}
			if seenDial[d.Instr] {
				continue
			}
			seenDial[d.Instr] = true
			// origin of the address
			k := "Process dial-address-origin"
			jh, ok := strip(addr).(*ssa.Call)
			if !ok || calleeName(jh) != "net.JoinHostPort" {
				c.Bad(rule, k, d.Instr.Pos(), "the dialled address is not net.JoinHostPort(server, port) of the request")
				continue
			}
			good := true
			why := ""
			// host part: result 0 of channelRequest(pkt)
			ex0, ok0 := strip(arg(jh, 0)).(*ssa.Extract)
			var creq *ssa.Call
			if ok0 {
				creq, _ = ex0.Tuple.(*ssa.Call)
			}
			if creq == nil || ex0.Index != 0 || !strings.HasSuffix(calleeName(creq), ".Processor).channelRequest") {
				good, why = false, "server is not result 0 of channelRequest"
			}
			// port part: strconv.Itoa(int(result 1))
			if good {
				it, ok := strip(arg(jh, 1)).(*ssa.Call)
				if !ok || calleeName(it) != "strconv.Itoa" {
					good, why = false, "port is not strconv.Itoa(...)"
				} else if ex1, ok := strip(arg(it, 0)).(*ssa.Extract); !ok || ex1.Tuple != ssa.Value(creq) || ex1.Index != 1 {
					good, why = false, "port is not result 1 of the same channelRequest call"
				}
			}
			if good {
				pk, ok := strip(arg(creq, 0)).(*ssa.Extract)
				if !ok || pk.Tuple != ssa.Value(readCall.(*ssa.Call)) || pk.Index != 2 {
					good, why = false, "channelRequest does not parse the packet returned by this iteration's Tunnel.Read"
				}
			}
			if good {
				c.OK(rule, k, d.Instr.Pos(), "address = JoinHostPort(channelRequest(pkt).server, Itoa(int(.port))) with pkt from this iteration's read")
			} else {
				c.Bad(rule, k, d.Instr.Pos(), "%s", why)
			}
		}
	}
	if nDial == 0 {
		c.Undecided(rule, "Process dial", fn.Pos(), "no dial found in the packet loop")
	}
	// who may write Tunnel.TargetServer
	tgtF := c.FieldVar("cmd/rdpgw/protocol", "Tunnel", "TargetServer")
	for _, f := range c.allFirstPartyFuncs() {
		eachInstr(f, func(in ssa.Instruction) {
			s, ok := in.(*ssa.Store)
			if !ok {
				return
			}
			if _, fv, ok := fieldOfAddr(s.Addr); !ok || fv != tgtF {
				return
			}
			sf := shortFn(f)
			switch sf {
			case "cmd/rdpgw/security.CheckPAACookie":
				c.OK(rule, "write TargetServer in "+sf, s.Pos(), "set from the verified token (C02/accept-chain checks the source)")
			case "(*cmd/rdpgw/protocol.Processor).Process":
				// must be the dialled value, after the dial
				okv := false
				for _, call := range c.dialLikeIn(f) {
					if a := c.dialLikeAddr(call, 0); a != nil && strip(a) == strip(s.Val) && dominatesInstr(call, s) {
						okv = true
					}
				}
				c.Check(okv, rule, "write TargetServer in "+sf, s.Pos(), "records the dialled address after the dial", "Tunnel.TargetServer is overwritten in the packet loop with something other than the dialled address, or before the dial")
			default:
				// a helper of the packet loop that dials and then records the dialled address
				if pr := c.Fn("cmd/rdpgw/protocol", "Processor.Process"); c.onlyCalledFrom(f, pr, 0) {
					okv := false
					for _, call := range c.dialLikeIn(f) {
						if a := c.dialLikeAddr(call, 0); a != nil && strip(a) == strip(s.Val) && dominatesInstr(call, s) {
							okv = true
						}
					}
					c.Check(okv, rule, "write TargetServer in "+sf, s.Pos(), "records the dialled address after the dial", "Tunnel.TargetServer is overwritten in the packet loop with something other than the dialled address, or before the dial")
					return
				}
				c.Bad(rule, "write TargetServer in "+sf, s.Pos(), "the token host of a tunnel is written outside CheckPAACookie/Process")
			}
		})
	}
	c.Floor(rule, 4, "dial identity, origin, two TargetServer writers")
}

// sessionClosure returns the closure returned by security.CheckSession.
func sessionClosure(c *Ctx) *ssa.Function {
	cs := c.Fn("cmd/rdpgw/security", "CheckSession")
	if len(cs.AnonFuncs) != 1 {
		c.Missing("CheckSession has %d closures (1 expected)", len(cs.AnonFuncs))
	}
	return cs.AnonFuncs[0]
}

// nextCalls: calls through the captured `next` callback.
func nextCalls(cl *ssa.Function) []*ssa.Call {
	var out []*ssa.Call
	eachInstr(cl, func(in ssa.Instruction) {
		call, ok := in.(*ssa.Call)
		if !ok || call.Call.StaticCallee() != nil || call.Call.IsInvoke() {
			return
		}
		v := call.Call.Value
		if a, ok := loadAddr(v); ok {
			v = a
		}
		if fv, ok := v.(*ssa.FreeVar); ok && fv.Name() == "next" {
			out = append(out, call)
		}
	})
	return out
}

func c03SessionBinding(c *Ctx) {
	rule := "C03/session-binding"
	cl := sessionClosure(c)
	key := shortFn(cl)
	tgtF := c.FieldVar("cmd/rdpgw/protocol", "Tunnel", "TargetServer")
	if len(cl.Params) != 2 {
		c.Missing("closure signature changed")
	}
	ctxP, hostP := cl.Params[0], cl.Params[1]
	nexts := nextCalls(cl)
	if len(nexts) == 0 {
		c.Undecided(rule, key+" next", cl.Pos(), "no call of the wrapped check found")
		return
	}
	// the tunnel examined is the one in this call's context
	isTunnelTarget := func(v ssa.Value) bool {
		b, f, ok := fieldLoad(strip(v))
		if !ok || f != tgtF {
			return false
		}
		call, ok := b.(*ssa.Call)
		return ok && calleeName(call) == secPkgPath+".getTunnel" && arg(call, 0) == ssa.Value(ctxP)
	}
	g := GEq(isTunnelTarget, func(v ssa.Value) bool { return strip(v) == ssa.Value(hostP) })
	for i, nx := range nexts {
		k := key + " next#" + itoa(i)
		ok, why := mustPass(cl, nx, g)
		c.Check(ok, rule, k+" guard", nx.Pos(), "the wrapped check runs only over the edge tunnel.TargetServer == host (tunnel from this call's context)", "the wrapped host check is "+why+" of tunnel.TargetServer == host: a host other than the token's can be approved")
		c.Check(arg(nx, 1) == ssa.Value(hostP) && arg(nx, 0) == ssa.Value(ctxP), rule, k+" args", nx.Pos(), "next receives the unchanged context and host", "next is called with a different host or context than the one compared")
	}
	// accepting exits are exactly the results of next
	for i, r := range acceptingReturns(cl, 0, isConstFalse) {
		good := true
		for _, o := range origins(r.Results[0]) {
			if o.Kind == "call" && o.Index == 0 {
				isNext := false
				for _, nx := range nexts {
					if o.Call == ssa.CallInstruction(nx) {
						isNext = true
					}
				}
				if isNext {
					continue
				}
			}
			if o.Kind == "const" && isConstFalse(o.Value) {
				continue
			}
			good = false
		}
		c.Check(good, rule, key+" accept#"+itoa(i), r.Pos(), "the only non-false result is the wrapped check's own verdict", "the session wrapper can approve a host without the wrapped policy check's verdict")
	}
	// no loose comparisons on host
	looseCompare(c, rule, cl, hostP)
	c.Floor(rule, 3, "guard, args, accepting exit")
}

// looseCompare flags prefix/substring/case-folding functions applied to the host parameter.
func looseCompare(c *Ctx, rule string, fn *ssa.Function, host ssa.Value) {
	n := 0
	for _, ci := range callsIn(fn) {
		name := calleeName(ci)
		switch name {
		case "strings.HasPrefix", "strings.HasSuffix", "strings.Contains", "strings.EqualFold", "strings.ToLower", "strings.ToUpper", "strings.Index", "strings.TrimSpace", "strings.Trim", "strings.TrimSuffix", "strings.TrimPrefix", "path.Match", "regexp.MatchString":
			for _, a := range ci.Common().Args {
				if strip(a) == host {
					n++
					c.Bad(rule, shortFn(fn)+" "+name+"(host)", ci.Pos(), "the requested host is compared loosely (%s): near-misses of an allowed entry would be accepted", name)
				}
			}
		}
	}
	if n == 0 {
		c.OKTrivial(rule, shortFn(fn)+" exact-compare", fn.Pos(), "no prefix/substring/case-folding function is applied to the host")
	}
}

// placeholderConst returns the placeholder literal used by CheckHost's substitution.
func checkHostPlaceholder(c *Ctx) (string, bool) {
	fn := c.Fn("cmd/rdpgw/security", "CheckHost")
	for _, sf := range scopeFuncs(fn, 1) {
		for _, ci := range callsTo(sf, "strings.Replace", "strings.ReplaceAll") {
			if s, ok := constString(arg(ci, 1)); ok {
				return s, true
			}
		}
	}
	return "", false
}

func c03ListPolicy(c *Ctx) {
	rule := "C03/list-policy"
	fn := c.Fn("cmd/rdpgw/security", "CheckHost")
	key := shortFn(fn)
	hostsG := c.Global("cmd/rdpgw/security", "Hosts")
	selG := c.Global("cmd/rdpgw/security", "HostSelection")
	hostP := fn.Params[1]
	ctxP := fn.Params[0]

	isSel := func(v ssa.Value) bool { return isLoadOfGlobal(v, selG) }
	isStr := func(s string) func(ssa.Value) bool {
		return func(v ssa.Value) bool { x, ok := constString(v); return ok && x == s }
	}
	gAny := GEq(isSel, isStr("any"))
	gList := GOr(GEq(isSel, isStr("roundrobin")), GEq(isSel, isStr("unsigned")))

	isUserName := func(v ssa.Value) bool {
		call, ok := strip(v).(*ssa.Call)
		if !ok || !call.Call.IsInvoke() || call.Call.Method.Name() != "UserName" {
			return false
		}
		// receiver: <tunnel from this context>.User (possibly handed to a helper)
		b, f, ok := fieldLoad(strip(rv(call.Call.Value)))
		if !ok || f.Name() != "User" {
			return false
		}
		gt, ok := b.(*ssa.Call)
		return ok && calleeName(gt) == secPkgPath+".getTunnel" && arg(gt, 0) == ssa.Value(ctxP)
	}
	isSubstEntry := func(v ssa.Value) bool {
		call, ok := strip(v).(*ssa.Call)
		if !ok {
			return false
		}
		n := calleeName(call)
		if n != "strings.Replace" && n != "strings.ReplaceAll" {
			return false
		}
		// arg0: an element of security.Hosts
		el, ok := loadAddr(strip(arg(call, 0)))
		if !ok {
			return false
		}
		ia, ok := el.(*ssa.IndexAddr)
		if !ok || !isLoadOfGlobal(rv(ia.X), hostsG) {
			return false
		}
		if _, ok := constString(arg(call, 1)); !ok {
			return false
		}
		return isUserName(arg(call, 2))
	}
	isPlainEntry := func(v ssa.Value) bool {
		el, ok := loadAddr(strip(v))
		if !ok {
			return false
		}
		ia, ok := el.(*ssa.IndexAddr)
		return ok && isLoadOfGlobal(rv(ia.X), hostsG)
	}
	gHostEq := GEq(func(v ssa.Value) bool { return isSubstEntry(v) || isPlainEntry(v) }, func(v ssa.Value) bool { return strip(rv(strip(v))) == ssa.Value(hostP) })
	gUser := GNeq(isUserName, isStr(""))

	exits := acceptingReturns(fn, 0, isConstFalse)
	if len(exits) == 0 {
		c.Undecided(rule, key+" accept", fn.Pos(), "no accepting return")
	}
	for i, e := range exits {
		k := key + " accept#" + itoa(i)
		if b, ok := constBool(e.Results[0]); !ok || !b {
			c.Undecided(rule, k, e.Pos(), "accepting result is not the constant true")
			continue
		}
		ok1, why1 := mustPass(fn, e, GOr(gAny, gList))
		c.Check(ok1, rule, k+" mode", e.Pos(), "accepts only under 'any' or the list modes ('signed' and unknown modes refuse)", "a host is accepted "+why1+" of a mode test: 'signed' or an unknown mode can approve")
		ok2, why2 := mustPass(fn, e, GOr(gAny, gHostEq))
		c.Check(ok2, rule, k+" equality", e.Pos(), "outside 'any', accepts only over host == substituted configured entry (exact string equality)", "a host is accepted "+why2+" of an exact equality with a configured entry")
		ok3, why3 := mustPass(fn, e, GOr(gAny, gUser))
		c.Check(ok3, rule, k+" user", e.Pos(), "outside 'any', accepts only with a non-empty user name", "a host is accepted "+why3+" of the non-empty user name test")
	}
	if ph, ok := checkHostPlaceholder(c); ok {
		c.OK(rule, key+" placeholder", fn.Pos(), "placeholder constant %q substituted with the tunnel user's name", ph)
	} else {
		c.Bad(rule, key+" placeholder", fn.Pos(), "no placeholder substitution with a constant placeholder found")
	}
	looseCompare(c, rule, fn, hostP)
	for _, sf := range scopeFuncs(fn, 1)[1:] {
		// helpers of CheckHost that are handed the requested host
		for _, ci := range callsIn(fn) {
			if ci.Common().StaticCallee() != sf {
				continue
			}
			for i, a := range ci.Common().Args {
				if strip(a) == ssa.Value(hostP) && i < len(sf.Params) {
					looseCompare(c, rule, sf, sf.Params[i])
				}
			}
		}
	}
	c.Floor(rule, 7, "2 accepting exits x 3 guards + placeholder")
}

func c03DenyPath(c *Ctx) {
	rule := "C03/deny-path"
	m := c.ProcessModel(rule)
	if m == nil {
		return
	}
	deny := c.ConstInt("cmd/rdpgw/protocol", "E_PROXY_RAP_ACCESSDENIED")
	c.Check(uint32(deny) == 0x800759DA, rule, "const E_PROXY_RAP_ACCESSDENIED", token.NoPos, "value 0x800759DA as in MS-TSGU", "value differs from MS-TSGU 0x800759DA")
	chResp := c.ConstInt("cmd/rdpgw/protocol", "PKT_TYPE_CHANNEL_RESPONSE")
	n := 0
	for _, p := range m.Paths {
		chk := p.Check("CheckHost")
		if chk == nil || !chk.Decided || chk.Passed {
			continue
		}
		n++
		resp := p.Responses()
		good := len(resp) == 1 && resp[0].Status == deny && resp[0].PktType == chResp && !p.Has("DIAL") && !p.Has("SPAWN") && p.Exit == "return" && !p.Has("SET")
		c.Check(good, rule, p.Key(), p.Pos, "refused host: one CHANNEL_RESPONSE with 0x800759DA, no dial, tunnel ends", "a refused host must be answered with E_PROXY_RAP_ACCESSDENIED, without any dial, and end the tunnel; path does: "+p.Describe())
	}
	if n == 0 {
		c.Undecided(rule, "refusal-path", token.NoPos, "no path on which CheckHost refuses")
	}
}

// c03NameDecoding: "exactly the server name of the request": channelRequest decodes the name with
// DecodeUTF16. If the decoder stops early (first NUL) or strips more than the one terminator, two
// different requested names collapse into one and the policy is asked about a prefix of what the
// client sent. Structural conditions: the decoding loop has no exit but its length test, every
// iteration appends to the result, and the only shortening afterwards is one trailing element
// outside any loop.
func c03NameDecoding(c *Ctx) { nameDecodingAs(c, "C03/name-decoding", "Processor.channelRequest", 0) }

// nameDecodingAs: result resIdx of the request parser `user` is DecodeUTF16 of packet bytes, and
// DecodeUTF16 decodes completely (see c03NameDecoding).
func nameDecodingAs(c *Ctx, rule, user string, resIdx int) {
	fn := c.Fn("cmd/rdpgw/protocol", "DecodeUTF16")
	key := shortFn(fn)
	cr := c.Fn("cmd/rdpgw/protocol", user)
	used := false
	for _, r := range returnsOf(cr) {
		if resIdx >= len(r.Results) {
			continue
		}
		for _, o := range c.originsDeep(r.Results[resIdx], 0, protoPkg+".DecodeUTF16") {
			if o.Kind == "call" && calleeName(o.Call) == protoPkg+".DecodeUTF16" {
				used = true
			}
		}
	}
	c.Check(used, rule, cr.Name()+" string", cr.Pos(), "the string is DecodeUTF16 of the field bytes of this packet", "the string returned by "+cr.Name()+" does not come from DecodeUTF16")
	// the loop
	var header *ssa.BasicBlock
	inLoop := map[*ssa.BasicBlock]bool{}
	for _, b := range fn.Blocks {
		if inCycle(b) {
			inLoop[b] = true
		}
	}
	for _, b := range fn.Blocks {
		if !inLoop[b] {
			continue
		}
		for _, s := range b.Succs {
			if !inLoop[s] {
				if header != nil && header != b {
					c.Bad(rule, key+" loop-exit", b.Instrs[len(b.Instrs)-1].Pos(), "the decoding loop can be left from inside its body (break/return): code units after that point are not decoded, so a name with an embedded NUL is cut short before the policy sees it")
				}
				if header == nil {
					header = b
				}
			}
		}
	}
	if header == nil {
		c.Undecided(rule, key+" loop", fn.Pos(), "decoding loop not found")
		return
	}
	// the one exit is the length test
	exitOK := false
	if ifi, ok := header.Instrs[len(header.Instrs)-1].(*ssa.If); ok {
		if bo, ok := ifi.Cond.(*ssa.BinOp); ok && (bo.Op == token.LSS || bo.Op == token.LEQ || bo.Op == token.NEQ) {
			for _, side := range []ssa.Value{bo.X, bo.Y} {
				if isLenOf(strip(side), fn.Params[0]) {
					exitOK = true
				}
				if k, ok := strip(side).(*ssa.BinOp); ok && (isLenOf(k.X, fn.Params[0]) || isLenOf(k.Y, fn.Params[0])) {
					exitOK = true
				}
			}
		}
	}
	c.Check(exitOK, rule, key+" loop-bound", header.Instrs[len(header.Instrs)-1].Pos(), "the loop runs until the end of the input (its only exit tests the index against len(b))", "the decoding loop's exit does not test the index against the input length")
	// every iteration appends
	appended := false
	for b := range inLoop {
		for _, in := range b.Instrs {
			isAppend := false
			if ci, ok := in.(*ssa.Call); ok {
				if bi, isB := ci.Call.Value.(*ssa.Builtin); isB && bi.Name() == "append" {
					isAppend = true
				}
				if calleeName(ci) == "unicode/utf8.AppendRune" {
					isAppend = true
				}
			}
			if ci, ok := in.(*ssa.Call); ok && (isAppend || calleeName(ci) == "(*bytes.Buffer).Write" || calleeName(ci) == "(*bytes.Buffer).WriteRune" || calleeName(ci) == "(*strings.Builder).WriteRune") {
				all := true
				for lb := range inLoop {
					for _, s := range lb.Succs {
						if s == header && lb != header && !b.Dominates(lb) {
							all = false
						}
					}
				}
				appended = appended || all
			}
		}
	}
	c.Check(appended, rule, key+" every-unit", fn.Pos(), "every iteration appends the decoded unit", "an iteration of the decoding loop can complete without appending its code unit")
	// shortening of the result: at most one trailing element, outside loops
	nShort := 0
	shortScan := c03ShortScan(c, rule, key, &nShort)
	for _, sf := range scopeFuncs(fn, 1) {
		eachInstr(sf, func(in ssa.Instruction) { shortScan(in) })
	}
	_ = nShort
	// library trimming of the result: only the one terminator (TrimSuffix with "\x00")
	for _, sf := range scopeFuncs(fn, 1) {
		for _, ci := range callsIn(sf) {
			n := calleeName(ci)
			if !strings.HasPrefix(n, "strings.Trim") && !strings.HasPrefix(n, "bytes.Trim") && n != "strings.Cut" && n != "bytes.Cut" && n != "strings.Split" && n != "strings.SplitN" && n != "bytes.IndexByte" && n != "strings.IndexByte" {
				continue
			}
			suffix, isC := constString(arg(ci, 1))
			if !isC {
				// []byte("\x00") or []byte{0}
				switch y := strip(arg(ci, 1)).(type) {
				case *ssa.Convert:
					suffix, isC = constString(y.X)
				default:
					if elems, ok := sliceLitElems(arg(ci, 1)); ok && len(elems) == 1 {
						if k, okk := constInt(elems[0]); okk && k == 0 {
							suffix, isC = "\x00", true
						}
					}
				}
			}
			good := (n == "strings.TrimSuffix" || n == "bytes.TrimSuffix") && isC && suffix == "\x00"
			c.Check(good, rule, key+" "+n, ci.Pos(), "removes exactly one trailing NUL", "the decoded string is cut with "+n+": more than the one trailing terminator can be removed (or the string is cut at an inner NUL), so different wire strings become the same name")
		}
	}
	c.Floor(rule, 3, "use, loop bound, every unit (+ terminator)")
}

// (body of the terminator scan, kept as a closure factory for readability)
func c03ShortScan(c *Ctx, rule, key string, nShort *int) func(in ssa.Instruction) {
	// isResult: v is (a reslice of) the decoded bytes — Buffer.Bytes(), a parameter of a helper that
	// is handed them, or a phi of those
	var isResult func(v ssa.Value, d int) bool
	isResult = func(v ssa.Value, d int) bool {
		if d > 5 {
			return false
		}
		switch x := strip(v).(type) {
		case *ssa.Call:
			return calleeName(x) == "(*bytes.Buffer).Bytes"
		case *ssa.Slice:
			return isResult(x.X, d+1)
		case *ssa.Phi:
			for _, e := range x.Edges {
				if e != ssa.Value(x) && isResult(e, d+1) {
					return true
				}
			}
		case *ssa.Parameter:
			if _, ok := x.Type().Underlying().(*types.Slice); ok && theCtx != nil {
				for _, u := range theCtx.upValues(x, 0) {
					if u != ssa.Value(x) && isResult(u, d+1) {
						return true
					}
				}
			}
		}
		return false
	}
	return func(in ssa.Instruction) {
		sl, ok := in.(*ssa.Slice)
		if !ok || !isResult(sl.X, 0) {
			return
		}
		if sl.Low == nil && sl.High == nil {
			return
		}
		*nShort++
		good := false
		if hb, ok := sl.High.(*ssa.BinOp); ok && hb.Op == token.SUB && sl.Low == nil {
			k, isC := constInt(hb.Y)
			good = isC && k == 1 && !inCycle(sl.Block()) && isLenOf(hb.X, sl.X)
		}
		c.Check(good, rule, key+" terminator#"+itoa(*nShort), sl.Pos(), "exactly one trailing element (the NUL terminator) is removed, once", "the decoded string is cut by something other than removing its one trailing terminator (first NUL, repeated strip, wider cut): different wire strings become the same name")
	}
}
