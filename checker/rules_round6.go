package main

// Rules added after the sixth round of seeded changes ("a plausible commit with another purpose
// that breaks the property as a side effect"): caches that hand out shared objects, queues between
// a reader and a writer goroutine, hardening that caps or rewrites a value, locks without a
// release on the error exits.

import (
	"fmt"
	"go/token"
	"go/types"
	"reflect"
	"strings"

	"golang.org/x/tools/go/ssa"
)

// c02CookieLength: the cookie field's declared size is a uint16 chosen by the gateway's own token
// (it grows with the access token the identity provider issued). A comparison of that size with a
// constant below the field's range makes tunnelRequest drop cookies the gateway itself minted.
func c02CookieLength(c *Ctx) {
	rule := "C02/cookie-length"
	fn := c.Fn("cmd/rdpgw/protocol", "Processor.tunnelRequest")
	key := shortFn(fn)
	n := 0
	for _, sf := range scopeFuncs(fn, 1) {
		for _, ci := range callsTo(sf, protoPkg+".DecodeUTF16") {
			// the buffer handed to the decoder and the local its length comes from
			var sizes []*ssa.Alloc
			for _, o := range origins(arg(ci, 0)) {
				ms, ok := o.Value.(*ssa.MakeSlice)
				if !ok {
					continue
				}
				for _, lo := range origins(ms.Len) {
					if a, ok := lo.Value.(*ssa.Alloc); ok {
						sizes = append(sizes, a)
					}
				}
				if la, ok := loadAddr(strip(ms.Len)); ok {
					if a, ok := la.(*ssa.Alloc); ok {
						sizes = append(sizes, a)
					}
				}
			}
			if len(sizes) == 0 {
				continue
			}
			n++
			isSize := func(v ssa.Value) bool {
				la, ok := loadAddr(strip(v))
				if !ok {
					return false
				}
				for _, a := range sizes {
					if la == ssa.Value(a) {
						return true
					}
				}
				return false
			}
			capped := false
			var at token.Pos
			eachInstr(sf, func(in ssa.Instruction) {
				bo, ok := in.(*ssa.BinOp)
				if !ok {
					return
				}
				switch bo.Op {
				case token.LSS, token.LEQ, token.GTR, token.GEQ:
				default:
					return
				}
				var k int64
				var isC bool
				if isSize(bo.X) {
					k, isC = constInt(bo.Y)
				} else if isSize(bo.Y) {
					k, isC = constInt(bo.X)
				}
				if isC && k > 0 && k < 65535 {
					capped = true
					at = bo.Pos()
				}
			})
			pos := ci.Pos()
			if capped {
				pos = at
			}
			c.Check(!capped, rule, key+" cookie size", pos, "the cookie field's size is limited only by the packet, not by a constant", "the declared size of the PAA cookie is compared with a constant below the field's range: a cookie the gateway minted itself (it embeds the identity provider's access token) is dropped when it is longer, so a freshly minted token is refused")
		}
	}
	if n == 0 {
		c.Undecided(rule, key+" cookie size", fn.Pos(), "the buffer handed to DecodeUTF16 is not a make([]byte, size) of a local size field")
	}
}

// c11RelayBlocking: the relay goroutine (forward) is released by closing the connections it reads
// from and writes to. A bare channel send in it is released by nothing of the kind: when the
// goroutine on the other side of the channel has returned early the send blocks for ever, and with
// it the goroutine, its buffers and the backend connection it was about to close.
func c11RelayBlocking(c *Ctx) {
	rule := "C11/relay-blocking"
	fwd := c.Fn("cmd/rdpgw/protocol", "forward")
	n := 0
	for _, sf := range scopeFuncs(fwd, 2) {
		sf := sf
		eachInstr(sf, func(in ssa.Instruction) {
			snd, ok := in.(*ssa.Send)
			if !ok {
				return
			}
			n++
			key := "send in " + shortFn(sf)
			ok2, why := c.receiversDrain(sf, snd.Chan)
			c.Check(ok2, rule, key, snd.Pos(), "every receiver of the channel keeps receiving until it is closed", "the relay goroutine sends on a channel "+why+": once that happens the send blocks for ever and the relay goroutine, with the backend connection it closes on exit, is never released")
		})
	}
	if n == 0 {
		c.OK(rule, "forward blocking operations", fwd.Pos(), "forward and its helpers contain no channel send: the goroutine blocks only in the connection read and the tunnel write, both of which end when the connections are closed")
	}
}

// receiversDrain: every goroutine started in fn that is handed ch receives from it in a loop that
// is left only when the channel is closed.
func (c *Ctx) receiversDrain(fn *ssa.Function, ch ssa.Value) (bool, string) {
	ch = strip(ch)
	found := false
	for _, ci := range callsIn(fn) {
		g, isGo := ci.(*ssa.Go)
		if !isGo {
			continue
		}
		callee := g.Call.StaticCallee()
		if callee == nil || callee.Blocks == nil {
			continue
		}
		var inCallee []ssa.Value
		for i, a := range g.Call.Args {
			if strip(a) == ch && i < len(callee.Params) {
				inCallee = append(inCallee, callee.Params[i])
			}
		}
		if mc, ok := g.Call.Value.(*ssa.MakeClosure); ok {
			for i, b := range mc.Bindings {
				if strip(b) == ch && i < len(callee.FreeVars) {
					inCallee = append(inCallee, callee.FreeVars[i])
				}
			}
		}
		for _, p := range inCallee {
			for _, b := range callee.Blocks {
				for _, in := range b.Instrs {
					u, ok := in.(*ssa.UnOp)
					if !ok || u.Op != token.ARROW {
						continue
					}
					src := strip(u.X)
					if la, ok := loadAddr(src); ok {
						src = la
					}
					if src != p {
						continue
					}
					found = true
					isRecv := func(x ssa.Instruction) bool { return x == ssa.Instruction(u) }
					for _, r := range returnsOf(callee) {
						for _, s := range b.Succs {
							// the edge taken when the channel was closed (ok == false) may return
							if u.CommaOk {
								if ifi, isIf := b.Instrs[len(b.Instrs)-1].(*ssa.If); isIf && s == b.Succs[1] {
									if ex, ok := ifi.Cond.(*ssa.Extract); ok && ex.Tuple == ssa.Value(u) && ex.Index == 1 {
										continue
									}
								}
							}
							if reachFromWithoutMarkerAvoiding(s, r, isRecv, nil) {
								return false, "whose receiver " + shortFn(callee) + " can return while the channel is still open"
							}
						}
					}
				}
			}
		}
	}
	if !found {
		return false, "for which no receiving goroutine started by the same function was found"
	}
	return true, ""
}

// c13FreshIdentity: "the stored identity is restored unchanged" per request: GetSessionIdentity
// hands every caller an identity object of its own (identity.NewUser filled from this session's
// bytes). An object that is also reachable from a cache or a package variable is shared between
// requests: the login callback's SetAuthenticated(true) on it authenticates every other holder.
func c13FreshIdentity(c *Ctx) { freshIdentityAs(c, "C13/fresh-identity") }

// freshIdentityAs: the same rule under C04 and C12 — EnrichContext writes the request's client
// address into the identity GetSessionIdentity returns, so an identity object shared between
// overlapping requests of one session lets request B's address replace request A's before A's
// token is minted or checked.
func freshIdentityAs(c *Ctx, rule string) {
	fn := c.Fn("cmd/rdpgw/web", "GetSessionIdentity")
	key := shortFn(fn)
	n := 0
	for i, r := range returnsOf(fn) {
		if len(r.Results) == 0 {
			continue
		}
		v := unspill(r.Results[0])
		if isNil(strip(v)) {
			continue
		}
		for _, o := range c.originsDeep(v, 0, identPkgPath+".NewUser") {
			if o.Kind == "const" {
				continue
			}
			n++
			fresh := o.Kind == "call" && calleeName(o.Call) == identPkgPath+".NewUser"
			c.Check(fresh, rule, key+" return#"+itoa(i), r.Pos(), "returns an identity allocated by identity.NewUser for this call", "GetSessionIdentity can return an identity that was not allocated for this call ("+o.String()+"): requests share one mutable identity object, so authenticating one session authenticates the others")
			if !fresh {
				continue
			}
			// the fresh object does not escape into a package variable, a cache or a long-lived field
			nu := o.Call.(*ssa.Call)
			for _, ref := range *nu.Referrers() {
				escapes := ""
				switch x := ref.(type) {
				case *ssa.Store:
					if x.Val == ssa.Value(nu) {
						if _, isAlloc := x.Addr.(*ssa.Alloc); !isAlloc {
							escapes = "is stored outside the function's locals"
						}
					}
				case *ssa.MakeInterface:
					for _, r2 := range *x.Referrers() {
						if ci, ok := r2.(ssa.CallInstruction); ok && !ci.Common().IsInvoke() {
							escapes = "is handed to " + calleeName(ci)
						}
						if st, ok := r2.(*ssa.Store); ok {
							if _, isAlloc := st.Addr.(*ssa.Alloc); !isAlloc {
								escapes = "is stored outside the function's locals"
							}
						}
						if mu, ok := r2.(*ssa.MapUpdate); ok && mu.Value == ssa.Value(x) {
							escapes = "is put into a map"
						}
					}
				case ssa.CallInstruction:
					if !x.Common().IsInvoke() && x.Common().StaticCallee() != nil && !strings.HasPrefix(calleeName(x), "(*"+identPkgPath) {
						escapes = "is handed to " + calleeName(x)
					}
				}
				if escapes != "" {
					c.Bad(rule, key+" identity escapes", ref.Pos(), "the identity returned to the caller %s as well: it is shared with later requests", escapes)
				}
			}
		}
	}
	if n == 0 {
		c.Undecided(rule, key+" returns", fn.Pos(), "no non-nil identity returned")
	}
}

// typeMentions: t contains the named type (through pointers, slices, arrays, maps, channels and
// struct fields of unnamed types).
func typeMentions(t types.Type, want *types.Named, depth int) bool {
	if depth > 6 {
		return false
	}
	switch x := t.(type) {
	case *types.Named:
		return x.Obj() == want.Obj()
	case *types.Pointer:
		return typeMentions(x.Elem(), want, depth+1)
	case *types.Slice:
		return typeMentions(x.Elem(), want, depth+1)
	case *types.Array:
		return typeMentions(x.Elem(), want, depth+1)
	case *types.Chan:
		return typeMentions(x.Elem(), want, depth+1)
	case *types.Map:
		return typeMentions(x.Key(), want, depth+1) || typeMentions(x.Elem(), want, depth+1)
	case *types.Struct:
		for i := 0; i < x.NumFields(); i++ {
			if typeMentions(x.Field(i).Type(), want, depth+1) {
				return true
			}
		}
	}
	return false
}

// c14ContextHolders: an NTLM session context lives in the context cache only (keyed by the request's
// session, dropped by removeContext). A second place that remembers a context — a field of the
// long-lived verifier, a package variable — is not cleared by removeContext: a dropped context
// comes back for the next message of the session (replay, second authenticate on cached keys).
func c14ContextHolders(c *Ctx) { c14ContextHoldersAs(c, "C14/context-holders") }

func c14ContextHoldersAs(c *Ctx, rule string) {
	ctxT := c.NamedType("cmd/auth/ntlm", "ntlmContext")
	authT := c.NamedType("cmd/auth/ntlm", "NTLMAuth")
	st, ok := authT.Underlying().(*types.Struct)
	if !ok {
		c.Missing("NTLMAuth struct")
	}
	bad := false
	for i := 0; i < st.NumFields(); i++ {
		if typeMentions(st.Field(i).Type(), ctxT, 0) {
			bad = true
			c.Bad(rule, "NTLMAuth."+st.Field(i).Name(), st.Field(i).Pos(), "the verifier keeps a session context in field %s beside the context cache: removeContext does not clear it, so a context that was dropped is found again", st.Field(i).Name())
		}
	}
	pkg := c.P.SSAPkg("cmd/auth/ntlm")
	if pkg != nil {
		for name, m := range pkg.Members {
			if g, ok := m.(*ssa.Global); ok {
				if pt, ok := g.Type().(*types.Pointer); ok && typeMentions(pt.Elem(), ctxT, 0) {
					bad = true
					c.Bad(rule, "package variable "+name, g.Pos(), "a package variable holds session contexts beside the context cache")
				}
			}
		}
	}
	// stores of a context into any field (of whatever struct) in the package
	for _, f := range c.allFirstPartyFuncs() {
		if f.Pkg == nil || f.Pkg.Pkg.Path() != ntlmPkgPath {
			continue
		}
		f := f
		eachInstr(f, func(in ssa.Instruction) {
			s, ok := in.(*ssa.Store)
			if !ok || !typeMentions(s.Val.Type(), ctxT, 0) {
				return
			}
			if _, _, isField := fieldOfAddr(s.Addr); isField {
				bad = true
				c.Bad(rule, "context stored in "+shortFn(f), s.Pos(), "a session context is stored into a struct field beside the context cache")
			}
		})
		// a context handed to another container: a pool, a channel, a map
		eachInstr(f, func(in ssa.Instruction) {
			switch x := in.(type) {
			case *ssa.Call:
				if calleeName(x) == "(*sync.Pool).Put" && typeMentions(strip(arg(x, 0)).Type(), ctxT, 0) {
					bad = true
					c.Bad(rule, "context pooled in "+shortFn(f), x.Pos(), "a session context is put into a sync.Pool: the next session is handed a context that still holds the previous session's server state (challenge, cached keys)")
				}
			case *ssa.Send:
				if typeMentions(x.X.Type(), ctxT, 0) {
					bad = true
					c.Bad(rule, "context sent in "+shortFn(f), x.Pos(), "a session context is sent on a channel: it lives on beside the context cache")
				}
			case *ssa.MapUpdate:
				if typeMentions(x.Value.Type(), ctxT, 0) {
					bad = true
					c.Bad(rule, "context mapped in "+shortFn(f), x.Pos(), "a session context is stored in a map beside the context cache")
				}
			}
		})
	}
	// the context a new session gets is a new one: what getContext puts into the cache is allocated
	// there (not taken from a pool or another session)
	if gc := c.FnOpt("cmd/auth/ntlm", "NTLMAuth.getContext"); gc != nil {
		nSet := 0
		for _, sf := range scopeFuncs(gc, 1) {
			for _, ci := range callsIn(sf) {
				if !strings.HasSuffix(calleeName(ci), "go-cache.Cache).Set") && !strings.HasSuffix(calleeName(ci), "go-cache.cache).Set") {
					continue
				}
				nSet++
				fresh := true
				os := c.originsDeep(arg(ci, 1), 0)
				for _, o := range os {
					if al, isAl := o.Value.(*ssa.Alloc); !(isAl && al.Heap) {
						if o.Kind == "const" {
							continue
						}
						fresh = false
					}
				}
				if len(os) == 0 {
					fresh = false
				}
				if !fresh {
					bad = true
					c.Bad(rule, "getContext new context", ci.Pos(), "the context cached for a new session is not freshly allocated (recycled from a pool or taken from elsewhere): it can carry the server state of a previous session, whose challenge an authenticate message without negotiate is then checked against")
				} else {
					c.OK(rule, "getContext new context", ci.Pos(), "the context cached for a new session is allocated in getContext")
				}
			}
		}
		if nSet == 0 {
			c.Undecided(rule, "getContext new context", gc.Pos(), "no contextCache.Set found in getContext")
		}
	}
	if !bad {
		c.OK(rule, "context holders", authT.Obj().Pos(), "no field of NTLMAuth, package variable or field store holds an ntlmContext: contexts live in the context cache only")
	}
}

// c16ConfigTimeout: the idle timeout the tunnel response reports is the configured number of
// minutes: Caps.IdleTimeout is an int filled by the configuration library from `idletimeout`, and
// the configuration loader does not compute it.
func c16ConfigTimeout(c *Ctx) {
	rule := "C16/config-timeout"
	capsT := c.NamedType("cmd/rdpgw/config", "RDGCapsConfig")
	st, ok := capsT.Underlying().(*types.Struct)
	if !ok {
		c.Missing("RDGCapsConfig struct")
	}
	found := false
	for i := 0; i < st.NumFields(); i++ {
		f := st.Field(i)
		if f.Name() != "IdleTimeout" {
			continue
		}
		found = true
		tag := reflect.StructTag(st.Tag(i)).Get("koanf")
		b, isBasic := f.Type().Underlying().(*types.Basic)
		good := tag == "idletimeout" && isBasic && b.Kind() == types.Int
		c.Check(good, rule, "Caps.IdleTimeout field", f.Pos(), "an int read by the configuration library from `idletimeout`", "Caps.IdleTimeout is no longer the int the configuration library reads from `idletimeout` (tag "+tag+", type "+f.Type().String()+"): the minutes the tunnel response reports are computed, not configured")
	}
	if !found {
		c.Bad(rule, "Caps.IdleTimeout field", capsT.Obj().Pos(), "RDGCapsConfig has no IdleTimeout field")
	}
	load := c.Fn("cmd/rdpgw/config", "Load")
	n := 0
	for _, f := range scopeFuncs(load, 2) {
		f := f
		eachInstr(f, func(in ssa.Instruction) {
			s, ok := in.(*ssa.Store)
			if !ok {
				return
			}
			if p, ok := confAddrPath(s.Addr, "Conf"); ok && p == "Caps.IdleTimeout" {
				n++
				c.Bad(rule, "store Caps.IdleTimeout in "+shortFn(f), s.Pos(), "Load computes Caps.IdleTimeout instead of leaving the configured number of minutes")
			}
		})
	}
	if n == 0 {
		c.OK(rule, "config.Load Caps.IdleTimeout", load.Pos(), "Load and its helpers do not store to Caps.IdleTimeout")
	}
}

// alwaysWrites: every return of fn is preceded, in this goroutine, by a WritePacket of parameter pi
// (directly or through a first-party helper that is handed the parameter and always writes it).
func (c *Ctx) alwaysWrites(fn *ssa.Function, pi int, depth int) (bool, token.Pos) {
	if fn == nil || fn.Blocks == nil || pi >= len(fn.Params) || depth > 2 {
		return false, token.NoPos
	}
	p := fn.Params[pi]
	isP := func(v ssa.Value) bool { return strip(v) == ssa.Value(p) }
	marker := func(in ssa.Instruction) bool {
		call, ok := in.(*ssa.Call) // not *ssa.Go, not *ssa.Defer
		if !ok {
			return false
		}
		if call.Call.IsInvoke() {
			return call.Call.Method.Name() == "WritePacket" && len(call.Call.Args) > 0 && isP(call.Call.Args[0])
		}
		callee := call.Call.StaticCallee()
		if callee == nil || !IsFirstParty(callee) {
			return false
		}
		for i, a := range call.Call.Args {
			if isP(a) {
				if ok, _ := c.alwaysWrites(callee, i, depth+1); ok {
					return true
				}
			}
		}
		return false
	}
	isTransport := func(v ssa.Value) bool {
		return typeIs(v.Type(), modPath+"/cmd/rdpgw/transport", "Transport")
	}
	for _, r := range returnsOf(fn) {
		if reachFromWithoutMarkerAvoiding(fn.Blocks[0], r, marker, nil) {
			// a return taken only when there is no transport at all (nil leg): nothing could have
			// been written, and no client is waiting on that leg
			if okNil, _ := mustPass(fn, r, GEq(isTransport, anyNil)); okNil {
				continue
			}
			return false, r.Pos()
		}
	}
	return true, token.NoPos
}

// tunnelWriteSync: when Tunnel.Write returns, the packet has been handed to the transport. The
// packet loop returns right after it wrote a refusal and its caller closes the transport: a Write
// that only queues the packet loses the response to that close.
func tunnelWriteSync(c *Ctx, rule string) {
	fn := c.Fn("cmd/rdpgw/protocol", "Tunnel.Write")
	// params: receiver, pkt
	ok, at := c.alwaysWrites(fn, 1, 0)
	pos := fn.Pos()
	if !ok && at != token.NoPos {
		pos = at
	}
	c.Check(ok, rule, shortFn(fn)+" synchronous", pos, "every return of Tunnel.Write follows transportOut.WritePacket(pkt) in the calling goroutine", "Tunnel.Write can return before the packet was handed to the transport (queued for another goroutine, or skipped): the packet loop ends right after a refusal and the handler closes the transport, so the response the client must see is lost")
}

// lockPairingIn: C09's pairing rule over one package (a lock taken on a request path and not
// released on an error exit makes every later request wait for ever).
func lockPairingIn(c *Ctx, rule, pkgPath string) {
	n := 0
	for _, fn := range c.allFirstPartyFuncs() {
		if fn.Pkg == nil || fn.Pkg.Pkg.Path() != pkgPath {
			continue
		}
		for _, ci := range callsIn(fn) {
			if _, isDefer := ci.(*ssa.Defer); isDefer {
				continue
			}
			key, base, op, ok := mutexOf(ci)
			if !ok || (op != "Lock" && op != "RLock") {
				if op == "Lock" || op == "RLock" {
					n++
					c.Undecided(rule, op+" in "+shortFn(fn), ci.Pos(), "lock on a mutex that is neither a package variable nor a field")
				}
				continue
			}
			n++
			want := map[string]string{"Lock": "Unlock", "RLock": "RUnlock"}[op]
			okp, where := releasedOnAllExits(fn, ci.(ssa.Instruction), func(x ssa.CallInstruction) bool {
				k2, b2, op2, ok2 := mutexOf(x)
				return ok2 && k2 == key && b2 == base && op2 == want
			})
			msg := ""
			if where != nil {
				msg = " (return at " + c.P.Pos(where.Pos()) + ")"
			}
			c.Check(okp, rule, op+" "+key[strings.LastIndex(key, ".")+1:]+" in "+shortFn(fn), ci.Pos(), "released by "+want+" on every exit", "a "+op+" is not followed by "+want+" on every exit"+msg+": every later request blocks on it and is never answered")
		}
	}
	if n == 0 {
		c.OK(rule, "locks in "+pkgPath[strings.LastIndex(pkgPath, "/")+1:], token.NoPos, "the package takes no locks: no request can wait for another one's lock")
	}
}

// c10BinaryWidth: binary.LittleEndian/BigEndian.UintN and PutUintN index their argument up to N/8-1
// inside the library, where the compiler's bounds listing of first-party code does not look. Each
// such call on a request path needs its argument proven long enough.
func c10BinaryWidth(c *Ctx) {
	rule := "C10/binary-width"
	c.skipGenerated = true
	defer func() { c.skipGenerated = false }()
	reach := c.ReqReachable()
	n := 0
	for _, fn := range c.allFirstPartyFuncs() {
		if !reach[fn] {
			continue
		}
		for _, ci := range callsIn(fn) {
			call, ok := ci.(*ssa.Call)
			if !ok {
				continue
			}
			name := calleeName(call)
			if !strings.HasPrefix(name, "(encoding/binary.littleEndian).") && !strings.HasPrefix(name, "(encoding/binary.bigEndian).") {
				continue
			}
			m := name[strings.LastIndex(name, ".")+1:]
			need := int64(0)
			switch {
			case strings.HasSuffix(m, "Uint16"):
				need = 2
			case strings.HasSuffix(m, "Uint32"):
				need = 4
			case strings.HasSuffix(m, "Uint64"):
				need = 8
			}
			if need == 0 || strings.HasPrefix(m, "Append") || strings.HasPrefix(m, "String") || strings.HasPrefix(m, "GoString") {
				continue
			}
			// receiver is argument 0 of the method value call; the slice is the next one
			if len(call.Call.Args) < 2 {
				continue
			}
			sl := call.Call.Args[1]
			n++
			key := shortFn(fn) + " " + m + "#" + itoa(nthCallOf(fn, call, name))
			ok2, how := longEnough(c, fn, call, sl, need)
			c.Check(ok2, rule, key, call.Pos(), how, fmt.Sprintf("%s needs %d bytes and its argument is not proven that long (%s): a short client-controlled slice makes the library index out of range and the goroutine panic", m, need, how))
		}
	}
	if n == 0 {
		c.OK(rule, "byte-order calls", token.NoPos, "no direct binary.LittleEndian/BigEndian.UintN or PutUintN call on a request path")
	}
}

func nthCallOf(fn *ssa.Function, call *ssa.Call, name string) int {
	k := 0
	for _, ci := range callsIn(fn) {
		if calleeName(ci) == name {
			k++
		}
		if ci == ssa.CallInstruction(call) {
			return k
		}
	}
	return k
}

// knownMinLen: a lower bound of len(v) from its definition: an array or constant make, a make of
// C + non-negative, a slice of those with constant bounds.
func knownMinLen(v ssa.Value, depth int) (int64, bool) {
	v = strip(unspill(v))
	if depth > 4 {
		return 0, false
	}
	if n, ok := fixedLenExact(v); ok {
		return n, true
	}
	switch x := v.(type) {
	case *ssa.Parameter:
		// the slice parameter of an unexported helper: at least what every caller hands it
		if theCtx == nil || x.Parent() == nil || x.Parent().Object() == nil || x.Parent().Object().Exported() {
			return 0, false
		}
		sites, ok := theCtx.staticCallers(x.Parent())
		if !ok || len(sites) == 0 {
			return 0, false
		}
		idx := -1
		for j, q := range x.Parent().Params {
			if q == x {
				idx = j
			}
		}
		min := int64(-1)
		for _, s := range sites {
			if idx < 0 || idx >= len(s.Common().Args) {
				return 0, false
			}
			n, ok := knownMinLen(s.Common().Args[idx], depth+1)
			if !ok {
				return 0, false
			}
			if min < 0 || n < min {
				min = n
			}
		}
		return min, min >= 0
	case *ssa.MakeSlice:
		return minMakeLen(x.Len)
	case *ssa.Slice:
		// x[:K+n] / x[lo:K+n] with n a count that cannot be negative (what a Read returned, a len):
		// at least K-lo elements whenever the slice expression itself is in bounds
		if x.High != nil {
			if bo, ok := strip(x.High).(*ssa.BinOp); ok && bo.Op == token.ADD {
				lo, loOK := int64(0), x.Low == nil
				if x.Low != nil {
					lo, loOK = constInt(x.Low)
				}
				for _, pr := range [][2]ssa.Value{{bo.X, bo.Y}, {bo.Y, bo.X}} {
					if k, isC := constInt(pr[0]); isC && loOK && k >= lo && nonNegCount(pr[1]) {
						return k - lo, true
					}
				}
			}
		}
		// x[i : i+K]: exactly K elements whenever the slice expression itself is in bounds (which the
		// bounds rule decides)
		if x.Low != nil && x.High != nil {
			if bo, ok := x.High.(*ssa.BinOp); ok && bo.Op == token.ADD {
				if k, isC := constInt(bo.Y); isC && bo.X == x.Low && k >= 0 {
					return k, true
				}
				if k, isC := constInt(bo.X); isC && bo.Y == x.Low && k >= 0 {
					return k, true
				}
			}
		}
		lo := int64(0)
		if x.Low != nil {
			k, ok := constInt(x.Low)
			if !ok {
				return 0, false
			}
			lo = k
		}
		if x.High != nil {
			hi, ok := constInt(x.High)
			if !ok {
				return 0, false
			}
			return hi - lo, hi >= lo
		}
		base, ok := knownMinLen(x.X, depth+1)
		if !ok {
			if al, isAl := x.X.(*ssa.Alloc); isAl {
				if arr, isArr := al.Type().Underlying().(*types.Pointer).Elem().Underlying().(*types.Array); isArr {
					return arr.Len() - lo, arr.Len() >= lo
				}
			}
			return 0, false
		}
		return base - lo, base >= lo
	}
	return 0, false
}

func fixedLenExact(v ssa.Value) (int64, bool) {
	if n, ok := constSliceLen(v); ok {
		return n, true
	}
	return 0, false
}

func longEnough(c *Ctx, fn *ssa.Function, at *ssa.Call, sl ssa.Value, need int64) (bool, string) {
	if n, ok := knownMinLen(sl, 0); ok {
		if n >= need {
			return true, fmt.Sprintf("argument has at least %d bytes by construction", n)
		}
		return false, fmt.Sprintf("argument has only %d bytes by construction", n)
	}
	// a dominating guard len(x) >= need on the very value (or the slice it is a window of, from 0)
	isX := func(v ssa.Value) bool { return sameLoc(v, sl) }
	if pass, _ := mustPass(fn, at, lenAtLeast(isX, need)); pass {
		return true, fmt.Sprintf("behind a test that len(argument) >= %d", need)
	}
	if w, ok := strip(sl).(*ssa.Slice); ok && w.High == nil {
		lo := int64(0)
		loConst := w.Low == nil
		if w.Low != nil {
			if k, ok := constInt(w.Low); ok {
				lo, loConst = k, true
			}
		}
		if loConst {
			isB := func(v ssa.Value) bool { return sameLoc(v, w.X) }
			if pass, _ := mustPass(fn, at, lenAtLeast(isB, lo+need)); pass {
				return true, fmt.Sprintf("behind a test that len(x) >= %d for the window x[%d:]", lo+need, lo)
			}
		} else if need == 2 {
			// b[i:] in the even-length loop of a decoder: i < len(b), i even, len(b) even
			if ok, _ := evenLengthLoopAt(fn, at, w.X, w.Low); ok {
				return true, "window b[i:] with i even, i < len(b) and len(b) even: at least 2 bytes"
			}
		}
	}
	return false, "no construction length and no dominating length test found"
}

// c17ResponseFields: inside handshakeResponse each parameter lands in its own field: status (u32),
// the client's major and minor version bytes in that order, server version 0 (u16), the capability
// word (u16). C17/echo ties the call's arguments to the request; this ties the fields to the
// parameters, whatever the assembly style.
func c17ResponseFields(c *Ctx) {
	rule := "C17/response-fields"
	fn := c.Fn("cmd/rdpgw/protocol", "Processor.handshakeResponse")
	key := shortFn(fn)
	if len(fn.Params) != 5 {
		c.Undecided(rule, key+" signature", fn.Pos(), "handshakeResponse no longer takes (major, minor, caps, status)")
		return
	}
	major, minor, caps := fn.Params[1], fn.Params[2], fn.Params[3]
	writes, _, ok, why := bufferWrites(fn)
	if !ok {
		c.Undecided(rule, key+" writes", fn.Pos(), "%s", why)
		return
	}
	if len(writes) != 4 {
		c.Bad(rule, key+" fields", fn.Pos(), "the handshake response has %d fields, MS-TSGU has status, version bytes, server version, capabilities", len(writes))
		return
	}
	fromParam := func(v ssa.Value, p *ssa.Parameter) bool {
		for _, o := range origins(v) {
			if o.Kind == "param" && o.Value == ssa.Value(p) {
				return true
			}
		}
		return false
	}
	ver := writes[1]
	verOK := ver.width == 2 && len(ver.elems) == 2 && fromParam(ver.elems[0], major) && fromParam(ver.elems[1], minor) && !fromParam(ver.elems[0], minor) && !fromParam(ver.elems[1], major)
	c.Check(verOK, rule, key+" version-bytes", ver.call.Pos(), "second field = the major then the minor version byte of the request", "the version bytes of the handshake response are not the request's major byte followed by its minor byte")
	sv, isC := constInt(writes[2].val)
	c.Check(writes[2].width == 2 && isC && sv == 0, rule, key+" server-version", writes[2].call.Pos(), "server version field = 0", "the server version field of the handshake response is not the constant 0")
	c.Check(writes[3].width == 2 && fromParam(writes[3].val, caps) && len(origins(writes[3].val)) == 1, rule, key+" capabilities", writes[3].call.Pos(), "last field = the capability word handed in", "the capability field of the handshake response is not the capability parameter")
}

// nonNegCount: a value that cannot be negative: a len/cap, or the count a Read/Write-style call
// returned (io.Reader/io.Writer contract: 0 <= n <= len(p)).
func nonNegCount(v ssa.Value) bool {
	v = strip(unspill(v))
	switch x := v.(type) {
	case *ssa.Call:
		if bi, ok := x.Call.Value.(*ssa.Builtin); ok && (bi.Name() == "len" || bi.Name() == "cap" || bi.Name() == "copy") {
			return true
		}
	case *ssa.Extract:
		if call, ok := x.Tuple.(*ssa.Call); ok && x.Index == 0 {
			m := ""
			if call.Call.IsInvoke() {
				m = call.Call.Method.Name()
			} else if cal := call.Call.StaticCallee(); cal != nil {
				m = cal.Name()
			}
			switch m {
			case "Read", "Write", "ReadFull", "ReadAtLeast", "ReadPacket", "WritePacket":
				return true
			}
		}
	}
	return false
}
