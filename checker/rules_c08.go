package main

import (
	"fmt"
	"go/ast"
	"go/token"
	"go/types"
	"strings"

	"golang.org/x/tools/go/ssa"
)

func init() {
	register(&Property{
		ID:          "C08",
		Title:       "Packet boundaries come from length fields, not from transport segmentation",
		DesignRef:   "DESIGN.md §3 C08",
		Technique:   "necessary conditions of a correct stream framer decided on readMessage/readHeader/ReadPacket: compiler BCE listing + guard discharge for every slice, one-sided-comparison rule for bytes beyond the declared size, bounded-copy rule for fixed scratch buffers, error-origin rule for reassembly, sibling agreement of the two ReadPacket implementations",
		LevelText:   "Static, necessary conditions only: (1) every slice/index expression of the framing functions is in-bounds under its dominating guards (in particular the payload slice needs 8 <= size <= len(data)); (2) the framer handles 'fewer bytes than declared' so it must also handle 'more than declared' — bytes past the declared size must be kept or excluded by an equality; (3) a copy into a fixed-size scratch buffer must be bounded or its count checked; (4) an error return of the framer may stem from the transport or an inconsistent header, not from 'still incomplete'; (5) both transports return n == len(p), and each packet read is one whole library read (one ReadMessage; one Read of the bufio.Reader that Hijack returned, so bytes net/http buffered are not skipped). Independence from segmentation itself (same packets for every cut of the stream) is a for-all-schedules statement that needs a rewritten framer's loop invariant and is not decided. (2)-(4) are violated by today's one-shot defragmenter and recorded as known findings.",
		LevelNote:   "Trusted: Go compiler prove pass, transports' library reads. Known findings: readMessage drops coalesced packets, truncates fragments above 4096 bytes, and ends the tunnel on a packet split over three reads.",
		Explanation: "C08/bounds restricts the A8 bounds obligations to the framing functions. C08/remainder checks the accepting return of readHeader. C08/bounded-copy inventories builtin copy calls into fixed-size buffers. C08/reassembly classifies readMessage's error returns by the origin of the returned error. C08/transport-contract checks each return of both ReadPacket implementations. C08/transport-source checks which library read feeds them.",
		Assumptions: []string{"a websocket message or chunk read may carry any number of bytes of the packet stream"},
		Rules: []RuleDef{
			{"C08/bounds", "every compiler-unproven slice/index of the framing functions is discharged", c08Bounds},
			{"C08/remainder", "bytes beyond the declared packet size are kept or excluded", c08Remainder},
			{"C08/bounded-copy", "copies into a fixed-size scratch buffer are bounded or their count is checked", c08BoundedCopy},
			{"C08/reassembly", "the framer returns an error only for transport errors or an inconsistent header, not for 'still incomplete'", c08Reassembly},
			{"C08/header-tests", "readHeader's three length tests are strict (<): a complete 8-byte header, a size of exactly 8 and exactly size bytes are accepted", func(c *Ctx) { headerTests(c, "C08/header-tests") }},
			{"C08/buffer-ownership", "a packet is assembled and handed on in storage of the call or the connection: no package-level buffer, no pooled buffer that the returned payload still aliases", func(c *Ctx) { packetBuffersPrivate(c, "C08/buffer-ownership") }},
			{"C08/framer-accepts", "a packet is handed to the packet loop as complete only with readHeader's verdict: type, size and payload of an accepting return of readMessage are readHeader's results", func(c *Ctx) { framerAcceptsThroughHeader(c, "C08/framer-accepts") }},
			{"C08/read-limit", "the websocket connection carries no message size cap below the largest packet of the format", c08ReadLimit},
			{"C08/transport-contract", "both ReadPacket implementations return n == len(p) (or 0 with an error)", c08TransportContract},
			{"C08/transport-source", "a packet read is one whole transport read (one ReadMessage / one Read of the buffered chunked body) and a packet write is one whole library write of the packet given, without a deadline that could leave a torn packet in front of the next one", func(c *Ctx) {
				transportRules(c, "C08/transport-source", true)
				c.Floor("C08/transport-source", 5, "two reads, constructor, two writes")
			}},
		},
	})
}

var framingFns = map[string]bool{
	"cmd/rdpgw/protocol.readMessage": true, "cmd/rdpgw/protocol.readHeader": true,
	"(*cmd/rdpgw/transport.LegacyPKT).ReadPacket": true, "(*cmd/rdpgw/transport.WSPKT).ReadPacket": true,
	"(*cmd/rdpgw/protocol.Tunnel).Read": true,
}

func c08Bounds(c *Ctx) {
	rule := "C08/bounds"
	c.skipGenerated = true
	defer func() { c.skipGenerated = false }()
	sites, err := c.unprovenSites()
	if err != nil {
		c.Undecided(rule, "bce-listing", token.NoPos, "%v", err)
		return
	}
	n := 0
	for _, s := range sites {
		if !framingFns[shortFn(s.Fn)] && !c.onlyCalledFromAny(s.Fn, framingFns, 0) {
			continue
		}
		n++
		ok, how := dischargeBounds(c, s)
		if ok {
			c.OK(rule, s.Key(), s.Pos, "%s: %s", s.Kind, how)
		} else {
			if how == "" {
				how = "no dominating guard bounds it"
			}
			c.nextAlt = s.AltKey(c)
			c.Bad(rule, s.Key(), s.Pos, "%s in the framer is neither proven by the compiler nor discharged: %s; a length field or fragment size chosen by the client panics the tunnel instead of ending it with an error", s.Expr, how)
		}
	}
	// the payload slice of readHeader must exist and be compiler-proven or discharged: count slices of the data parameter
	rh := c.Fn("cmd/rdpgw/protocol", "readHeader")
	nSl := 0
	eachInstr(rh, func(in ssa.Instruction) {
		if sl, ok := in.(*ssa.Slice); ok && sl.X == ssa.Value(rh.Params[0]) {
			nSl++
			listed := false
			for _, s := range sites {
				if s.Instr == in {
					listed = true
				}
			}
			if !listed {
				c.OK(rule, "readHeader "+c.exprText(sl.Pos())+" proven", sl.Pos(), "in-bounds proven by the Go compiler under the guards len(data) >= 8, size >= 8, len(data) >= size")
			}
		}
	})
	if nSl == 0 {
		c.Undecided(rule, "readHeader payload-slice", rh.Pos(), "no payload slice found in readHeader")
	}
	c.Floor(rule, 3, "readMessage slices + readHeader payload (four on the pinned tree; a framer that reads through one helper has three)")
	_ = n
}

// exprText: source text of the index/slice/call expression whose bracket/paren is at pos.
func (c *Ctx) exprText(pos token.Pos) string {
	if c.exprAt == nil {
		c.exprAt = map[token.Pos]string{}
		for _, pk := range c.P.First {
			for _, f := range pk.Syntax {
				ast.Inspect(f, func(n ast.Node) bool {
					switch x := n.(type) {
					case *ast.IndexExpr:
						c.exprAt[x.Lbrack] = types.ExprString(x)
					case *ast.SliceExpr:
						c.exprAt[x.Lbrack] = types.ExprString(x)
					case *ast.CallExpr:
						c.exprAt[x.Lparen] = types.ExprString(x)
					}
					return true
				})
			}
		}
	}
	return c.exprAt[pos]
}

func c08Remainder(c *Ctx) {
	rule := "C08/remainder"
	rh := c.Fn("cmd/rdpgw/protocol", "readHeader")
	data := rh.Params[0]
	// the declared size: the local read with binary.Read into &size (named result "size")
	isLenData := func(v ssa.Value) bool { return isLenOf(v, data) }
	for i, r := range acceptingReturns(rh, 3, func(v ssa.Value) bool { return !isNil(unspill(v)) }) {
		key := fmt.Sprintf("readHeader accept#%d remainder", i)
		// (a) equality len(data) == size established, or (b) data[size:] flows somewhere
		gEq := GCmp(func(x ssa.Value, op token.Token, y ssa.Value) bool {
			return op == token.EQL && (isLenData(x) || isLenData(y))
		})
		okEq, _ := mustPass(rh, r, gEq)
		kept := false
		eachInstr(rh, func(in ssa.Instruction) {
			if sl, ok := in.(*ssa.Slice); ok && sl.X == ssa.Value(data) && sl.Low != nil && sl.High == nil {
				if k, isC := constInt(sl.Low); !isC || k != 8 {
					// data[size:] — must be used by a store or returned
					if len(*sl.Referrers()) > 0 {
						kept = true
					}
				}
			}
		})
		c.Check(okEq || kept, rule, key, r.Pos(), "bytes beyond the declared size are excluded by an equality or kept for the next packet", "readHeader accepts len(data) >= size and returns data[8:size]; the bytes data[size:] (a second packet coalesced into the same read or websocket message) are dropped: the packets processed depend on transport segmentation")
	}
	c.Floor(rule, 1, "accepting return of readHeader")
}

func c08BoundedCopy(c *Ctx) { boundedCopyAs(c, "C08/bounded-copy") }

// boundedCopyAs: C08's bounded-copy rule, also registered as C06/fragment-store (a fragment
// that is kept for reassembly is kept whole, or the bytes handed to the host are not the
// bytes the client sent).
func boundedCopyAs(c *Ctx, rule string) {
	for _, name := range []string{"readMessage", "readHeader"} {
		fn := c.Fn("cmd/rdpgw/protocol", name)
		nFixed := 0
		for _, ci := range callsIn(fn) {
			call, ok := ci.(*ssa.Call)
			if !ok {
				continue
			}
			b, ok := call.Call.Value.(*ssa.Builtin)
			if !ok || b.Name() != "copy" {
				continue
			}
			dst, src := call.Call.Args[0], call.Call.Args[1]
			dl, fixed := fixedLen(dst)
			if !fixed {
				continue
			}
			nFixed++
			key := fmt.Sprintf("%s copy into %d-byte scratch buffer#%d", name, dl, nFixed)
			// bounded source, or the count compared with len(src)
			if sl, ok := constSliceLen(strip(src)); ok && sl <= dl {
				c.OK(rule, key, call.Pos(), "source has constant length %d <= %d", sl, dl)
				continue
			}
			checked := false
			for _, r := range *call.Referrers() {
				if bo, ok := r.(*ssa.BinOp); ok {
					switch bo.Op {
					case token.EQL, token.NEQ, token.LSS, token.GEQ, token.LEQ, token.GTR:
						checked = true
					}
				}
			}
			g := GCmp(func(x ssa.Value, op token.Token, y ssa.Value) bool {
				// len(src) <= const  or  size <= const
				k, ok := constInt(y)
				return ok && k <= dl && (op == token.LEQ || op == token.LSS) && (isLenOf(x, src) || isHighOf(src, x))
			})
			guarded, _ := mustPass(fn, call, g)
			c.Check(checked || guarded, rule, key, call.Pos(), "copy into the scratch buffer is bounded or its count is checked", fmt.Sprintf("copy into a %d-byte scratch buffer from a source of unbounded length with the count unchecked: a first fragment larger than the buffer is silently truncated and the stream is mis-framed", dl))
		}
	}
	c.Floor(rule, 1, "scratch-buffer copy in readMessage")
}

func isHighOf(slice, v ssa.Value) bool {
	sl, ok := strip(slice).(*ssa.Slice)
	return ok && sl.High != nil && (sl.High == v || strip(sl.High) == strip(v))
}

// fixedLen: the slice is (a reslice of) a buffer made with a constant length.
func fixedLen(v ssa.Value) (int64, bool) {
	v = strip(v)
	if a, ok := lazyBuffer(v); ok {
		return fixedLenNoPhi(a)
	}
	return fixedLenNoPhi(v)
}

func fixedLenNoPhi(v ssa.Value) (int64, bool) {
	v = strip(v)
	for i := 0; i < 4; i++ {
		if n, ok := constSliceLen(v); ok {
			return n, true
		}
		sl, ok := v.(*ssa.Slice)
		if !ok {
			return 0, false
		}
		v = sl.X
		if al, ok := v.(*ssa.Alloc); ok {
			if arr, ok := al.Type().Underlying().(*types.Pointer).Elem().Underlying().(*types.Array); ok {
				return arr.Len(), true
			}
		}
	}
	return 0, false
}

func c08Reassembly(c *Ctx) {
	rule := "C08/reassembly"
	fn := c.Fn("cmd/rdpgw/protocol", "readMessage")
	n := 0
	for i, r := range returnsOf(fn) {
		errV := unspill(r.Results[len(r.Results)-1])
		if isNil(errV) {
			continue
		}
		for _, o := range errOrigins(errV, 0) {
			if o.Kind != "call" {
				continue
			}
			name := calleeName(o.Call)
			switch {
			case strings.HasSuffix(name, ".ReadPacket"):
				n++
				c.OK(rule, fmt.Sprintf("readMessage return#%d transport-error", i), r.Pos(), "ends the tunnel on a transport read error")
			case name == protoPkg+".readHeader":
				n++
				stage := "first read"
				if a, ok := strip(arg(o.Call, 0)).(*ssa.Call); ok {
					if b, ok := a.Call.Value.(*ssa.Builtin); ok && b.Name() == "append" {
						stage = "continuation read"
					}
				} else if sl, ok := strip(arg(o.Call, 0)).(*ssa.Slice); ok {
					if _, isFixed := fixedLen(sl.X); isFixed {
						stage = "continuation read"
					}
				} else if isCont, notCont := continuationArg(arg(o.Call, 0)); isCont && notCont != nil {
					// one readHeader call for both attempts: this return belongs to the continuation
					// when it is unreachable on the paths on which the append was not selected
					if !reachWithoutMarkerAvoiding(fn, r, noMarker, func(cond ssa.Value, branch bool) bool {
						core, _ := normCond(cond)
						return !notCont(cond, branch) && notCont(cond, !branch) && core != nil
					}) {
						stage = "continuation read"
					}
				}
				// acceptable only if the path distinguishes 'invalid header' from 'incomplete': a size test on the path
				g := GCmp(func(x ssa.Value, op token.Token, y ssa.Value) bool {
					k, ok := constInt(y)
					return ok && k == 8 && (op == token.LSS || op == token.LEQ)
				})
				distinguishes, _ := mustPass(fn, r, g)
				if distinguishes {
					// a size test only discriminates if readHeader's 'fragment' returns cannot satisfy it:
					// its "fewer than 8 bytes so far" return reports size 0, which is < 8 too
					rh := c.Fn("cmd/rdpgw/protocol", "readHeader")
					for _, hr := range returnsOf(rh) {
						if isNil(unspill(hr.Results[3])) {
							continue
						}
						tooShort, _ := mustPass(rh, hr, GCmp(func(x ssa.Value, op token.Token, y ssa.Value) bool {
							k, ok := constInt(y)
							return ok && k == 8 && op == token.LSS && isLenOf(x, rh.Params[0])
						}))
						if k, isC := constInt(unspill(hr.Results[1])); tooShort && isC && k < 8 {
							distinguishes = false
						}
					}
				}
				if !distinguishes {
					// or by the error's identity: errors.Is(err, S) / err == S for a sentinel S that
					// readHeader returns only behind its size < 8 test
					var sentinels []*ssa.Global
					bySentinel := func(cond ssa.Value, branch bool) bool {
						core, neg := normCond(cond)
						switch x := core.(type) {
						case *ssa.Call:
							if calleeName(x) == "errors.Is" && len(x.Call.Args) == 2 {
								if gl, ok := globalLoad(strip(x.Call.Args[1])); ok && branch != neg {
									sentinels = append(sentinels, gl)
									return true
								}
							}
						case *ssa.BinOp:
							if x.Op == token.EQL || x.Op == token.NEQ {
								for _, side := range []ssa.Value{x.X, x.Y} {
									if gl, ok := globalLoad(strip(side)); ok && (branch != neg) == (x.Op == token.EQL) {
										sentinels = append(sentinels, gl)
										return true
									}
								}
							}
						}
						return false
					}
					if pass, _ := mustPass(fn, r, bySentinel); pass && len(sentinels) > 0 {
						rh := c.Fn("cmd/rdpgw/protocol", "readHeader")
						okAll, nRet := true, 0
						for _, hr := range returnsOf(rh) {
							gl, isG := globalLoad(strip(unspill(hr.Results[3])))
							if !isG {
								continue
							}
							for _, s := range sentinels {
								if s != gl {
									continue
								}
								nRet++
								sizeTest, _ := mustPass(rh, hr, GCmp(func(x ssa.Value, op token.Token, y ssa.Value) bool {
									k, ok := constInt(y)
									return ok && k == 8 && op == token.LSS && !isLenOf(x, rh.Params[0])
								}))
								if !sizeTest {
									okAll = false
								}
							}
						}
						distinguishes = okAll && nRet > 0
					}
				}
				c.Check(distinguishes, rule, fmt.Sprintf("readMessage returns readHeader's error after the %s", stage), r.Pos(), "only for an inconsistent header (size < 8)", "readMessage returns readHeader's error after the "+stage+" without telling 'still incomplete' from 'inconsistent header': a packet that needs one more read ends the tunnel")
			}
		}
	}
	if n == 0 {
		c.Undecided(rule, "readMessage error-returns", fn.Pos(), "no error return classified")
	}
	c.Floor(rule, 2, "transport error + header error")
}

func c08TransportContract(c *Ctx) {
	rule := "C08/transport-contract"
	ok, why := transportContractHolds(c)
	for _, name := range []string{"LegacyPKT.ReadPacket", "WSPKT.ReadPacket"} {
		fn := c.Fn("cmd/rdpgw/transport", name)
		c.Check(ok, rule, name, fn.Pos(), "every return yields n == len(p) (or n == 0)", "the count returned does not describe the slice returned: "+why)
	}
	// legacy: one Read of at most its buffer; the buffer copied is the one read into
	lg := c.Fn("cmd/rdpgw/transport", "LegacyPKT.ReadPacket")
	good := false
	for _, ci := range callsIn(lg) {
		call, isCall := ci.(*ssa.Call)
		if isCall && call.Call.IsInvoke() && call.Call.Method.Name() == "Read" {
			for _, cp := range callsIn(lg) {
				if cc, ok := cp.(*ssa.Call); ok {
					if b, ok := cc.Call.Value.(*ssa.Builtin); ok && b.Name() == "copy" && sameBuf(cc.Call.Args[1], call.Call.Args[0]) && dominatesInstr(call, cc) {
						good = true
					}
				}
			}
		}
	}
	if !good {
		// or: the bytes just read are returned in place, in a buffer allocated by this very call
		for _, ci := range callsIn(lg) {
			call, isCall := ci.(*ssa.Call)
			if !isCall || !call.Call.IsInvoke() || call.Call.Method.Name() != "Read" {
				continue
			}
			rb := strip(call.Call.Args[0])
			local := false
			switch b := rb.(type) {
			case *ssa.MakeSlice:
				local = !inCycle(b.Block())
			case *ssa.Slice:
				if al, ok := b.X.(*ssa.Alloc); ok && al.Heap && !inCycle(al.Block()) && b.Low == nil {
					local = true
				}
			}
			if !local {
				continue
			}
			all := true
			some := false
			for _, r := range returnsOf(lg) {
				pv := strip(unspill(r.Results[1]))
				if isNil(pv) {
					continue
				}
				sl, ok := pv.(*ssa.Slice)
				if ok && sl.X == rb && sl.Low == nil && dominatesInstr(call, sl) {
					some = true
				} else if pv == rb && dominatesInstr(call, r) {
					some = true
				} else {
					all = false
				}
			}
			good = all && some
		}
	}
	c.Check(good, rule, "LegacyPKT.ReadPacket copy", lg.Pos(), "returns the bytes just read: a copy of the buffer that was read into, or that buffer itself when this call allocated it", "the packet returned is not a copy of the bytes just read")
}

// headerTests: readHeader decides "incomplete" three times: fewer bytes than a header, a declared
// size smaller than a header, fewer bytes than the declared size. Each must be a strict comparison:
// with <= a header-only packet (KEEPALIVE: 8 bytes, size 8) or a packet that arrived exactly whole is
// treated as a fragment and glued to the next read.
func headerTests(c *Ctx, rule string) {
	fn := c.Fn("cmd/rdpgw/protocol", "readHeader")
	dataP := fn.Params[0]
	isLenData := func(v ssa.Value) bool { return isLenOf(strip(v), dataP) }
	n := 0
	for _, b := range fn.Blocks {
		if len(b.Instrs) == 0 {
			continue
		}
		ifi, ok := b.Instrs[len(b.Instrs)-1].(*ssa.If)
		if !ok {
			continue
		}
		core, _ := normCond(ifi.Cond)
		bo, ok := core.(*ssa.BinOp)
		if !ok {
			continue
		}
		// normalise to  small OP big  with OP in {<, <=}
		x, y, op := bo.X, bo.Y, bo.Op
		switch op {
		case token.GTR:
			x, y, op = y, x, token.LSS
		case token.GEQ:
			x, y, op = y, x, token.LEQ
		case token.LSS, token.LEQ:
		default:
			continue
		}
		kind := ""
		if isLenData(x) {
			if k, isC := constInt(y); isC {
				kind = fmt.Sprintf("len(data) vs %d", k)
				n++
				c.Check(op == token.LSS && k == 8 || op == token.LEQ && k == 7, rule, "readHeader "+kind, bo.Pos(), "fewer than 8 bytes is 'header incomplete'", "the header-length test is not len(data) < 8: a complete header-only packet (8 bytes) is taken for a fragment, glued to the next read, and the packet after it is lost")
				continue
			}
			// len(data) vs size
			kind = "len(data) vs size"
			n++
			c.Check(op == token.LSS, rule, "readHeader "+kind, bo.Pos(), "fewer bytes than declared is 'incomplete'", "the completeness test is not len(data) < size: a packet that arrived exactly whole is taken for a fragment")
			continue
		}
		if k, isC := constInt(x); isC && !isLenData(y) {
			// K < size / K <= size: an upper bound on the declared size. The largest packet of the
			// protocol is a DATA packet with a full 16-bit payload: 8 (header) + 2 (length) + 65535
			if _, isInt := y.Type().Underlying().(*types.Basic); isInt && k > 8 {
				const maxLegal = 8 + 2 + 65535
				kind = fmt.Sprintf("size above %d", k)
				c.Check(op == token.LSS && k >= maxLegal || op == token.LEQ && k > maxLegal, rule, "readHeader upper bound", bo.Pos(), "an upper bound on the declared size admits the largest DATA packet (65545 bytes)", fmt.Sprintf("readHeader refuses a declared size above %d, but a DATA packet with a full 16-bit payload has 65545 bytes: that packet and the stream after it are never relayed", k))
				continue
			}
		}
		if k, isC := constInt(y); isC && !isLenData(x) {
			if _, isInt := x.Type().Underlying().(*types.Basic); isInt {
				kind = fmt.Sprintf("size vs %d", k)
				n++
				c.Check(op == token.LSS && k == 8 || op == token.LEQ && k == 7, rule, "readHeader "+kind, bo.Pos(), "a declared size below 8 is invalid", "the size test is not size < 8: a header-only packet (size 8) is refused")
			}
		}
	}
	if n < 3 {
		c.Undecided(rule, "readHeader tests", fn.Pos(), "found %d of the three length tests", n)
	}
}

// errOrigins: origins of an error value, looking through fmt.Errorf / errors.Join wrappers to the
// errors they wrap (their error-typed operands).
func errOrigins(v ssa.Value, depth int) []Origin {
	var out []Origin
	for _, o := range origins(v) {
		if o.Kind == "call" && depth < 3 {
			n := calleeName(o.Call)
			if n == "fmt.Errorf" || n == "errors.Join" {
				wrapped := false
				args := o.Call.Common().Args
				if len(args) > 0 {
					if elems, ok := sliceLitElems(args[len(args)-1]); ok {
						for _, e := range elems {
							ev := strip(e)
							if mi, isMI := strip(e).(*ssa.MakeInterface); isMI {
								ev = mi.X
							} else if ci, isCI := strip(e).(*ssa.ChangeInterface); isCI {
								ev = ci.X
							}
							if types.Implements(ev.Type(), errorIface()) {
								out = append(out, errOrigins(ev, depth+1)...)
								wrapped = true
							}
						}
					}
				}
				if wrapped {
					continue
				}
			}
			// a first-party helper that hands back the error of what it calls
			if call, isCall := o.Call.(*ssa.Call); isCall {
				if h := call.Call.StaticCallee(); h != nil && IsFirstParty(h) && h.Blocks != nil && fnName(h) != protoPkg+".readHeader" {
					expanded := false
					for _, r := range returnsOf(h) {
						if o.Index >= len(r.Results) {
							continue
						}
						rv0 := unspill(r.Results[o.Index])
						if isNil(strip(rv0)) {
							continue
						}
						out = append(out, errOrigins(rv0, depth+1)...)
						expanded = true
					}
					if expanded {
						continue
					}
				}
			}
		}
		out = append(out, o)
	}
	return out
}

func errorIface() *types.Interface {
	return types.Universe.Lookup("error").Type().Underlying().(*types.Interface)
}
