package main

import "strconv"

func strconvItoa(i int) string     { return strconv.Itoa(i) }
func strconvQuote(s string) string { return strconv.Quote(s) }
