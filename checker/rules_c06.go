package main

import (
	"fmt"
	"go/token"
	"go/types"
	"strings"

	"golang.org/x/tools/go/ssa"
)

func init() {
	register(&Property{
		ID:          "C06",
		Title:       "Relayed byte streams are exact, ordered and complete in both directions",
		DesignRef:   "DESIGN.md §3 C06",
		Technique:   "framing arithmetic and copy discipline of the three functions every relayed byte passes through, decided by SSA value identity (length prefix, payload slice and read count are one value), static widths, loop discipline by marker reachability, and guarded reachability of the host write",
		LevelText:   "Static, necessary conditions only: the DATA header's length is len(payload)+8 with an 8-byte header (C16/header rule); in the host->client relay the 16-bit length prefix and the payload slice both use the count returned by this iteration's Read into a buffer whose constant capacity fits 16 bits, exactly one DATA packet is written per successful read, the assembly buffer is reset on every path to the next iteration, and the loop ends only on a read error; in the client->host direction the bytes written to the host are the whole slice of the declared length that was filled from the packet, and they are written only when that fill succeeded; each direction is served by one goroutine (receive called only from the packet loop, forward spawned once per channel); at the transport edge a websocket packet read is exactly one ReadMessage result, a legacy read exactly the bytes one Read of the buffered chunked body returned, each WritePacket is one library write of exactly the packet given, and no write deadline is armed on a relay connection (Tunnel.Write ignores write errors). A fragment kept for reassembly must be kept whole (copies into the fixed-size reassembly buffer bounded or their count checked): violated by today's framer for a first fragment above 4096 bytes and recorded as a known finding. End-to-end stream equality for all byte streams and interleavings is a run-time quantity and is not decided.",
		LevelNote:   "Trusted: encoding/binary, bytes.Buffer, net.Conn read/write semantics. Not decided: equality of streams end to end; the write side of interleaving is C09. Known finding: readMessage truncates a first fragment larger than its 4096-byte buffer and can accept the result (host receives displaced bytes).",
		Explanation: "C06/header re-runs the createPacket layout rule. C06/forward identifies the Read call of the relay loop and demands that the uint16 prefix and the payload slice are built from its count, the buffer is constant-size <= 65535, and uses marker reachability for 'one packet per read' and 'reset before next iteration'. C06/receive ties the written slice to the declared length and the checked fill. C06/order inventories the callers of receive and the go sites of forward. C06/transports checks the shape of both Transport implementations and of NewLegacy, and inventories deadline calls in the transport and protocol packages.",
		Assumptions: []string{"a Read returning n > 0 with a non-nil error is treated as an error by the relay (bytes dropped at connection end; acceptable at EOF)"},
		Rules: []RuleDef{
			{"C06/header", "DATA packets: header 8 bytes, length = len(payload)+8", func(c *Ctx) { c16HeaderAs(c, "C06/header") }},
			{"C06/forward", "host->client: prefix uint16(n), payload buf[:n] with the same n of this Read, constant buffer <= 65535, one packet per read, buffer reset, exit only on read error", c06Forward},
			{"C06/receive", "client->host: the host receives the whole declared-length slice, only when it was completely filled from the packet", c06Receive},
			{"C06/order", "one goroutine per direction: receive only from the packet loop, forward spawned once per processor", c06Order},
			{"C06/write-serialised", "packets of the two writers of a tunnel (packet loop, relay goroutine) are not interleaved: WritePacket only under the tunnel's write mutex (C09's tunnel rule)", func(c *Ctx) { c09TunnelAs(c, "C06/write-serialised") }},
			{"C06/header-tests", "a complete packet is never taken for a fragment: readHeader's length tests are strict (<)", func(c *Ctx) { headerTests(c, "C06/header-tests") }},
			{"C06/buffer-ownership", "a packet is assembled and handed on in storage of the call or the connection: no package-level buffer, no pooled buffer that the returned payload still aliases", func(c *Ctx) { packetBuffersPrivate(c, "C06/buffer-ownership") }},
			{"C06/framer-accepts", "a packet is handed to the packet loop as complete only with readHeader's verdict: type, size and payload of an accepting return of readMessage are readHeader's results", func(c *Ctx) { framerAcceptsThroughHeader(c, "C06/framer-accepts") }},
			{"C06/fragment-store", "a fragment kept for reassembly is kept whole: copies into the fixed-size reassembly buffer are bounded or their count is checked (C08's bounded-copy rule; violated by today's framer, known finding)", func(c *Ctx) { boundedCopyAs(c, "C06/fragment-store") }},
			{"C06/transports", "both transports hand over whole reads and write exactly the packet given, once, without deadlines", func(c *Ctx) {
				transportRules(c, "C06/transports", true)
				c.Floor("C06/transports", 5, "two reads, constructor, two writes")
			}},
		},
	})
}

func c06Forward(c *Ctx) {
	rule := "C06/forward"
	fn := c.Fn("cmd/rdpgw/protocol", "forward")
	inP, tunP := fn.Params[0], fn.Params[1]
	var read *ssa.Call
	for _, ci := range callsIn(fn) {
		call, ok := ci.(*ssa.Call)
		if ok && call.Call.IsInvoke() && call.Call.Method.Name() == "Read" && call.Call.Value == ssa.Value(inP) {
			if read != nil {
				c.Bad(rule, "forward read", call.Pos(), "more than one Read of the backend connection per iteration")
			}
			read = call
		}
	}
	if read == nil || !inCycle(read.Block()) {
		c.Bad(rule, "forward read", fn.Pos(), "no Read of the backend connection inside the relay loop")
		return
	}
	n := resultOf(read, 0)
	rerr := resultOf(read, 1)
	buf := read.Call.Args[0]
	// the read may fill a window buf[K:] of a larger buffer that has room for the fields in front of
	// the payload (positional assembly)
	var posBase ssa.Value
	posK := int64(0)
	if sl, ok := strip(buf).(*ssa.Slice); ok && sl.High == nil && sl.Low != nil {
		if kk, ok := constInt(sl.Low); ok && kk > 0 {
			posBase, posK = sl.X, kk
		}
	}
	// a. constant buffer size fitting 16 bits
	k, okK := fixedLen(buf)
	if posBase != nil {
		k, okK = fixedLen(posBase)
		k -= posK
	}
	c.Check(okK && k > 0 && k <= 0xFFFF, rule, "forward buffer", read.Pos(), fmt.Sprintf("read buffer has constant length %d <= 65535 (uint16(n) cannot truncate; DATA packet <= %d bytes)", k, k+10), fmt.Sprintf("the read buffer's length (%d, constant=%v) does not fit the 16-bit payload length: a full read is announced with a truncated length", k, okK))
	// c/d/e. the packet handed to Tunnel.Write is createPacket(PKT_TYPE_DATA, uint16(count) ++ payload).
	// The chunk buf[:n] may travel through helpers (forward -> tunnel.writeData(chunk) ->
	// createPacket(DATA, dataPayload(chunk))); inside a helper the chunk is its parameter and the
	// count is len(parameter).
	isBufN := func(v ssa.Value) bool {
		sl, ok := v.(*ssa.Slice)
		return ok && sl.X == buf && sl.Low == nil && sl.High == n && sl.Max == nil
	}
	dataT := c.ConstInt("cmd/rdpgw/protocol", "PKT_TYPE_DATA")
	type asmResult struct {
		send     ssa.Instruction // the instruction of forward that sends the packet
		prefixOK bool
		payOK    bool
		pktOK    bool
		fresh    bool // the assembly storage is fresh for every packet
		reset    *ssa.Call
		bytes    *ssa.Call
		tw       *ssa.Call
		buffer   ssa.Value
		where    ssa.Instruction
	}
	// bodyOK: body (the createPacket data argument, in function f) is uint16(count) ++ chunk
	var bodyOK func(f *ssa.Function, body ssa.Value, chunkIs, countIs func(ssa.Value) bool, depth int, r *asmResult)
	bodyOK = func(f *ssa.Function, body ssa.Value, chunkIs, countIs func(ssa.Value) bool, depth int, r *asmResult) {
		u16of := func(v ssa.Value) bool {
			cv, ok := v.(*ssa.Convert)
			if !ok || !countIs(cv.X) {
				return false
			}
			bt, ok := cv.Type().Underlying().(*types.Basic)
			return ok && bt.Kind() == types.Uint16
		}
		switch x := strip(body).(type) {
		case *ssa.Call:
			switch {
			case calleeName(x) == "(*bytes.Buffer).Bytes":
				// buffer style, in f
				b1 := recvOf(x)
				r.bytes, r.buffer = x, b1
				var prefix, payload *ssa.Call
				for _, ci := range callsIn(f) {
					call, ok := ci.(*ssa.Call)
					if !ok {
						continue
					}
					switch calleeName(call) {
					case "encoding/binary.Write":
						if strip(arg(call, 0)) == b1 {
							prefix = call
						}
					case "(*bytes.Buffer).Write":
						if recvOf(call) == b1 {
							payload = call
						}
					case "(*bytes.Buffer).Reset":
						if recvOf(call) == b1 {
							r.reset = call
						}
					}
				}
				if prefix != nil {
					if mi, ok := arg(prefix, 2).(*ssa.MakeInterface); ok && u16of(mi.X) && isLittleEndian(arg(prefix, 1)) {
						r.prefixOK = true
					}
				}
				if payload != nil && chunkIs(arg(payload, 0)) {
					r.payOK = true
				}
				if prefix != nil && payload != nil && !(dominatesInstr(prefix, payload) && dominatesInstr(payload, x)) {
					r.prefixOK = false
				}
				if al, ok := b1.(*ssa.Alloc); ok && (inCycle(al.Block()) || f != fn && !inCycle(al.Block())) {
					r.fresh = true
				}
			default:
				// a pure helper that builds the body from the chunk
				h := x.Call.StaticCallee()
				if h == nil || !IsFirstParty(h) || h.Blocks == nil || depth > 2 || len(x.Call.Args) != len(h.Params) {
					break
				}
				for j, a := range x.Call.Args {
					if chunkIs(a) {
						hp := h.Params[j]
						hChunk := func(v ssa.Value) bool { return v == ssa.Value(hp) }
						hCount := func(v ssa.Value) bool {
							lc, ok := v.(*ssa.Call)
							if !ok {
								return false
							}
							bi, ok := lc.Call.Value.(*ssa.Builtin)
							return ok && bi.Name() == "len" && lc.Call.Args[0] == ssa.Value(hp)
						}
						rets := returnsOf(h)
						if len(rets) == 1 && len(rets[0].Results) == 1 {
							bodyOK(h, rets[0].Results[0], hChunk, hCount, depth+1, r)
							r.fresh = true
						}
					}
				}
			}
			// append style: append(AppendUint16(make(0), uint16(count)), chunk...)
			if bi, isB := x.Call.Value.(*ssa.Builtin); isB && bi.Name() == "append" && len(x.Call.Args) == 2 && chunkIs(x.Call.Args[1]) {
				if pc, ok := strip(x.Call.Args[0]).(*ssa.Call); ok && calleeName(pc) == "(encoding/binary.littleEndian).AppendUint16" && u16of(pc.Call.Args[len(pc.Call.Args)-1]) {
					base := strip(pc.Call.Args[len(pc.Call.Args)-2])
					if ms, ok := base.(*ssa.MakeSlice); ok {
						if k0, isC := constInt(ms.Len); isC && k0 == 0 {
							r.prefixOK, r.payOK, r.fresh = true, true, true
						}
					} else if k, ok := base.(*ssa.Const); ok && k.IsNil() {
						r.prefixOK, r.payOK, r.fresh = true, true, true
					}
				}
			}
		}
	}
	// findSend: in f, the chunk (chunkIs) is turned into a DATA packet and written to the tunnel
	var findSend func(f *ssa.Function, chunkIs, countIs, tunnelIs func(ssa.Value) bool, depth int, r *asmResult) bool
	findSend = func(f *ssa.Function, chunkIs, countIs, tunnelIs func(ssa.Value) bool, depth int, r *asmResult) bool {
		for _, ci := range callsTo(f, "(*"+protoPkg+".Tunnel).Write") {
			tw := ci.(*ssa.Call)
			if !tunnelIs(recvOf(tw)) {
				continue
			}
			pk, ok := strip(arg(tw, 0)).(*ssa.Call)
			if !ok {
				continue
			}
			r.tw, r.where = tw, tw
			// header-first: pkt := newPacket(DATA, 2+count); pkt = AppendUint16(pkt, uint16(count)); pkt = append(pkt, chunk...)
			if ws, root, okc := appendChainFrom(pk); okc && root != nil {
				if ti, li, isH := headerHelper(root.Call.StaticCallee()); isH && ti < len(root.Call.Args) && li < len(root.Call.Args) {
					t, _ := constInt(root.Call.Args[ti])
					lenOK := false
					if bo, ok := strip(root.Call.Args[li]).(*ssa.BinOp); ok && bo.Op == token.ADD {
						if k, isC := constInt(bo.X); isC && k == 2 && countIs(bo.Y) {
							lenOK = true
						} else if k, isC := constInt(bo.Y); isC && k == 2 && countIs(bo.X) {
							lenOK = true
						}
					}
					r.pktOK = t == dataT && lenOK
					if len(ws) == 2 {
						if cv, ok := ws[0].val.(*ssa.Convert); ok && ws[0].width == 2 && countIs(cv.X) {
							if bt, ok := cv.Type().Underlying().(*types.Basic); ok && bt.Kind() == types.Uint16 {
								r.prefixOK = true
							}
						}
						r.payOK = ws[1].width == -1 && chunkIs(ws[1].val)
					}
					r.fresh = true
					return true
				}
			}
			if calleeName(pk) == protoPkg+".createPacket" {
				t, _ := constInt(arg(pk, 0))
				r.pktOK = t == dataT
				bodyOK(f, arg(pk, 1), chunkIs, countIs, depth, r)
				return true
			}
			// tunnel.Write(H(chunk)) with H returning createPacket(DATA, ...)
			if h := pk.Call.StaticCallee(); h != nil && IsFirstParty(h) && h.Blocks != nil && len(h.Params) == 1 && len(pk.Call.Args) == 1 && chunkIs(pk.Call.Args[0]) {
				hp := h.Params[0]
				rets := returnsOf(h)
				if len(rets) == 1 {
					if rc, ok := strip(rets[0].Results[0]).(*ssa.Call); ok && calleeName(rc) == protoPkg+".createPacket" {
						t, _ := constInt(arg(rc, 0))
						r.pktOK = t == dataT
						bodyOK(h, arg(rc, 1), func(v ssa.Value) bool { return v == ssa.Value(hp) }, func(v ssa.Value) bool {
							lc, ok := v.(*ssa.Call)
							if !ok {
								return false
							}
							bi, ok := lc.Call.Value.(*ssa.Builtin)
							return ok && bi.Name() == "len" && lc.Call.Args[0] == ssa.Value(hp)
						}, depth+1, r)
						return true
					}
				}
			}
		}
		if depth > 2 {
			return false
		}
		// a helper that is handed the chunk (and the tunnel)
		for _, ci := range callsIn(f) {
			call, ok := ci.(*ssa.Call)
			if !ok {
				continue
			}
			h := call.Call.StaticCallee()
			if h == nil || !IsFirstParty(h) || h.Blocks == nil || h == f {
				continue
			}
			var cp, tp *ssa.Parameter
			for j, a := range call.Call.Args {
				if j >= len(h.Params) {
					break
				}
				if chunkIs(a) {
					cp = h.Params[j]
				}
				if tunnelIs(a) {
					tp = h.Params[j]
				}
			}
			if cp == nil || tp == nil {
				continue
			}
			hChunk := func(v ssa.Value) bool { return v == ssa.Value(cp) }
			hCount := func(v ssa.Value) bool {
				lc, ok := v.(*ssa.Call)
				if !ok {
					return false
				}
				bi, ok := lc.Call.Value.(*ssa.Builtin)
				return ok && bi.Name() == "len" && lc.Call.Args[0] == ssa.Value(cp)
			}
			hTun := func(v ssa.Value) bool { return strip(v) == ssa.Value(tp) }
			if findSend(h, hChunk, hCount, hTun, depth+1, r) {
				// every path through the helper sends
				for _, ret := range returnsOf(h) {
					if reachFromWithoutMarkerAvoiding(h.Blocks[0], ret, func(in ssa.Instruction) bool { return in == r.where }, nil) {
						r.pktOK = false
					}
				}
				r.where = call
				return true
			}
		}
		return false
	}
	var res asmResult
	if posBase != nil {
		c06ForwardPositional(c, fn, read, posBase, posK, tunP, dataT, func(prefixOK, payOK, pktOK bool, tw *ssa.Call) {
			res.prefixOK, res.payOK, res.pktOK, res.fresh, res.tw, res.where = prefixOK, payOK, pktOK, true, tw, tw
		})
	}
	found := res.where != nil || findSend(fn, isBufN, func(v ssa.Value) bool { return v == n }, func(v ssa.Value) bool { return strip(v) == ssa.Value(tunP) }, 0, &res)
	if !found || res.where == nil {
		c.Bad(rule, "forward assembly", fn.Pos(), "length prefix / payload write / Bytes / tunnel.Write not all present")
		return
	}
	var tw *ssa.Call
	if call, ok := res.where.(*ssa.Call); ok {
		tw = call // the instruction of forward that sends this read's packet
	}
	if tw == nil {
		c.Bad(rule, "forward assembly", fn.Pos(), "length prefix / payload write / Bytes / tunnel.Write not all present")
		return
	}
	asmFn := fn
	if res.tw != nil && res.tw.Parent() != fn {
		asmFn = res.tw.Parent()
	}
	b1 := res.buffer
	reset := res.reset
	bytesCall := res.bytes
	c.Check(res.prefixOK, rule, "forward prefix", tw.Pos(), "payload-length field = uint16(n) of this iteration's Read, little-endian, into the assembly buffer", "the payload-length field is not uint16 of the count this Read returned")
	c.Check(res.payOK, rule, "forward payload", tw.Pos(), "payload = buf[:n] with the same buffer and the same n", "the payload written is not buf[:n] for the buffer and count of this Read: bytes are dropped, duplicated or invented")
	c.Check(res.pktOK, rule, "forward packet", tw.Pos(), "tunnel.Write(createPacket(PKT_TYPE_DATA, prefix+payload)) in that order", "the packet written is not createPacket(PKT_TYPE_DATA, <prefix then payload>) on this tunnel")
	// one packet per successful read: from the success edge, the next Read cannot be reached without the tunnel write
	head := read.Block()
	okOne := true
	for i, s := range head.Succs {
		ifi, isIf := head.Instrs[len(head.Instrs)-1].(*ssa.If)
		if !isIf {
			okOne = false
			break
		}
		if GErrNil(rerr)(ifi.Cond, i == 0) {
			if reachFromWithoutMarkerAvoiding(s, read, func(in ssa.Instruction) bool { return in == ssa.Instruction(tw) }, nil) {
				okOne = false
			}
		}
	}
	c.Check(okOne, rule, "forward one-packet-per-read", tw.Pos(), "every successful read is followed by its DATA packet before the next read", "after a successful read the loop can reach the next read without sending the bytes: host data is dropped")
	// f. assembly buffer empty at the top of each iteration: fresh per iteration, or Reset on every path from the write to the next read
	fresh := res.fresh
	_ = asmFn
	resetOK := fresh
	if !fresh && reset != nil && bytesCall != nil && recvOf(reset) == b1 && reset.Parent() == fn && tw.Parent() == fn {
		resetOK = !reachFromWithoutMarkerAvoiding(tw.Block(), read, func(in ssa.Instruction) bool { return in == ssa.Instruction(reset) }, nil) || reset.Block() == tw.Block() && instrIndex(reset) > instrIndex(tw)
		if reset.Block() == tw.Block() {
			resetOK = instrIndex(reset) > instrIndex(bytesCall)
		}
	}
	c.Check(resetOK, rule, "forward buffer-reset", tw.Pos(), "the assembly buffer is empty at the top of every iteration", "the assembly buffer is not reset before the next iteration: earlier payloads are sent again")
	// g. the loop ends only on a read error
	exitG := GNeq(isVal(rerr), anyNil)
	if ei := errIndex(tw); ei >= 0 {
		// ... or when the client can no longer be written to (nothing more can be delivered then)
		if werr := resultOf(tw, ei); werr != nil {
			exitG = GOr(exitG, GNeq(isVal(werr), anyNil))
		}
	}
	for i, r := range returnsOf(fn) {
		ok, why := mustPass(fn, r, exitG)
		c.Check(ok, rule, fmt.Sprintf("forward exit#%d", i), r.Pos(), "the relay ends only when the backend read fails (or the client write fails)", "the relay loop can end "+why+" of a read error: the rest of the host's stream is never delivered")
	}
	c.Floor(rule, 7, "buffer, prefix, payload, packet, one-per-read, reset, exit")
}

func c06Receive(c *Ctx) {
	rule := "C06/receive"
	fn := c.Fn("cmd/rdpgw/protocol", "receive")
	dataP, outP := fn.Params[0], fn.Params[1]
	reads := callsTo(fn, "encoding/binary.Read")
	var w *ssa.Call
	for _, ci := range callsIn(fn) {
		call, ok := ci.(*ssa.Call)
		if ok && call.Call.IsInvoke() && call.Call.Method.Name() == "Write" && call.Call.Value == ssa.Value(outP) {
			if w != nil {
				c.Bad(rule, "receive write", call.Pos(), "more than one write to the host per packet")
			}
			w = call
		}
	}
	if w != nil && len(reads) == 0 && c06ReceiveDirect(c, rule, fn, w) {
		c.Floor(rule, 5, "reader, length, size, written, fill")
		return
	}
	if w == nil || len(reads) != 2 {
		c.Bad(rule, "receive shape", fn.Pos(), "expected two binary.Read calls (length, payload) and one host write; found %d reads", len(reads))
		return
	}
	r1, r2 := reads[0].(*ssa.Call), reads[1].(*ssa.Call)
	if !dominatesInstr(r1, r2) {
		r1, r2 = r2, r1
	}
	rd := strip(arg(r1, 0))
	nr, okr := rd.(*ssa.Call)
	c.Check(okr && calleeName(nr) == "bytes.NewReader" && arg(nr, 0) == ssa.Value(dataP) && strip(arg(r2, 0)) == rd, rule, "receive reader", r1.Pos(), "both fields are read in order from one reader over the packet body", "length and payload are not read from one reader over the packet body")
	lenAlloc, ok1 := strip(arg(r1, 2)).(*ssa.Alloc)
	pktAlloc, ok2 := strip(arg(r2, 2)).(*ssa.Alloc)
	if !ok1 || !ok2 {
		c.Bad(rule, "receive fields", fn.Pos(), "length or payload destination is not a local")
		return
	}
	bt, _ := lenAlloc.Type().Underlying().(*types.Pointer).Elem().Underlying().(*types.Basic)
	c.Check(bt != nil && bt.Kind() == types.Uint16 && isLittleEndian(arg(r1, 1)), rule, "receive length-field", r1.Pos(), "payload length is a little-endian uint16", "the payload length field is not read as a little-endian uint16")
	// pkt = make([]byte, cblen) with cblen = the length read
	mkOK := false
	for _, s := range storesTo(pktAlloc) {
		if ms, ok := s.Val.(*ssa.MakeSlice); ok {
			if a, ok := loadAddr(strip(ms.Len)); ok && a == ssa.Value(lenAlloc) && dominatesInstr(r1, ms) {
				mkOK = true
			}
		} else {
			mkOK = false
			break
		}
	}
	c.Check(mkOK, rule, "receive payload-size", pktAlloc.Pos(), "payload slice has exactly the declared length", "the payload slice is not sized by the declared length")
	// the host receives that slice, whole, only after a complete fill
	a, okw := loadAddr(w.Call.Args[0])
	c.Check(okw && a == ssa.Value(pktAlloc) && dominatesInstr(r2, w), rule, "receive written", w.Pos(), "the host receives the filled slice, whole", "the bytes written to the host are not the whole declared-length slice that was filled from the packet")
	okf, why := mustPass(fn, w, GErrNil(r2))
	c.Check(okf, rule, "receive complete-fill", w.Pos(), "written only when the payload was read completely", "the host write is "+why+" of the payload read: a packet carrying fewer bytes than it declares delivers invented zero bytes")
	c.Floor(rule, 5, "reader, length, size, written, fill")
}

func c06Order(c *Ctx) {
	rule := "C06/order"
	reach := c.Reachable()
	nRecv, nGo := 0, 0
	for _, fn := range c.allFirstPartyFuncs() {
		sf := shortFn(fn)
		eachInstr(fn, func(in ssa.Instruction) {
			switch x := in.(type) {
			case *ssa.Go:
				if f := x.Call.StaticCallee(); f != nil && fnName(f) == protoPkg+".forward" {
					nGo++
					inLoop := sf == "(*cmd/rdpgw/protocol.Processor).Process" || c.onlyCalledFrom(fn, c.Fn("cmd/rdpgw/protocol", "Processor.Process"), 0) && !inCycle(x.Block())
					c.Check(inLoop && !inCycleWithin(x), rule, "go forward in "+sf, x.Pos(), "the relay goroutine is started by the packet loop, once per accepted channel (C01/typestate: one dial per processor)", "forward is spawned outside the packet loop's channel-create path")
				}
			case *ssa.Call:
				if calleeName(x) == protoPkg+".receive" {
					if !reach[fn] {
						return
					}
					nRecv++
					c.Check(sf == "(*cmd/rdpgw/protocol.Processor).Process", rule, "receive in "+sf, x.Pos(), "client payloads are relayed by the packet loop goroutine only", "receive is called outside the packet loop: two goroutines can write client payload to the host")
				} else if calleeName(x) == protoPkg+".forward" {
					c.Bad(rule, "forward called in "+sf, x.Pos(), "forward is called synchronously")
				}
			}
		})
	}
	if nRecv == 0 || nGo == 0 {
		c.Undecided(rule, "sites", token.NoPos, "receive call sites=%d, go forward sites=%d", nRecv, nGo)
	}
	_ = strings.TrimSpace
}

// inCycleWithin: the go statement is inside a loop other than the packet loop itself (i.e. an inner loop).
func inCycleWithin(g *ssa.Go) bool {
	// the packet loop is the outermost cycle of Process; an inner loop would have a header dominated by the loop's body
	b := g.Block()
	for _, s := range b.Succs {
		if s == b {
			return true
		}
	}
	return false
}

// c06ForwardPositional: the relay loop reads the host's bytes into base[K:] and lays the fields in
// front of them out in base itself. Two shapes: K == 2, the body base[:2+n] handed to
// createPacket(PKT_TYPE_DATA, ...); K == 10, the whole packet base[:10+n] handed to Tunnel.Write
// (type, reserved, size, payload length written in place). The buffer is reused for the next read,
// which is sound only because Tunnel.Write hands the bytes to the transport before it returns.
func c06ForwardPositional(c *Ctx, fn *ssa.Function, read *ssa.Call, base ssa.Value, K int64, tunP *ssa.Parameter, dataT int64, set func(prefixOK, payOK, pktOK bool, tw *ssa.Call)) {
	n := resultOf(read, 0)
	isKplusN := func(v ssa.Value) bool {
		bo, ok := strip(v).(*ssa.BinOp)
		if !ok || bo.Op != token.ADD {
			return false
		}
		if kk, ok := constInt(bo.X); ok && kk == K && bo.Y == n {
			return true
		}
		if kk, ok := constInt(bo.Y); ok && kk == K && bo.X == n {
			return true
		}
		return false
	}
	convOf := func(v ssa.Value, kind types.BasicKind, inner func(ssa.Value) bool) bool {
		cv, ok := v.(*ssa.Convert)
		if !ok || !inner(cv.X) {
			return false
		}
		bt, ok := cv.Type().Underlying().(*types.Basic)
		return ok && bt.Kind() == kind
	}
	isN := func(v ssa.Value) bool { return v == n }
	ws, exact := posWrites(base)
	if !exact {
		return
	}
	for _, ci := range callsTo(fn, "(*"+protoPkg+".Tunnel).Write") {
		tw := ci.(*ssa.Call)
		if strip(recvOf(tw)) != ssa.Value(tunP) {
			continue
		}
		inIter := func(at ssa.Instruction) bool { return dominatesInstr(read, at) && dominatesInstr(at, tw) }
		before := func(at ssa.Instruction) bool { return dominatesInstr(at, tw) }
		// the window that is sent: base[:K+n]
		sentOK := func(v ssa.Value) bool {
			sl, ok := strip(v).(*ssa.Slice)
			return ok && sl.X == base && sl.Low == nil && sl.Max == nil && sl.High != nil && isKplusN(sl.High)
		}
		field := func(off int64, width int) *posWrite {
			var hit *posWrite
			cnt := 0
			for i := range ws {
				if ws[i].off == off {
					cnt++
					hit = &ws[i]
				}
			}
			if cnt != 1 || hit.width != width {
				return nil
			}
			return hit
		}
		rd := field(K, -1)
		payOK := rd != nil && rd.kind == "read" && rd.at == ssa.Instruction(read)
		a := strip(arg(tw, 0))
		if pk, ok := a.(*ssa.Call); ok && calleeName(pk) == protoPkg+".createPacket" && K == 2 {
			t, _ := constInt(arg(pk, 0))
			cb := field(0, 2)
			prefixOK := cb != nil && cb.kind == "put" && convOf(cb.val, types.Uint16, isN) && inIter(cb.at) && len(ws) == 2
			set(prefixOK, payOK && sentOK(arg(pk, 1)), t == dataT, tw)
			return
		}
		if K == 10 && sentOK(a) {
			ty, rs, sz, cb := field(0, 2), field(2, 2), field(4, 4), field(8, 2)
			pktOK := len(ws) == 5 && ty != nil && rs != nil && sz != nil
			if pktOK {
				tv, okT := constInt(ty.val)
				rv0, okR := constInt(rs.val)
				// the size field: uint32(K+n) — written here, or by a header helper that was handed
				// K+n (putHeader(buf, T, K+n)) or the window base[:K+n] itself (len of it)
				szOK := sz.val != nil && convOf(sz.val, types.Uint32, isKplusN) ||
					sz.conv == types.Uint32 && sz.val != nil && isKplusN(sz.val) ||
					sz.conv == types.Uint32 && sz.val == nil && sz.lenOf != nil && sentOK(sz.lenOf)
				pktOK = okT && tv == dataT && okR && rv0 == 0 && before(ty.at) && before(rs.at) &&
					szOK && inIter(sz.at)
			}
			if pktOK {
				// the buffer is overwritten by the next read: the write must be complete when Write returns
				if ok, _ := c.alwaysWrites(c.Fn("cmd/rdpgw/protocol", "Tunnel.Write"), 1, 0); !ok {
					pktOK = false
				}
			}
			prefixOK := cb != nil && cb.kind == "put" && convOf(cb.val, types.Uint16, isN) && inIter(cb.at)
			set(prefixOK, payOK, pktOK, tw)
			return
		}
	}
}

// c06ReceiveDirect: receive takes the payload out of the packet body in place: cblen =
// int(binary.LittleEndian.Uint16(data)), payload = data[2:2+cblen], written to the host only when
// the body carries that many bytes. Same obligations as the reader form.
func c06ReceiveDirect(c *Ctx, rule string, fn *ssa.Function, w *ssa.Call) bool {
	dataP := fn.Params[0]
	var lenCall *ssa.Call
	for _, ci := range callsTo(fn, "(encoding/binary.littleEndian).Uint16") {
		call := ci.(*ssa.Call)
		a := call.Call.Args[len(call.Call.Args)-1]
		if a == ssa.Value(dataP) {
			lenCall = call
		} else if sl, ok := strip(a).(*ssa.Slice); ok && sl.X == ssa.Value(dataP) && sl.Low == nil {
			lenCall = call
		} else if sl, ok := strip(a).(*ssa.Slice); ok && sl.X == ssa.Value(dataP) {
			if k, isC := constInt(sl.Low); isC && k == 0 {
				lenCall = call
			}
		}
	}
	if lenCall == nil {
		return false
	}
	c.OK(rule, "receive reader", lenCall.Pos(), "length and payload are taken in order from the packet body itself")
	c.OK(rule, "receive length-field", lenCall.Pos(), "payload length is the little-endian uint16 at the start of the body")
	isCblen := func(v ssa.Value) bool {
		for _, cand := range []ssa.Value{v, strip(v), unspill(v)} {
			if cand == ssa.Value(lenCall) {
				return true
			}
			if cv, ok := cand.(*ssa.Convert); ok && (cv.X == ssa.Value(lenCall) || strip(cv.X) == ssa.Value(lenCall)) {
				bt, isB := cv.Type().Underlying().(*types.Basic)
				return isB && bt.Kind() == types.Int
			}
		}
		return false
	}
	var payload *ssa.Slice
	eachInstr(fn, func(in ssa.Instruction) {
		sl, ok := in.(*ssa.Slice)
		if !ok || sl.X != ssa.Value(dataP) || sl.Low == nil || sl.High == nil {
			return
		}
		lo, isC := constInt(sl.Low)
		bo, isBo := strip(sl.High).(*ssa.BinOp)
		if !isC || lo != 2 || !isBo || bo.Op != token.ADD {
			return
		}
		bt, isB := bo.Type().Underlying().(*types.Basic)
		if !isB || bt.Kind() != types.Int {
			return // the end offset must be computed in int: a 16-bit sum wraps
		}
		if k, isK := constInt(bo.X); isK && k == 2 && isCblen(bo.Y) {
			payload = sl
		} else if k, isK := constInt(bo.Y); isK && k == 2 && isCblen(bo.X) {
			payload = sl
		}
	})
	twoStep := false
	if payload == nil {
		// two steps: rest := body[2:] (nothing when the body is shorter than the length field), then
		// rest[:declared length]
		isRest := func(v ssa.Value) bool {
			ok := false
			var walk func(v ssa.Value, d int) bool
			walk = func(v ssa.Value, d int) bool {
				switch x := v.(type) {
				case *ssa.Slice:
					lo, isC := constInt(x.Low)
					if x.X == ssa.Value(dataP) && x.Low != nil && isC && lo == 2 && x.High == nil && x.Max == nil {
						ok = true
						return true
					}
					return false
				case *ssa.Phi:
					if d > 2 {
						return false
					}
					for _, e := range x.Edges {
						if isNil(e) {
							continue
						}
						if !walk(e, d+1) {
							return false
						}
					}
					return true
				}
				return isNil(v)
			}
			return walk(v, 0) && ok
		}
		var isLen func(v ssa.Value, d int) bool
		isLen = func(v ssa.Value, d int) bool {
			if isCblen(v) {
				return true
			}
			if phi, isPhi := v.(*ssa.Phi); isPhi && d < 2 {
				some := false
				for _, e := range phi.Edges {
					if k, isC := constInt(e); isC && k == 0 {
						continue
					}
					if !isLen(e, d+1) {
						return false
					}
					some = true
				}
				return some
			}
			return false
		}
		eachInstr(fn, func(in ssa.Instruction) {
			sl, ok := in.(*ssa.Slice)
			if !ok || sl.Low != nil || sl.High == nil || sl.Max != nil {
				return
			}
			if bt, isB := sl.High.Type().Underlying().(*types.Basic); !isB || bt.Kind() != types.Int {
				return
			}
			if isRest(sl.X) && isLen(sl.High, 0) {
				payload, twoStep = sl, true
			}
		})
	}
	c.Check(payload != nil, rule, "receive payload-size", fn.Pos(), "payload = body[2 : 2+declared length], the end offset computed in int", "the payload is not the body's bytes 2 .. 2+declared length (or the end offset is computed in a 16-bit type and wraps)")
	if payload == nil {
		return true
	}
	// what the host receives: that slice, or nothing (a body too short for the length field)
	written := false
	switch x := strip(w.Call.Args[0]).(type) {
	case *ssa.Slice:
		written = x == payload
	case *ssa.Phi:
		written = true
		for _, e := range x.Edges {
			if se := strip(e); se != ssa.Value(payload) && !isNil(se) {
				written = false
			}
		}
	}
	c.Check(written, rule, "receive written", w.Pos(), "the host receives the payload slice, whole", "the bytes written to the host are not the declared-length slice of the packet body")
	_, guarded := offsetSliceUnderGuard(fn, payload)
	if twoStep {
		_, guarded = prefixUnderLenGuard(fn, payload)
	}
	c.Check(guarded, rule, "receive complete-fill", payload.Pos(), "the payload is taken only when the body carries the declared number of bytes", "the payload is sliced out without a test that the body carries the declared number of bytes")
	return true
}
