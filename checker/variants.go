package main

import (
	"encoding/json"
	"fmt"
	"os"
	"os/exec"
	"path/filepath"
	"sort"
	"strings"
	"sync"
)

// Variant: a seeded (must be reported) or silent (must not be reported) edit of
// the current sources, applied in memory through the loader's overlay.
type Variant struct {
	ID   string `json:"id"`
	File string `json:"file"` // repo-relative
	Old  string `json:"old"`
	New  string `json:"new"`
	// further edits in the same or other files
	More   []VariantEdit `json:"more,omitempty"`
	Patch  string        `json:"patch,omitempty"` // corpus entry: path of a unified diff below the verif directory
	Expect string        `json:"expect"`          // "report" | "silent"
	Rule   string        `json:"rule"`            // rule expected to report (prefix match), for expect=report
	Note   string        `json:"note"`
}

type VariantEdit struct {
	File string `json:"file"`
	Old  string `json:"old"`
	New  string `json:"new"`
}

func loadVariants(vdir, prop string) ([]Variant, error) {
	b, err := os.ReadFile(filepath.Join(vdir, "variants", prop+".json"))
	if err != nil {
		if os.IsNotExist(err) {
			return nil, nil
		}
		return nil, err
	}
	var vs []Variant
	if err := json.Unmarshal(b, &vs); err != nil {
		return nil, fmt.Errorf("variants/%s.json: %v", prop, err)
	}
	return vs, nil
}

// runVariants evaluates the self-test table of a property. Each variant is
// analysed in a fresh sub-process (bounded parallelism). The outcome never
// changes the verdict for /repo; it is reported in the evidence and on stdout.
func runVariants(p *Property, repo, vdir string, base *Ctx) []map[string]any {
	vs, err := loadVariants(vdir, p.ID)
	if err != nil {
		fmt.Printf("SELFTEST-ERROR %v\n", err)
		return nil
	}
	vs = append(vs, corpusVariants(vdir, p.ID)...)
	if len(vs) == 0 {
		return nil
	}
	baseBad := map[string]bool{}
	for _, o := range base.Obls {
		if o.Status != StDischarged {
			baseBad[o.Rule+"|"+o.Key] = true
		}
	}
	// files in which this property has obligations on the tree as it is: a refactor patch that
	// touches none of them (and was not written for this property) is not re-evaluated for it here;
	// tools/matrix.sh evaluates every patch for every property
	anchored := map[string]bool{}
	anchoredDirs := map[string]bool{}
	for _, o := range base.Obls {
		if i := strings.LastIndex(o.Pos, ":"); i > 0 {
			f := o.Pos[:i]
			anchored[f] = true
			anchoredDirs[filepath.Dir(f)] = true
		}
	}
	relevant := func(v Variant, files map[string]string) bool {
		if !strings.HasPrefix(v.ID, "refactors/") || v.Expect != "silent" {
			return true
		}
		if strings.Contains(v.ID, p.ID+"-") {
			return true // written for this property
		}
		for f := range files {
			if anchored[f] {
				return true
			}
			if _, err := os.Stat(filepath.Join(repo, f)); err != nil && anchoredDirs[filepath.Dir(f)] {
				return true // a new file in a package this property looks at
			}
		}
		return false
	}
	exe, _ := os.Executable()
	tmp, err := os.MkdirTemp("", "rdpgwlint-var")
	if err != nil {
		return nil
	}
	defer os.RemoveAll(tmp)

	// how many patches of other properties are relevant at all (for the window arithmetic)
	nOtherTotal := 0
	for _, v := range vs {
		if v.Patch == "" || !strings.HasPrefix(v.ID, "refactors/") || v.Expect != "silent" || strings.Contains(v.ID, p.ID+"-") {
			continue
		}
		pb, err := os.ReadFile(filepath.Join(vdir, v.Patch))
		if err != nil {
			continue
		}
		files, err := applyUnifiedDiff(repo, string(pb))
		if err == nil && relevant(v, files) {
			nOtherTotal++
		}
	}
	seed := 0
	fmt.Sscanf(os.Getenv("VERIF_SEED"), "%d", &seed)
	if seed < 0 {
		seed = -seed
	}
	windowStart := 0
	if nOtherTotal > 0 {
		windowStart = (seed * selfTestWindow) % nOtherTotal
	}
	nOther := 0
	results := make([]map[string]any, len(vs))
	sem := make(chan struct{}, 8)
	var wg sync.WaitGroup
	for i, v := range vs {
		i, v := i, v
		res := map[string]any{"id": v.ID, "expect": v.Expect, "rule": v.Rule, "note": v.Note}
		results[i] = res
		edits := append([]VariantEdit{{v.File, v.Old, v.New}}, v.More...)
		files := map[string]string{}
		applicable := true
		if v.Patch != "" {
			edits = nil
			pb, err := os.ReadFile(filepath.Join(vdir, v.Patch))
			if err == nil {
				files, err = applyUnifiedDiff(repo, string(pb))
			}
			if err != nil {
				res["outcome"] = "not-applicable (patch does not apply to the current tree: " + err.Error() + ")"
				continue
			}
		}
		for _, e := range edits {
			cur, ok := files[e.File]
			if !ok {
				b, err := os.ReadFile(filepath.Join(repo, e.File))
				if err != nil {
					applicable = false
					break
				}
				cur = string(b)
			}
			if strings.Count(cur, e.Old) != 1 {
				applicable = false
				break
			}
			files[e.File] = strings.Replace(cur, e.Old, e.New, 1)
		}
		if !applicable {
			res["outcome"] = "not-applicable (anchor text not present exactly once in the current tree)"
			continue
		}
		if !relevant(v, files) {
			res["outcome"] = "skipped: touches no file in which this property has an obligation (see refactors/TABLE.md for the full cross table)"
			continue
		}
		// the other properties' patches are evaluated in a window of at most selfTestWindow per run;
		// VERIF_SEED moves the window, so successive runs cover all of them
		if strings.HasPrefix(v.ID, "refactors/") && v.Expect == "silent" && !strings.Contains(v.ID, p.ID+"-") {
			nOther++
			if !inWindow(nOther-1, windowStart, selfTestWindow, nOtherTotal) {
				res["outcome"] = "skipped: outside this run's window of other properties' patches (VERIF_SEED moves it)"
				continue
			}
		}
		wg.Add(1)
		go func() {
			defer wg.Done()
			sem <- struct{}{}
			defer func() { <-sem }()
			vf := filepath.Join(tmp, fmt.Sprintf("v%d.json", i))
			of := filepath.Join(tmp, fmt.Sprintf("o%d.json", i))
			b, _ := json.Marshal(files)
			os.WriteFile(vf, b, 0o644)
			cmd := exec.Command(exe, "-property", p.ID, "-tier", "quick", "-repo", repo, "-variant", vf, "-json-out", of)
			cmd.Env = append(os.Environ(), "VERIF_DIR="+vdir)
			if os.Getenv("GOMAXPROCS") == "" {
				// eight children at a time on 16 cores: four threads each keeps them off each other's cores
				cmd.Env = append(cmd.Env, "GOMAXPROCS=4")
			}
			out, err := cmd.CombinedOutput()
			if err != nil {
				res["outcome"] = "error: " + err.Error() + " " + string(out)
				return
			}
			var rr runResult
			ob, _ := os.ReadFile(of)
			if err := json.Unmarshal(ob, &rr); err != nil {
				res["outcome"] = "error: " + err.Error()
				return
			}
			if rr.LoadError != "" {
				res["outcome"] = "variant does not type-check: " + rr.LoadError
				return
			}
			var newBad []string
			hitRule := false
			for _, o := range rr.Obls {
				if o.Status == StDischarged || baseBad[o.Rule+"|"+o.Key] {
					continue
				}
				newBad = append(newBad, fmt.Sprintf("%s %s: %s", o.Rule, o.Key, o.Msg))
				if strings.HasPrefix(o.Rule, v.Rule) {
					hitRule = true
				}
			}
			sort.Strings(newBad)
			if len(newBad) > 6 {
				newBad = newBad[:6]
			}
			res["reported"] = newBad
			switch v.Expect {
			case "report":
				if hitRule {
					res["outcome"] = "pass: reported by " + v.Rule
				} else if len(newBad) > 0 {
					res["outcome"] = "weak: reported, but not by the named rule"
				} else {
					res["outcome"] = "FAIL: seeded variant not reported"
				}
			case "silent":
				if len(newBad) == 0 {
					res["outcome"] = "pass: silent"
				} else {
					res["outcome"] = "FAIL: behaviour-preserving variant reported"
				}
			case "known-alarm":
				if len(newBad) == 0 {
					res["outcome"] = "pass: silent (listed as a known false alarm, no longer one)"
				} else {
					res["outcome"] = "known limit: behaviour-preserving variant reported (" + v.Note + ")"
				}
			}
		}()
	}
	wg.Wait()
	nFail := 0
	for _, r := range results {
		oc, _ := r["outcome"].(string)
		fmt.Printf("  selftest %-34s %s\n", r["id"], oc)
		if strings.HasPrefix(oc, "FAIL") || strings.HasPrefix(oc, "error") {
			nFail++
		}
	}
	if nFail > 0 {
		fmt.Printf("SELFTEST: %d of %d variants not handled as expected (this measures the checker; the verdict for /repo does not depend on it)\n", nFail, len(results))
	}
	return results
}

// corpusVariants: the committed corpus of whole-patch variants — the breaking changes produced
// by independent sub-agents for this property (seeded/<id>-k/patch.diff: must be reported) and
// every behaviour-preserving refactoring (refactors/*/patch.diff: must stay silent).
func corpusVariants(vdir, prop string) []Variant {
	var out []Variant
	seeds, _ := filepath.Glob(filepath.Join(vdir, "seeded", prop+"-*", "patch.diff"))
	sort.Strings(seeds)
	for _, s := range seeds {
		rel, _ := filepath.Rel(vdir, s)
		out = append(out, Variant{ID: "seeded/" + filepath.Base(filepath.Dir(s)), Patch: rel, Expect: "report", Rule: prop + "/"})
	}
	refs, _ := filepath.Glob(filepath.Join(vdir, "refactors", "*", "patch.diff"))
	sort.Strings(refs)
	known := knownRefactorAlarms(vdir)
	for _, s := range refs {
		rel, _ := filepath.Rel(vdir, s)
		name := filepath.Base(filepath.Dir(s))
		v := Variant{ID: "refactors/" + name, Patch: rel, Expect: "silent"}
		if why, ok := known[name+"/"+prop]; ok {
			v.Expect = "known-alarm"
			v.Note = why
		}
		out = append(out, v)
	}
	return out
}

// knownRefactorAlarms: refactors/KNOWN_ALARMS.json lists the behaviour-preserving patches a
// property's rules are known to report (limits stated in DESIGN.md §9), keyed "<patch>/<property>".
func knownRefactorAlarms(vdir string) map[string]string {
	m := map[string]string{}
	b, err := os.ReadFile(filepath.Join(vdir, "refactors", "KNOWN_ALARMS.json"))
	if err == nil {
		json.Unmarshal(b, &m)
	}
	return m
}

// selfTestWindow: how many behaviour-preserving patches written for other properties one thorough
// run re-evaluates for this property (its own seeds, its own keep commits, the known alarms and the
// hand-written variants are always evaluated).
const selfTestWindow = 80

// inWindow: index i lies in the cyclic window [start, start+size) of a sequence of n elements.
func inWindow(i, start, size, n int) bool {
	if n <= size {
		return true
	}
	d := i - start
	if d < 0 {
		d += n
	}
	return d < size
}
