package main

import (
	"fmt"
	"go/token"
	"go/types"
	"strings"

	"golang.org/x/tools/go/ssa"
)

// Names of third-party API used as anchors (resolved through type information;
// these strings are the fully qualified names go/ssa prints for the callee).
const (
	joseJWT = "github.com/go-jose/go-jose/v4/jwt"
	jose    = "github.com/go-jose/go-jose/v4"
)

// acceptingReturns: returns of fn whose result idx is not the rejecting constant.
func acceptingReturns(fn *ssa.Function, idx int, rejecting func(ssa.Value) bool) []*ssa.Return {
	var out []*ssa.Return
	for _, r := range returnsOf(fn) {
		if idx < len(r.Results) && !rejecting(retVal(fn, r, idx)) {
			out = append(out, r)
		}
	}
	return out
}

// retVal returns the idx-th result of a return. With defers and named results
// go/ssa spills results into allocs and returns loads of them; that is resolved
// by origins() at the use site, so here the raw value suffices.
func retVal(fn *ssa.Function, r *ssa.Return, idx int) ssa.Value { return r.Results[idx] }

func isConstFalse(v ssa.Value) bool {
	b, ok := constBool(v)
	return ok && !b
}

func isNilErr(v ssa.Value) bool { return isNil(v) }

// nonNilErrorReturn: the error result is certainly non-nil (a call to errors.New / fmt.Errorf
// or an error value that was tested non-nil is not tracked; only constant nil counts as success).
func errResultIsNil(v ssa.Value) bool { return isNil(v) }

// requireChecked: exit is reachable only over the success edge of call's result
// (error == nil for error results, true for bool results).
func (c *Ctx) requireChecked(rule, key string, fn *ssa.Function, exit ssa.Instruction, call ssa.CallInstruction, resIdx int, what string) bool {
	res := resultOf(call, resIdx)
	if res == nil {
		c.Bad(rule, key, call.Pos(), "%s: result %d of %s is discarded, so its failure cannot stop the accepting exit", what, resIdx, calleeName(call))
		return false
	}
	var g Guard
	if types.Identical(res.Type(), types.Typ[types.Bool]) {
		g = GTrue(isVal(res))
	} else {
		g = GErrNil(res)
	}
	ok, why := mustPass(fn, exit, g)
	if !ok {
		c.Bad(rule, key, exit.Pos(), "%s: accepting exit at %s is %s; the result of %s at %s does not gate it", what, c.P.Pos(exit.Pos()), why, calleeName(call), c.P.Pos(call.Pos()))
		return false
	}
	if !dominatesInstr(call.(ssa.Instruction), exit) {
		c.Bad(rule, key, exit.Pos(), "%s: %s at %s does not dominate the accepting exit", what, calleeName(call), c.P.Pos(call.Pos()))
		return false
	}
	c.OK(rule, key, call.Pos(), "%s: exit %s reachable only over the success edge of %s (%s)", what, c.P.Pos(exit.Pos()), calleeName(call), c.P.Pos(call.Pos()))
	return true
}

// algList checks that v is a slice literal whose elements are exactly the given string constants.
func algListIs(v ssa.Value, want ...string) (bool, string) {
	elems, ok := sliceLitElems(v)
	if !ok {
		// a package-level list that is initialised once with a literal and never written again
		if g, isG := globalLoad(strip(v)); isG {
			if lit, fine, why := constantGlobalSlice(g); fine {
				elems, ok = sliceLitElems(lit)
			} else if why != "" {
				return false, "package variable " + g.Name() + ": " + why
			}
		}
	}
	if !ok {
		return false, "not a slice literal of constants"
	}
	var got []string
	for _, e := range elems {
		s, ok := constString(e)
		if !ok {
			return false, "non-constant element"
		}
		got = append(got, s)
	}
	if len(got) != len(want) {
		return false, fmt.Sprintf("list is {%s}", strings.Join(got, ","))
	}
	for i := range got {
		if got[i] != want[i] {
			return false, fmt.Sprintf("list is {%s}", strings.Join(got, ","))
		}
	}
	return true, "{" + strings.Join(got, ",") + "}"
}

// isLoadOfGlobal: v (possibly converted) is a load of the package variable g.
func isLoadOfGlobal(v ssa.Value, g *ssa.Global) bool {
	gg, ok := globalLoad(strip(v))
	return ok && gg == g
}

// expectedLiteral analyses a jwt.Expected argument: returns the Issuer value and
// whether Time is a time.Now() call made in the same function.
func expectedLiteral(v ssa.Value) (issuer ssa.Value, timeNow bool, fields []string, ok bool) {
	a, isLoad := loadAddr(strip(v))
	if !isLoad {
		return nil, false, nil, false
	}
	al, isAlloc := a.(*ssa.Alloc)
	if !isAlloc {
		return nil, false, nil, false
	}
	st := structFieldStores(al)
	for _, k := range sortedKeys(st) {
		fields = append(fields, k)
	}
	if vs := st["Issuer"]; len(vs) == 1 {
		issuer = vs[0]
	}
	if vs := st["Time"]; len(vs) == 1 {
		if call, isCall := vs[0].(*ssa.Call); isCall && calleeName(call) == "time.Now" {
			timeNow = true
		}
	} else if len(vs) == 0 {
		// go-jose v4: a zero Expected.Time means "validate against time.Now()"
		timeNow = true
	}
	return issuer, timeNow, fields, true
}

// variadicDests returns the allocs whose addresses are passed in a variadic
// ...interface{} argument (slice literal of MakeInterface(alloc)).
func variadicAllocs(v ssa.Value) []*ssa.Alloc {
	elems, ok := sliceLitElems(v)
	if !ok {
		return nil
	}
	var out []*ssa.Alloc
	for _, e := range elems {
		if al, ok := strip(e).(*ssa.Alloc); ok {
			out = append(out, al)
		}
	}
	return out
}

func typeIs(t types.Type, pkgPath, name string) bool {
	if p, ok := t.(*types.Pointer); ok {
		t = p.Elem()
	}
	n, ok := t.(*types.Named)
	if !ok {
		return false
	}
	return n.Obj().Name() == name && n.Obj().Pkg() != nil && n.Obj().Pkg().Path() == pkgPath
}

// durationConstLE checks that v is a constant time.Duration <= maxNanos and > 0.
func durationConstLE(v ssa.Value, maxNanos int64) (int64, bool) {
	n, ok := constInt(v)
	if !ok {
		return 0, false
	}
	return n, n > 0 && n <= maxNanos
}

// expiryShape checks v == jwt.NewNumericDate(time.Now().Add(const d)), d <= max.
func expiryShape(v ssa.Value, maxNanos int64) (bool, string) {
	// Expiry is *NumericDate (possibly produced by a first-party helper such as tokenExpiry())
	if theCtx != nil && v != nil {
		v = theCtx.downValue(v, 0)
	}
	call, ok := strip(v).(*ssa.Call)
	if !ok || calleeName(call) != joseJWT+".NewNumericDate" {
		return false, "expiry is not jwt.NewNumericDate(...)"
	}
	add, ok := arg(call, 0).(*ssa.Call)
	if !ok || calleeName(add) != "(time.Time).Add" {
		return false, "expiry time is not time.Now().Add(d)"
	}
	base := recvOf(add)
	if _, isP := strip(base).(*ssa.Parameter); isP && theCtx != nil {
		// expiresAt(issued time.Time): every caller must hand in time.Now()
		ups := theCtx.upValues(base, 0)
		if len(ups) == 0 {
			return false, "expiry base is a parameter with no resolvable call site"
		}
		for _, u := range ups {
			if uc, isCall := strip(u).(*ssa.Call); !isCall || calleeName(uc) != "time.Now" {
				return false, "expiry base is not time.Now() at every call site of the helper"
			}
		}
	} else {
		now, ok := base.(*ssa.Call)
		if !ok || calleeName(now) != "time.Now" {
			return false, "expiry base is not time.Now()"
		}
	}
	if maxNanos <= 0 {
		// no upper bound claimed: a positive constant, or a configured lifetime
		if n, isC := constInt(arg(add, 0)); isC {
			if n <= 0 {
				return false, "lifetime is not positive"
			}
			return true, fmt.Sprintf("time.Now().Add(%ds)", n/1e9)
		}
		return true, "time.Now().Add(<configured lifetime>)"
	}
	d, ok := durationConstLE(arg(add, 0), maxNanos)
	if !ok {
		return false, fmt.Sprintf("lifetime is not a constant in (0, %ds] (got %d ns)", maxNanos/1e9, d)
	}
	return true, fmt.Sprintf("time.Now().Add(%ds)", d/1e9)
}

// lenGuard: G is "len(<load of g>) >= min".
func lenAtLeast(isX func(ssa.Value) bool, min int64) Guard {
	isLen := func(v ssa.Value) bool {
		call, ok := v.(*ssa.Call)
		if !ok {
			return false
		}
		if b, ok := call.Call.Value.(*ssa.Builtin); !ok || b.Name() != "len" {
			return false
		}
		// (inside a validate-or-die helper the operand is the helper's parameter: the caller's argument)
		return isX(call.Call.Args[0]) || isX(rv(call.Call.Args[0]))
	}
	return GCmp(func(x ssa.Value, op token.Token, y ssa.Value) bool {
		if isLen(x) {
			n, ok := constInt(y)
			if !ok {
				return false
			}
			switch op {
			case token.GEQ:
				return n >= min
			case token.GTR:
				return n >= min-1
			case token.EQL:
				return n >= min
			case token.NEQ:
				return n == 0 && min <= 1
			}
			return false
		}
		if isLen(y) {
			n, ok := constInt(x)
			if !ok {
				return false
			}
			switch op {
			case token.LEQ:
				return n >= min
			case token.LSS:
				return n >= min-1
			case token.EQL:
				return n >= min
			case token.NEQ:
				return n == 0 && min <= 1
			}
		}
		return false
	})
}

// allFirstPartyFuncs lists every first-party SSA function incl. closures and methods.
func (c *Ctx) allFirstPartyFuncs() []*ssa.Function {
	c.P.BuildSSA()
	var out []*ssa.Function
	seen := map[*ssa.Function]bool{}
	var add func(f *ssa.Function)
	add = func(f *ssa.Function) {
		if f == nil || seen[f] || f.Blocks == nil {
			return
		}
		if c.skipGenerated && c.fnInGeneratedFile(f) {
			return
		}
		seen[f] = true
		out = append(out, f)
		for _, a := range f.AnonFuncs {
			add(a)
		}
	}
	for _, pk := range c.P.First {
		sp := c.P.ssaPkg[pk.Types]
		if sp == nil {
			continue
		}
		for _, m := range sp.Members {
			switch x := m.(type) {
			case *ssa.Function:
				add(x)
			case *ssa.Type:
				for _, recv := range []types.Type{x.Type(), types.NewPointer(x.Type())} {
					ms := c.P.SSA.MethodSets.MethodSet(recv)
					for i := 0; i < ms.Len(); i++ {
						fn := c.P.SSA.MethodValue(ms.At(i))
						if fn != nil && fn.Synthetic == "" && IsFirstParty(fn) {
							add(fn)
						}
					}
				}
			}
		}
	}
	return out
}

// fnInGeneratedFile: the function is declared in a file marked "Code generated ... DO NOT EDIT".
func (c *Ctx) fnInGeneratedFile(f *ssa.Function) bool {
	if c.genFiles == nil {
		c.genFiles = map[string]bool{}
		for _, pk := range c.P.First {
			for _, af := range pk.Syntax {
				if isGenerated(af) {
					c.genFiles[c.P.Fset.Position(af.Pos()).Filename] = true
				}
			}
		}
	}
	pos := f.Pos()
	if !pos.IsValid() && f.Parent() != nil {
		pos = f.Parent().Pos()
	}
	if !pos.IsValid() {
		return false
	}
	return c.genFiles[c.P.Fset.Position(pos).Filename]
}

// expectedLiteralR: like expectedLiteral, resolving helper parameters (the literal may be built
// in a helper from an issuer parameter, or passed to a helper).
func (c *Ctx) expectedLiteralR(st stepRef, v ssa.Value) (issuer ssa.Value, timeNow bool, fields []string, ok bool) {
	issuer, timeNow, fields, ok = expectedLiteral(c.upIn(st, v))
	if ok && issuer != nil {
		issuer = c.normIn(st, issuer)
	}
	return
}

// variadicAllocsUp: the locals whose addresses reach a variadic ...interface{} argument, through helper parameters.
func (c *Ctx) variadicAllocsUp(st stepRef, v ssa.Value) []*ssa.Alloc {
	elems, ok := sliceLitElems(v)
	if !ok {
		return nil
	}
	var out []*ssa.Alloc
	for _, e := range elems {
		if al, ok := c.normIn(st, e).(*ssa.Alloc); ok {
			out = append(out, al)
		}
	}
	return out
}

// before: the step (its site in fn) is executed before instruction in (when in lies in fn).
func (c *Ctx) before(fn *ssa.Function, st stepRef, in ssa.Instruction) bool {
	if in.Parent() != fn {
		return true // inside a helper: ordered by the helper's own body (checked there)
	}
	site := st.siteIn()
	if site.Parent() != fn {
		return true
	}
	return dominatesInstr(site, in)
}

// requireStep: exit is reachable only over the success of the step (possibly through its helper).
func (c *Ctx) requireStep(rule, key string, fn *ssa.Function, exit ssa.Instruction, st stepRef, resIdx int, what string) bool {
	ok, why := c.stepGates(fn, exit, st, resIdx)
	if !ok {
		c.Bad(rule, key, exit.Pos(), "%s: accepting exit at %s is not gated by the result of %s at %s: %s", what, c.P.Pos(exit.Pos()), calleeName(st.call), c.P.Pos(st.call.Pos()), why)
		return false
	}
	if site := st.siteIn(); site.Parent() == fn && !dominatesInstr(site, exit) {
		c.Bad(rule, key, exit.Pos(), "%s: %s at %s does not dominate the accepting exit", what, calleeName(st.call), c.P.Pos(st.call.Pos()))
		return false
	}
	via := ""
	if len(st.via) > 0 {
		via = " through helper " + st.call.Parent().Name()
	}
	c.OK(rule, key, st.call.Pos(), "%s: exit %s reachable only over the success edge of %s (%s)%s", what, c.P.Pos(exit.Pos()), calleeName(st.call), c.P.Pos(st.call.Pos()), via)
	return true
}

// constantGlobalSlice: the package variable holds a slice that its package initialiser stores once
// (a literal) and that nothing in the program writes again: no other store to the variable, no
// element store, append or sort through a load of it. Returns the literal stored.
func constantGlobalSlice(g *ssa.Global) (lit ssa.Value, ok bool, why string) {
	if theCtx == nil {
		return nil, false, ""
	}
	var stores []*ssa.Store
	bad := ""
	fns := theCtx.allFirstPartyFuncs()
	if g.Pkg != nil {
		if init := g.Pkg.Func("init"); init != nil {
			fns = append(fns, init)
		}
	}
	seen := map[*ssa.Function]bool{}
	for _, f := range fns {
		if seen[f] {
			continue
		}
		seen[f] = true
		eachInstr(f, func(in ssa.Instruction) {
			switch x := in.(type) {
			case *ssa.Store:
				if x.Addr == ssa.Value(g) {
					stores = append(stores, x)
					if f.Name() != "init" {
						bad = "assigned in " + shortFn(f)
					}
				}
			case *ssa.UnOp:
				if x.X != ssa.Value(g) {
					return
				}
				for _, r := range *x.Referrers() {
					switch u := r.(type) {
					case *ssa.IndexAddr:
						for _, r2 := range *u.Referrers() {
							if _, isSt := r2.(*ssa.Store); isSt {
								bad = "an element is written in " + shortFn(f)
							}
						}
					case *ssa.Slice:
						bad = "resliced in " + shortFn(f)
					case *ssa.Call:
						if bi, isB := u.Call.Value.(*ssa.Builtin); isB && (bi.Name() == "append" || bi.Name() == "copy" || bi.Name() == "clear") && len(u.Call.Args) > 0 && u.Call.Args[0] == ssa.Value(x) {
							bad = bi.Name() + " on it in " + shortFn(f)
						}
						if n := calleeName(u); strings.HasPrefix(n, "sort.") || strings.HasPrefix(n, "slices.Sort") || strings.HasPrefix(n, "slices.Reverse") {
							bad = n + " on it in " + shortFn(f)
						}
					case *ssa.Store:
						if u.Val == ssa.Value(x) {
							bad = "copied into another variable in " + shortFn(f)
						}
					}
				}
			}
		})
	}
	if bad != "" {
		return nil, false, bad
	}
	if len(stores) != 1 {
		return nil, false, fmt.Sprintf("%d initialising stores", len(stores))
	}
	return stores[0].Val, true, ""
}
