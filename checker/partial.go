package main

import (
	"bytes"
	"encoding/json"
	"fmt"
	"go/ast"
	"go/constant"
	"go/token"
	"go/types"
	"os"
	"os/exec"
	"path/filepath"
	"regexp"
	"sort"
	"strconv"
	"strings"

	"golang.org/x/tools/go/ssa"
)

// A8 — partial-operation obligations.
//
// (i) Index and slice expressions the Go compiler's prove pass could NOT show
// in-bounds, obtained by compiling (not running) the current tree with
// -gcflags='-l -d=ssa/check_bce/debug=1'. Every expression the compiler does
// not list is proven safe by the compiler. Each listed site in a function that
// serves requests must be discharged by a recognised guard / library
// post-condition, or it is a violation.

type bceSite struct {
	File string // absolute
	Line int
	Col  int
	Kind string // IsInBounds | IsSliceInBounds
}

var bceRe = regexp.MustCompile(`^(.+\.go):(\d+):(\d+): Found (IsInBounds|IsSliceInBounds)`)

// BCE lists the compiler-unproven bounds checks of the first-party packages.
func (c *Ctx) BCE() ([]bceSite, error) {
	if c.bceDone {
		return c.bce, nil
	}
	c.bceDone = true
	var pkgs []string
	for _, pk := range c.P.First {
		if pk.PkgPath == modPath+"/cmd/auth" {
			continue // package main of the auth service needs cgo (pam); its only code is covered by other rules
		}
		pkgs = append(pkgs, pk.PkgPath)
	}
	args := []string{"build", "-gcflags=-l -d=ssa/check_bce/debug=1"}
	if len(c.P.Overlay) > 0 {
		ov := map[string]map[string]string{"Replace": {}}
		tmp, err := os.MkdirTemp("", "rdpgwlint-ov")
		if err != nil {
			return nil, err
		}
		defer os.RemoveAll(tmp)
		i := 0
		for path, content := range c.P.Overlay {
			f := filepath.Join(tmp, fmt.Sprintf("f%d.go", i))
			i++
			if err := os.WriteFile(f, content, 0o644); err != nil {
				return nil, err
			}
			ov["Replace"][path] = f
		}
		b, _ := json.Marshal(ov)
		of := filepath.Join(tmp, "overlay.json")
		os.WriteFile(of, b, 0o644)
		args = append(args, "-overlay="+of)
	}
	args = append(args, pkgs...)
	cmd := exec.Command("go", args...)
	cmd.Dir = c.P.Repo
	cmd.Env = goEnv()
	var out bytes.Buffer
	cmd.Stdout = &out
	cmd.Stderr = &out
	err := cmd.Run()
	for _, line := range strings.Split(out.String(), "\n") {
		m := bceRe.FindStringSubmatch(strings.TrimSpace(line))
		if m == nil {
			continue
		}
		l, _ := strconv.Atoi(m[2])
		col, _ := strconv.Atoi(m[3])
		f := m[1]
		if !filepath.IsAbs(f) {
			f = filepath.Join(c.P.Repo, f)
		}
		c.bce = append(c.bce, bceSite{File: f, Line: l, Col: col, Kind: m[4]})
	}
	if err != nil && len(c.bce) == 0 {
		return nil, fmt.Errorf("go build for the bounds-check listing failed: %v: %s", err, firstLines(out.String(), 6))
	}
	if err != nil {
		// a compile error in some package: the listing is incomplete
		return c.bce, fmt.Errorf("go build for the bounds-check listing reported errors: %s", firstLines(out.String(), 6))
	}
	sort.Slice(c.bce, func(i, j int) bool {
		a, b := c.bce[i], c.bce[j]
		if a.File != b.File {
			return a.File < b.File
		}
		if a.Line != b.Line {
			return a.Line < b.Line
		}
		return a.Col < b.Col
	})
	return c.bce, nil
}

func firstLines(s string, n int) string {
	ls := strings.Split(s, "\n")
	if len(ls) > n {
		ls = ls[:n]
	}
	return strings.Join(ls, " | ")
}

// partialSite: an unproven index/slice expression located in the SSA program.
type partialSite struct {
	Fn    *ssa.Function
	Instr ssa.Instruction // *ssa.IndexAddr, *ssa.Index, *ssa.Slice, *ssa.Lookup
	Expr  string          // source text of the expression (normalised)
	Pos   token.Pos
	Kind  string
}

func (s partialSite) Key() string { return shortFn(s.Fn) + " " + s.Expr }

// AltKey: the key of the same expression attributed to the one function all static calls of
// s.Fn come from (a slicing helper extracted from it), or "".
func (s partialSite) AltKey(c *Ctx) string {
	sites, ok := c.staticCallers(s.Fn)
	if !ok || len(sites) == 0 {
		return ""
	}
	owner := sites[0].Parent()
	for _, cs := range sites {
		if cs.Parent() != owner {
			return ""
		}
	}
	return shortFn(owner) + " " + s.Expr
}

func isGenerated(f *ast.File) bool {
	for _, cg := range f.Comments {
		for _, cm := range cg.List {
			if strings.Contains(cm.Text, "Code generated") && strings.Contains(cm.Text, "DO NOT EDIT") {
				return true
			}
		}
		break
	}
	return false
}

// unprovenSites maps the compiler listing to SSA instructions of first-party,
// non-generated code.
func (c *Ctx) unprovenSites() ([]partialSite, error) {
	sites, err := c.BCE()
	if err != nil {
		return nil, err
	}
	c.P.BuildSSA()
	// position -> site
	want := map[string]bceSite{}
	for _, s := range sites {
		want[fmt.Sprintf("%s:%d:%d", s.File, s.Line, s.Col)] = s
	}
	posKey := func(p token.Pos) string {
		ps := c.P.Fset.Position(p)
		return fmt.Sprintf("%s:%d:%d", ps.Filename, ps.Line, ps.Column)
	}
	// expression text by Lbrack position
	exprAt := map[string]string{}
	gen := map[string]bool{}
	for _, pk := range c.P.First {
		for _, f := range pk.Syntax {
			fname := c.P.Fset.Position(f.Pos()).Filename
			if isGenerated(f) {
				gen[fname] = true
				continue
			}
			info := pk.TypesInfo
			// expression text with named integer constants shown by value, so that introducing a
			// name for a literal does not change the obligation key
			render := func(e ast.Expr) string {
				txt := types.ExprString(e)
				ast.Inspect(e, func(n ast.Node) bool {
					id, ok := n.(*ast.Ident)
					if !ok || info == nil {
						return true
					}
					if k, ok := info.Uses[id].(*types.Const); ok && k.Val().Kind() == constant.Int {
						txt = regexp.MustCompile(`\b`+regexp.QuoteMeta(id.Name)+`\b`).ReplaceAllString(txt, k.Val().ExactString())
					}
					return true
				})
				return txt
			}
			ast.Inspect(f, func(n ast.Node) bool {
				switch x := n.(type) {
				case *ast.IndexExpr:
					exprAt[posKey(x.Lbrack)] = render(x)
				case *ast.SliceExpr:
					exprAt[posKey(x.Lbrack)] = render(x)
				}
				return true
			})
		}
	}
	found := map[string]bool{}
	var out []partialSite
	for _, fn := range c.allFirstPartyFuncs() {
		eachInstr(fn, func(in ssa.Instruction) {
			switch in.(type) {
			case *ssa.IndexAddr, *ssa.Index, *ssa.Slice:
			default:
				return
			}
			k := posKey(in.Pos())
			s, ok := want[k]
			if !ok || found[k] {
				return
			}
			found[k] = true
			out = append(out, partialSite{Fn: fn, Instr: in, Expr: exprAt[k], Pos: in.Pos(), Kind: s.Kind})
		})
	}
	for k, s := range want {
		if found[k] || gen[s.File] {
			continue
		}
		// listed by the compiler but not located in SSA (e.g. inside a string conversion loop): keep as unlocated
		c.Note("compiler-unproven bounds check at %s not mapped to an SSA instruction (%s)", k, s.Kind)
		c.Stat("bce_unmapped", 1)
	}
	sort.Slice(out, func(i, j int) bool { return out[i].Key() < out[j].Key() })
	return out, nil
}

// ---------------------------------------------------------------------------
// discharge

// sliceOperand / index operands of a site
func siteOperands(in ssa.Instruction) (x ssa.Value, idx []ssa.Value) {
	switch v := in.(type) {
	case *ssa.IndexAddr:
		return v.X, []ssa.Value{v.Index}
	case *ssa.Index:
		return v.X, []ssa.Value{v.Index}
	case *ssa.Slice:
		var is []ssa.Value
		for _, i := range []ssa.Value{v.Low, v.High, v.Max} {
			if i != nil {
				is = append(is, i)
			}
		}
		return v.X, is
	}
	return nil, nil
}

// atLeastOneElement: library post-conditions giving len(x) >= 1.
func atLeastOneElement(c *Ctx, fn *ssa.Function, at ssa.Instruction, x ssa.Value) (bool, string) {
	x = strip(x)
	if call, ok := x.(*ssa.Call); ok {
		switch calleeName(call) {
		case "strings.Split", "strings.SplitN", "strings.SplitAfter":
			if n := arg(call, 2); calleeName(call) == "strings.SplitN" && n != nil {
				if k, ok := constInt(n); !ok || k == 0 {
					return false, ""
				}
			}
			if sep, ok := constString(arg(call, 1)); ok && sep != "" {
				return true, calleeName(call) + " with a non-empty separator returns at least one element"
			}
		case "unicode/utf16.Decode":
			// one rune per code unit at least for a non-empty input
			if n, ok := constSliceLen(strip(arg(call, 0))); ok && n >= 1 {
				return true, "utf16.Decode of a non-empty slice yields at least one rune"
			}
			if ms, ok := strip(arg(call, 0)).(*ssa.MakeSlice); ok {
				if n, ok := constInt(ms.Len); ok && n >= 1 {
					return true, "utf16.Decode of a non-empty slice yields at least one rune"
				}
			}
		}
	}
	// url.Values[k] with the comma-ok result tested true: ParseQuery only creates non-empty entries
	if ex, ok := x.(*ssa.Extract); ok && ex.Index == 0 {
		if lk, ok := ex.Tuple.(*ssa.Lookup); ok && lk.CommaOk {
			if typeIs(lk.X.Type(), "net/url", "Values") {
				var okv ssa.Value
				for _, r := range *lk.Referrers() {
					if e2, ok := r.(*ssa.Extract); ok && e2.Index == 1 {
						okv = e2
					}
				}
				if okv != nil {
					if pass, _ := mustPass(fn, at, GTrue(isVal(okv))); pass {
						return true, "url.Values entry tested present (ParseQuery never stores an empty list)"
					}
				}
			}
		}
	}
	return false, ""
}

// dischargeBounds tries to show the site in-bounds from guards and post-conditions.
func dischargeBounds(c *Ctx, s partialSite) (bool, string) {
	x, idx := siteOperands(s.Instr)
	if x == nil {
		return false, ""
	}
	fn := s.Fn
	// constant index 0 (or low bound only) on a container with >= 1 element
	if len(idx) == 1 {
		if k, ok := constInt(idx[0]); ok && k == 0 {
			if _, isSlice := s.Instr.(*ssa.Slice); !isSlice {
				if ok, how := atLeastOneElement(c, fn, s.Instr, x); ok {
					return true, how
				}
			}
		}
	}
	// x[len(x)-1] on a container with >= 1 element
	if len(idx) == 1 {
		if bo, ok := strip(idx[0]).(*ssa.BinOp); ok && bo.Op == token.SUB {
			if k, ok := constInt(bo.Y); ok && k == 1 && isLenOf(bo.X, x) {
				if _, isSlice := s.Instr.(*ssa.Slice); !isSlice {
					if ok, how := atLeastOneElement(c, fn, s.Instr, x); ok {
						return true, "index len(x)-1; " + how
					}
				}
			}
		}
	}
	// constant bounds on a slice allocated in this function with make([]T, C + nonneg): every
	// constant index is within the first C elements
	if ms, ok := strip(unspill(x)).(*ssa.MakeSlice); ok && len(idx) > 0 {
		if cmin, ok := minMakeLen(ms.Len); ok {
			all := true
			_, isSlice := s.Instr.(*ssa.Slice)
			for _, iv := range idx {
				k, isC := constInt(iv)
				if !isC || k < 0 || (isSlice && k > cmin) || (!isSlice && k >= cmin) {
					all = false
				}
			}
			if all {
				return true, fmt.Sprintf("constant bounds within a make([]T, %d + non-negative) of this function", cmin)
			}
		}
	}
	// constant bounds on a slice whose minimum length is known by construction: the parameter of an
	// unexported helper (at least what every caller hands it), a window x[:K+n] with n a count
	if _, isMake := strip(unspill(x)).(*ssa.MakeSlice); !isMake && len(idx) > 0 {
		if cmin, ok := knownMinLen(x, 0); ok {
			all := true
			_, isSlice := s.Instr.(*ssa.Slice)
			for _, iv := range idx {
				k, isC := constInt(iv)
				if !isC || k < 0 || (isSlice && k > cmin) || (!isSlice && k >= cmin) {
					all = false
				}
			}
			if all {
				return true, fmt.Sprintf("constant bounds within a slice of at least %d elements by construction (callers' arguments / a window x[:K+n])", cmin)
			}
		}
	}
	// buf[lo:k+n] with n the count returned by Read(buf[k:]): 0 <= n <= len(buf)-k
	if sl, ok := s.Instr.(*ssa.Slice); ok && sl.High != nil && sl.Max == nil {
		if how, ok := offsetCountBounded(sl); ok {
			return true, how
		}
	}
	// s[k:] after strings.HasPrefix(s, const) with len(const) >= k
	if sl, ok := s.Instr.(*ssa.Slice); ok && sl.Low != nil && sl.High == nil {
		if k, ok := constInt(sl.Low); ok {
			g := GTrue(func(v ssa.Value) bool {
				call, ok := v.(*ssa.Call)
				if !ok || calleeName(call) != "strings.HasPrefix" || arg(call, 0) != sl.X {
					return false
				}
				p, ok := constString(arg(call, 1))
				return ok && int64(len(p)) >= k
			})
			if pass, _ := mustPass(fn, sl, g); pass {
				return true, fmt.Sprintf("guarded by strings.HasPrefix(s, prefix) with len(prefix) >= %d", k)
			}
		}
	}
	// buf[:n] with n the count returned by Read/copy/EncodeRune on the same buf
	if sl, ok := s.Instr.(*ssa.Slice); ok && sl.High != nil && sl.Low == nil {
		if how, ok := countBoundedBy(sl.High, sl.X); ok {
			return true, how
		}
		// pkt[:size] with (size, pkt, err) = Transport.ReadPacket(): contract n <= len(p), checked on both implementations (C08/transport-contract)
		if exN, ok := strip(sl.High).(*ssa.Extract); ok && exN.Index == 0 {
			if exP, ok := strip(sl.X).(*ssa.Extract); ok && exP.Index == 1 && exP.Tuple == exN.Tuple {
				if call, ok := exN.Tuple.(*ssa.Call); ok && call.Call.IsInvoke() && call.Call.Method.Name() == "ReadPacket" {
					if ok2, why := transportContractHolds(c); ok2 {
						return true, "Transport.ReadPacket contract n <= len(p) (checked on both implementations)"
					} else {
						return false, "Transport.ReadPacket contract n <= len(p) does not hold: " + why
					}
				}
			}
		}
	}
	// x[i] with i := slices.Index(x, ...) / slices.IndexFunc(x, ...) behind i >= 0 (or i != -1)
	if len(idx) == 1 {
		if call, ok := strip(idx[0]).(*ssa.Call); ok {
			f := call.Call.StaticCallee()
			if f != nil && f.Origin() != nil {
				f = f.Origin()
			}
			if f != nil && f.Pkg != nil && f.Pkg.Pkg.Path() == "slices" && strings.HasPrefix(f.Name(), "Index") && len(call.Call.Args) > 0 && sameLoc(call.Call.Args[0], x) {
				isI := func(v ssa.Value) bool { return strip(v) == ssa.Value(call) }
				g := GCmp(func(a ssa.Value, op token.Token, b ssa.Value) bool {
					if isI(a) {
						k, ok := constInt(b)
						return ok && (op == token.GEQ && k == 0 || op == token.GTR && k == -1 || op == token.NEQ && k == -1)
					}
					if isI(b) {
						k, ok := constInt(a)
						return ok && (op == token.LEQ && k == 0 || op == token.LSS && k == -1 || op == token.NEQ && k == -1)
					}
					return false
				})
				if pass, _ := mustPass(fn, s.Instr, g); pass {
					return true, "index returned by slices." + f.Name() + " on the same slice, behind a test that it is not -1"
				}
			}
		}
	}
	// x[rand.Intn(len(x))]
	if len(idx) == 1 {
		if call, ok := strip(idx[0]).(*ssa.Call); ok && (strings.HasSuffix(calleeName(call), ".Intn") || strings.HasSuffix(calleeName(call), ".IntN")) {
			if ln, ok := strip(arg(call, 0)).(*ssa.Call); ok {
				if b, ok := ln.Call.Value.(*ssa.Builtin); ok && b.Name() == "len" && sameLoc(ln.Call.Args[0], x) {
					return true, "index is rand.Intn(len(x)) of the same x (x non-empty: NewHandler refuses an empty host list)"
				}
			}
		}
	}
	// an index helper (unit(b, i) = b[i] | b[i+1]<<8): discharged when every static call site
	// satisfies a reason-table condition for the corresponding arguments
	if len(idx) == 1 {
		if xp, ok := x.(*ssa.Parameter); ok {
			iv := idx[0]
			plus := false
			if bo, ok := iv.(*ssa.BinOp); ok && bo.Op == token.ADD {
				if k, ok := constInt(bo.Y); ok && k == 1 {
					iv, plus = bo.X, true
				}
			}
			if ip, ok := iv.(*ssa.Parameter); ok {
				if sites, okc := c.staticCallers(fn); okc && len(sites) > 0 {
					xi, ii := -1, -1
					for i, q := range fn.Params {
						if q == xp {
							xi = i
						}
						if q == ip {
							ii = i
						}
					}
					all := xi >= 0 && ii >= 0
					why := ""
					for _, cs := range sites {
						if !all {
							break
						}
						caller := cs.Parent()
						ok := false
						for _, e := range partialReasons {
							if e.fn == shortFn(caller) && e.expr == "" {
								var civ ssa.Value = cs.Common().Args[ii]
								_ = plus // i and i+1 are both covered by the even-length argument
								if good, w := evenLengthLoopAt(caller, cs.(ssa.Instruction), cs.Common().Args[xi], civ); good {
									ok = true
								} else {
									why = w
								}
							}
						}
						if !ok {
							all = false
						}
					}
					if all {
						return true, "index helper: at every call site " + partialReasons[0].reason
					}
					_ = why
				}
			}
		}
	}
	// x[i+k] behind a test that i+k2 < len(x) with k <= k2, i non-negative (a loop counter from 0)
	if len(idx) == 1 {
		if _, isSlice := s.Instr.(*ssa.Slice); !isSlice {
			if how, ok := indexUnderLenGuard(fn, s.Instr, x, idx[0]); ok {
				return true, how
			}
		}
	}
	// x[lo : K+n (: K+n)] behind a test that len(x)-K2 >= n (K2 >= K >= lo, all arithmetic in int)
	if sl, ok := s.Instr.(*ssa.Slice); ok && sl.High != nil {
		if how, ok := offsetSliceUnderGuard(fn, sl); ok {
			return true, how
		}
	}
	// x[:n] behind a test that len(x) >= n, n not negative (an unsigned field widened to int, or zero)
	if sl, ok := s.Instr.(*ssa.Slice); ok && sl.High != nil && sl.Low == nil && sl.Max == nil {
		if how, ok := prefixUnderLenGuard(fn, sl); ok {
			return true, how
		}
	}
	// x[:len(x)-k] behind strings/bytes.HasSuffix(x, const) with len(const) >= k, or behind len(x) >= k
	if sl, ok := s.Instr.(*ssa.Slice); ok && sl.High != nil && sl.Low == nil && sl.Max == nil {
		if bo, ok := strip(sl.High).(*ssa.BinOp); ok && bo.Op == token.SUB && isLenOf(bo.X, sl.X) {
			if k, ok := constInt(bo.Y); ok && k >= 0 {
				g := GTrue(func(v ssa.Value) bool {
					call, ok := v.(*ssa.Call)
					if !ok || (calleeName(call) != "strings.HasSuffix" && calleeName(call) != "bytes.HasSuffix") || !sameLoc(arg(call, 0), sl.X) {
						return false
					}
					if p, ok := constString(arg(call, 1)); ok {
						return int64(len(p)) >= k
					}
					if cv, ok := strip(arg(call, 1)).(*ssa.Convert); ok {
						if p, ok := constString(cv.X); ok {
							return int64(len(p)) >= k
						}
					}
					return false
				})
				if pass, _ := mustPass(fn, sl, g); pass {
					return true, fmt.Sprintf("guarded by HasSuffix(x, suffix) with len(suffix) >= %d", k)
				}
				if pass, _ := mustPass(fn, sl, lenAtLeast(func(v ssa.Value) bool { return sameLoc(v, sl.X) }, k)); pass {
					return true, fmt.Sprintf("guarded by len(x) >= %d", k)
				}
			}
		}
	}
	// frozen reason table
	for _, e := range partialReasons {
		if e.fn == shortFn(fn) && (e.expr == "" || e.expr == s.Expr) {
			if ok, why := e.requires(c, s); ok {
				return true, e.reason
			} else {
				return false, "reason-table entry no longer applies: " + why
			}
		}
	}
	return false, ""
}

// countBoundedBy: n is the count returned by an operation that filled / measured buf.
func countBoundedBy(n, buf ssa.Value) (string, bool) {
	n = strip(n)
	if phi, ok := n.(*ssa.Phi); ok {
		// loop-carried count: every incoming value is 0 or itself a bounded count
		how := ""
		seen := map[ssa.Value]bool{phi: true}
		var all func(v ssa.Value) bool
		all = func(v ssa.Value) bool {
			v = strip(v)
			if seen[v] {
				return true
			}
			seen[v] = true
			if k, ok := constInt(v); ok {
				return k == 0
			}
			if p2, ok := v.(*ssa.Phi); ok {
				for _, e := range p2.Edges {
					if !all(e) {
						return false
					}
				}
				return true
			}
			h, ok := countBoundedBy(v, buf)
			if ok {
				how = h
			}
			return ok
		}
		for _, e := range phi.Edges {
			if !all(e) {
				return "", false
			}
		}
		if how == "" {
			how = "always 0"
		}
		return "loop-carried count, each definition 0 or: " + how, true
	}
	var call *ssa.Call
	idx := 0
	switch v := n.(type) {
	case *ssa.Extract:
		call, _ = v.Tuple.(*ssa.Call)
		idx = v.Index
	case *ssa.Call:
		call = v
	}
	if call == nil || idx != 0 {
		return "", false
	}
	if b, ok := call.Call.Value.(*ssa.Builtin); ok && b.Name() == "copy" {
		if sameBuf(call.Call.Args[0], buf) {
			return "copy(dst, src) returns n <= len(dst)", true
		}
		return "", false
	}
	name := calleeName(call)
	switch {
	case call.Call.IsInvoke() && call.Call.Method.Name() == "Read" && len(call.Call.Args) == 1 && sameBuf(call.Call.Args[0], buf):
		return "io.Reader contract: Read(p) returns 0 <= n <= len(p)", true
	case name == "unicode/utf8.EncodeRune" && sameBuf(arg(call, 0), buf):
		return "utf8.EncodeRune(p, r) returns n <= 4 <= len(p)", true
	}
	return "", false
}

func sameBuf(a, b ssa.Value) bool {
	a, b = strip(a), strip(b)
	if a == b {
		return true
	}
	// the same field of the same object, read twice in one function with no store to it in between
	// (t.scratch handed to Read, then t.scratch[:n]): the same buffer
	if sameFieldUnchanged(a, b) {
		return true
	}
	if sa, ok := a.(*ssa.Slice); ok && sa.Low == nil && sameFieldUnchanged(strip(sa.X), b) {
		return true
	}
	if sb, ok := b.(*ssa.Slice); ok && sb.Low == nil && sameFieldUnchanged(a, strip(sb.X)) {
		return true
	}
	// a lazily allocated buffer (var buf []byte; if buf == nil { buf = make(...) }): every version of
	// the variable is nil-before-the-loop or the one allocation
	if la, oka := lazyBuffer(a); oka {
		if lb, okb := lazyBuffer(b); okb && la == lb {
			return true
		}
	}
	// both are whole-slices of the same array allocation: make([]T, const)
	sa, ok1 := a.(*ssa.Slice)
	sb, ok2 := b.(*ssa.Slice)
	if ok1 && ok2 && sa.X == sb.X && sa.Low == nil && sb.Low == nil {
		return true
	}
	if ok1 && sa.Low == nil && sa.X == b {
		return true
	}
	return false
}

type reasonEntry struct {
	fn, expr string
	reason   string
	requires func(c *Ctx, s partialSite) (bool, string)
}

// partialReasons: one named function + construct per entry, with a machine-checked condition.
var partialReasons = []reasonEntry{
	// matched by function and by the structural condition (not by the spelling of the index)
	{"cmd/rdpgw/protocol.DecodeUTF16", "", "index i or i+1 with i < len(b), step 2, over an even-length slice (odd lengths return before the loop)", requiresEvenLengthLoop},
}

// requiresEvenLengthLoop: the function returns when len(b)%2 != 0 before any indexing,
// and the index is the loop variable bounded by len(b) with step 2.
func requiresEvenLengthLoop(c *Ctx, s partialSite) (bool, string) {
	x, idx := siteOperands(s.Instr)
	if len(idx) == 2 {
		// b[i:i+2]: in bounds exactly when b[i+1] is
		if hb, ok := idx[1].(*ssa.BinOp); ok && hb.Op == token.ADD && hb.X == idx[0] {
			if k, ok := constInt(hb.Y); ok && k == 2 {
				return evenLengthLoopAt(s.Fn, s.Instr, x, idx[0])
			}
		}
		return false, "slice bounds are not [i : i+2]"
	}
	if len(idx) != 1 {
		return false, "not an index expression"
	}
	return evenLengthLoopAt(s.Fn, s.Instr, x, idx[0])
}

// evenLengthLoopAt: at instruction `at` of fn, x[iv] (iv = i or i+1) is in bounds because fn returns
// when len(x)%2 != 0 before the loop and i is the loop variable 0, 2, 4, ... < len(x); x must be
// fn's first parameter.
func evenLengthLoopAt(fn *ssa.Function, at ssa.Instruction, x ssa.Value, iv ssa.Value) (bool, string) {
	if len(fn.Params) == 0 {
		return false, "no parameter"
	}
	b := fn.Params[0]
	s := struct{ Instr ssa.Instruction }{at}
	isLenMod2 := func(v ssa.Value) bool {
		bo, ok := v.(*ssa.BinOp)
		if !ok || bo.Op != token.REM {
			return false
		}
		k, ok := constInt(bo.Y)
		if !ok || k != 2 {
			return false
		}
		ln, ok := bo.X.(*ssa.Call)
		if !ok {
			return false
		}
		bi, ok := ln.Call.Value.(*ssa.Builtin)
		return ok && bi.Name() == "len" && ln.Call.Args[0] == ssa.Value(b)
	}
	g := GEq(isLenMod2, func(v ssa.Value) bool { k, ok := constInt(v); return ok && k == 0 })
	if ok, why := mustPass(fn, s.Instr, g); !ok {
		return false, "indexing is " + why + " of len(b)%2 == 0"
	}
	// the loop: i = phi(0, i+2), guarded by i < len(b)
	if x != ssa.Value(b) {
		return false, "not an index into the parameter"
	}
	if bo, ok := iv.(*ssa.BinOp); ok && bo.Op == token.ADD {
		if k, ok := constInt(bo.Y); ok && k == 1 {
			iv = bo.X
		}
	}
	phi, ok := iv.(*ssa.Phi)
	if !ok || len(phi.Edges) != 2 {
		return false, "index is not the loop variable"
	}
	stepOK, initOK := false, false
	for _, e := range phi.Edges {
		if k, ok := constInt(e); ok && k == 0 {
			initOK = true
		}
		if bo, ok := e.(*ssa.BinOp); ok && bo.Op == token.ADD && bo.X == ssa.Value(phi) {
			if k, ok := constInt(bo.Y); ok && k == 2 {
				stepOK = true
			}
		}
	}
	if !initOK || !stepOK {
		return false, "loop is not i := 0; ...; i += 2"
	}
	lt := GCmp(func(x ssa.Value, op token.Token, y ssa.Value) bool {
		if x != ssa.Value(phi) || op != token.LSS {
			return false
		}
		// y is len(b) (possibly through a local)
		for _, o := range origins(y) {
			if o.Kind == "call" {
				if bi, ok := o.Call.Common().Value.(*ssa.Builtin); ok && bi.Name() == "len" && o.Call.Common().Args[0] == ssa.Value(b) {
					continue
				}
			}
			return false
		}
		return true
	})
	if ok, why := mustPass(fn, s.Instr, lt); !ok {
		return false, "indexing is " + why + " of i < len(b)"
	}
	return true, ""
}

// transportContractHolds: both ReadPacket implementations return n <= len(p) on every return.
func transportContractHolds(c *Ctx) (bool, string) {
	for _, name := range []string{"LegacyPKT.ReadPacket", "WSPKT.ReadPacket"} {
		fn := c.FnOpt("cmd/rdpgw/transport", name)
		if fn == nil {
			return false, name + " not found"
		}
		for _, r := range returnsOf(fn) {
			n, p := unspill(r.Results[0]), unspill(r.Results[1])
			ok := false
			switch {
			case isLenOf(n, p):
				ok = true
			case func() bool { k, isC := constInt(n); return isC && k == 0 }():
				ok = true
			case func() bool {
				// p = buf[:n]
				sl, isSl := strip(p).(*ssa.Slice)
				return isSl && sl.Low == nil && sl.High != nil && (sl.High == n || unspill(sl.High) == n) // also buf[:n:max]: the length is n
			}():
				ok = true
			case func() bool {
				// p = make([]byte, n)
				if l, isMk := sliceLenValue(strip(p)); isMk && (l == n || unspill(l) == n) {
					return true
				}
				return false
			}():
				ok = true
			}
			if !ok {
				return false, fmt.Sprintf("%s returns a count that is not len(p), 0, or the length p was made with (%s)", name, c.P.Pos(r.Pos()))
			}
		}
	}
	return true, ""
}

func isLenOf(n, p ssa.Value) bool {
	call, ok := strip(n).(*ssa.Call)
	if !ok {
		return false
	}
	b, ok := call.Call.Value.(*ssa.Builtin)
	return ok && b.Name() == "len" && (call.Call.Args[0] == p || strip(call.Call.Args[0]) == strip(p))
}

// minMakeLen: the allocation length is C, or C + (something non-negative: a len(), a Read count);
// returns C.
func minMakeLen(l ssa.Value) (int64, bool) {
	l = strip(l)
	if k, ok := constInt(l); ok {
		return k, true
	}
	bo, ok := l.(*ssa.BinOp)
	if !ok || bo.Op != token.ADD {
		return 0, false
	}
	nonneg := func(v ssa.Value) bool {
		v = strip(v)
		if call, ok := v.(*ssa.Call); ok {
			if b, ok := call.Call.Value.(*ssa.Builtin); ok && b.Name() == "len" {
				return true
			}
		}
		return false
	}
	if k, ok := constInt(bo.X); ok && nonneg(bo.Y) {
		return k, true
	}
	if k, ok := constInt(bo.Y); ok && nonneg(bo.X) {
		return k, true
	}
	return 0, false
}

// offsetCountBounded: the site is buf[lo:k2+n] where n is the count returned by r.Read(buf[k1:])
// on the same buf with constants lo <= k2 <= k1: the io.Reader contract gives 0 <= n <= len(buf)-k1,
// so lo <= k2+n <= len(buf).
func offsetCountBounded(sl *ssa.Slice) (string, bool) {
	bo, ok := strip(sl.High).(*ssa.BinOp)
	if !ok || bo.Op != token.ADD {
		return "", false
	}
	var n ssa.Value
	var k2 int64
	if k, ok := constInt(bo.X); ok {
		k2, n = k, bo.Y
	} else if k, ok := constInt(bo.Y); ok {
		k2, n = k, bo.X
	} else {
		return "", false
	}
	lo := int64(0)
	if sl.Low != nil {
		k, ok := constInt(sl.Low)
		if !ok {
			return "", false
		}
		lo = k
	}
	ex, ok := strip(n).(*ssa.Extract)
	if !ok || ex.Index != 0 {
		return "", false
	}
	call, ok := ex.Tuple.(*ssa.Call)
	if !ok || !call.Call.IsInvoke() || call.Call.Method.Name() != "Read" || len(call.Call.Args) != 1 {
		return "", false
	}
	win, ok := strip(call.Call.Args[0]).(*ssa.Slice)
	if !ok || win.High != nil || win.Low == nil || !sameBuf(win.X, sl.X) && win.X != sl.X {
		return "", false
	}
	k1, ok := constInt(win.Low)
	if !ok || lo > k2 || k2 > k1 || lo < 0 {
		return "", false
	}
	return fmt.Sprintf("io.Reader contract: Read(buf[%d:]) returns 0 <= n <= len(buf)-%d, so buf[%d:%d+n] is within buf", k1, k1, lo, k2), true
}

// lazyBuffer: v is a version (phi) of a variable whose only values are nil, entering from outside
// any loop, and one allocation; returns that allocation. Once the variable holds the allocation it
// keeps it, so two versions are the same buffer whenever both are non-nil.
func lazyBuffer(v ssa.Value) (ssa.Value, bool) {
	phi, ok := v.(*ssa.Phi)
	if !ok {
		return nil, false
	}
	var alloc ssa.Value
	seen := map[*ssa.Phi]bool{}
	var walk func(p *ssa.Phi) bool
	walk = func(p *ssa.Phi) bool {
		if seen[p] {
			return true
		}
		seen[p] = true
		for i, e := range p.Edges {
			switch x := strip(e).(type) {
			case *ssa.Phi:
				if !walk(x) {
					return false
				}
			case *ssa.Const:
				if !x.IsNil() || inCycle(p.Block().Preds[i]) {
					return false // reset to nil inside the loop: a later version may be nil again
				}
			default:
				if _, isFixed := fixedLenNoPhi(x); !isFixed {
					return false
				}
				if alloc != nil && alloc != ssa.Value(x) {
					return false
				}
				alloc = x
			}
		}
		return true
	}
	if !walk(phi) || alloc == nil {
		return nil, false
	}
	return alloc, true
}

// offsetSliceUnderGuard: the site is x[lo:K+n] (or x[lo:K+n:K+n]) with constants lo <= K and an int
// n, and every path to it crosses a branch establishing len(x)-K2 >= n, or len(x) >= K2+n, with
// K2 >= K — so K+n <= len(x). n must be non-negative by type (a conversion of an unsigned value) and
// the sum must be computed in int (no narrow wrap-around).
func offsetSliceUnderGuard(fn *ssa.Function, sl *ssa.Slice) (string, bool) {
	if sl.Max != nil && sl.Max != sl.High {
		return "", false
	}
	isInt := func(v ssa.Value) bool {
		bt, ok := v.Type().Underlying().(*types.Basic)
		return ok && bt.Kind() == types.Int
	}
	splitSum := func(v ssa.Value) (k int64, n ssa.Value, ok bool) {
		bo, isBo := strip(v).(*ssa.BinOp)
		if !isBo || bo.Op != token.ADD || !isInt(bo) {
			return 0, nil, false
		}
		if kk, isC := constInt(bo.X); isC {
			return kk, bo.Y, true
		}
		if kk, isC := constInt(bo.Y); isC {
			return kk, bo.X, true
		}
		return 0, nil, false
	}
	K, n, ok := splitSum(sl.High)
	if !ok || K < 0 {
		return "", false
	}
	lo := int64(0)
	if sl.Low != nil {
		k, isC := constInt(sl.Low)
		if !isC {
			return "", false
		}
		lo = k
	}
	if lo > K || lo < 0 {
		return "", false
	}
	// n >= 0: an int converted from an unsigned narrower type
	nonNeg := false
	for _, cand := range []ssa.Value{n, unspill(n), strip(n)} {
		if cv, isCv := cand.(*ssa.Convert); isCv {
			if bt, isB := cv.X.Type().Underlying().(*types.Basic); isB && bt.Info()&types.IsUnsigned != 0 {
				nonNeg = true
			}
		} else if bt, isB := cand.Type().Underlying().(*types.Basic); isB && bt.Info()&types.IsUnsigned != 0 {
			nonNeg = true // (conversion already peeled: the value itself is unsigned)
		}
	}
	if !nonNeg {
		return "", false
	}
	sameN := func(v ssa.Value) bool { return strip(v) == strip(n) || v == n }
	g := GCmp(func(a ssa.Value, op token.Token, b ssa.Value) bool {
		// len(x)-K2 >= n   /  n <= len(x)-K2
		lenMinus := func(v ssa.Value) (int64, bool) {
			bo, isBo := strip(v).(*ssa.BinOp)
			if !isBo || bo.Op != token.SUB || !isLenOf(bo.X, sl.X) {
				return 0, false
			}
			return constInt(bo.Y)
		}
		if k2, ok := lenMinus(a); ok && sameN(b) && k2 >= K {
			return op == token.GEQ
		}
		if k2, ok := lenMinus(b); ok && sameN(a) && k2 >= K {
			return op == token.LEQ
		}
		// len(x) >= K2+n  /  K2+n <= len(x)
		if isLenOf(a, sl.X) {
			if k2, n2, ok := splitSum(b); ok && sameN(n2) && k2 >= K {
				return op == token.GEQ
			}
		}
		if isLenOf(b, sl.X) {
			if k2, n2, ok := splitSum(a); ok && sameN(n2) && k2 >= K {
				return op == token.LEQ
			}
		}
		return false
	})
	if pass, _ := mustPass(fn, sl, g); pass {
		return fmt.Sprintf("behind a test that len(x)-%d >= n for the window x[%d:%d+n]", K, lo, K), true
	}
	return "", false
}

// splitConstAdd: v = base + k with a constant k >= 0 (k = 0 when v is not such a sum).
func splitConstAdd(v ssa.Value) (base ssa.Value, k int64) {
	if bo, ok := v.(*ssa.BinOp); ok && bo.Op == token.ADD {
		if kk, isC := constInt(bo.Y); isC && kk >= 0 {
			return bo.X, kk
		}
		if kk, isC := constInt(bo.X); isC && kk >= 0 {
			return bo.Y, kk
		}
	}
	return v, 0
}

// nonNegCounter: v is a constant >= 0, or a loop counter that starts at a constant >= 0 and only
// grows by positive constants.
func nonNegCounter(v ssa.Value, seen map[ssa.Value]bool) bool {
	if seen[v] {
		return true
	}
	seen[v] = true
	if k, ok := constInt(v); ok {
		return k >= 0
	}
	switch x := v.(type) {
	case *ssa.Phi:
		for _, e := range x.Edges {
			if !nonNegCounter(e, seen) {
				return false
			}
		}
		return true
	case *ssa.BinOp:
		if x.Op == token.ADD {
			b, k := splitConstAdd(x)
			return k >= 0 && b != ssa.Value(x) && nonNegCounter(b, seen)
		}
	}
	return false
}

// indexUnderLenGuard: x[i+k] is reached only over a branch establishing i+k2 < len(x) with k <= k2,
// and i is a non-negative counter.
func indexUnderLenGuard(fn *ssa.Function, at ssa.Instruction, x, idx ssa.Value) (string, bool) {
	ib, ik := splitConstAdd(idx)
	if !nonNegCounter(ib, map[ssa.Value]bool{}) {
		return "", false
	}
	g := GCmp(func(a ssa.Value, op token.Token, b ssa.Value) bool {
		if isLenOf(b, x) {
			gb, gk := splitConstAdd(a)
			if gb == ib && gk >= ik {
				return op == token.LSS
			}
		}
		if isLenOf(a, x) {
			gb, gk := splitConstAdd(b)
			if gb == ib && gk >= ik {
				return op == token.GTR
			}
		}
		return false
	})
	if pass, _ := mustPass(fn, at, g); pass {
		return fmt.Sprintf("index i+%d behind a test that i+k < len(x) with k >= %d, i a non-negative counter", ik, ik), true
	}
	return "", false
}

// sameFieldUnchanged: a and b are loads of the same field of the same object in one function, a
// dominates b, and no store to that field (through any base) lies on a path between them.
func sameFieldUnchanged(a, b ssa.Value) bool {
	la, ok1 := a.(*ssa.UnOp)
	lb, ok2 := b.(*ssa.UnOp)
	if !ok1 || !ok2 || la.Op != token.MUL || lb.Op != token.MUL {
		return false
	}
	fa, ok1 := la.X.(*ssa.FieldAddr)
	fb, ok2 := lb.X.(*ssa.FieldAddr)
	if !ok1 || !ok2 || fa.Field != fb.Field || la.Parent() != lb.Parent() {
		return false
	}
	if fa.X != fb.X && localVal(fa.X) != localVal(fb.X) {
		return false
	}
	first, second := la, lb
	if !dominatesInstr(first, second) {
		first, second = lb, la
		if !dominatesInstr(first, second) {
			return false
		}
	}
	_, fv, _ := fieldOfAddr(fa)
	isStore := func(in ssa.Instruction) bool {
		st, ok := in.(*ssa.Store)
		if !ok {
			return false
		}
		_, f2, ok := fieldOfAddr(st.Addr)
		return ok && f2 == fv
	}
	// a store reachable after `first` from which `second` is still reachable
	fn := first.Parent()
	for _, blk := range fn.Blocks {
		for _, in := range blk.Instrs {
			if !isStore(in) {
				continue
			}
			afterFirst := dominatesInstr(first, in) || reachableBlock(fn, first.Block(), blk) && blk != first.Block()
			beforeSecond := reachableBlock(fn, blk, second.Block()) && (blk != second.Block() || instrIndex(in) < instrIndex(second))
			if afterFirst && beforeSecond {
				return false
			}
		}
	}
	return true
}

// nonNegInt: an int that cannot be negative: a constant >= 0, a conversion from an unsigned type, a
// len/cap, or a phi of such values.
func nonNegInt(v ssa.Value, seen map[ssa.Value]bool) bool {
	if seen[v] {
		return true
	}
	seen[v] = true
	if k, ok := constInt(v); ok {
		return k >= 0
	}
	for _, cand := range []ssa.Value{v, unspill(v)} {
		switch x := cand.(type) {
		case *ssa.Convert:
			if bt, isB := x.X.Type().Underlying().(*types.Basic); isB && bt.Info()&types.IsUnsigned != 0 {
				return true
			}
		case *ssa.Phi:
			for _, e := range x.Edges {
				if !nonNegInt(e, seen) {
					return false
				}
			}
			return true
		case *ssa.Call:
			if bi, ok := x.Call.Value.(*ssa.Builtin); ok && (bi.Name() == "len" || bi.Name() == "cap") {
				return true
			}
		}
	}
	return false
}

// prefixUnderLenGuard: x[:n] is reached only over an edge establishing n <= len(x), and n is not
// negative.
func prefixUnderLenGuard(fn *ssa.Function, sl *ssa.Slice) (string, bool) {
	n := sl.High
	if bt, ok := n.Type().Underlying().(*types.Basic); !ok || bt.Kind() != types.Int {
		return "", false
	}
	if !nonNegInt(n, map[ssa.Value]bool{}) {
		return "", false
	}
	sameN := func(v ssa.Value) bool { return v == n || unspill(v) == unspill(n) }
	g := GCmp(func(a ssa.Value, op token.Token, b ssa.Value) bool {
		if isLenOf(a, sl.X) && sameN(b) {
			return op == token.GEQ
		}
		if isLenOf(b, sl.X) && sameN(a) {
			return op == token.LEQ
		}
		return false
	})
	if pass, _ := mustPass(fn, sl, g); pass {
		return "prefix x[:n] behind a test that len(x) >= n, n not negative", true
	}
	return "", false
}
