package main

import (
	"encoding/json"
	"fmt"
	"go/token"
	"os"
	"path/filepath"
	"runtime/debug"
	"sort"
	"strings"

	"golang.org/x/tools/go/ssa"
)

const (
	StDischarged = "discharged"
	StViolated   = "violated"
	StUndecided  = "undecided"
)

// Obligation: one rule applied to one construct.
type Obligation struct {
	Rule       string `json:"rule"`
	Key        string `json:"key"` // function + normalised construct; never a line number
	Pos        string `json:"pos"` // for humans
	Status     string `json:"status"`
	Msg        string `json:"msg"`
	Nontrivial bool   `json:"nontrivial"` // needed a path, dominance, value-flow or table argument
	Known      bool   `json:"known_finding,omitempty"`
	// AltKey: the key the same construct has when attributed to the only function that calls its
	// (helper) function; a known finding recorded under that key still identifies the construct
	// after it was moved into such a helper.
	AltKey string `json:"alt_key,omitempty"`
}

type floorReq struct {
	rule string
	min  int
	what string
}

// Ctx is the per-run context of one property.
type Ctx struct {
	nextAlt       string // AltKey for the next obligation recorded
	P             *Prog
	Prop          string
	Tier          string
	Obls          []*Obligation
	floors        []floorReq
	Notes         []string
	Stats         map[string]int
	curRule       string
	seen          map[string]bool
	reach         map[*ssa.Function]bool
	reqReach      map[*ssa.Function]bool
	bce           []bceSite
	bceDone       bool
	skipGenerated bool
	genFiles      map[string]bool
	exprAt        map[token.Pos]string
	callerIdx     map[*ssa.Function][]ssa.CallInstruction
	addrTaken     map[*ssa.Function]bool
}

type anchorMissing struct{ what string }

func (c *Ctx) add(status, rule, key string, pos token.Pos, nontrivial bool, format string, args ...any) *Obligation {
	o := &Obligation{Rule: rule, Key: key, Pos: c.P.Pos(pos), Status: status, Msg: fmt.Sprintf(format, args...), Nontrivial: nontrivial, AltKey: c.nextAlt}
	c.nextAlt = ""
	k := rule + "|" + key
	if c.seen == nil {
		c.seen = map[string]bool{}
	}
	if c.seen[k] {
		// keep keys unique so that known findings address exactly one obligation
		for i := 2; ; i++ {
			k2 := fmt.Sprintf("%s#%d", k, i)
			if !c.seen[k2] {
				o.Key = fmt.Sprintf("%s#%d", key, i)
				k = k2
				break
			}
		}
	}
	c.seen[k] = true
	c.Obls = append(c.Obls, o)
	return o
}

// OK records a discharged obligation that needed a path/value/table argument.
func (c *Ctx) OK(rule, key string, pos token.Pos, format string, args ...any) {
	c.add(StDischarged, rule, key, pos, true, format, args...)
}

// OKTrivial records a discharged obligation decided by a bare existence test.
func (c *Ctx) OKTrivial(rule, key string, pos token.Pos, format string, args ...any) {
	c.add(StDischarged, rule, key, pos, false, format, args...)
}

func (c *Ctx) Bad(rule, key string, pos token.Pos, format string, args ...any) {
	c.add(StViolated, rule, key, pos, true, format, args...)
}

func (c *Ctx) Undecided(rule, key string, pos token.Pos, format string, args ...any) {
	c.add(StUndecided, rule, key, pos, true, format, args...)
}

// Check is OK/Bad in one call.
func (c *Ctx) Check(cond bool, rule, key string, pos token.Pos, okMsg, badMsg string) bool {
	if cond {
		c.OK(rule, key, pos, "%s", okMsg)
	} else {
		c.Bad(rule, key, pos, "%s", badMsg)
	}
	return cond
}

// Floor demands at least n obligations for rule (a rule matching nothing must not pass).
func (c *Ctx) Floor(rule string, n int, what string) {
	c.floors = append(c.floors, floorReq{rule, n, what})
}

func (c *Ctx) Note(format string, args ...any) {
	c.Notes = append(c.Notes, fmt.Sprintf(format, args...))
}

func (c *Ctx) Stat(k string, n int) {
	if c.Stats == nil {
		c.Stats = map[string]int{}
	}
	c.Stats[k] += n
}

// Missing aborts the current rule: an anchor could not be resolved.
func (c *Ctx) Missing(format string, args ...any) {
	panic(anchorMissing{fmt.Sprintf(format, args...)})
}

// RunRule runs one rule function; a panic or a missing anchor becomes an
// undecided obligation (which fails the check).
func (c *Ctx) RunRule(rule string, f func(c *Ctx)) {
	c.curRule = rule
	theCtx = c
	defer func() {
		if r := recover(); r != nil {
			if am, ok := r.(anchorMissing); ok {
				c.Undecided(rule, "anchor", token.NoPos, "anchor not resolved: %s", am.what)
				return
			}
			st := string(debug.Stack())
			lines := strings.Split(st, "\n")
			if len(lines) > 14 {
				lines = lines[:14]
			}
			c.Undecided(rule, "analyser-panic", token.NoPos, "analyser panic: %v | %s", r, strings.Join(lines, " / "))
		}
	}()
	f(c)
}

func (c *Ctx) applyFloors() {
	cnt := map[string]int{}
	for _, o := range c.Obls {
		cnt[o.Rule]++
	}
	for _, f := range c.floors {
		if cnt[f.rule] < f.min {
			c.Undecided(f.rule, "floor", token.NoPos, "rule matched %d instances, fewer than the %d confirmed by hand (%s): the anchor moved or the matcher is blind", cnt[f.rule], f.min, f.what)
		}
	}
}

// ---------------------------------------------------------------------------
// known findings

type KnownFinding struct {
	Property string `json:"property"`
	Rule     string `json:"rule"`
	Key      string `json:"key"`
	What     string `json:"what"`
}

type KnownFile struct {
	Comment  string         `json:"comment"`
	Findings []KnownFinding `json:"findings"`
	Fixed    []string       `json:"fixed"`
}

func loadKnown(path string) (*KnownFile, error) {
	b, err := os.ReadFile(path)
	if err != nil {
		if os.IsNotExist(err) {
			return &KnownFile{}, nil
		}
		return nil, err
	}
	var kf KnownFile
	if err := json.Unmarshal(b, &kf); err != nil {
		return nil, err
	}
	return &kf, nil
}

// ---------------------------------------------------------------------------
// evidence

type Evidence struct {
	PropertyID  string         `json:"property_id"`
	Tier        string         `json:"tier"`
	Seed        int            `json:"seed"`
	Level       string         `json:"level"`
	Coverage    map[string]any `json:"coverage"`
	Assumptions []string       `json:"assumptions"`
	WallS       float64        `json:"wall_s"`
	Violations  int            `json:"violations"`
}

func sortObls(obls []*Obligation) {
	sort.SliceStable(obls, func(i, j int) bool {
		if obls[i].Rule != obls[j].Rule {
			return obls[i].Rule < obls[j].Rule
		}
		return obls[i].Key < obls[j].Key
	})
}

func writeJSON(path string, v any) error {
	b, err := json.MarshalIndent(v, "", " ")
	if err != nil {
		return err
	}
	if err := os.MkdirAll(filepath.Dir(path), 0o755); err != nil {
		return err
	}
	tmp := path + ".tmp"
	if err := os.WriteFile(tmp, append(b, '\n'), 0o644); err != nil {
		return err
	}
	return os.Rename(tmp, path)
}
