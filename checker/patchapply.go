package main

import (
	"fmt"
	"os"
	"path/filepath"
	"regexp"
	"strconv"
	"strings"
)

// applyUnifiedDiff applies a `git diff` style patch to the current files of repo, in memory,
// and returns the new contents by repo-relative path. Hunks must match their context exactly
// (at the stated line, or at the one place in the file where the old block occurs).
func applyUnifiedDiff(repo, patch string) (map[string]string, error) {
	out := map[string]string{}
	lines := strings.Split(patch, "\n")
	hunkRe := regexp.MustCompile(`^@@ -(\d+)(?:,(\d+))? \+(\d+)(?:,(\d+))? @@`)
	i := 0
	for i < len(lines) {
		if !strings.HasPrefix(lines[i], "--- ") {
			i++
			continue
		}
		if i+1 >= len(lines) || !strings.HasPrefix(lines[i+1], "+++ ") {
			i++
			continue
		}
		oldName := strings.TrimSpace(strings.TrimPrefix(lines[i], "--- "))
		newName := strings.TrimSpace(strings.TrimPrefix(lines[i+1], "+++ "))
		i += 2
		if newName == "/dev/null" {
			return nil, fmt.Errorf("patch deletes %s: not supported", oldName)
		}
		rel := strings.TrimPrefix(newName, "b/")
		var src []string
		if oldName != "/dev/null" {
			cur, ok := out[rel]
			if !ok {
				b, err := os.ReadFile(filepath.Join(repo, rel))
				if err != nil {
					return nil, err
				}
				cur = string(b)
			}
			src = strings.Split(cur, "\n")
		}
		var dst []string
		pos := 0 // next unread line of src
		for i < len(lines) && strings.HasPrefix(lines[i], "@@") {
			m := hunkRe.FindStringSubmatch(lines[i])
			if m == nil {
				return nil, fmt.Errorf("bad hunk header %q", lines[i])
			}
			start, _ := strconv.Atoi(m[1])
			i++
			var oldBlk, newBlk []string
			for i < len(lines) {
				l := lines[i]
				if strings.HasPrefix(l, "@@") || strings.HasPrefix(l, "diff ") || strings.HasPrefix(l, "--- ") {
					break
				}
				switch {
				case strings.HasPrefix(l, "\\"):
				case strings.HasPrefix(l, "+"):
					newBlk = append(newBlk, l[1:])
				case strings.HasPrefix(l, "-"):
					oldBlk = append(oldBlk, l[1:])
				case strings.HasPrefix(l, " "):
					oldBlk = append(oldBlk, l[1:])
					newBlk = append(newBlk, l[1:])
				case l == "":
					// blank context line whose leading space was trimmed, or end of patch
					if i == len(lines)-1 {
						break
					}
					oldBlk = append(oldBlk, "")
					newBlk = append(newBlk, "")
				default:
					return nil, fmt.Errorf("unexpected patch line %q", l)
				}
				i++
			}
			at := start - 1
			if len(oldBlk) == 0 {
				at = start // pure insertion after line `start`
				if oldName == "/dev/null" {
					at = 0
				}
			}
			if !blockAt(src, at, oldBlk) {
				// look for the one place where the old block occurs at or after pos
				found := -1
				for k := pos; k+len(oldBlk) <= len(src); k++ {
					if blockAt(src, k, oldBlk) {
						if found >= 0 {
							return nil, fmt.Errorf("%s: hunk at line %d matches more than once", rel, start)
						}
						found = k
					}
				}
				if found < 0 || len(oldBlk) == 0 {
					return nil, fmt.Errorf("%s: hunk at line %d does not match the current file", rel, start)
				}
				at = found
			}
			if at < pos {
				return nil, fmt.Errorf("%s: overlapping hunks", rel)
			}
			dst = append(dst, src[pos:at]...)
			dst = append(dst, newBlk...)
			pos = at + len(oldBlk)
		}
		dst = append(dst, src[pos:]...)
		out[rel] = strings.Join(dst, "\n")
	}
	if len(out) == 0 {
		return nil, fmt.Errorf("no file changes found in patch")
	}
	return out, nil
}

func blockAt(src []string, at int, blk []string) bool {
	if at < 0 || at+len(blk) > len(src) {
		return false
	}
	for k, l := range blk {
		if src[at+k] != l {
			return false
		}
	}
	return true
}
