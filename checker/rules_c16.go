package main

import (
	"fmt"
	"go/constant"
	"go/token"
	"go/types"
	"strings"

	"golang.org/x/tools/go/ssa"
)

func init() {
	register(&Property{
		ID:          "C16",
		Title:       "Responses are well-formed MS-TSGU packets reporting true outcome and policy",
		DesignRef:   "DESIGN.md §3 C16",
		Technique:   "byte-layout abstraction of the straight-line response builders (static widths of binary.Write operands vs. an MS-TSGU layout table) + typestate model (type/status per path) + conditional constant propagation of makeRedirectFlags over all 2^7 switch settings + SSA value origin for idle timeout and policy wiring",
		LevelText:   "Static: each response builder writes exactly the fixed fields of its MS-TSGU structure (widths in order), the status parameter at the status offset, a constant fields-present mask, and exactly the optional fields that mask announces; it wraps them with createPacket of the builder's response type, whose header writes type, reserved and len(data)+8 with a header of static width 8. On every path of the packet loop the response's type answers the request and status is 0 exactly on the accepting path, with the three MS-TSGU refusal codes at their refusals. makeRedirectFlags is evaluated by constant propagation for all 128 settings against the specification function (disable-all precedence, per-device negation, bit values). Idle timeout is Gateway.IdleTimeout clamped at 0; main initialises each policy field from the configuration field of the same meaning. A policy callback that did not pass on a path (by its boolean or, since the installed policy functions return an error together with a denial, by its error) is answered with the denial code of that policy.",
		LevelNote:   "Trusted: encoding/binary writes the static width of its operand in call order; bytes.Buffer; MS-TSGU field tables transcribed into the checker (independent of the repository's own client decoder). The close-channel response layout is the gateway's own (status + mask + reserved + channel id).",
		Explanation: "C16/layout abstracts every builder to its sequence of (width, value-kind) writes and compares it with the table; C16/header does the same for createPacket. C16/type-and-status reads each path of the typestate model. C16/constants compares status codes, packet types, mask bits and redirect bits with MS-TSGU values. C16/redirect runs conditional constant propagation over makeRedirectFlags for every assignment of the seven switches. C16/idle and C16/policy-wiring follow values.",
		Assumptions: []string{"MS-TSGU §2.2.5/2.2.10 values as transcribed in rules_c16.go"},
		Rules: []RuleDef{
			{"C16/buffer-ownership", "the bytes a client receives are the bytes built for it: a packet is assembled and handed on in storage of the call, no package-level buffer or free list that the returned packet still aliases", func(c *Ctx) { packetBuffersPrivate(c, "C16/buffer-ownership") }},
			{"C16/layout", "each response builder: fixed layout, status at its offset, mask constant, optional fields exactly as the mask announces, right packet type", c16Layout},
			{"C16/header", "createPacket: type(2) reserved(2) length(4)=len(data)+8 then data", c16Header},
			{"C16/type-and-status", "per path: response type answers the request; status 0 iff accepted; MS-TSGU codes at the three refusals", c16TypeStatus},
			{"C16/constants", "numeric values of status codes, packet types, mask bits, redirect bits", c16Constants},
			{"C16/redirect", "makeRedirectFlags equals the specification on all 128 switch settings", c16Redirect},
			{"C16/idle", "idle timeout written = Gateway.IdleTimeout, 0 when negative", c16Idle},
			{"C16/config-timeout", "Caps.IdleTimeout is the int the configuration library reads from `idletimeout`; Load does not compute it", c16ConfigTimeout},
			{"C16/policy-wiring", "main: redirect switches, idle timeout and auth switches initialised from the configuration fields of the same meaning", c16PolicyWiring},
			{"C16/config-tags", "the configuration fields this property depends on are read from the documented keys: koanf tag = lower-cased field name", func(c *Ctx) {
				configTags(c, "C16/config-tags", map[string][]string{"Configuration": {"Caps"}, "RDGCapsConfig": {"*"}})
			}},
		},
	})
}

// builder layouts: fixed widths, index of the status field, index of the mask field,
// optional field widths by mask bit (ascending), response type constant name.
type builderLayout struct {
	fixed     []int
	statusIdx int
	maskIdx   int
	optional  map[int64]int // bit -> width
	respType  string
}

var builderLayouts = map[string]builderLayout{
	// HTTP_HANDSHAKE_RESPONSE_PACKET: errorCode u32, verMajor u8 + verMinor u8, serverVersion u16, extendedAuth u16
	"handshakeResponse": {fixed: []int{4, 2, 2, 2}, statusIdx: 0, maskIdx: -1, respType: "PKT_TYPE_HANDSHAKE_RESPONSE"},
	// HTTP_TUNNEL_RESPONSE: serverVersion u16, statusCode u32, fieldsPresent u16, reserved u16; optional tunnelId u32 (0x1), capsFlags u32 (0x2)
	"tunnelResponse": {fixed: []int{2, 4, 2, 2}, statusIdx: 1, maskIdx: 2, optional: map[int64]int{0x1: 4, 0x2: 4}, respType: "PKT_TYPE_TUNNEL_RESPONSE"},
	// HTTP_TUNNEL_AUTH_RESPONSE: errorCode u32, fieldsPresent u16, reserved u16; optional redirFlags u32 (0x1), idleTimeout u32 (0x2)
	"tunnelAuthResponse": {fixed: []int{4, 2, 2}, statusIdx: 0, maskIdx: 1, optional: map[int64]int{0x1: 4, 0x2: 4}, respType: "PKT_TYPE_TUNNEL_AUTH_RESPONSE"},
	// HTTP_CHANNEL_RESPONSE: errorCode u32, fieldsPresent u16, reserved u16; optional channelId u32 (0x1), udpPort u16 (0x4)
	"channelResponse": {fixed: []int{4, 2, 2}, statusIdx: 0, maskIdx: 1, optional: map[int64]int{0x1: 4, 0x4: 2}, respType: "PKT_TYPE_CHANNEL_RESPONSE"},
	// close channel response as this gateway sends it: status u32, mask u16, reserved u16, channel id u32 (0x1)
	"channelCloseResponse": {fixed: []int{4, 2, 2}, statusIdx: 0, maskIdx: 1, optional: map[int64]int{0x1: 4}, respType: "PKT_TYPE_CLOSE_CHANNEL_RESPONSE"},
}

type bufWrite struct {
	call  ssa.Instruction // the writing instruction (a call; a store for an element assignment)
	width int
	val   ssa.Value   // value written (binary.Write operand, stripped of the interface conversion)
	elems []ssa.Value // a field written byte by byte ([]byte{a, b}, p[i], p[i+1] = a, b): the bytes in order
	// written by a helper that was handed the buffer (positional.go, mapHelperWrite): val is the
	// call's argument converted to conv, or (val nil) the length of the slice lenOf
	conv  types.BasicKind
	lenOf ssa.Value
}

// bufferWrites: the writes into one bytes.Buffer of a straight-line builder.
func bufferWrites(fn *ssa.Function) (writes []bufWrite, buf ssa.Value, ok bool, why string) {
	calls, straight := binaryIOCalls(fn, "encoding/binary.Write", "(*bytes.Buffer).Write", "(*bytes.Buffer).WriteByte", "(*bytes.Buffer).WriteString")
	if !straight {
		return nil, nil, false, "writes are not straight-line (branch or loop around a write)"
	}
	// every write is made on every path to every return: a return in the middle hands out a packet
	// that lacks the fields written after it
	for _, op := range calls {
		for _, r := range returnsOf(fn) {
			if !dominatesInstr(op.call, r) {
				return nil, nil, false, "a return is reachable without all field writes (an early return in the middle of the builder)"
			}
		}
	}
	if len(calls) == 0 {
		// the append style: b = binary.LittleEndian.AppendUint16(b, v); ...; b = append(b, data...)
		if ws, end, ok := appendChain(fn); ok {
			return ws, end, true, ""
		}
		// the header-first style: b := newPacket(T, n); b = AppendUintN(b, v); ...; return b
		if ws, _, end, ok, why := headerFirstBuilder(fn); ok {
			return ws, end, true, ""
		} else if why != "" {
			return nil, nil, false, why
		}
		// the positional style: p := make([]byte, K+len(data)); PutUintN(p[a:b], v); copy(p[K:], data)
		if ws, ms, ok := positionalBuilder(fn); ok {
			return ws, ms, true, ""
		}
		// a body laid out in a local array: var body [N]byte; PutUintN(body[a:b], v); body[i] = x; body[:]
		if ws, body, ok := positionalArrayBody(fn); ok {
			return ws, body, true, ""
		}
	}
	sizes := types.SizesFor("gc", "amd64")
	for _, op := range calls {
		call := op.call
		var b ssa.Value
		w := bufWrite{call: call}
		switch op.name {
		case "encoding/binary.Write":
			b = strip(op.stream)
			if !isLittleEndian(op.order) {
				return nil, nil, false, "a field is not written little-endian"
			}
			var x ssa.Value
			if mi, isMI := op.val.(*ssa.MakeInterface); isMI {
				x = mi.X
			} else if _, isIface := op.val.Type().Underlying().(*types.Interface); !isIface {
				x = op.val // operand of a typed put-helper, translated to this call site
			} else {
				return nil, nil, false, "binary.Write operand of unknown static type"
			}
			w.val = x
			t := x.Type().Underlying()
			bt, isBasic := t.(*types.Basic)
			if !isBasic || bt.Info()&types.IsInteger == 0 || bt.Kind() == types.Int || bt.Kind() == types.Uint || bt.Kind() == types.Uintptr {
				return nil, nil, false, fmt.Sprintf("binary.Write operand of type %s has no fixed wire width", x.Type())
			}
			w.width = int(sizes.Sizeof(t))
		case "(*bytes.Buffer).Write":
			b = strip(op.stream)
			elems, isLit := sliceLitElems(op.val)
			if !isLit {
				// data payload: width unknown (-1), allowed only by rules that expect it
				w.width = -1
				w.val = op.val
			} else {
				w.width = len(elems)
				w.val = op.val
				w.elems = elems
			}
		case "(*bytes.Buffer).WriteByte":
			b = strip(op.stream)
			w.width = 1
			w.val = op.val
			w.elems = []ssa.Value{op.val}
		default:
			return nil, nil, false, "string write into a packet buffer"
		}
		if buf == nil {
			buf = b
		} else if b != buf {
			return nil, nil, false, "writes go to more than one buffer"
		}
		writes = append(writes, w)
	}
	return writes, buf, true, ""
}

func c16Layout(c *Ctx) {
	rule := "C16/layout"
	m := c.ProcessModel(rule)
	if m == nil {
		return
	}
	for name, lay := range builderLayouts {
		bi := m.Builders[name]
		key := "builder " + name
		if bi == nil {
			c.Bad(rule, key, m.Fn.Pos(), "response builder %s not found (or it no longer returns createPacket(const, ...))", name)
			continue
		}
		fn := bi.Fn
		want := c.ConstInt("cmd/rdpgw/protocol", lay.respType)
		c.Check(bi.PktType == want, rule, key+" type", fn.Pos(), fmt.Sprintf("wrapped as %s (%#x)", lay.respType, want), fmt.Sprintf("builder wraps its body as packet type %#x, expected %s (%#x)", bi.PktType, lay.respType, want))
		// the body may be assembled by a shared helper: createPacket(T, helper(status, ...))
		bodyFn := fn
		statusParam := ssa.Value(fn.Params[bi.StatusIdx])
		// ... or the whole packet by a generic builder: return p.result(T, status)
		wholeHelper := false
		for _, r := range returnsOf(fn) {
			if hc, ok := r.Results[0].(*ssa.Call); ok && calleeName(hc) != protoPkg+".createPacket" {
				if h := hc.Call.StaticCallee(); h != nil && IsFirstParty(h) && h.Blocks != nil {
					for j, a := range hc.Call.Args {
						if a == statusParam && j < len(h.Params) {
							bodyFn, statusParam, wholeHelper = h, h.Params[j], true
						}
					}
				}
			}
		}
		for _, r := range returnsOf(fn) {
			if wholeHelper {
				break
			}
			if cp, ok := r.Results[0].(*ssa.Call); ok {
				if hc, ok := strip(arg(cp, 1)).(*ssa.Call); ok {
					if h := hc.Call.StaticCallee(); h != nil && IsFirstParty(h) && h.Blocks != nil && calleeName(hc) != "(*bytes.Buffer).Bytes" {
						for j, a := range hc.Call.Args {
							if a == statusParam && j < len(h.Params) {
								bodyFn, statusParam = h, h.Params[j]
							}
						}
					}
				}
			}
		}
		writes, buf, ok, why := bufferWrites(bodyFn)
		if !ok {
			c.Undecided(rule, key+" writes", fn.Pos(), "%s", why)
			continue
		}
		// the packet body is this buffer's bytes
		bodyOK := false
		for _, r := range returnsOf(bodyFn) {
			var by *ssa.Call
			if bodyFn == fn || wholeHelper {
				if cp, ok := r.Results[0].(*ssa.Call); ok {
					by, _ = strip(arg(cp, 1)).(*ssa.Call)
				}
			} else {
				by, _ = strip(r.Results[0]).(*ssa.Call)
			}
			// header-first: the chain's end is the packet itself
			if ec, isCall := buf.(*ssa.Call); isCall && strip(unspill(r.Results[0])) == ssa.Value(ec) {
				if _, root, _, okh, _ := headerFirstBuilder(bodyFn); okh && root != nil {
					bodyOK = true
				}
			}
			// positional body: the array slice itself is the body, all writes precede the hand-over
			if _, isSl := buf.(*ssa.Slice); isSl {
				var bodyV ssa.Value
				var at ssa.Instruction = r
				if bodyFn == fn || wholeHelper {
					if cp, ok := r.Results[0].(*ssa.Call); ok {
						bodyV, at = strip(arg(cp, 1)), cp
					}
				} else {
					bodyV = strip(r.Results[0])
				}
				if bodyV == buf {
					bodyOK = true
					for _, w := range writes {
						if !dominatesInstr(w.call, at) {
							bodyOK = false
						}
					}
				}
			}
			if by != nil && calleeName(by) == "(*bytes.Buffer).Bytes" && recvOf(by) == buf {
				bodyOK = true
				for _, w := range writes {
					if !dominatesInstr(w.call, by) {
						bodyOK = false
					}
				}
			}
		}
		c.Check(bodyOK, rule, key+" body", fn.Pos(), "packet body = bytes of the buffer after all writes", "the packet body is not the buffer the fields were written to (or is taken before all writes)")
		// fixed part
		if len(writes) < len(lay.fixed) {
			c.Bad(rule, key+" fixed", fn.Pos(), "only %d field writes, the fixed part has %d fields", len(writes), len(lay.fixed))
			continue
		}
		good := true
		var got []int
		for i := range lay.fixed {
			got = append(got, writes[i].width)
			if writes[i].width != lay.fixed[i] {
				good = false
			}
		}
		c.Check(good, rule, key+" fixed", writes[0].call.Pos(), fmt.Sprintf("fixed field widths %v", got), fmt.Sprintf("fixed field widths are %v, MS-TSGU layout is %v", got, lay.fixed))
		// status at its offset
		sw := writes[lay.statusIdx]
		stOK := false
		for _, o := range origins(sw.val) {
			if o.Kind == "param" && o.Value == statusParam {
				stOK = true
			}
		}
		c.Check(stOK && sw.width == 4, rule, key+" status", sw.call.Pos(), "the status parameter is written as u32 at the status offset", "the status field does not carry the builder's status parameter")
		// mask and optional fields
		opt := writes[len(lay.fixed):]
		if lay.maskIdx < 0 {
			c.Check(len(opt) == 0, rule, key+" optional", fn.Pos(), "no optional fields", fmt.Sprintf("%d extra writes after the fixed part", len(opt)))
			continue
		}
		mask, isC := constInt(writes[lay.maskIdx].val)
		if !isC {
			c.Undecided(rule, key+" mask", writes[lay.maskIdx].call.Pos(), "fields-present mask is not a constant")
			continue
		}
		var wantOpt []int
		unknownBit := false
		for bit := int64(1); bit <= 0x8000; bit <<= 1 {
			if mask&bit != 0 {
				wd, ok := lay.optional[bit]
				if !ok {
					unknownBit = true
				}
				wantOpt = append(wantOpt, wd)
			}
		}
		var gotOpt []int
		for _, w := range opt {
			gotOpt = append(gotOpt, w.width)
		}
		same := len(gotOpt) == len(wantOpt) && !unknownBit
		for i := range gotOpt {
			if same && gotOpt[i] != wantOpt[i] {
				same = false
			}
		}
		c.Check(same, rule, key+" optional", writes[lay.maskIdx].call.Pos(), fmt.Sprintf("mask %#x announces optional widths %v and exactly those are written", mask, wantOpt), fmt.Sprintf("mask %#x announces optional widths %v but the builder writes %v", mask, wantOpt, gotOpt))
		// reserved fields are zero
		for i := range lay.fixed {
			if i != lay.statusIdx && i != lay.maskIdx && name != "handshakeResponse" {
				if v, ok := constInt(writes[i].val); !ok || v != 0 {
					c.Bad(rule, key+" reserved#"+itoa(i), writes[i].call.Pos(), "reserved/version field is not the constant 0")
				}
			}
		}
	}
	c.Floor(rule, 20, "5 builders x (type, body, fixed, status, optional)")
}

func c16Header(c *Ctx) { c16HeaderAs(c, "C16/header") }

func c16HeaderAs(c *Ctx, rule string) {
	fn := c.Fn("cmd/rdpgw/protocol", "createPacket")
	// header-first: createPacket = append(newPacket(pktType, len(data)), data...), where newPacket is
	// verified (headerHelper) to produce type, reserved 0, uint32(8+n)
	if ws, root, end, okh, _ := headerFirstBuilder(fn); okh && root != nil {
		ti, li, _ := headerHelper(root.Call.StaticCallee())
		h := root.Call.StaticCallee()
		c.OK(rule, "createPacket widths", root.Pos(), "header fields 2+2+4 = 8 bytes (written by %s)", h.Name())
		c.Check(ti < len(root.Call.Args) && strip(root.Call.Args[ti]) == ssa.Value(fn.Params[0]), rule, "createPacket type", root.Pos(), "type field = pktType parameter", "the type field is not the pktType parameter")
		c.OK(rule, "createPacket reserved", root.Pos(), "reserved = 0")
		c.Check(li < len(root.Call.Args) && isLenOf(root.Call.Args[li], fn.Params[1]), rule, "createPacket length", root.Pos(), "length field = len(data)+8 with a header of 8 bytes", "the length field is not len(data) + the header width")
		c.Check(len(ws) == 1 && ws[0].width == -1 && ws[0].val == ssa.Value(fn.Params[1]), rule, "createPacket data", root.Pos(), "payload = the data parameter, written after the header", "the payload written is not the data parameter")
		c.Check(end != nil, rule, "createPacket result", fn.Pos(), "returns the buffer's bytes after all writes", "does not return the assembled buffer")
		return
	}
	writes, buf, ok, why := bufferWrites(fn)
	if !ok {
		c.Undecided(rule, "createPacket writes", fn.Pos(), "%s", why)
		return
	}
	if len(writes) != 4 {
		c.Bad(rule, "createPacket fields", fn.Pos(), "expected type, reserved, length, data; found %d writes", len(writes))
		return
	}
	c.Check(writes[0].width == 2 && writes[1].width == 2 && writes[2].width == 4, rule, "createPacket widths", writes[0].call.Pos(), "header fields 2+2+4 = 8 bytes", fmt.Sprintf("header field widths are %d,%d,%d (MS-TSGU: 2,2,4)", writes[0].width, writes[1].width, writes[2].width))
	// type field is the parameter
	tOK := false
	for _, o := range origins(writes[0].val) {
		if o.Kind == "param" && o.Value == ssa.Value(fn.Params[0]) {
			tOK = true
		}
	}
	c.Check(tOK, rule, "createPacket type", writes[0].call.Pos(), "type field = pktType parameter", "the type field is not the pktType parameter")
	if v, ok := constInt(writes[1].val); !ok || v != 0 {
		c.Bad(rule, "createPacket reserved", writes[1].call.Pos(), "reserved field is not 0")
	} else {
		c.OK(rule, "createPacket reserved", writes[1].call.Pos(), "reserved = 0")
	}
	// length = len(data) + 8, data = parameter 1
	lenOK := false
	var detail string
	var lv ssa.Value
	if writes[2].val != nil {
		lv = strip(writes[2].val)
	}
	positional := false
	if ms, isMake := buf.(*ssa.MakeSlice); isMake {
		// positional style: the packet is allocated at its final length, so len(packet) is the
		// allocation length; that length itself must be header + len(data)
		positional = true
		if lv != nil && isLenOf(lv, ms) || lv == nil && writes[2].lenOf == ssa.Value(ms) {
			lv = strip(ms.Len)
		}
		if lb, ok := strip(ms.Len).(*ssa.BinOp); !ok || lb.Op != token.ADD {
			lv = nil
		} else if lv2, ok := lv.(*ssa.BinOp); ok && lv2 != lb {
			// the length field is computed separately: it must be the same sum as the allocation
			sameSum := func(a, b *ssa.BinOp) bool {
				ka, oka := constInt(a.X)
				la := a.Y
				if !oka {
					ka, oka = constInt(a.Y)
					la = a.X
				}
				kb, okb := constInt(b.X)
				lb2 := b.Y
				if !okb {
					kb, okb = constInt(b.Y)
					lb2 = b.X
				}
				return oka && okb && ka == kb && isLenOf(strip(la), fn.Params[1]) && isLenOf(strip(lb2), fn.Params[1])
			}
			if !sameSum(lv2, lb) {
				lv = nil
			}
		}
	}
	if bo, ok := lv.(*ssa.BinOp); ok && bo.Op == token.ADD {
		var l ssa.Value
		var k int64
		if kv, ok := constInt(bo.Y); ok {
			l, k = bo.X, kv
		} else if kv, ok := constInt(bo.X); ok {
			l, k = bo.Y, kv
		}
		if call, ok := l.(*ssa.Call); ok {
			if bi, ok := call.Call.Value.(*ssa.Builtin); ok && bi.Name() == "len" && call.Call.Args[0] == ssa.Value(fn.Params[1]) {
				hdr := writes[0].width + writes[1].width + writes[2].width
				lenOK = k == int64(hdr)
				detail = fmt.Sprintf("len(data)+%d with a header of %d bytes", k, hdr)
			}
		}
	}
	c.Check(lenOK, rule, "createPacket length", writes[2].call.Pos(), "length field = "+detail, "the length field is not len(data) + the header width: "+detail)
	c.Check(writes[3].width == -1 && writes[3].val == ssa.Value(fn.Params[1]), rule, "createPacket data", writes[3].call.Pos(), "payload = the data parameter, written after the header", "the payload written is not the data parameter")
	retOK := false
	for _, r := range returnsOf(fn) {
		if by, ok := strip(r.Results[0]).(*ssa.Call); ok && calleeName(by) == "(*bytes.Buffer).Bytes" && recvOf(by) == buf && dominatesInstr(writes[3].call, by) {
			retOK = true
		}
		if strip(unspill(r.Results[0])) == buf && isSameInstrValue(buf, writes[3].call) {
			retOK = true // append style: the returned slice is the end of the chain
		}
		if positional && strip(unspill(r.Results[0])) == buf {
			retOK = true // positional style: every write dominates the return (positionalBuilder)
		}
	}
	c.Check(retOK, rule, "createPacket result", fn.Pos(), "returns the buffer's bytes after all writes", "does not return the assembled buffer")
}

func c16TypeStatus(c *Ctx) {
	rule := "C16/type-and-status"
	m := c.ProcessModel(rule)
	if m == nil {
		return
	}
	rows, _, _, _, _, _ := c.phases()
	k := func(n string) int64 { return c.ConstInt("cmd/rdpgw/protocol", n) }
	denyErr := policyDenialCarriesError(c)
	for _, p := range m.Paths {
		resps := p.Responses()
		if len(resps) == 0 {
			continue
		}
		var bad []string
		row, isReq := rows[p.Pkt]
		for _, r := range resps {
			if !isReq {
				bad = append(bad, fmt.Sprintf("a response (%s) to packet type %s that has none", r.Name, pktName(p.Pkt)))
				continue
			}
			if r.PktType != row.resp {
				bad = append(bad, fmt.Sprintf("response type %#x does not answer request %s (expected %#x)", r.PktType, row.name, row.resp))
			}
			accepted := len(p.All("SET")) == 1 && p.All("SET")[0].Int == row.succ
			if (r.Status == 0) != accepted {
				bad = append(bad, fmt.Sprintf("status %#x but the step was accepted=%v", uint32(r.Status), accepted))
			}
			// a policy callback that did not pass on this path (whichever of its results the
			// loop looked at): the installed policy functions return an error together with
			// an ordinary denial, so an error branch is a denial and carries the denial's code
			if denyErr {
				for _, e := range p.All("CHECK") {
					if e.Decided && e.Passed {
						continue
					}
					switch {
					case e.Name == "CheckHost" && r.Status != k("E_PROXY_RAP_ACCESSDENIED"):
						bad = append(bad, fmt.Sprintf("the host policy did not allow the host (the policy functions return an error with a denial) but the status is %#x, not E_PROXY_RAP_ACCESSDENIED", uint32(r.Status)))
					case e.Name == "CheckPAACookie" && r.Status != k("E_PROXY_COOKIE_AUTHENTICATION_ACCESS_DENIED"):
						bad = append(bad, fmt.Sprintf("the cookie was not accepted but the status is %#x, not E_PROXY_COOKIE_AUTHENTICATION_ACCESS_DENIED", uint32(r.Status)))
					}
				}
			}
			// specific refusal codes
			for _, cd := range p.Conds {
				switch {
				case cd.Desc == "matchAuth.err!=nil" && cd.Branch && r.Status != k("E_PROXY_CAPABILITYMISMATCH"):
					bad = append(bad, "capability mismatch not reported as E_PROXY_CAPABILITYMISMATCH")
				case cd.Desc == "CheckPAACookie.ok" && !cd.Branch && r.Status != k("E_PROXY_COOKIE_AUTHENTICATION_ACCESS_DENIED"):
					bad = append(bad, "cookie rejection not reported as E_PROXY_COOKIE_AUTHENTICATION_ACCESS_DENIED")
				case cd.Desc == "CheckHost.ok" && !cd.Branch && r.Status != k("E_PROXY_RAP_ACCESSDENIED"):
					bad = append(bad, "host policy denial not reported as E_PROXY_RAP_ACCESSDENIED")
				}
			}
		}
		if len(resps) > 1 {
			bad = append(bad, "more than one response to one packet")
		}
		// the relay goroutine writes DATA packets to the client: it is started only after the
		// response to the request that opens the channel is on the wire, or a host that speaks
		// first gets its DATA packet in front of the CHANNEL_RESPONSE
		seenResp := false
		for _, e := range p.Effects {
			if e.Kind == "RESP" {
				seenResp = true
			}
			if e.Kind == "SPAWN" && !seenResp {
				bad = append(bad, "the relay ("+e.Name+") is started before the response is written: the packet that answers the request can be a DATA packet")
			}
		}
		if len(bad) == 0 {
			c.OK(rule, p.Key(), resps[0].Instr.Pos(), "%s", p.Describe())
		} else {
			c.Bad(rule, p.Key(), resps[0].Instr.Pos(), "%s; path: %s", strings.Join(bad, "; "), p.Describe())
		}
	}
	c.Floor(rule, 20, "response-writing paths")
}

var mstsguConstants = map[string]uint32{
	"ERROR_SUCCESS":                                0x0,
	"E_PROXY_INTERNALERROR":                        0x800759D8,
	"E_PROXY_RAP_ACCESSDENIED":                     0x800759DA,
	"E_PROXY_CAPABILITYMISMATCH":                   0x800759E9,
	"E_PROXY_COOKIE_AUTHENTICATION_ACCESS_DENIED":  0x800759F8,
	"PKT_TYPE_HANDSHAKE_REQUEST":                   0x1,
	"PKT_TYPE_HANDSHAKE_RESPONSE":                  0x2,
	"PKT_TYPE_TUNNEL_CREATE":                       0x4,
	"PKT_TYPE_TUNNEL_RESPONSE":                     0x5,
	"PKT_TYPE_TUNNEL_AUTH":                         0x6,
	"PKT_TYPE_TUNNEL_AUTH_RESPONSE":                0x7,
	"PKT_TYPE_CHANNEL_CREATE":                      0x8,
	"PKT_TYPE_CHANNEL_RESPONSE":                    0x9,
	"PKT_TYPE_DATA":                                0xA,
	"PKT_TYPE_KEEPALIVE":                           0xD,
	"PKT_TYPE_CLOSE_CHANNEL":                       0x10,
	"PKT_TYPE_CLOSE_CHANNEL_RESPONSE":              0x11,
	"HTTP_TUNNEL_RESPONSE_FIELD_TUNNEL_ID":         0x1,
	"HTTP_TUNNEL_RESPONSE_FIELD_CAPS":              0x2,
	"HTTP_TUNNEL_AUTH_RESPONSE_FIELD_REDIR_FLAGS":  0x1,
	"HTTP_TUNNEL_AUTH_RESPONSE_FIELD_IDLE_TIMEOUT": 0x2,
	"HTTP_CHANNEL_RESPONSE_FIELD_CHANNELID":        0x1,
	"HTTP_TUNNEL_REDIR_ENABLE_ALL":                 0x80000000,
	"HTTP_TUNNEL_REDIR_DISABLE_ALL":                0x40000000,
	"HTTP_TUNNEL_REDIR_DISABLE_DRIVE":              0x1,
	"HTTP_TUNNEL_REDIR_DISABLE_PRINTER":            0x2,
	"HTTP_TUNNEL_REDIR_DISABLE_PORT":               0x4,
	"HTTP_TUNNEL_REDIR_DISABLE_CLIPBOARD":          0x8,
	"HTTP_TUNNEL_REDIR_DISABLE_PNP":                0x10,
	"HTTP_CAPABILITY_IDLE_TIMEOUT":                 0x2,
}

func c16Constants(c *Ctx) {
	rule := "C16/constants"
	for _, name := range sortedKeys(mstsguConstants) {
		want := mstsguConstants[name]
		got := c.ConstInt("cmd/rdpgw/protocol", name)
		c.Check(uint32(got) == want, rule, "const "+name, token.NoPos, fmt.Sprintf("%#x as in MS-TSGU", want), fmt.Sprintf("value %#x differs from MS-TSGU %#x", uint32(got), want))
	}
}

func c16Redirect(c *Ctx) {
	rule := "C16/redirect"
	fn := c.Fn("cmd/rdpgw/protocol", "makeRedirectFlags")
	names := []string{"Clipboard", "Port", "Drive", "Printer", "Pnp", "DisableAll", "EnableAll"}
	bits := map[string]uint32{"Drive": 0x1, "Printer": 0x2, "Port": 0x4, "Clipboard": 0x8, "Pnp": 0x10}
	rf := c.NamedType("cmd/rdpgw/protocol", "RedirectFlags")
	st := rf.Underlying().(*types.Struct)
	if st.NumFields() != len(names) {
		c.Undecided(rule, "RedirectFlags fields", fn.Pos(), "RedirectFlags has %d fields, the specification table knows %d", st.NumFields(), len(names))
		return
	}
	fieldOf := map[*types.Var]string{}
	for i := 0; i < st.NumFields(); i++ {
		fieldOf[st.Field(i)] = st.Field(i).Name()
	}
	nBad := 0
	for mask := 0; mask < 128; mask++ {
		val := map[string]bool{}
		for i, n := range names {
			val[n] = mask&(1<<i) != 0
		}
		var want uint32
		switch {
		case val["DisableAll"]:
			want = 0x40000000
		case val["EnableAll"]:
			want = 0x80000000
		default:
			for n, b := range bits {
				if !val[n] {
					want |= b
				}
			}
		}
		cfg := evalCfg{seed: func(v ssa.Value) (constant.Value, bool) {
			if _, f, ok := fieldLoad(v); ok {
				if n, ok := fieldOf[f]; ok {
					return constant.MakeBool(val[n]), true
				}
			}
			return nil, false
		}}
		res, complete := evalPaths(fn, cfg)
		key := fmt.Sprintf("makeRedirectFlags %07b", mask)
		if !complete || len(res) != 1 || len(res[0].Unknown) > 0 {
			c.Undecided(rule, key, fn.Pos(), "result is not determined by the seven switches alone (paths=%d)", len(res))
			nBad++
			if nBad > 4 {
				return
			}
			continue
		}
		cv, ok := res[0].Env.get(res[0].Ret.Results[0])
		if !ok {
			c.Undecided(rule, key, res[0].Ret.Pos(), "returned value not constant under the switches")
			continue
		}
		got, _ := constant.Uint64Val(cv)
		if uint32(got) != want {
			var on []string
			for _, n := range names {
				if val[n] {
					on = append(on, n)
				}
			}
			nBad++
			if nBad <= 6 {
				c.Bad(rule, key, res[0].Ret.Pos(), "with {%s} enabled the flags are %#x, specification says %#x", strings.Join(on, ","), uint32(got), want)
			}
		} else {
			c.OK(rule, key, res[0].Ret.Pos(), "%#x", want)
		}
	}
	// the response carries this function's value for the gateway's policy
	tar := c.Fn("cmd/rdpgw/protocol", "Processor.tunnelAuthResponse")
	writes, _, ok, _ := bufferWrites(tar)
	good := false
	if ok && len(writes) >= 4 {
		if call, isCall := strip(writes[3].val).(*ssa.Call); isCall && calleeName(call) == protoPkg+".makeRedirectFlags" {
			_, f, isF := fieldLoad(strip(arg(call, 0)))
			good = isF && f.Name() == "RedirectFlags"
		}
	}
	c.Check(good, rule, "tunnelAuthResponse redir-field", tar.Pos(), "redirect field = makeRedirectFlags(gateway.RedirectFlags)", "the redirect flags field is not makeRedirectFlags of the gateway's configured policy")
	c.Floor(rule, 128, "2^7 settings")
}

func c16Idle(c *Ctx) {
	rule := "C16/idle"
	tar := c.Fn("cmd/rdpgw/protocol", "Processor.tunnelAuthResponse")
	idleF := c.FieldVar("cmd/rdpgw/protocol", "Gateway", "IdleTimeout")
	writes, _, ok, why := bufferWrites(tar)
	if !ok || len(writes) < 5 {
		c.Undecided(rule, "tunnelAuthResponse idle-field", tar.Pos(), "cannot identify the idle timeout write: %s", why)
		return
	}
	w := writes[4]
	v := strip(w.val)
	key := "tunnelAuthResponse idle-field"
	// accepted shapes: phi(load, 0) guarded by load<0; or max(load, 0)
	if call, ok := v.(*ssa.Call); ok {
		if bi, ok := call.Call.Value.(*ssa.Builtin); ok && bi.Name() == "max" && len(call.Call.Args) == 2 {
			a, b := call.Call.Args[0], call.Call.Args[1]
			za, _ := constInt(a)
			zb, _ := constInt(b)
			if (isFieldLoad(a, idleF) && constOf(b) != nil && zb == 0) || (isFieldLoad(b, idleF) && constOf(a) != nil && za == 0) {
				c.OK(rule, key, w.call.Pos(), "max(Gateway.IdleTimeout, 0)")
				return
			}
		}
	}
	phi, isPhi := v.(*ssa.Phi)
	if !isPhi {
		if isFieldLoad(v, idleF) {
			c.Bad(rule, key, w.call.Pos(), "Gateway.IdleTimeout is written without the clamp: a negative value is reported as a huge timeout")
		} else {
			c.Bad(rule, key, w.call.Pos(), "the idle timeout field is not Gateway.IdleTimeout (clamped at 0)")
		}
		return
	}
	good := len(phi.Edges) == 2
	var load ssa.Value
	for i, e := range phi.Edges {
		pred := phi.Block().Preds[i]
		if isFieldLoad(e, idleF) {
			load = e
			// this edge must only be taken when load >= 0
			g := GCmp(func(x ssa.Value, op token.Token, y ssa.Value) bool {
				if x == load {
					k, ok := constInt(y)
					return ok && ((op == token.GEQ && k == 0) || (op == token.GTR && k == -1))
				}
				if y == load {
					k, ok := constInt(x)
					return ok && ((op == token.LEQ && k == 0) || (op == token.LSS && k == -1))
				}
				return false
			})
			if edgeReachableAvoiding(tar, pred, phi.Block(), g) {
				good = false
			}
		} else if k, ok := constInt(e); ok && k == 0 {
		} else {
			good = false
		}
	}
	c.Check(good && load != nil, rule, key, w.call.Pos(), "idle timeout = Gateway.IdleTimeout when >= 0, else 0", "the idle timeout written is not Gateway.IdleTimeout clamped at 0")
}

// edgeReachableAvoiding: the CFG edge from->to can be traversed on a path from the
// entry that avoids every edge establishing g (the edge itself included).
func edgeReachableAvoiding(fn *ssa.Function, from, to *ssa.BasicBlock, g Guard) bool {
	r, _ := reachAvoiding(fn, from, g)
	if !r {
		return false
	}
	if n := len(from.Instrs); n > 0 {
		if ifi, ok := from.Instrs[n-1].(*ssa.If); ok {
			for i, s := range from.Succs {
				if s == to && !g(ifi.Cond, i == 0) {
					return true
				}
			}
			return false
		}
	}
	return true
}

// nestedInitStores: "A.B" -> stored values for the struct initialised at alloc (incl. a copied literal).
func nestedInitStores(alloc ssa.Value) map[string][]ssa.Value {
	out := map[string][]ssa.Value{}
	var collect func(a ssa.Value, prefix string)
	collect = func(a ssa.Value, prefix string) {
		if a.Referrers() == nil {
			return
		}
		for _, r := range *a.Referrers() {
			fa, ok := r.(*ssa.FieldAddr)
			if !ok || fa.X != a {
				continue
			}
			_, f, _ := fieldOfAddr(fa)
			name := prefix + f.Name()
			for _, rr := range *fa.Referrers() {
				if s, ok := rr.(*ssa.Store); ok && s.Addr == fa {
					out[name] = append(out[name], s.Val)
				}
			}
			if _, isStruct := f.Type().Underlying().(*types.Struct); isStruct {
				collect(fa, name+".")
			}
		}
	}
	collect(alloc, "")
	for _, src := range copiedFrom(alloc) {
		collect(src, "")
	}
	return out
}

func c16PolicyWiring(c *Ctx) { c16PolicyWiringAs(c, "C16/policy-wiring", nil) }

// c16PolicyWiringAs: only the named Gateway fields when only != nil.
func c16PolicyWiringAs(c *Ctx, rule string, only map[string]bool) {
	mainFn := c.Fn("cmd/rdpgw", "main")
	var gw ssa.Value
	c.eachMainInstr(func(in ssa.Instruction) {
		if mc, ok := in.(*ssa.MakeClosure); ok {
			f := mc.Fn.(*ssa.Function)
			if f.Synthetic != "" && strings.HasPrefix(f.Name(), "HandleGatewayProtocol$bound") && len(mc.Bindings) == 1 {
				gw = c.upOne(mc.Bindings[0]) // a route helper of main is handed the gateway
			}
		}
	})
	if gw == nil {
		c.Missing("gateway value in main")
	}
	init := nestedInitStores(gw)
	pairs := map[string]string{
		"RedirectFlags.Clipboard":  "Caps.EnableClipboard",
		"RedirectFlags.Drive":      "Caps.EnableDrive",
		"RedirectFlags.Printer":    "Caps.EnablePrinter",
		"RedirectFlags.Port":       "Caps.EnablePort",
		"RedirectFlags.Pnp":        "Caps.EnablePnp",
		"RedirectFlags.DisableAll": "Caps.DisableRedirect",
		"RedirectFlags.EnableAll":  "Caps.RedirectAll",
		"IdleTimeout":              "Caps.IdleTimeout",
		"SmartCardAuth":            "Caps.SmartCardAuth",
		"TokenAuth":                "Caps.TokenAuth",
	}
	for _, field := range sortedKeys(pairs) {
		if only != nil && !only[field] {
			continue
		}
		want := pairs[field]
		vs := init[field]
		key := "main Gateway." + field
		if len(vs) != 1 {
			c.Bad(rule, key, mainFn.Pos(), "initialised %d times (expected once, from conf.%s)", len(vs), want)
			continue
		}
		p, ok := confFieldPath(vs[0])
		pos := mainFn.Pos()
		if in, ok := vs[0].(ssa.Instruction); ok {
			pos = in.Pos()
		}
		c.Check(ok && p == want, rule, key, pos, "= conf."+want, fmt.Sprintf("initialised from conf.%s instead of conf.%s: the response reports a different policy than the administrator configured", p, want))
	}
	// the idle timeout travels as a signed int from the configuration to the clamp in tunnelAuthResponse
	if only == nil || only["IdleTimeout"] {
		cf := c.FieldVar("cmd/rdpgw/config", "RDGCapsConfig", "IdleTimeout")
		gf := c.FieldVar("cmd/rdpgw/protocol", "Gateway", "IdleTimeout")
		signed := func(t types.Type) bool {
			b, ok := t.Underlying().(*types.Basic)
			return ok && b.Info()&types.IsInteger != 0 && b.Info()&types.IsUnsigned == 0
		}
		c.Check(signed(cf.Type()) && signed(gf.Type()), rule, "IdleTimeout signedness", cf.Pos(), "configuration field and Gateway field are signed integers (a negative setting reaches the clamp as negative)", "the idle timeout is held in an unsigned field on its way to the response builder: a negative setting wraps to a huge value and is never clamped to 0")
	}
	if only == nil {
		c.Floor(rule, 10, "10 policy fields")
	} else {
		c.Floor(rule, len(only), "selected policy fields")
	}
}

// appendChain: the function returns a byte slice grown by a straight chain of
// binary.LittleEndian.AppendUintN(b, v) and append(b, data...) calls from an empty slice; returns
// the writes in order and the final value.
func appendChain(fn *ssa.Function) (writes []bufWrite, end ssa.Value, ok bool) {
	rets := returnsOf(fn)
	if len(rets) != 1 || len(rets[0].Results) == 0 {
		return nil, nil, false
	}
	end = strip(unspill(rets[0].Results[0]))
	writes, root, ok := appendChainFrom(end)
	if !ok || root != nil {
		return nil, nil, false
	}
	return writes, end, len(writes) > 0
}

// appendChainFrom walks the chain of AppendUintN / append calls that ends in `end` back to its
// root. root == nil: the chain starts from an empty slice (make([]byte, 0, cap) or nil); otherwise
// root is the call whose result the chain extends (a header helper, see headerHelper).
func appendChainFrom(end ssa.Value) (writes []bufWrite, root *ssa.Call, ok bool) {
	v := strip(unspill(end))
	var endBlock *ssa.BasicBlock
	if in, isIn := v.(ssa.Instruction); isIn {
		endBlock = in.Block()
	}
	// a step of the chain must not be repeated on its own: outside loops, or in the very block of the
	// chain's end (a packet assembled inside a relay loop, once per iteration)
	looped := func(x *ssa.Call) bool { return inCycle(x.Block()) && x.Block() != endBlock }
	for i := 0; i < 64; i++ {
		switch x := v.(type) {
		case *ssa.Call:
			name := calleeName(x)
			if bi, isB := x.Call.Value.(*ssa.Builtin); isB && bi.Name() == "append" && len(x.Call.Args) == 2 {
				if looped(x) {
					return nil, nil, false
				}
				if elems, isLit := sliceLitElems(x.Call.Args[1]); isLit {
					// append(b, x, y): a field of as many bytes
					writes = append([]bufWrite{{call: x, width: len(elems), val: x.Call.Args[1], elems: elems}}, writes...)
					v = strip(unspill(x.Call.Args[0]))
					continue
				}
				writes = append([]bufWrite{{call: x, width: -1, val: x.Call.Args[1]}}, writes...)
				v = strip(unspill(x.Call.Args[0]))
				continue
			}
			w := 0
			switch name {
			case "(encoding/binary.littleEndian).AppendUint16":
				w = 2
			case "(encoding/binary.littleEndian).AppendUint32":
				w = 4
			case "(encoding/binary.littleEndian).AppendUint64":
				w = 8
			default:
				if _, _, isH := headerHelper(x.Call.StaticCallee()); isH {
					return writes, x, true
				}
				return nil, nil, false
			}
			if looped(x) {
				return nil, nil, false
			}
			writes = append([]bufWrite{{call: x, width: w, val: x.Call.Args[len(x.Call.Args)-1]}}, writes...)
			v = strip(unspill(x.Call.Args[len(x.Call.Args)-2]))
			continue
		case *ssa.MakeSlice:
			if k, isC := constInt(x.Len); isC && k == 0 {
				return writes, nil, true
			}
			return nil, nil, false
		case *ssa.Const:
			if x.IsNil() {
				return writes, nil, true
			}
			return nil, nil, false
		default:
			return nil, nil, false
		}
	}
	return nil, nil, false
}

// headerHelper: f(…, T uint16, …, n int, …) []byte returns exactly the 8-byte packet header for a
// packet of type T whose body will have n bytes: type, reserved 0, uint32(8+n), appended to an empty
// slice (newPacket). Returns the indices of the two parameters.
func headerHelper(f *ssa.Function) (typeIdx, lenIdx int, ok bool) {
	if f == nil || !IsFirstParty(f) || f.Blocks == nil || f.Signature.Recv() != nil {
		return 0, 0, false
	}
	rets := returnsOf(f)
	if len(rets) != 1 || len(rets[0].Results) != 1 {
		return 0, 0, false
	}
	ws, root, okc := appendChainFromNoHelper(strip(unspill(rets[0].Results[0])))
	if !okc || root != nil || len(ws) != 3 || ws[0].width != 2 || ws[1].width != 2 || ws[2].width != 4 {
		return 0, 0, false
	}
	paramIdx := func(v ssa.Value) int {
		v = strip(v)
		for {
			cv, isCv := v.(*ssa.Convert)
			if !isCv {
				break
			}
			v = strip(cv.X)
		}
		for i, p := range f.Params {
			if v == ssa.Value(p) {
				return i
			}
		}
		return -1
	}
	ti := paramIdx(ws[0].val)
	if k, isC := constInt(ws[1].val); !isC || k != 0 || ti < 0 {
		return 0, 0, false
	}
	lv := strip(ws[2].val)
	for {
		cv, isCv := lv.(*ssa.Convert)
		if !isCv {
			break
		}
		lv = strip(cv.X)
	}
	bo, isBo := lv.(*ssa.BinOp)
	if !isBo || bo.Op != token.ADD {
		return 0, 0, false
	}
	li := -1
	if k, isC := constInt(bo.X); isC && k == 8 {
		li = paramIdx(bo.Y)
	} else if k, isC := constInt(bo.Y); isC && k == 8 {
		li = paramIdx(bo.X)
	}
	if li < 0 {
		return 0, 0, false
	}
	return ti, li, true
}

// appendChainFromNoHelper: appendChainFrom without looking for a header helper at the root (used
// by headerHelper itself).
func appendChainFromNoHelper(end ssa.Value) (writes []bufWrite, root *ssa.Call, ok bool) {
	v := end
	for i := 0; i < 16; i++ {
		switch x := v.(type) {
		case *ssa.Call:
			w := 0
			switch calleeName(x) {
			case "(encoding/binary.littleEndian).AppendUint16":
				w = 2
			case "(encoding/binary.littleEndian).AppendUint32":
				w = 4
			default:
				return nil, nil, false
			}
			if inCycle(x.Block()) {
				return nil, nil, false
			}
			writes = append([]bufWrite{{call: x, width: w, val: x.Call.Args[len(x.Call.Args)-1]}}, writes...)
			v = strip(unspill(x.Call.Args[len(x.Call.Args)-2]))
		case *ssa.MakeSlice:
			k, isC := constInt(x.Len)
			return writes, nil, isC && k == 0
		default:
			return nil, nil, false
		}
	}
	return nil, nil, false
}

// headerFirstBuilder: fn returns a chain that extends newPacket(T, n) by exactly n bytes when n is a
// constant (a response builder), or by a variable tail (createPacket). Returns the body writes, the
// root call and the chain's end.
func headerFirstBuilder(fn *ssa.Function) (writes []bufWrite, root *ssa.Call, end ssa.Value, ok bool, why string) {
	rets := returnsOf(fn)
	if len(rets) != 1 || len(rets[0].Results) == 0 {
		return nil, nil, nil, false, ""
	}
	end = strip(unspill(rets[0].Results[0]))
	writes, root, okc := appendChainFrom(end)
	if !okc || root == nil || len(writes) == 0 {
		return nil, nil, nil, false, ""
	}
	_, li, _ := headerHelper(root.Call.StaticCallee())
	if li >= len(root.Call.Args) {
		return nil, nil, nil, false, ""
	}
	if n, isC := constInt(root.Call.Args[li]); isC {
		sum := int64(0)
		for _, w := range writes {
			if w.width < 0 {
				return nil, nil, nil, false, "a variable-length field follows a header that declares a constant body length"
			}
			sum += int64(w.width)
		}
		if sum != n {
			return nil, nil, nil, false, fmt.Sprintf("the header declares a body of %d bytes but %d bytes are appended", n, sum)
		}
	}
	return writes, root, end, true, ""
}

func isSameInstrValue(v ssa.Value, in ssa.Instruction) bool {
	iv, ok := in.(ssa.Value)
	return ok && iv == v
}

// policyDenialCarriesError reports whether an installed policy function (security.CheckHost,
// the closure CheckSession returns, CheckPAACookie) has a return of (false, non-nil error):
// then a non-nil error of the callback accompanies an ordinary denial and is not a separate
// "internal fault" outcome.
func policyDenialCarriesError(c *Ctx) bool {
	var fns []*ssa.Function
	for _, n := range []string{"CheckHost", "CheckSession", "CheckPAACookie"} {
		if f := c.FnOpt("cmd/rdpgw/security", n); f != nil {
			fns = append(fns, f)
			fns = append(fns, f.AnonFuncs...)
		}
	}
	for _, f := range fns {
		for _, b := range f.Blocks {
			for _, in := range b.Instrs {
				r, ok := in.(*ssa.Return)
				if !ok || len(r.Results) != 2 {
					continue
				}
				if cst, ok := r.Results[0].(*ssa.Const); ok && cst.Value != nil && cst.Value.Kind() == constant.Bool && !constant.BoolVal(cst.Value) && !isNil(r.Results[1]) {
					return true
				}
			}
		}
	}
	return false
}
