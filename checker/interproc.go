package main

import (
	"go/token"
	"strings"

	"golang.org/x/tools/go/ssa"
)

// Interprocedural helpers: small, explicit steps up (parameter -> argument at the
// call sites) and down (call -> returned value) the static call structure, so that
// behaviour-preserving helper extraction does not blind the intraprocedural rules.

// staticCallers lists the static call sites of fn in first-party code; ok=false when
// fn's value is taken somewhere (it may be called dynamically) or it has no callers.
func (c *Ctx) staticCallers(fn *ssa.Function) (sites []ssa.CallInstruction, ok bool) {
	if c.callerIdx == nil {
		c.callerIdx = map[*ssa.Function][]ssa.CallInstruction{}
		c.addrTaken = map[*ssa.Function]bool{}
		saved := c.skipGenerated
		c.skipGenerated = false
		for _, f := range c.allFirstPartyFuncs() {
			eachInstr(f, func(in ssa.Instruction) {
				if ci, isCall := in.(ssa.CallInstruction); isCall {
					if cal := ci.Common().StaticCallee(); cal != nil {
						c.callerIdx[cal] = append(c.callerIdx[cal], ci)
					}
				}
				var ops []*ssa.Value
				for _, op := range in.Operands(ops) {
					if op == nil || *op == nil {
						continue
					}
					if g, isFn := (*op).(*ssa.Function); isFn {
						if ci, isCall := in.(ssa.CallInstruction); isCall && ci.Common().Value == ssa.Value(g) {
							continue
						}
						c.addrTaken[g] = true
					}
					if mc, isMC := (*op).(*ssa.MakeClosure); isMC {
						if g, isFn := mc.Fn.(*ssa.Function); isFn {
							if ci, isCall := in.(ssa.CallInstruction); isCall && ci.Common().Value == ssa.Value(mc) {
								continue
							}
							c.addrTaken[g] = true
						}
					}
				}
				if mc, isMC := in.(*ssa.MakeClosure); isMC {
					if g, isFn := mc.Fn.(*ssa.Function); isFn {
						// a closure value that is only deferred/called in place is not "taken"
						taken := false
						for _, r := range *mc.Referrers() {
							if ci, isCall := r.(ssa.CallInstruction); isCall && ci.Common().Value == ssa.Value(mc) {
								continue
							}
							if _, isDbg := r.(*ssa.DebugRef); isDbg {
								continue
							}
							taken = true
						}
						if taken {
							c.addrTaken[g] = true
						}
					}
				}
			})
		}
		c.skipGenerated = saved
	}
	if c.addrTaken[fn] || fn.Parent() != nil {
		return nil, false
	}
	s := c.callerIdx[fn]
	return s, len(s) > 0
}

// onlyCalledFrom: fn is root, or a non-exported-to-dynamic helper all of whose static
// call chains start in root (depth <= 3).
func (c *Ctx) onlyCalledFrom(fn, root *ssa.Function, depth int) bool {
	if fn == root {
		return true
	}
	if depth > 3 {
		return false
	}
	sites, ok := c.staticCallers(fn)
	if !ok {
		return false
	}
	for _, s := range sites {
		if !c.onlyCalledFrom(s.Parent(), root, depth+1) {
			return false
		}
	}
	return true
}

// onlyCalledFromAny: like onlyCalledFrom for a set of allowed roots (by shortFn name).
func (c *Ctx) onlyCalledFromAny(fn *ssa.Function, allowed map[string]bool, depth int) bool {
	if allowed[shortFn(fn)] {
		return true
	}
	if depth > 3 {
		return false
	}
	sites, ok := c.staticCallers(fn)
	if !ok {
		return false
	}
	for _, s := range sites {
		if !c.onlyCalledFromAny(s.Parent(), allowed, depth+1) {
			return false
		}
	}
	return true
}

// upValues: the values a (stripped) parameter can have, taken from all static call sites
// (recursively, depth <= 3). A value that is not such a parameter is returned as is.
func (c *Ctx) upValues(v ssa.Value, depth int) []ssa.Value {
	sv := strip(v)
	p, isParam := sv.(*ssa.Parameter)
	if !isParam || depth > 3 {
		return []ssa.Value{v}
	}
	fn := p.Parent()
	sites, ok := c.staticCallers(fn)
	if !ok {
		return []ssa.Value{v}
	}
	idx := -1
	for i, q := range fn.Params {
		if q == p {
			idx = i
		}
	}
	if idx < 0 {
		return []ssa.Value{v}
	}
	var out []ssa.Value
	for _, s := range sites {
		args := s.Common().Args
		if idx >= len(args) {
			return []ssa.Value{v}
		}
		out = append(out, c.upValues(args[idx], depth+1)...)
	}
	return out
}

// allUp: every value the parameter can take satisfies m (m itself if v is not a resolvable parameter).
func (c *Ctx) allUp(v ssa.Value, m func(ssa.Value) bool) bool {
	for _, u := range c.upValues(v, 0) {
		if !m(u) {
			return false
		}
	}
	return true
}

// downValue: for a call (or result extract) of a first-party function whose result i is
// the same value on every return (after stripping), that value; else v. Parameters of
// the callee appearing in the result are mapped back to the call's arguments.
func (c *Ctx) downValue(v ssa.Value, depth int) ssa.Value {
	if depth > 3 {
		return v
	}
	sv := strip(v)
	var call *ssa.Call
	idx := 0
	switch x := sv.(type) {
	case *ssa.Call:
		call = x
	case *ssa.Extract:
		call, _ = x.Tuple.(*ssa.Call)
		idx = x.Index
	}
	if call == nil {
		return v
	}
	callee := call.Call.StaticCallee()
	if callee == nil || !IsFirstParty(callee) || callee.Blocks == nil {
		return v
	}
	var res ssa.Value
	for _, r := range returnsOf(callee) {
		if idx >= len(r.Results) {
			return v
		}
		rv := strip(unspill(r.Results[idx]))
		if cst, isC := rv.(*ssa.Const); isC && (cst.Value == nil || cst.IsNil() || isZeroConst(cst)) {
			continue // error-path placeholder ("" / nil / 0)
		}
		if res == nil {
			res = rv
		} else if res != rv {
			return v
		}
	}
	if res == nil {
		return v
	}
	if p, isParam := res.(*ssa.Parameter); isParam {
		for i, q := range callee.Params {
			if q == p && i < len(call.Call.Args) {
				return c.downValue(call.Call.Args[i], depth+1)
			}
		}
	}
	return c.downValue(res, depth+1)
}

func isZeroConst(k *ssa.Const) bool {
	if k.Value == nil {
		return true
	}
	s := k.Value.ExactString()
	return s == `""` || s == "0" || s == "false"
}

// mustPassUp: G is established on every path to `at` in fn, or — for a helper that is only
// called statically — on every path to each of its call sites (recursively). Only for guards
// whose matchers do not refer to values local to fn (configuration loads, calls on globals).
func (c *Ctx) mustPassUp(fn *ssa.Function, at ssa.Instruction, g Guard, depth int) (bool, string) {
	ok, why := mustPass(fn, at, g)
	if ok || depth > 3 {
		return ok, why
	}
	sites, okc := c.staticCallers(fn)
	if !okc {
		return false, why
	}
	for _, s := range sites {
		if ok2, why2 := c.mustPassUp(s.Parent(), s.(ssa.Instruction), g, depth+1); !ok2 {
			return false, why2 + " (through helper " + fn.Name() + ")"
		}
	}
	return true, ""
}

// locksHeldAtUp: locks held at `in`, including locks held at every static call site of a helper.
func (c *Ctx) locksHeldAtUp(fn *ssa.Function, in ssa.Instruction, depth int) []lockHeld {
	held := locksHeldAt(fn, in)
	if depth > 2 {
		return held
	}
	if fn.Parent() != nil {
		// a closure: the locks held wherever it is run — called in place, or handed to a
		// first-party wrapper (withLock(func(){...})) that does nothing with it but call it
		runs, ok := c.closureRuns(fn)
		if !ok || len(runs) == 0 {
			return held
		}
		var common []lockHeld
		for i, r := range runs {
			h := c.locksHeldAtUp(r.Parent(), r, depth+1)
			var globalsOnly []lockHeld
			for _, l := range h {
				if l.base == nil {
					globalsOnly = append(globalsOnly, l) // field mutexes are not translated across frames here
				}
			}
			if i == 0 {
				common = globalsOnly
				continue
			}
			var keep []lockHeld
			for _, a := range common {
				for _, b := range globalsOnly {
					if a.key == b.key {
						if !b.exclusive {
							a.exclusive = false
						}
						keep = append(keep, a)
					}
				}
			}
			common = keep
		}
		return append(held, common...)
	}
	sites, ok := c.staticCallers(fn)
	if !ok {
		return held
	}
	// intersection over call sites
	var common []lockHeld
	for i, s := range sites {
		h := c.locksHeldAtUp(s.Parent(), s.(ssa.Instruction), depth+1)
		// map field-mutex bases from the caller's frame into this function's parameters
		var mapped []lockHeld
		for _, l := range h {
			ml := l
			if l.base != nil {
				for pi, a := range s.Common().Args {
					if a == l.base && pi < len(fn.Params) {
						ml.base = fn.Params[pi]
					}
				}
			}
			mapped = append(mapped, ml)
		}
		if i == 0 {
			common = mapped
			continue
		}
		var keep []lockHeld
		for _, a := range common {
			for _, b := range mapped {
				if a.key == b.key && a.base == b.base {
					if !b.exclusive {
						a.exclusive = false
					}
					keep = append(keep, a)
				}
			}
		}
		common = keep
	}
	return append(held, common...)
}

var _ = token.NoPos

// onlyCalledFromAnyClosure: like onlyCalledFromAny, but callers may be closures (whose own
// static-caller relation is not followed: the closure must itself be in the allowed set).
func (c *Ctx) onlyCalledFromAnyClosure(fn *ssa.Function, allowed map[string]bool) bool {
	sites, ok := c.staticCallers(fn)
	if !ok {
		return false
	}
	for _, s := range sites {
		if !allowed[shortFn(s.Parent())] {
			return false
		}
	}
	return true
}

// ---------------------------------------------------------------------------
// chain steps that may live in a helper

// stepRef: a call that implements a verification step, possibly inside a helper that the
// anchored function calls (via lists the call sites from the anchored function downwards).
type stepRef struct {
	call *ssa.Call
	via  []*ssa.Call
}

func (s stepRef) Pos() token.Pos { return s.call.Pos() }

// findSteps finds calls to one of names in fn and in first-party functions fn calls statically
// (depth <= 2; helpers must have fn's chain as their only callers so that parameters resolve).
func (c *Ctx) findSteps(fn *ssa.Function, names ...string) []stepRef {
	var out []stepRef
	var walk func(f *ssa.Function, via []*ssa.Call, depth int)
	seen := map[*ssa.Function]bool{}
	walk = func(f *ssa.Function, via []*ssa.Call, depth int) {
		if seen[f] {
			return
		}
		seen[f] = true
		for _, ci := range callsIn(f) {
			call, ok := ci.(*ssa.Call)
			if !ok {
				continue
			}
			if isCall(call, names...) {
				out = append(out, stepRef{call, append([]*ssa.Call(nil), via...)})
				continue
			}
			if depth < 2 {
				if cal := call.Call.StaticCallee(); cal != nil && IsFirstParty(cal) && cal.Blocks != nil && cal.Pkg == fn.Pkg {
					walk(cal, append(append([]*ssa.Call(nil), via...), call), depth+1)
				}
			}
		}
	}
	walk(fn, nil, 0)
	return out
}

// upOne resolves a parameter of a helper to the argument at its call sites when they all agree.
func (c *Ctx) upOne(v ssa.Value) ssa.Value {
	us := c.upValues(v, 0)
	if len(us) == 0 {
		return v
	}
	first := strip(us[0])
	for _, u := range us[1:] {
		if strip(u) != first {
			return v
		}
	}
	return us[0]
}

// norm: up through parameters, down through single-valued helper results, without conversions.
func (c *Ctx) norm(v ssa.Value) ssa.Value {
	if v == nil {
		return nil
	}
	return strip(c.downValue(c.upOne(v), 0))
}

// errIndex: index of the error result of a call (-1 if none).
func errIndex(call *ssa.Call) int {
	sig := call.Call.Signature()
	n := sig.Results().Len()
	if n == 0 {
		return -1
	}
	if sig.Results().At(n-1).Type().String() == "error" {
		return n - 1
	}
	return -1
}

// stepGates: the instruction `exit` of fn is reachable only when step succeeded: directly, or
// because the helper holding the step returns a nil error only over the step's success edge and
// fn tests that helper's error.
func (c *Ctx) stepGates(fn *ssa.Function, exit ssa.Instruction, st stepRef, resIdx int) (bool, string) {
	res := resultOf(st.call, resIdx)
	if res == nil {
		return false, "the step's result is discarded"
	}
	var g Guard
	if res.Type().String() == "bool" {
		g = GTrue(isVal(res))
	} else {
		g = GErrNil(res)
	}
	return c.stepGatesG(fn, exit, st, g)
}

// stepGatesG: like stepGates for an arbitrary guard over values of the function holding the step.
func (c *Ctx) stepGatesG(fn *ssa.Function, exit ssa.Instruction, st stepRef, g Guard) (bool, string) {
	if len(st.via) == 0 {
		return mustPass(fn, exit, g)
	}
	// innermost helper
	h := st.call.Parent()
	for _, r := range returnsOf(h) {
		ei := len(r.Results) - 1
		if ei < 0 {
			return false, "helper " + h.Name() + " returns no error"
		}
		if !isNil(unspill(r.Results[ei])) {
			continue
		}
		if ok, why := mustPass(h, r, g); !ok {
			return false, "helper " + h.Name() + " can return a nil error although the step failed: " + why
		}
	}
	// the helper's own call site must gate, recursively
	outer := stepRef{st.via[len(st.via)-1], st.via[:len(st.via)-1]}
	ei := errIndex(outer.call)
	if ei < 0 {
		return false, "helper " + h.Name() + " has no error result"
	}
	return c.stepGates(fn, exit, outer, ei)
}

// stepFailureCuts: once the step executed, its failure makes `exit` unreachable.
func (c *Ctx) stepFailureCuts(fn *ssa.Function, exit ssa.Instruction, st stepRef, resIdx int) (bool, string) {
	if len(st.via) == 0 {
		res := resultOf(st.call, resIdx)
		if res == nil {
			return false, "the step's result is discarded"
		}
		r, path := reachFromAvoiding(fn, st.call.Block(), exit.Block(), GErrNil(res))
		if r {
			return false, "still reachable after the failure via blocks " + itoaList(path)
		}
		return true, ""
	}
	h := st.call.Parent()
	res := resultOf(st.call, resIdx)
	if res == nil {
		return false, "the step's result is discarded"
	}
	for _, r := range returnsOf(h) {
		ei := len(r.Results) - 1
		if ei < 0 || !isNil(unspill(r.Results[ei])) {
			continue
		}
		if reach, _ := reachFromAvoiding(h, st.call.Block(), r.Block(), GErrNil(res)); reach {
			return false, "helper " + h.Name() + " can return a nil error after the step failed"
		}
	}
	outer := stepRef{st.via[len(st.via)-1], st.via[:len(st.via)-1]}
	ei := errIndex(outer.call)
	if ei < 0 {
		return false, "helper has no error result"
	}
	return c.stepFailureCuts(fn, exit, outer, ei)
}

func itoaList(xs []int) string {
	s := "["
	for i, x := range xs {
		if i > 0 {
			s += " "
		}
		s += itoa(x)
	}
	return s + "]"
}

// siteIn: the instruction in fn that stands for the step (the step itself, or the outermost helper call).
func (st stepRef) siteIn() *ssa.Call {
	if len(st.via) > 0 {
		return st.via[0]
	}
	return st.call
}

// upIn resolves parameters of the step's helper(s) along the step's own call chain.
func (c *Ctx) upIn(st stepRef, v ssa.Value) ssa.Value {
	for i := len(st.via) - 1; i >= 0 && v != nil; i-- {
		site := st.via[i]
		callee := site.Call.StaticCallee()
		p, ok := strip(v).(*ssa.Parameter)
		if !ok || callee == nil || p.Parent() != callee {
			// a load/field of a parameter is not rewritten; only whole parameters
			break
		}
		idx := -1
		for j, q := range callee.Params {
			if q == p {
				idx = j
			}
		}
		if idx < 0 || idx >= len(site.Call.Args) {
			break
		}
		v = site.Call.Args[idx]
	}
	return v
}

// normIn: upIn, then down through single-valued helper results, then strip.
func (c *Ctx) normIn(st stepRef, v ssa.Value) ssa.Value {
	if v == nil {
		return nil
	}
	return strip(c.downValue(c.upIn(st, v), 0))
}

// originsDeep: origins, looking through first-party helper calls into the values they return
// (depth <= 2; zero-value placeholders on error paths are ignored).
func (c *Ctx) originsDeep(v ssa.Value, depth int, stop ...string) []Origin {
	var out []Origin
	for _, o := range origins(v) {
		if o.Kind == "call" && depth < 2 && !isCall(o.Call, stop...) {
			if call, ok := o.Call.(*ssa.Call); ok {
				if cal := call.Call.StaticCallee(); cal != nil && IsFirstParty(cal) && cal.Blocks != nil {
					expanded := false
					for _, r := range returnsOf(cal) {
						if o.Index >= len(r.Results) {
							continue
						}
						rv := unspill(r.Results[o.Index])
						if k, isC := strip(rv).(*ssa.Const); isC && isZeroConst(k) {
							continue
						}
						for _, io := range c.originsDeep(rv, depth+1, stop...) {
							// a value the helper merely hands back is the caller's argument
							if p, isP := io.Value.(*ssa.Parameter); isP && io.Kind == "param" && p.Parent() == cal {
								mapped := false
								for j, q := range cal.Params {
									if q == p && j < len(call.Call.Args) {
										out = append(out, c.originsDeep(call.Call.Args[j], depth+1, stop...)...)
										mapped = true
									}
								}
								if mapped {
									continue
								}
							}
							out = append(out, io)
						}
						expanded = true
					}
					if expanded {
						continue
					}
				}
			}
		}
		out = append(out, o)
	}
	return out
}

// scopedCall: an interface-method call found in root or in a first-party helper root calls
// statically; args are translated into root's frame where they are the helper's parameters.
type scopedCall struct {
	call *ssa.Call
	args []ssa.Value
}

func (c *Ctx) invokesInScope(root *ssa.Function, method string, depth int) []scopedCall {
	var out []scopedCall
	for _, ci := range callsIn(root) {
		call, ok := ci.(*ssa.Call)
		if !ok {
			continue
		}
		if call.Call.IsInvoke() {
			if call.Call.Method.Name() == method {
				out = append(out, scopedCall{call, append([]ssa.Value(nil), call.Call.Args...)})
			}
			continue
		}
		callee := call.Call.StaticCallee()
		if callee == nil || !IsFirstParty(callee) || callee.Blocks == nil || depth >= 2 || callee == root {
			continue
		}
		for _, sc := range c.invokesInScope(callee, method, depth+1) {
			args := make([]ssa.Value, len(sc.args))
			for i, a := range sc.args {
				args[i] = a
				if p, ok := strip(a).(*ssa.Parameter); ok {
					for j, q := range callee.Params {
						if q == p && j < len(call.Call.Args) {
							args[i] = call.Call.Args[j]
						}
					}
				}
			}
			out = append(out, scopedCall{sc.call, args})
		}
	}
	return out
}

// findInvokeSteps: like findSteps for interface method calls, by method name.
func (c *Ctx) findInvokeSteps(fn *ssa.Function, method string) []stepRef {
	var out []stepRef
	var walk func(f *ssa.Function, via []*ssa.Call, depth int)
	seen := map[*ssa.Function]bool{}
	walk = func(f *ssa.Function, via []*ssa.Call, depth int) {
		if seen[f] {
			return
		}
		seen[f] = true
		for _, ci := range callsIn(f) {
			call, ok := ci.(*ssa.Call)
			if !ok {
				continue
			}
			if call.Call.IsInvoke() {
				if call.Call.Method.Name() == method {
					out = append(out, stepRef{call, append([]*ssa.Call(nil), via...)})
				}
				continue
			}
			if depth < 2 {
				if cal := call.Call.StaticCallee(); cal != nil && IsFirstParty(cal) && cal.Blocks != nil && cal.Pkg == fn.Pkg {
					walk(cal, append(append([]*ssa.Call(nil), via...), call), depth+1)
				}
			}
		}
	}
	walk(fn, nil, 0)
	return out
}

// fieldPathIn: fieldPath of v inside the step's helper, with a root that is the helper's
// parameter resolved to the anchored function's value.
func (c *Ctx) fieldPathIn(st stepRef, v ssa.Value) (ssa.Value, []string) {
	root, path := fieldPath(v)
	if root != nil {
		root = strip(c.upIn(st, root))
		// the helper's receiver or parameter is itself a field path in the caller (c.h.lookup(...)
		// reading h.Database): compose the two paths
		if r2, p2 := fieldPath(root); r2 != nil && len(p2) > 0 && r2 != root {
			root = strip(r2)
			path = append(append([]string{}, p2...), path...)
		}
	}
	return root, path
}

// closureRuns: the instructions at which the anonymous function fn is executed synchronously:
// direct calls of its closure value, and the calls of parameter i inside a first-party function
// that receives the closure as argument i and only ever calls that parameter. ok=false when the
// closure value escapes otherwise (stored, deferred, started as a goroutine, returned).
func (c *Ctx) closureRuns(fn *ssa.Function) (runs []ssa.Instruction, ok bool) {
	parent := fn.Parent()
	if parent == nil {
		return nil, false
	}
	ok = true
	eachInstr(parent, func(in ssa.Instruction) {
		mc, isMC := in.(*ssa.MakeClosure)
		if !isMC || mc.Fn != ssa.Value(fn) {
			return
		}
		for _, r := range *mc.Referrers() {
			switch x := r.(type) {
			case *ssa.DebugRef:
			case *ssa.Call:
				if x.Call.Value == ssa.Value(mc) {
					runs = append(runs, x)
					continue
				}
				callee := x.Call.StaticCallee()
				if callee == nil || !IsFirstParty(callee) || callee.Blocks == nil {
					ok = false
					continue
				}
				for i, a := range x.Call.Args {
					if a != ssa.Value(mc) {
						continue
					}
					if i >= len(callee.Params) {
						ok = false
						continue
					}
					p := callee.Params[i]
					for _, pr := range *p.Referrers() {
						switch y := pr.(type) {
						case *ssa.DebugRef:
						case *ssa.Call:
							if y.Call.Value == ssa.Value(p) {
								runs = append(runs, y)
							} else {
								ok = false
							}
						default:
							ok = false
						}
					}
				}
			default:
				ok = false
			}
		}
	})
	return runs, ok
}

// scopeFuncs: fn, its anonymous functions, and the first-party functions of the same package
// it calls statically (to the given depth), with their anonymous functions.
func scopeFuncs(fn *ssa.Function, depth int) []*ssa.Function {
	seen := map[*ssa.Function]bool{}
	var out []*ssa.Function
	var walk func(f *ssa.Function, d int)
	walk = func(f *ssa.Function, d int) {
		if seen[f] {
			return
		}
		seen[f] = true
		out = append(out, f)
		for _, a := range f.AnonFuncs {
			walk(a, d)
		}
		if d <= 0 {
			return
		}
		for _, ci := range callsIn(f) {
			if cal := ci.Common().StaticCallee(); cal != nil && IsFirstParty(cal) && cal.Blocks != nil && cal.Pkg == fn.Pkg {
				walk(cal, d-1)
			}
		}
	}
	walk(fn, depth)
	return out
}

// httpErr: a refusal written with http.Error — directly, or through a first-party helper
// (func fail(w, msg, code) { http.Error(w, msg, code) }) that passes its parameters on; code is
// the status value in the frame of the function that was scanned.
type httpErr struct {
	site ssa.CallInstruction
	code ssa.Value
}

func (c *Ctx) httpErrors(fn *ssa.Function) []httpErr {
	var out []httpErr
	for _, ci := range callsIn(fn) {
		if calleeName(ci) == "net/http.Error" {
			out = append(out, httpErr{ci, arg(ci, 2)})
			continue
		}
		callee := ci.Common().StaticCallee()
		if callee == nil || !IsFirstParty(callee) || callee.Blocks == nil {
			continue
		}
		// the helper must call http.Error on every path, with its own parameter as the status
		var inner ssa.CallInstruction
		for _, cj := range callsTo(callee, "net/http.Error") {
			inner = cj
		}
		if inner == nil {
			continue
		}
		all := true
		for _, r := range returnsOf(callee) {
			if reachFromWithoutMarkerAvoiding(callee.Blocks[0], r, func(in ssa.Instruction) bool { return in == inner.(ssa.Instruction) }, nil) {
				all = false
			}
		}
		if !all {
			continue
		}
		code := arg(inner, 2)
		if p, ok := strip(code).(*ssa.Parameter); ok {
			for i, q := range callee.Params {
				if q == p && i < len(ci.Common().Args) {
					out = append(out, httpErr{ci, ci.Common().Args[i]})
				}
			}
		} else if _, isC := constInt(code); isC {
			out = append(out, httpErr{ci, code})
		}
	}
	return out
}

// fieldStore: a store into <base>.<outer>.<field> made by fn itself or by a first-party helper fn
// calls statically with the base as an argument; val and up() are expressed in fn's frame.
type fieldStore struct {
	field string
	val   ssa.Value       // stored value, helper parameters replaced by the call's arguments
	at    ssa.Instruction // instruction of fn at which the store happens (the store, or the helper call)
	store *ssa.Store
	up    func(ssa.Value) ssa.Value // maps a value of the storing function into fn's frame (parameters only)
}

// nestedFieldStores lists stores to X.<outer>.<f> for every f, in fn and (depth 1) in helpers that
// receive X; isBase decides whether a value of fn is the base object X (nil: any base).
func (c *Ctx) nestedFieldStores(fn *ssa.Function, outer string, isBase func(ssa.Value) bool) map[string][]fieldStore {
	out := map[string][]fieldStore{}
	scan := func(f *ssa.Function, at func(*ssa.Store) ssa.Instruction, up func(ssa.Value) ssa.Value, baseOK func(ssa.Value) bool) {
		eachInstr(f, func(in ssa.Instruction) {
			st, ok := in.(*ssa.Store)
			if !ok {
				return
			}
			b, fld, ok := fieldOfAddr(st.Addr)
			if !ok {
				return
			}
			bb, pf, ok2 := fieldOfAddr(b)
			if !ok2 || pf.Name() != outer {
				return
			}
			if baseOK != nil && !baseOK(bb) {
				return
			}
			out[fld.Name()] = append(out[fld.Name()], fieldStore{fld.Name(), up(st.Val), at(st), st, up})
		})
	}
	ident := func(v ssa.Value) ssa.Value { return v }
	scan(fn, func(st *ssa.Store) ssa.Instruction { return st }, ident, isBase)
	for _, ci := range callsIn(fn) {
		call, ok := ci.(*ssa.Call)
		if !ok {
			continue
		}
		h := call.Call.StaticCallee()
		if h == nil || !IsFirstParty(h) || h.Blocks == nil || h == fn {
			continue
		}
		up := func(v ssa.Value) ssa.Value {
			if p, ok := strip(v).(*ssa.Parameter); ok {
				for i, q := range h.Params {
					if q == p && i < len(call.Call.Args) {
						return call.Call.Args[i]
					}
				}
			}
			return v
		}
		var baseOK func(ssa.Value) bool
		if isBase != nil {
			baseOK = func(v ssa.Value) bool { return isBase(up(v)) }
		} else {
			baseOK = func(v ssa.Value) bool { _, isP := strip(v).(*ssa.Parameter); return isP }
		}
		scan(h, func(*ssa.Store) ssa.Instruction { return call }, up, baseOK)
	}
	return out
}

// fieldPathUp: fieldPath with the root mapped into the caller's frame.
func fieldPathUp(v ssa.Value, up func(ssa.Value) ssa.Value) (ssa.Value, []string) {
	root, path := fieldPath(v)
	if root != nil && up != nil {
		root = strip(up(root))
	}
	return root, path
}

// sameStruct: the struct a field is read from (b: an address chain) is the local `want`, or a
// local copy of the value a first-party helper returned, which on every return is the content of
// `want` (a claims struct filled and handed back by a verifying helper).
func (c *Ctx) sameStruct(b ssa.Value, want *ssa.Alloc) bool {
	a := baseAlloc(b)
	if a == nil || want == nil {
		return false
	}
	if a == want {
		return true
	}
	var val ssa.Value
	n := 0
	for _, r := range *a.Referrers() {
		if st, ok := r.(*ssa.Store); ok && st.Addr == ssa.Value(a) {
			val = st.Val
			n++
		}
	}
	if n != 1 {
		return false
	}
	down := strip(c.downValue(val, 0))
	if la, ok := loadAddr(down); ok && la == ssa.Value(want) {
		return true
	}
	// each return of the helper loads the struct afresh: compare per return
	ex, ok := strip(val).(*ssa.Extract)
	if !ok {
		return false
	}
	call, ok := ex.Tuple.(*ssa.Call)
	if !ok {
		return false
	}
	h := call.Call.StaticCallee()
	if h == nil || !IsFirstParty(h) || h.Blocks == nil || want.Parent() != h {
		return false
	}
	rets := returnsOf(h)
	some := false
	for _, r := range rets {
		if ex.Index >= len(r.Results) {
			return false
		}
		rv0 := strip(unspill(r.Results[ex.Index]))
		if k, isC := rv0.(*ssa.Const); isC && (k.Value == nil || isZeroConst(k)) {
			continue // T{} on an error path
		}
		la, ok := loadAddr(rv0)
		if ok && la == ssa.Value(want) {
			some = true
			continue
		}
		// an error path that hands back the zero value of the struct (T{}) carries nothing
		if al, isAl := la.(*ssa.Alloc); ok && isAl && onlyLoaded(al) {
			continue
		}
		return false
	}
	return some
}

// onlyLoaded: the local is never written (it holds the zero value of its type).
func onlyLoaded(al *ssa.Alloc) bool {
	for _, r := range *al.Referrers() {
		switch x := r.(type) {
		case *ssa.UnOp:
			if x.Op != token.MUL {
				return false
			}
		case *ssa.DebugRef:
		default:
			return false
		}
	}
	return true
}

// ---------------------------------------------------------------------------
// dials that may live in a helper

// isDialName: a library call that opens a network connection.
func isDialName(n string) bool {
	return strings.HasPrefix(n, "net.Dial") || strings.HasPrefix(n, "(*net.Dialer).Dial")
}

// dialAddrArg: the address operand of a library dial call.
func dialAddrArg(call *ssa.Call) ssa.Value {
	if !isDialName(calleeName(call)) || len(call.Call.Args) == 0 {
		return nil
	}
	if strings.HasPrefix(calleeName(call), "(*net.Dialer)") {
		return call.Call.Args[len(call.Call.Args)-1]
	}
	if len(call.Call.Args) > 1 {
		return call.Call.Args[1]
	}
	return nil
}

// dialLike: call is a library dial, or a first-party helper (depth <= 2) that returns (conn, err)
// where every non-nil conn it returns is result 0 of a dial-like call in it and is returned together
// with that call's own error — so that, at the call site, err == nil implies the dial succeeded and
// result 0 is the dialled connection.
func (c *Ctx) dialLike(call *ssa.Call, depth int) bool {
	if call == nil {
		return false
	}
	if isDialName(calleeName(call)) {
		return true
	}
	h := call.Call.StaticCallee()
	if h == nil || !IsFirstParty(h) || h.Blocks == nil || depth >= 2 {
		return false
	}
	if h.Signature.Results().Len() != 2 {
		return false
	}
	some := false
	for _, r := range returnsOf(h) {
		if len(r.Results) != 2 {
			return false
		}
		v0 := strip(unspill(r.Results[0]))
		if isNil(v0) {
			continue
		}
		ex0, ok := v0.(*ssa.Extract)
		if !ok || ex0.Index != 0 {
			return false
		}
		inner, ok := ex0.Tuple.(*ssa.Call)
		if !ok || !c.dialLike(inner, depth+1) {
			return false
		}
		ex1, ok := strip(unspill(r.Results[1])).(*ssa.Extract)
		if !ok || ex1.Tuple != ssa.Value(inner) || ex1.Index != 1 {
			return false
		}
		some = true
	}
	return some
}

// dialLikeAddr: the address the dial-like call connects to, in the frame of the call's function.
func (c *Ctx) dialLikeAddr(call *ssa.Call, depth int) ssa.Value {
	if isDialName(calleeName(call)) {
		return dialAddrArg(call)
	}
	h := call.Call.StaticCallee()
	if h == nil || depth >= 2 {
		return nil
	}
	var addr ssa.Value
	for _, ci := range callsIn(h) {
		inner, ok := ci.(*ssa.Call)
		if !ok || !c.dialLike(inner, depth+1) {
			continue
		}
		a := c.dialLikeAddr(inner, depth+1)
		if a == nil {
			return nil
		}
		p, ok := strip(a).(*ssa.Parameter)
		if !ok {
			return nil
		}
		for j, q := range h.Params {
			if q == p && j < len(call.Call.Args) {
				if addr != nil && strip(addr) != strip(call.Call.Args[j]) {
					return nil
				}
				addr = call.Call.Args[j]
			}
		}
	}
	return addr
}

// dialLikeIn: the dial-like calls made directly in fn.
func (c *Ctx) dialLikeIn(fn *ssa.Function) []*ssa.Call {
	var out []*ssa.Call
	for _, ci := range callsIn(fn) {
		if call, ok := ci.(*ssa.Call); ok && c.dialLike(call, 0) {
			out = append(out, call)
		}
	}
	return out
}

// structFieldStoresDeep: the field initialisers of a struct local; when the local is filled as a
// whole from a first-party constructor that returns a literal by value (claims := newClaims(user,
// issuer)), the constructor's field initialisers with its parameters replaced by the call's
// arguments.
func (c *Ctx) structFieldStoresDeep(al *ssa.Alloc) map[string][]ssa.Value {
	st := structFieldStores(al)
	if len(st) > 0 {
		return st
	}
	sts := storesTo(al)
	if len(sts) != 1 {
		return st
	}
	call, ok := strip(sts[0].Val).(*ssa.Call)
	if !ok {
		return st
	}
	h := call.Call.StaticCallee()
	if h == nil || !IsFirstParty(h) || h.Blocks == nil {
		return st
	}
	rets := returnsOf(h)
	if len(rets) != 1 || len(rets[0].Results) != 1 {
		return st
	}
	la, ok := loadAddr(strip(rets[0].Results[0]))
	if !ok {
		return st
	}
	hal, ok := la.(*ssa.Alloc)
	if !ok {
		return st
	}
	out := map[string][]ssa.Value{}
	for name, vs := range structFieldStores(hal) {
		for _, v := range vs {
			if p, isP := strip(v).(*ssa.Parameter); isP {
				for j, q := range h.Params {
					if q == p && j < len(call.Call.Args) {
						v = call.Call.Args[j]
					}
				}
			}
			out[name] = append(out[name], v)
		}
	}
	return out
}

// claimsOf: the registered-claims literal of a minting function: a jwt.Claims local of fn, or the
// value of a call in fn to a first-party constructor that returns such a literal (newClaims(user,
// issuer)). fields: the initialisers in fn's frame; holds(v): v is that claims value.
func (c *Ctx) claimsOf(fn *ssa.Function) (fields map[string][]ssa.Value, pos token.Pos, holds func(ssa.Value) bool, ok bool) {
	var std *ssa.Alloc
	eachInstr(fn, func(in ssa.Instruction) {
		if al, isAl := in.(*ssa.Alloc); isAl && typeIs(al.Type(), joseJWT, "Claims") {
			std = al
		}
	})
	if std != nil {
		return c.structFieldStoresDeep(std), std.Pos(), func(v ssa.Value) bool {
			a, isLoad := loadAddr(strip(v))
			return isLoad && a == ssa.Value(std)
		}, true
	}
	for _, ci := range callsIn(fn) {
		call, isCall := ci.(*ssa.Call)
		if !isCall || !typeIs(call.Type(), joseJWT, "Claims") {
			continue
		}
		h := call.Call.StaticCallee()
		if h == nil || !IsFirstParty(h) || h.Blocks == nil {
			continue
		}
		rets := returnsOf(h)
		if len(rets) != 1 || len(rets[0].Results) != 1 {
			continue
		}
		la, isLoad := loadAddr(strip(rets[0].Results[0]))
		hal, isAl := la.(*ssa.Alloc)
		if !isLoad || !isAl {
			continue
		}
		out := map[string][]ssa.Value{}
		for name, vs := range structFieldStores(hal) {
			for _, v := range vs {
				if p, isP := strip(v).(*ssa.Parameter); isP {
					for j, q := range h.Params {
						if q == p && j < len(call.Call.Args) {
							v = call.Call.Args[j]
						}
					}
				}
				out[name] = append(out[name], v)
			}
		}
		return out, call.Pos(), func(v ssa.Value) bool { return strip(v) == ssa.Value(call) }, true
	}
	return nil, token.NoPos, nil, false
}
