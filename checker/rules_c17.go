package main

import (
	"fmt"
	"go/constant"
	"go/token"
	"go/types"
	"strings"

	"golang.org/x/tools/go/ssa"
)

func init() {
	register(&Property{
		ID:          "C17",
		Title:       "Authentication capability negotiation follows the configured requirements",
		DesignRef:   "DESIGN.md §3 C17",
		Technique:   "predicate abstraction of matchAuth (atoms caps==0, cl==0, caps&cl==0) evaluated by conditional constant propagation over go/ssa on every consistent valuation x 4 server settings; SSA value origin for the echoed fields; typestate model for the refusal path",
		LevelText:   "Static: matchAuth's accept/refuse decision and returned capability word are compared with the specification (accept iff both sides empty or a shared bit; advertise exactly SC|PAA as enabled) on every consistent valuation of the three atoms for all four server settings — which partitions all 4 x 65536 concrete cases, since every branch condition of the function is one of the atoms or constant under the server setting (anything else makes the rule undecided). The success response is built from the version bytes and client bits decoded from the same packet and matchAuth's result; mismatch is answered with E_PROXY_CAPABILITYMISMATCH (0x800759E9) and ends the tunnel.",
		LevelNote:   "Trusted: go/ssa construction, encoding/binary reading little-endian fields in call order. Nothing about this property is left to run time except the library decoders.",
		Explanation: "C17/decision enumerates (SmartCardAuth, TokenAuth) x consistent (caps&cl==0, cl==0) valuations; under each, conditional constant propagation follows the unique feasible path of matchAuth and reads the returned (caps, err==nil). C17/caps-bits checks the constants. C17/echo follows the success response's arguments. C17/request-layout checks the order, widths and destinations of the binary.Read calls in handshakeRequest.",
		Assumptions: []string{"uint16 comparisons with 0 are the only way the function inspects its operands (checked: unrecognised conditions are undecided)"},
		Rules: []RuleDef{
			{"C17/buffer-ownership", "the bytes a client receives are the bytes built for it: a packet is assembled and handed on in storage of the call, no package-level buffer or free list that the returned packet still aliases", func(c *Ctx) { packetBuffersPrivate(c, "C17/buffer-ownership") }},
			{"C17/decision", "matchAuth accepts iff (caps==0 && cl==0) || caps&cl!=0 and returns exactly the enabled bits, for all settings and all valuations", c17Decision},
			{"C17/caps-bits", "HTTP_EXTENDED_AUTH_SC = 0x1, HTTP_EXTENDED_AUTH_PAA = 0x2 as in MS-TSGU", c17CapsBits},
			{"C17/echo", "success: response carries the client's version bytes and matchAuth's caps from the same packet; mismatch: 0x800759E9 and the tunnel ends", c17Echo},
			{"C17/caps-wiring", "the switches matchAuth reads are the configured ones: Gateway.TokenAuth = conf.Caps.TokenAuth, Gateway.SmartCardAuth = conf.Caps.SmartCardAuth", func(c *Ctx) {
				c16PolicyWiringAs(c, "C17/caps-wiring", map[string]bool{"TokenAuth": true, "SmartCardAuth": true})
			}},
			{"C17/stream-ends", "when the packet loop ends (capability mismatch included) the client-facing connections are closed on every exit (C11's transport rule)", func(c *Ctx) { c11ClientTransportsAs(c, "C17/stream-ends") }},
			{"C17/response-sent", "Tunnel.Write hands the packet to the transport before it returns, so the refusal is on the wire before the tunnel is closed", func(c *Ctx) { tunnelWriteSync(c, "C17/response-sent") }},
			{"C17/response-fields", "handshakeResponse puts each parameter in its own field: status, major then minor version byte, server version 0, capability word", c17ResponseFields},
			{"C17/request-layout", "handshakeRequest reads u8,u8,u16,u16 little-endian into major, minor, version, extAuth", c17RequestLayout},
			{"C17/config-tags", "the configuration fields this property depends on are read from the documented keys: koanf tag = lower-cased field name", func(c *Ctx) {
				configTags(c, "C17/config-tags", map[string][]string{"Configuration": {"Caps"}, "RDGCapsConfig": {"SmartCardAuth", "TokenAuth"}})
			}},
		},
	})
}

// zeroTest recognises comparisons of an unsigned operand with the constant 0 or 1
// and normalises them to "operand == 0" (zeroOnTrue) or a constant.
func zeroTest(cond ssa.Value) (operand ssa.Value, zeroOnTrue bool, konst *bool, ok bool) {
	core, neg := normCond(cond)
	b, isB := core.(*ssa.BinOp)
	if !isB {
		return nil, false, nil, false
	}
	x, y, op := b.X, b.Y, b.Op
	kx, xIsC := constInt(x)
	ky, yIsC := constInt(y)
	if xIsC && !yIsC {
		// mirror: k op y  ==  y op' k
		x, y = y, x
		ky = kx
		switch op {
		case token.LSS:
			op = token.GTR
		case token.GTR:
			op = token.LSS
		case token.LEQ:
			op = token.GEQ
		case token.GEQ:
			op = token.LEQ
		}
	} else if !yIsC {
		return nil, false, nil, false
	}
	bt, isBasic := x.Type().Underlying().(*types.Basic)
	if !isBasic || bt.Info()&types.IsUnsigned == 0 {
		return nil, false, nil, false
	}
	t, f := true, false
	var zt bool
	switch {
	case ky == 0 && op == token.EQL:
		zt = true
	case ky == 0 && op == token.NEQ:
		zt = false
	case ky == 0 && op == token.GTR:
		zt = false
	case ky == 0 && op == token.LEQ:
		zt = true
	case ky == 0 && op == token.GEQ:
		if neg {
			return x, false, &f, true
		}
		return x, false, &t, true
	case ky == 0 && op == token.LSS:
		if neg {
			return x, false, &t, true
		}
		return x, false, &f, true
	case ky == 1 && op == token.GEQ:
		zt = false
	case ky == 1 && op == token.LSS:
		zt = true
	default:
		return nil, false, nil, false
	}
	if neg {
		zt = !zt
	}
	return x, zt, nil, true
}

func c17Decision(c *Ctx) {
	rule := "C17/decision"
	fn := c.Fn("cmd/rdpgw/protocol", "Processor.matchAuth")
	scF := c.FieldVar("cmd/rdpgw/protocol", "Gateway", "SmartCardAuth")
	taF := c.FieldVar("cmd/rdpgw/protocol", "Gateway", "TokenAuth")
	SC := c.ConstInt("cmd/rdpgw/protocol", "HTTP_EXTENDED_AUTH_SC")
	PAA := c.ConstInt("cmd/rdpgw/protocol", "HTTP_EXTENDED_AUTH_PAA")
	if len(fn.Params) != 2 {
		c.Missing("matchAuth signature")
	}
	cl := fn.Params[1]
	n := 0
	for _, sc := range []bool{false, true} {
		for _, ta := range []bool{false, true} {
			want := int64(0)
			if sc {
				want |= SC
			}
			if ta {
				want |= PAA
			}
			for _, A := range []bool{true, false} { // caps&cl == 0
				for _, B := range []bool{true, false} { // cl == 0
					if (want == 0 || B) && !A {
						continue // inconsistent valuation
					}
					n++
					key := fmt.Sprintf("matchAuth sc=%v paa=%v caps&cl==0:%v cl==0:%v", sc, ta, A, B)
					var unrecognised []string
					cfg := evalCfg{
						seed: func(v ssa.Value) (constant.Value, bool) {
							if _, f, ok := fieldLoad(v); ok {
								if f == scF {
									return constant.MakeBool(sc), true
								}
								if f == taF {
									return constant.MakeBool(ta), true
								}
							}
							return nil, false
						},
						decide: func(cond ssa.Value, env *pathEnv) (bool, bool) {
							op, zeroOnTrue, k, ok := zeroTest(cond)
							if !ok {
								unrecognised = append(unrecognised, cond.String())
								return false, false
							}
							if k != nil {
								return *k, true
							}
							if op == ssa.Value(cl) {
								return B == zeroOnTrue, true
							}
							if and, ok := op.(*ssa.BinOp); ok && and.Op == token.AND {
								var other ssa.Value
								if and.X == ssa.Value(cl) {
									other = and.Y
								} else if and.Y == ssa.Value(cl) {
									other = and.X
								}
								if other != nil {
									if ov, ok := env.get(other); ok {
										if iv, _ := constant.Int64Val(ov); iv == want {
											return A == zeroOnTrue, true
										}
										// masked with something other than the full server caps: decide from bits
										unrecognised = append(unrecognised, "client bits masked with "+ov.String()+" instead of the server caps")
										return false, false
									}
								}
							}
							unrecognised = append(unrecognised, cond.String())
							return false, false
						},
					}
					res, complete := evalPaths(fn, cfg)
					if !complete || len(res) != 1 || len(unrecognised) > 0 {
						c.Undecided(rule, key, fn.Pos(), "cannot follow matchAuth exactly under this valuation (paths=%d, unrecognised conditions: %s)", len(res), strings.Join(unrecognised, "; "))
						continue
					}
					r := res[0]
					accepted := isNil(r.Ret.Results[1])
					if !accepted {
						// any non-constant error value counts as refusal only if it is a fresh error
						if _, ok := r.Ret.Results[1].(*ssa.Const); ok {
							accepted = true
						}
					}
					specAccept := (want == 0 && B) || !A
					pos := r.Ret.Pos()
					if accepted != specAccept {
						if specAccept {
							c.Bad(rule, key, pos, "specification accepts (both empty, or a shared mechanism) but matchAuth refuses")
						} else {
							c.Bad(rule, key, pos, "specification refuses (no shared mechanism) but matchAuth accepts: a client can proceed without the required authentication mechanism")
						}
						continue
					}
					if accepted {
						cv, ok := r.Env.get(r.Ret.Results[0])
						got, _ := int64(0), false
						if ok {
							got, _ = constant.Int64Val(cv)
						}
						if !ok || got != want {
							c.Bad(rule, key, pos, "on success matchAuth must advertise exactly the enabled mechanisms %#x, returns %v", want, cv)
							continue
						}
					}
					c.OK(rule, key, pos, "accept=%v as specified (server caps %#x), path %v", accepted, want, r.Blocks)
				}
			}
		}
	}
	c.Stat("valuations", n)
	c.Floor(rule, 11, "4 settings x consistent valuations")
}

func c17CapsBits(c *Ctx) {
	rule := "C17/caps-bits"
	for name, want := range map[string]int64{"HTTP_EXTENDED_AUTH_SC": 0x1, "HTTP_EXTENDED_AUTH_PAA": 0x2, "HTTP_EXTENDED_AUTH_NONE": 0x0, "E_PROXY_CAPABILITYMISMATCH": 0x800759E9, "PKT_TYPE_HANDSHAKE_REQUEST": 0x1, "PKT_TYPE_HANDSHAKE_RESPONSE": 0x2} {
		got := c.ConstInt("cmd/rdpgw/protocol", name)
		c.Check(uint32(got) == uint32(want), rule, "const "+name, token.NoPos, fmt.Sprintf("%#x as in MS-TSGU", uint32(want)), fmt.Sprintf("value %#x differs from MS-TSGU %#x", uint32(got), uint32(want)))
	}
}

func c17Echo(c *Ctx) {
	rule := "C17/echo"
	m := c.ProcessModel(rule)
	if m == nil {
		return
	}
	hsReq := c.ConstInt("cmd/rdpgw/protocol", "PKT_TYPE_HANDSHAKE_REQUEST")
	mismatch := c.ConstInt("cmd/rdpgw/protocol", "E_PROXY_CAPABILITYMISMATCH")
	reads := callsTo(m.Fn, "(*"+protoPkg+".Tunnel).Read")
	nOK, nRef := 0, 0
	for _, p := range m.Paths {
		if p.Pkt != hsReq {
			continue
		}
		for _, r := range p.Responses() {
			if r.Status == 0 {
				nOK++
				// args: recv, major, minor, caps, status
				var why string
				if len(r.Args) != 5 {
					why = "handshakeResponse signature changed"
				} else {
					maj, ok0 := strip(r.Args[1]).(*ssa.Extract)
					min, ok1 := strip(r.Args[2]).(*ssa.Extract)
					caps, ok2 := strip(r.Args[3]).(*ssa.Extract)
					switch {
					case !ok0 || !ok1 || !ok2:
						why = "response fields are not taken from the request decoder / matchAuth"
					case maj.Tuple != min.Tuple || maj.Index != 0 || min.Index != 1 || !strings.HasSuffix(calleeName(maj.Tuple.(ssa.CallInstruction)), ").handshakeRequest"):
						why = "version bytes are not results 0 and 1 of handshakeRequest"
					default:
						ma, isCall := caps.Tuple.(*ssa.Call)
						if !isCall || caps.Index != 0 || !strings.HasSuffix(calleeName(ma), ").matchAuth") {
							why = "advertised caps are not matchAuth's result"
						} else if ea, ok := strip(arg(ma, 0)).(*ssa.Extract); !ok || ea.Tuple != maj.Tuple || ea.Index != 3 {
							why = "matchAuth is not given the client bits (result 3) of the same handshakeRequest call"
						} else if pk, ok := strip(c.upOne(arg(maj.Tuple.(*ssa.Call), 0))).(*ssa.Extract); !ok || pk.Tuple != ssa.Value(reads[0].(*ssa.Call)) || pk.Index != 2 {
							why = "handshakeRequest does not decode this iteration's packet"
						} else if chk := matchAuthChecked(p); !chk {
							why = "success response on a path where matchAuth's error was not tested nil"
						}
					}
				}
				if why == "" {
					c.OK(rule, p.Key()+" success", r.Instr.Pos(), "echoes major/minor of the request and advertises matchAuth(extAuth of the same request)")
				} else {
					c.Bad(rule, p.Key()+" success", r.Instr.Pos(), "%s", why)
				}
			}
		}
		// mismatch path
		for _, cd := range p.Conds {
			if cd.Desc == "matchAuth.err!=nil" && cd.Branch {
				nRef++
				resp := p.Responses()
				good := len(resp) == 1 && resp[0].Status == mismatch && p.Exit == "return" && !p.Has("SET")
				c.Check(good, rule, p.Key()+" mismatch", p.Pos, "mismatch: HANDSHAKE_RESPONSE with 0x800759E9, state unchanged, tunnel ends", "capability mismatch must be answered with E_PROXY_CAPABILITYMISMATCH and end the tunnel; path does: "+p.Describe())
			}
		}
	}
	if nOK == 0 {
		c.Undecided(rule, "success-path", token.NoPos, "no accepting handshake path found")
	}
	if nRef == 0 {
		c.Undecided(rule, "mismatch-path", token.NoPos, "no path on which matchAuth's error is tested and non-nil")
	}
}

func matchAuthChecked(p *MPath) bool {
	for _, cd := range p.Conds {
		if cd.Desc == "matchAuth.err!=nil" && !cd.Branch {
			return true
		}
	}
	return false
}

// ioOp: one field read/write on a stream, as seen from the function analysed: a direct
// encoding/binary.Read/Write or bytes.Buffer write, or one made on its behalf by a first-party
// helper (putUint16(buf, v); writeFields(buf, a, b, c)) with the operands translated to the caller.
type ioOp struct {
	call   *ssa.Call // the call in the analysed function (the helper call for expanded ops)
	name   string    // callee of the primitive operation
	stream ssa.Value // the writer/reader (binary.*: argument 0; Buffer methods: the receiver)
	order  ssa.Value // byte order argument of binary.*, nil otherwise
	val    ssa.Value // the operand: binary.* argument 2 as given (interface conversion included when made at this site), Buffer.Write argument 0
}

// binaryIOCalls lists the field operations of fn in dominance order; ok=false when they are not
// straight-line (a branch or loop around one of them).
func binaryIOCalls(fn *ssa.Function, names ...string) (ops []ioOp, ok bool) {
	prim := func(call *ssa.Call) (ioOp, bool) {
		if !isCallIn(call, names) {
			return ioOp{}, false
		}
		n := calleeName(call)
		if strings.HasPrefix(n, "encoding/binary.") {
			return ioOp{call, n, arg(call, 0), arg(call, 1), arg(call, 2)}, true
		}
		return ioOp{call, n, recvOf(call), nil, arg(call, 0)}, true
	}
	var sites []*ssa.Call
	for _, b := range fn.DomPreorder() {
		for _, in := range b.Instrs {
			call, isCall := in.(*ssa.Call)
			if !isCall {
				continue
			}
			if op, isPrim := prim(call); isPrim {
				ops = append(ops, op)
				sites = append(sites, call)
				continue
			}
			exp, isHelper := expandIOHelper(call, prim)
			if isHelper {
				ops = append(ops, exp...)
				sites = append(sites, call)
			}
		}
	}
	for i := 0; i+1 < len(sites); i++ {
		if !dominatesInstr(sites[i], sites[i+1]) {
			return ops, false
		}
	}
	for _, cl := range sites {
		if inCycle(cl.Block()) {
			return ops, false
		}
	}
	return ops, true
}

// expandIOHelper: call is to a first-party helper whose only field operation is one primitive on
// its stream parameter — of one of its parameters (put/get helpers), or of every element of its
// variadic parameter in order (a range loop with no other exit).
func expandIOHelper(call *ssa.Call, prim func(*ssa.Call) (ioOp, bool)) ([]ioOp, bool) {
	h := call.Call.StaticCallee()
	if h == nil || !IsFirstParty(h) || h.Blocks == nil || len(h.AnonFuncs) > 0 {
		return nil, false
	}
	var inner []ioOp
	for _, ci := range callsIn(h) {
		c2, ok := ci.(*ssa.Call)
		if !ok {
			if _, isDefer := ci.(*ssa.Defer); isDefer {
				return nil, false
			}
			continue
		}
		if op, isPrim := prim(c2); isPrim {
			inner = append(inner, op)
		} else if cal := c2.Call.StaticCallee(); cal != nil && IsFirstParty(cal) {
			return nil, false // nested helpers are not followed
		}
	}
	if len(inner) != 1 {
		return nil, false
	}
	op := inner[0]
	paramIdx := func(v ssa.Value) int {
		p, ok := strip(v).(*ssa.Parameter)
		if !ok {
			return -1
		}
		for i, q := range h.Params {
			if q == p {
				return i
			}
		}
		return -1
	}
	si := paramIdx(op.stream)
	if si < 0 || si >= len(call.Call.Args) {
		return nil, false
	}
	order := op.order
	if order != nil {
		if oi := paramIdx(order); oi >= 0 && oi < len(call.Call.Args) {
			order = call.Call.Args[oi]
		}
	}
	// operand: a parameter of the helper ...
	operand := op.val
	if mi, ok := operand.(*ssa.MakeInterface); ok {
		operand = mi.X
	}
	if vi := paramIdx(operand); vi >= 0 && vi < len(call.Call.Args) && !inCycle(op.call.Block()) {
		// every path through the helper performs the operation
		for _, r := range returnsOf(h) {
			if reachFromWithoutMarkerAvoiding(h.Blocks[0], r, func(in ssa.Instruction) bool { return in == ssa.Instruction(op.call) }, nil) {
				return nil, false
			}
		}
		return []ioOp{{call, op.name, call.Call.Args[si], order, call.Call.Args[vi]}}, true
	}
	// ... or each element of the variadic parameter, in order
	if u, ok := strip(op.val).(*ssa.UnOp); ok && u.Op == token.MUL {
		if ia, ok := u.X.(*ssa.IndexAddr); ok {
			if vi := paramIdx(ia.X); vi >= 0 && vi == len(h.Params)-1 && h.Signature.Variadic() && vi < len(call.Call.Args) {
				add, isAdd := ia.Index.(*ssa.BinOp)
				if !isAdd || add.Op != token.ADD {
					return nil, false
				}
				phi, isPhi := add.X.(*ssa.Phi)
				if !isPhi || phi.Comment != "rangeindex" || !runsForEveryElement(op.call, phi.Block()) {
					return nil, false
				}
				elems, isLit := sliceLitElems(call.Call.Args[vi])
				if !isLit {
					return nil, false
				}
				var out []ioOp
				for _, e := range elems {
					out = append(out, ioOp{call, op.name, call.Call.Args[si], order, e})
				}
				return out, true
			}
		}
	}
	return nil, false
}

func isCallIn(call *ssa.Call, names []string) bool {
	n := calleeName(call)
	for _, w := range names {
		if n == w {
			return true
		}
	}
	return false
}

func isLittleEndian(v ssa.Value) bool {
	g, ok := globalLoad(strip(v))
	return ok && g.Name() == "LittleEndian" && g.Pkg.Pkg.Path() == "encoding/binary"
}

func c17RequestLayout(c *Ctx) {
	rule := "C17/request-layout"
	fn := c.Fn("cmd/rdpgw/protocol", "Processor.handshakeRequest")
	key := shortFn(fn)
	calls, ok := binaryIOCalls(fn, "encoding/binary.Read")
	if !ok {
		c.Undecided(rule, key, fn.Pos(), "binary.Read calls are not straight-line")
		return
	}
	wantT := []types.BasicKind{types.Uint8, types.Uint8, types.Uint16, types.Uint16}
	wantName := []string{"major", "minor", "version", "extAuth"}
	if len(calls) != 4 {
		c.Bad(rule, key, fn.Pos(), "expected four field reads (u8,u8,u16,u16), found %d", len(calls))
		return
	}
	// results: the named results are returned as loads of their allocs
	rets := returnsOf(fn)
	if len(rets) == 0 {
		c.Missing("return of handshakeRequest")
	}
	var reader ssa.Value
	for i, op := range calls {
		call := op.call
		k := fmt.Sprintf("%s read#%d", key, i)
		dst, isAlloc := strip(op.val).(*ssa.Alloc)
		if !isAlloc {
			c.Bad(rule, k, call.Pos(), "destination is not a local")
			continue
		}
		bt, _ := dst.Type().Underlying().(*types.Pointer).Elem().Underlying().(*types.Basic)
		good := bt != nil && bt.Kind() == wantT[i] && op.order != nil && isLittleEndian(op.order)
		// destination is the i-th result
		resOK := false
		for _, r := range rets {
			if i < len(r.Results) {
				if a, ok := loadAddr(r.Results[i]); ok && a == ssa.Value(dst) {
					resOK = true
				}
			}
		}
		// the field is handed on as read: nothing else is stored into it
		for _, ref := range *dst.Referrers() {
			if st, ok := ref.(*ssa.Store); ok && st.Addr == ssa.Value(dst) {
				good = false
			}
		}
		rd := strip(op.stream)
		if reader == nil {
			reader = rd
			if nr, ok := rd.(*ssa.Call); !ok || calleeName(nr) != "bytes.NewReader" || arg(nr, 0) != ssa.Value(fn.Params[1]) {
				good = false
			}
		} else if rd != reader {
			good = false
		}
		c.Check(good && resOK, rule, k, call.Pos(), fmt.Sprintf("field %d: %s little-endian into result %q from the packet reader", i, bt, wantName[i]), fmt.Sprintf("field %d must be read little-endian as %v into result %d (%s) from one reader over the packet", i, wantT[i], i, wantName[i]))
	}
}
