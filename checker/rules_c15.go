package main

import (
	"fmt"
	"go/token"
	"go/types"
	"sort"
	"strings"

	"golang.org/x/tools/go/ssa"
)

func init() {
	register(&Property{
		ID:          "C15",
		Title:       "User tokens verify only if minted under the configured keys and unexpired",
		DesignRef:   "DESIGN.md §3 C15",
		Technique:   "checked must-pass-through chains per key mode on security.UserInfo (edge-cut reachability on go/ssa; every writer of the claims struct must be a verified decode whose failure blocks the accepting exit) + mint/verify sibling agreement + guarded reachability in web.TokenInfo",
		LevelText:   "Static: UserInfo returns a nil error only after a checked Validate(issuer constant, now); every call that can fill the claims is the Claims step of one of the two frozen chains (nested: ParseSignedAndEncrypted{dir,A128CBC-HS256,HS256} -> Decrypt(UserEncryptionKey) -> Claims(UserSigningKey); encrypt-only: ParseEncrypted{dir,A128CBC-HS256} -> Claims(UserEncryptionKey)) and its failure makes the accepting return unreachable; the encrypt-only chain runs only when no signing key is configured and the nested chain only when one is; the mint side never serialises with jwt.Signed alone, uses the same algorithms, keys, issuer and a constant lifetime <= 5 min. TokenInfo writes claims only over err == nil, answers 405/400/403 on the refusing branches, and no value derived from the claims reaches the response on an error path. The token endpoint and the first-party code it calls write no package variable and use no process-wide container, so every answer comes from a verification made for that request (a cache would outlive the token's expiry); the errors UserInfo returns are not built from the decoded claims, because the endpoint copies the error text into its 403 body.",
		LevelNote:   "Trusted: go-jose JWE/JWS cryptography and allow-list enforcement. Not decided: behaviour per mutated token segment (library).",
		Explanation: "C15/verify-chain identifies the two chains by callee and argument shape, demands that each accepting return is cut off by the failure edge of every executed step, and that the claims struct has no other writer. C15/mode-agreement checks the guards selecting each chain against the mint side's predicate. C15/mint checks the builders, keys, issuer and expiry of GenerateUserToken. C15/http checks the branches of web.TokenInfo.",
		Assumptions: []string{"the zero jwt.Claims cannot satisfy a non-empty expected issuer (so a path on which nothing was decoded is refused by Validate)"},
		Rules: []RuleDef{
			{"C15/verify-chain", "nil-error return only after checked Validate and, for every writer of the claims, a checked chain under the configured keys with frozen allow-lists", c15VerifyChain},
			{"C15/mode-agreement", "encrypt-only chain only without a signing key, nested chain only with one; same predicate and algorithms as the mint side", c15ModeAgreement},
			{"C15/mint", "GenerateUserToken: always encrypted (never jwt.Signed alone), keys/algorithms/issuer as verified, lifetime <= 5 min, key length guard", c15Mint},
			{"C15/alg-lists", "every jose/jwt Parse* call in first-party code has exactly the frozen constant allow-lists; no unverified-claims API", func(c *Ctx) { algInventory(c, "C15/alg-lists"); c.Floor("C15/alg-lists", 4, "4 parse sites") }},
			{"C15/config-keys", "config.Load passes the configured user-token keys on unchanged (the encryption key may only be replaced by a fresh random one)", c15ConfigKeys},
			{"C15/key-defaults", "config.Load's defaults carry no value for the user-token keys: a built-in key would pass the length test and be the same on every installation", func(c *Ctx) {
				keyDefaults(c, "C15/key-defaults", []string{"Security.UserTokenEncryptionKey", "Security.UserTokenSigningKey"})
			}},
			{"C15/http", "TokenInfo: claims written only over err == nil; 405 / 400 / 403 on the refusing branches; nothing derived from the claims on error paths", c15HTTP},
			{"C15/stateless", "every answer comes from a verification made for this request: TokenInfo and what it calls write no package variable and use no process-wide container (cache, map, pool)", c15Stateless},
			{"C15/silent-refusal", "the errors UserInfo returns for a refused token are not built from the decoded claims (TokenInfo copies the error text into the 403 body)", c15SilentRefusal},
			{"C15/key-wiring", "main copies the configured user-token keys into the variables the verifier reads", func(c *Ctx) { keyWiring(c, "C15/key-wiring", "UserEncryptionKey", "UserSigningKey") }},
			{"C15/config-tags", "the configuration fields this property depends on are read from the documented keys: koanf tag = lower-cased field name", func(c *Ctx) {
				configTags(c, "C15/config-tags", map[string][]string{"Configuration": {"Security"}, "SecurityConfig": {"UserTokenEncryptionKey", "UserTokenSigningKey", "EnableUserToken"}})
			}},
			{"C15/same-user", "the download handler mints the user token for the same user value as the gateway token", func(c *Ctx) { sameUserForTokens(c, "C15/same-user") }},
		},
	})
}

type userChains struct {
	fn                      *ssa.Function
	std                     *ssa.Alloc
	parseNested, parseEnc   *ssa.Call
	decrypt                 *ssa.Call
	claimsNested, claimsEnc *ssa.Call
	validate                *ssa.Call
	steps                   map[*ssa.Call]stepRef
}

func c15Chains(c *Ctx, rule string) *userChains {
	fn := c.Fn("cmd/rdpgw/security", "UserInfo")
	u := &userChains{fn: fn, steps: map[*ssa.Call]stepRef{}}
	one := func(what string, names ...string) *ssa.Call {
		cs := c.findSteps(fn, names...)
		if len(cs) != 1 {
			c.Bad(rule, shortFn(fn)+" "+what, fn.Pos(), "expected exactly one %s call in UserInfo, found %d", what, len(cs))
			return nil
		}
		u.steps[cs[0].call] = cs[0]
		return cs[0].call
	}
	u.parseNested = one("ParseSignedAndEncrypted", joseJWT+".ParseSignedAndEncrypted")
	u.parseEnc = one("ParseEncrypted", joseJWT+".ParseEncrypted")
	u.decrypt = one("Decrypt", "(*"+joseJWT+".NestedJSONWebToken).Decrypt")
	u.validate = one("Validate", "("+joseJWT+".Claims).Validate")
	if u.parseNested == nil || u.parseEnc == nil || u.decrypt == nil || u.validate == nil {
		return nil
	}
	for _, st := range c.findSteps(fn, "(*"+joseJWT+".JSONWebToken).Claims") {
		call := st.call
		u.steps[call] = st
		switch c.normIn(st, recvOf(call)) {
		case resultOf(u.decrypt, 0):
			u.claimsNested = call
		case resultOf(u.parseEnc, 0):
			u.claimsEnc = call
		default:
			c.Bad(rule, shortFn(fn)+" Claims.other", call.Pos(), "claims are read from a token that is neither the decrypted nested token nor the parsed encrypted token")
		}
	}
	if a, ok := loadAddr(c.upIn(u.steps[u.validate], recvOf(u.validate))); ok {
		u.std, _ = a.(*ssa.Alloc)
	}
	if u.std == nil {
		c.Undecided(rule, shortFn(fn)+" standard", fn.Pos(), "the validated claims are not a local")
		return nil
	}
	return u
}

func c15VerifyChain(c *Ctx) {
	rule := "C15/verify-chain"
	u := c15Chains(c, rule)
	if u == nil {
		return
	}
	fn := u.fn
	key := shortFn(fn)
	encKey := c.Global("cmd/rdpgw/security", "UserEncryptionKey")
	sigKey := c.Global("cmd/rdpgw/security", "UserSigningKey")
	tokP := fn.Params[1]

	// shapes
	c.Check(c.normIn(u.steps[u.parseNested], arg(u.parseNested, 0)) == ssa.Value(tokP) && c.normIn(u.steps[u.parseEnc], arg(u.parseEnc, 0)) == ssa.Value(tokP), rule, key+" parse.arg", u.parseNested.Pos(), "both chains parse the token parameter", "a chain parses something other than the token parameter")
	c.Check(c.normIn(u.steps[u.decrypt], recvOf(u.decrypt)) == resultOf(u.parseNested, 0) && isLoadOfGlobal(c.upIn(u.steps[u.decrypt], arg(u.decrypt, 0)), encKey), rule, key+" decrypt.shape", u.decrypt.Pos(), "nested token decrypted under UserEncryptionKey", "Decrypt is not applied to the parsed nested token under security.UserEncryptionKey")
	if u.claimsNested == nil {
		c.Bad(rule, key+" nested.claims", fn.Pos(), "the nested chain never verifies the inner signature (no Claims call on the decrypted token)")
	} else {
		dst := c.variadicAllocsUp(u.steps[u.claimsNested], arg(u.claimsNested, 1))
		c.Check(isLoadOfGlobal(c.upIn(u.steps[u.claimsNested], arg(u.claimsNested, 0)), sigKey) && len(dst) == 1 && dst[0] == u.std, rule, key+" nested.claims", u.claimsNested.Pos(), "inner JWS verified under UserSigningKey into the validated claims", "the nested chain does not verify under security.UserSigningKey into the claims that are validated")
	}
	if u.claimsEnc == nil {
		c.Bad(rule, key+" enc.claims", fn.Pos(), "the encrypt-only chain never decrypts the claims")
	} else {
		dst := c.variadicAllocsUp(u.steps[u.claimsEnc], arg(u.claimsEnc, 1))
		c.Check(isLoadOfGlobal(c.upIn(u.steps[u.claimsEnc], arg(u.claimsEnc, 0)), encKey) && len(dst) == 1 && dst[0] == u.std, rule, key+" enc.claims", u.claimsEnc.Pos(), "JWE decrypted under UserEncryptionKey into the validated claims", "the encrypt-only chain does not decrypt under security.UserEncryptionKey into the claims that are validated")
	}
	// validate shape
	iss, now, _, ok := c.expectedLiteralR(u.steps[u.validate], arg(u.validate, 0))
	s, isC := constString(iss)
	c.Check(ok && isC && s != "" && now, rule, key+" validate.shape", u.validate.Pos(), fmt.Sprintf("Validate(Expected{Issuer: %q, Time: now})", s), "Validate does not check a non-empty constant issuer against the current time")

	// writers of the claims struct
	allowed := map[ssa.CallInstruction]bool{}
	if u.claimsNested != nil {
		allowed[u.claimsNested] = true
	}
	if u.claimsEnc != nil {
		allowed[u.claimsEnc] = true
	}
	for _, cl := range []*ssa.Call{u.claimsNested, u.claimsEnc} {
		if cl != nil {
			for _, site := range u.steps[cl].via {
				allowed[site] = true // the helper that holds the verified decode (its body is checked as a step)
			}
		}
	}
	for _, w := range passedTo(u.std) {
		if !allowed[w] {
			c.Bad(rule, key+" writer "+calleeName(w), w.Pos(), "the validated claims can be filled by %s, which is not a verified decode under the configured keys", calleeName(w))
		}
	}
	for _, r := range *u.std.Referrers() {
		if fa, ok := r.(*ssa.FieldAddr); ok {
			for _, rr := range *fa.Referrers() {
				if st, ok := rr.(*ssa.Store); ok && st.Addr == ssa.Value(fa) {
					c.Bad(rule, key+" writer store", st.Pos(), "a field of the validated claims is assigned directly")
				}
			}
		}
	}

	exits := acceptingReturns(fn, 1, func(v ssa.Value) bool { return !isNil(v) })
	if len(exits) == 0 {
		c.Undecided(rule, key+" exit", fn.Pos(), "no nil-error return")
	}
	type step struct {
		name string
		call *ssa.Call
		idx  int
	}
	steps := []step{{"nested parse", u.parseNested, 1}, {"nested decrypt", u.decrypt, 1}, {"encrypt-only parse", u.parseEnc, 1}}
	if u.claimsNested != nil {
		steps = append(steps, step{"inner signature", u.claimsNested, 0})
	}
	if u.claimsEnc != nil {
		steps = append(steps, step{"JWE decrypt", u.claimsEnc, 0})
	}
	for i, e := range exits {
		ek := fmt.Sprintf("%s exit#%d", key, i)
		c.requireStep(rule, ek+" validate", fn, e, u.steps[u.validate], 0, "issuer/expiry validation")
		// the claims returned are the validated local
		if a, ok := loadAddr(e.Results[0]); !ok || a != ssa.Value(u.std) {
			c.Bad(rule, ek+" result", e.Pos(), "the claims returned are not the validated ones")
		}
		for _, st := range steps {
			// once executed, the step's failure must cut the accepting exit off
			okc, whyc := c.stepFailureCuts(fn, e, u.steps[st.call], st.idx)
			if !okc {
				c.Bad(rule, ek+" "+st.name, st.call.Pos(), "after a failed %s the nil-error return is not cut off (%s): a token that does not verify is accepted", st.name, whyc)
			} else {
				c.OK(rule, ek+" "+st.name, st.call.Pos(), "failure of the %s step makes the accepting return unreachable", st.name)
			}
		}
	}
	c.Floor(rule, 10, "shapes + validate + 5 steps")
}

func c15ModeAgreement(c *Ctx) {
	rule := "C15/mode-agreement"
	u := c15Chains(c, rule)
	if u == nil {
		return
	}
	sigKey := c.Global("cmd/rdpgw/security", "UserSigningKey")
	isSig := func(v ssa.Value) bool { return isLoadOfGlobal(v, sigKey) }
	hasKey := lenAtLeast(isSig, 1)
	noKey := func(cond ssa.Value, branch bool) bool { return hasKey(cond, !branch) }
	key := shortFn(u.fn)
	ok1, why1 := mustPass(u.fn, u.steps[u.parseEnc].siteIn(), noKey)
	c.Check(ok1, rule, key+" enc-only-guard", u.parseEnc.Pos(), "the encrypt-only chain runs only when no signing key is configured", "the encrypt-only chain is "+why1+" of len(UserSigningKey) == 0: unsigned tokens are accepted in sign-and-encrypt mode")
	ok2, why2 := mustPass(u.fn, u.steps[u.parseNested].siteIn(), hasKey)
	c.Check(ok2, rule, key+" nested-guard", u.parseNested.Pos(), "the nested chain runs only when a signing key is configured", "the nested chain is "+why2+" of len(UserSigningKey) > 0")
	// mint side predicate: signed builder only under len(UserSigningKey) > 0, encrypted-only builder only otherwise
	gen := c.Fn("cmd/rdpgw/security", "GenerateUserToken")
	for _, ci := range callsTo(gen, joseJWT+".SignedAndEncrypted") {
		ok, why := mustPass(gen, ci.(ssa.Instruction), hasKey)
		c.Check(ok, rule, shortFn(gen)+" signed-mode", ci.Pos(), "sign-and-encrypt builder only with a signing key", "signed builder "+why)
	}
	for _, ci := range callsTo(gen, joseJWT+".Encrypted") {
		ok, why := mustPass(gen, ci.(ssa.Instruction), noKey)
		c.Check(ok, rule, shortFn(gen)+" enc-mode", ci.Pos(), "encrypt-only builder only without a signing key", "encrypt-only builder "+why+": tokens are minted unsigned although a signing key is configured")
	}
	c.Floor(rule, 4, "two verify guards, two mint guards")
}

func c15Mint(c *Ctx) {
	rule := "C15/mint"
	fn := c.Fn("cmd/rdpgw/security", "GenerateUserToken")
	key := shortFn(fn)
	encKey := c.Global("cmd/rdpgw/security", "UserEncryptionKey")
	sigKey := c.Global("cmd/rdpgw/security", "UserSigningKey")
	ver := struct {
		issuer string
		ok     bool
	}{}
	if u := c15Chains(c, rule); u != nil {
		if iss, _, _, ok := c.expectedLiteralR(u.steps[u.validate], arg(u.validate, 0)); ok {
			ver.issuer, ver.ok = constString(iss)
		}
	}
	// encrypter
	encs := c.findSteps(fn, jose+".NewEncrypter")
	if len(encs) != 1 {
		c.Bad(rule, key+" NewEncrypter", fn.Pos(), "expected one jose.NewEncrypter call, found %d", len(encs))
		return
	}
	encS := encs[0]
	enc := encS.call
	ce, _ := constString(arg(enc, 0))
	recOK := false
	if a, ok := loadAddr(strip(arg(enc, 1))); ok {
		st := structFieldStores(a)
		alg, _ := constString(first(st["Algorithm"]))
		recOK = alg == "dir" && len(st["Key"]) == 1 && isLoadOfGlobal(c.upIn(encS, st["Key"][0]), encKey)
	}
	if ce == "" {
		ce, _ = constString(c.upIn(encS, arg(enc, 0)))
	}
	c.Check(ce == "A128CBC-HS256" && recOK, rule, key+" encrypter", enc.Pos(), "A128CBC-HS256 with direct key UserEncryptionKey (as the verifier's allow-lists)", "the encrypter is not A128CBC-HS256/dir under security.UserEncryptionKey")
	// signer (optional path)
	var sig *ssa.Call
	for _, sgS := range c.findSteps(fn, jose+".NewSigner") {
		sig = sgS.call
		good := false
		if a, ok := loadAddr(strip(arg(sig, 0))); ok {
			st := structFieldStores(a)
			alg, _ := constString(first(st["Algorithm"]))
			good = alg == "HS256" && len(st["Key"]) == 1 && isLoadOfGlobal(c.upIn(sgS, st["Key"][0]), sigKey)
		}
		c.Check(good, rule, key+" signer", sig.Pos(), "HS256 under UserSigningKey", "the inner signer is not HS256 under security.UserSigningKey")
	}
	// claims
	st, stdPos, holdsStd, okStd := c.claimsOf(fn)
	if !okStd {
		c.Undecided(rule, key+" claims", fn.Pos(), "claims literal not found")
		return
	}
	iss, isC := constString(first(st["Issuer"]))
	c.Check(isC && ver.ok && iss == ver.issuer, rule, key+" issuer", stdPos, "issuer "+strconvQuote(iss)+" equals the verifier's", "minted issuer "+strconvQuote(iss)+" differs from the verifier's "+strconvQuote(ver.issuer))
	// (the property bounds the lifetime of PAA tokens, C02, not of user tokens: any expiry counted
	// from the moment of minting will do)
	if ok, how := expiryShape(first(st["Expiry"]), 0); ok {
		c.OK(rule, key+" expiry", stdPos, "expiry is %s", how)
	} else {
		c.Bad(rule, key+" expiry", stdPos, "user tokens must carry an expiry counted from the moment of minting: %s", how)
	}
	c.Check(first(st["Subject"]) == ssa.Value(fn.Params[1]), rule, key+" subject", stdPos, "subject = the user name parameter", "subject is not the user name parameter")

	// every returned token is an encrypted serialisation of those claims
	for i, r := range returnsOf(fn) {
		if s, ok := constString(r.Results[0]); ok && s == "" {
			continue
		}
		rk := fmt.Sprintf("%s return#%d", key, i)
		good, msg := true, ""
		for _, o := range c.originsDeep(r.Results[0], 0) {
			if o.Kind != "call" || !strings.HasSuffix(calleeName(o.Call), ".Serialize") {
				good, msg = false, "returned token is "+o.String()
				break
			}
			chain := builderChain(o.Call)
			root := chain[len(chain)-1]
			rn := calleeName(root)
			hasClaims := false
			for _, bc := range chain {
				if strings.HasSuffix(calleeName(bc), ".Claims") {
					if holdsStd(arg(bc, 0)) {
						hasClaims = true
					}
				}
			}
			switch rn {
			case joseJWT + ".Encrypted":
				if strip(arg(root, 0)) != resultOf(enc, 0) && c.norm(arg(root, 0)) != resultOf(enc, 0) {
					good, msg = false, "encrypted builder does not use the configured encrypter"
				}
			case joseJWT + ".SignedAndEncrypted":
				sameAs := func(v ssa.Value, call *ssa.Call) bool {
					return strip(v) == resultOf(call, 0) || c.norm(v) == resultOf(call, 0)
				}
				if sig == nil || !sameAs(arg(root, 0), sig) || !sameAs(arg(root, 1), enc) {
					good, msg = false, "nested builder does not use the configured signer and encrypter"
				}
			default:
				good, msg = false, "token built with "+rn+": the user name would be readable from the token text"
			}
			if good && !hasClaims {
				good, msg = false, "the serialised claims are not the ones built above"
			}
		}
		c.Check(good, rule, rk+" token", r.Pos(), "token = encrypted (optionally signed) serialisation of the claims", msg)
		ok, why := mustPass(fn, r, lenAtLeast(func(v ssa.Value) bool { return isLoadOfGlobal(v, encKey) }, 32))
		c.Check(ok, rule, rk+" keylen", r.Pos(), "only after len(UserEncryptionKey) >= 32", "token return "+why+" of the key length guard")
		c.requireStep(rule, rk+" encrypter-ok", fn, r, encS, 1, "encrypter construction")
	}
	c.Floor(rule, 8, "encrypter, signer, issuer, expiry, subject, returns")
}

// derivedUses lists the calls that receive v or anything built from it
// (interface conversions, composite literals, variadic slices).
func derivedUses(v ssa.Value) []ssa.CallInstruction {
	var out []ssa.CallInstruction
	seen := map[ssa.Value]bool{}
	var walk func(v ssa.Value)
	walk = func(v ssa.Value) {
		if v == nil || seen[v] || v.Referrers() == nil {
			return
		}
		seen[v] = true
		for _, r := range *v.Referrers() {
			switch x := r.(type) {
			case ssa.CallInstruction:
				out = append(out, x)
				switch calleeName(x) {
				case "strings.NewReader", "bytes.NewReader", "bytes.NewBufferString", "bytes.NewBuffer":
					if cv, ok := x.(*ssa.Call); ok {
						walk(cv) // the reader yields exactly the value
					}
				}
			case *ssa.MakeInterface:
				walk(x)
			case *ssa.ChangeType:
				walk(x)
			case *ssa.ChangeInterface:
				walk(x)
			case *ssa.Field:
				walk(x)
			case *ssa.Phi:
				walk(x)
			case *ssa.Store:
				if x.Val != v {
					continue
				}
				// stored into a local (or a field/element of a local): everything that reads or receives the local
				root := x.Addr
				for {
					switch a := root.(type) {
					case *ssa.FieldAddr:
						root = a.X
						continue
					case *ssa.IndexAddr:
						root = a.X
						continue
					}
					break
				}
				if al, ok := root.(*ssa.Alloc); ok {
					walk(al)
					for _, rr := range *al.Referrers() {
						switch y := rr.(type) {
						case *ssa.UnOp:
							walk(y)
						case *ssa.Slice:
							walk(y)
						case *ssa.FieldAddr:
							for _, r3 := range *y.Referrers() {
								if u, ok := r3.(*ssa.UnOp); ok {
									walk(u)
								}
							}
						}
					}
				}
			}
		}
	}
	walk(v)
	return out
}

func c15HTTP(c *Ctx) {
	rule := "C15/http"
	fn := c.Fn("cmd/rdpgw/web", "TokenInfo")
	key := shortFn(fn)
	uis := callsTo(fn, secPkgPath+".UserInfo")
	if len(uis) != 1 {
		c.Bad(rule, key+" UserInfo", fn.Pos(), "expected one security.UserInfo call, found %d", len(uis))
		return
	}
	ui := uis[0].(*ssa.Call)
	errV := resultOf(ui, 1)
	claims := resultOf(ui, 0)
	if errV == nil || claims == nil {
		c.Bad(rule, key+" UserInfo.results", ui.Pos(), "a result of UserInfo is discarded")
		return
	}
	// the token verified is the access_token query parameter
	tokOK := false
	for _, o := range origins(c.downValue(arg(ui, 1), 0)) {
		if o.Kind == "call" && o.Call != nil && calleeName(o.Call) == "(net/url.Values).Get" {
			if k, ok := constString(arg(o.Call, 0)); ok && k == "access_token" {
				tokOK = true // Values.Get: the first value of the parameter
			}
		}
		if o.Kind == "other" {
			if a, ok := loadAddr(o.Value); ok {
				if ia, ok := a.(*ssa.IndexAddr); ok {
					if idx, ok := constInt(ia.Index); ok && idx == 0 {
						tokOK = true
					}
				}
			}
		}
	}
	c.Check(tokOK, rule, key+" token-param", ui.Pos(), "verifies element 0 of the access_token parameter", "the token verified is not the request's access_token parameter")
	// everything derived from the claims is used only over err == nil
	uses := derivedUses(claims)
	if len(uses) == 0 {
		c.Undecided(rule, key+" claims-use", ui.Pos(), "the claims are never written to the response")
	}
	for i, use := range uses {
		ok, why := mustPass(fn, use.(ssa.Instruction), GErrNil(errV))
		c.Check(ok, rule, fmt.Sprintf("%s claims-use#%d %s", key, i, shortCallee(use)), use.Pos(), "claims reach "+shortCallee(use)+" only over err == nil", "the claims reach "+shortCallee(use)+" "+why+" of err == nil: claims of a refused token are disclosed")
	}
	// statuses on the refusing branches
	isMethod := func(v ssa.Value) bool { _, f, ok := fieldLoad(strip(v)); return ok && f.Name() == "Method" }
	isGET := func(v ssa.Value) bool { s, ok := constString(v); return ok && s == "GET" }
	want := map[string]int64{}
	for _, he := range c.httpErrors(fn) {
		ci := he.site
		code, ok := constInt(he.code)
		if !ok {
			c.Undecided(rule, key+" http.Error status", ci.Pos(), "non-constant status")
			continue
		}
		in := ci.(ssa.Instruction)
		if ok1, _ := mustPass(fn, in, GNeq(isMethod, isGET)); ok1 {
			want["method"] = code
			c.Check(code == 405, rule, key+" status non-GET", ci.Pos(), "non-GET -> 405", fmt.Sprintf("non-GET requests are answered with %d, not 405", code))
			continue
		}
		if ok2, _ := mustPass(fn, in, GNeq(isVal(errV), anyNil)); ok2 {
			want["refused"] = code
			c.Check(code == 403, rule, key+" status refused", ci.Pos(), "refused token -> 403", fmt.Sprintf("a refused token is answered with %d, not 403", code))
			continue
		}
		if dominatesInstr(ui, in) {
			continue // encode failure after acceptance
		}
		want["missing"] = code
		c.Check(code == 400, rule, key+" status missing", ci.Pos(), "missing/empty parameter -> 400", fmt.Sprintf("a missing token parameter is answered with %d, not 400", code))
	}
	for _, k := range []string{"method", "refused", "missing"} {
		if _, ok := want[k]; !ok {
			c.Bad(rule, key+" branch "+k, fn.Pos(), "no refusing branch for %s found", k)
		}
	}
	// UserInfo itself only for GET with a non-empty parameter
	okm, whym := mustPass(fn, ui, GEq(isMethod, isGET))
	c.Check(okm, rule, key+" method-gate", ui.Pos(), "tokens are examined only for GET", "token verification "+whym+" of method == GET")
	// explicit status on the accepting path must not be set to an error and vice versa
	for _, ci := range callsIn(fn) {
		call, ok := ci.(*ssa.Call)
		if ok && call.Call.IsInvoke() && call.Call.Method.Name() == "WriteHeader" {
			code, isC := constInt(call.Call.Args[0])
			if okp, _ := mustPass(fn, call, GNeq(isVal(errV), anyNil)); okp {
				c.Check(isC && code == 403, rule, key+" WriteHeader refused", call.Pos(), "403", "refused token answered with a status other than 403")
			}
		}
	}
	_ = token.NoPos
	c.Floor(rule, 6, "token param, claims uses, three statuses, method gate")
}

func shortCallee(ci ssa.CallInstruction) string {
	n := calleeName(ci)
	if i := strings.LastIndex(n, "/"); i >= 0 {
		n = n[i+1:]
	}
	return n
}

// c15ConfigKeys: which key mode the verifier runs in is decided by len(UserSigningKey); Load must
// not rewrite the configured signing key (clearing a mis-sized key silently selects encrypt-only
// mode, in which tokens not signed under the configured key verify).
func c15ConfigKeys(c *Ctx) {
	rule := "C15/config-keys"
	load := c.Fn("cmd/rdpgw/config", "Load")
	n := 0
	for _, f := range scopeFuncs(load, 2) {
		f := f
		eachInstr(f, func(in ssa.Instruction) {
			s, ok := in.(*ssa.Store)
			if !ok {
				return
			}
			p, ok := confAddrPath(s.Addr, "Conf")
			if !ok {
				return
			}
			switch p {
			case "Security.UserTokenSigningKey":
				n++
				c.Bad(rule, "store "+p+" in "+shortFn(f), s.Pos(), "config.Load rewrites the configured user-token signing key: the verifier's key mode no longer follows the configuration (an emptied key means encrypt-only tokens verify)")
			case "Security.UserTokenEncryptionKey":
				fresh := c.freshRandomKey(s.Val, 1)
				if !fresh {
					// Conf.key = ensureKey(Conf.key, ...): the configured key handed back, or a fresh one
					if call, isCall := strip(s.Val).(*ssa.Call); isCall {
						if h := call.Call.StaticCallee(); h != nil && IsFirstParty(h) && h.Blocks != nil {
							all := true
							for _, r := range returnsOf(h) {
								rv0 := strip(unspill(r.Results[0]))
								isParamBack := false
								for j, q := range h.Params {
									if rv0 == ssa.Value(q) && j < len(call.Call.Args) {
										if ap, ok := confVarPath(call.Call.Args[j], "Conf"); ok && ap == p {
											isParamBack = true
										}
									}
								}
								if !isParamBack && !c.freshRandomKey(rv0, 1) {
									all = false
								}
							}
							fresh = all
						}
					}
				}
				n++
				c.Check(fresh, rule, "store "+p+" in "+shortFn(f), s.Pos(), "replaced only by a fresh random key", "config.Load overwrites the user-token encryption key with something other than a fresh random key")
			}
		})
	}
	if n == 0 {
		c.OK(rule, "config.Load user-token keys", load.Pos(), "no store to the user-token keys in Load")
	}
}

// c15Stateless: whether a token verifies depends on the clock, so every answer of the endpoint
// has to come from a verification made for this request. The endpoint and everything it calls
// in first-party code keep nothing between requests: package variables are only read (the
// configured keys and issuer, written at start-up), none is written, and none is a container
// (map, sync.Map, cache, pool, channel) that request code operates on — a cache of verified
// claims answers for a token after it has expired.
func c15Stateless(c *Ctx) {
	rule := "C15/stateless"
	root := c.Fn("cmd/rdpgw/web", "TokenInfo")
	seen := map[*ssa.Function]bool{}
	var walk func(f *ssa.Function, d int)
	walk = func(f *ssa.Function, d int) {
		if f == nil || seen[f] || f.Blocks == nil || !IsFirstParty(f) {
			return
		}
		seen[f] = true
		for _, a := range f.AnonFuncs {
			walk(a, d)
		}
		if d <= 0 {
			return
		}
		for _, ci := range callsIn(f) {
			walk(ci.Common().StaticCallee(), d-1)
		}
	}
	walk(root, 6)
	uses := c.globalUses(func(fn *ssa.Function) bool { return seen[fn] })
	var gs []*ssa.Global
	for g := range uses {
		gs = append(gs, g)
	}
	sort.Slice(gs, func(i, j int) bool { return gs[i].String() < gs[j].String() })
	n := 0
	for _, g := range gs {
		name := strings.TrimPrefix(g.Pkg.Pkg.Path(), modPath+"/") + "." + g.Name()
		elem := g.Type().(*types.Pointer).Elem()
		written, method := false, false
		var first gUse
		for _, u := range uses[g] {
			if u.write && !written {
				written, first = true, u
			}
			if u.method && !method {
				method = true
				if !written {
					first = u
				}
			}
		}
		_, isMap := elem.Underlying().(*types.Map)
		n++
		switch {
		case written:
			c.Bad(rule, "global "+name, first.pos, "package variable %s is written while a token request is served (%s): an answer can depend on an earlier request instead of this request's verification", name, first.fn)
		case method && (isContainerType(elem) || isMap):
			c.Bad(rule, "global "+name, first.pos, "package-level %s of type %s is used while a token request is served (%s): a store that outlives the request — a verdict or claims kept in it are answered after the token has expired", name, elem, first.fn)
		default:
			c.OK(rule, "global "+name, g.Pos(), "only read while a token request is served (configured at start-up)")
		}
	}
	c.OK(rule, "scope", root.Pos(), "%d first-party functions reachable from TokenInfo, %d package variables referenced", len(seen), n)
	c.Floor(rule, 2, "scope + at least one configured key variable")
}

// c15SilentRefusal: a refused token discloses no claims. TokenInfo copies UserInfo's error
// text into the 403 body (C15/http checks that it uses nothing else of a refused token), so
// the errors UserInfo returns must not be built from the claims it decoded: no field of the
// claims value (and not the value itself) reaches the construction of a returned error. The
// library's own validation error (Claims.Validate) names the failed check, not the values.
func c15SilentRefusal(c *Ctx) {
	rule := "C15/silent-refusal"
	fn := c.Fn("cmd/rdpgw/security", "UserInfo")
	isClaims := func(t types.Type) bool {
		if p, ok := t.Underlying().(*types.Pointer); ok {
			t = p.Elem()
		}
		return typeIs(t, "github.com/go-jose/go-jose/v4/jwt", "Claims")
	}
	var hit func(v ssa.Value, seen map[ssa.Value]bool, d int) (bool, token.Pos)
	hit = func(v ssa.Value, seen map[ssa.Value]bool, d int) (bool, token.Pos) {
		if v == nil || seen[v] || d > 40 {
			return false, token.NoPos
		}
		seen[v] = true
		sub := func(xs ...ssa.Value) (bool, token.Pos) {
			for _, x := range xs {
				if ok, p := hit(x, seen, d+1); ok {
					return ok, p
				}
			}
			return false, token.NoPos
		}
		switch x := v.(type) {
		case *ssa.FieldAddr:
			if isClaims(x.X.Type()) {
				return true, x.Pos()
			}
			return sub(x.X)
		case *ssa.Field:
			if isClaims(x.X.Type()) {
				return true, x.Pos()
			}
			return sub(x.X)
		case *ssa.MakeInterface:
			if isClaims(x.X.Type()) {
				return true, x.Pos()
			}
			return sub(x.X)
		case *ssa.Call:
			if cal := x.Call.StaticCallee(); cal != nil && cal.Pkg != nil && strings.HasPrefix(cal.Pkg.Pkg.Path(), "github.com/go-jose/") {
				return false, token.NoPos // the library's own errors
			}
			args := append([]ssa.Value{}, x.Call.Args...)
			if x.Call.IsInvoke() {
				args = append(args, x.Call.Value)
			}
			return sub(args...)
		case *ssa.Extract:
			return sub(x.Tuple)
		case *ssa.Phi:
			return sub(x.Edges...)
		case *ssa.UnOp:
			if a, ok := x.X.(*ssa.Alloc); ok && x.Op == token.MUL {
				// a local: whatever was stored into it
				var vs []ssa.Value
				for _, r := range *a.Referrers() {
					if st, ok := r.(*ssa.Store); ok && st.Addr == ssa.Value(a) {
						vs = append(vs, st.Val)
					}
				}
				return sub(vs...)
			}
			return sub(x.X)
		case *ssa.BinOp:
			return sub(x.X, x.Y)
		case *ssa.ChangeType:
			return sub(x.X)
		case *ssa.Convert:
			return sub(x.X)
		case *ssa.ChangeInterface:
			return sub(x.X)
		case *ssa.IndexAddr:
			return sub(x.X)
		case *ssa.Slice:
			// the variadic argument array: what was stored into its elements
			if a, ok := x.X.(*ssa.Alloc); ok {
				var vs []ssa.Value
				for _, r := range *a.Referrers() {
					if ia, ok := r.(*ssa.IndexAddr); ok {
						for _, rr := range *ia.Referrers() {
							if st, ok := rr.(*ssa.Store); ok && st.Addr == ssa.Value(ia) {
								vs = append(vs, st.Val)
							}
						}
					}
				}
				return sub(vs...)
			}
			return sub(x.X)
		}
		return false, token.NoPos
	}
	n := 0
	for i, r := range returnsOf(fn) {
		if len(r.Results) != 2 {
			continue
		}
		errV := unspill(r.Results[1])
		if isNil(errV) {
			continue
		}
		n++
		key := fmt.Sprintf("UserInfo return#%d error", i)
		if ok, pos := hit(errV, map[ssa.Value]bool{}, 0); ok {
			c.Bad(rule, key, r.Pos(), "the error returned for a refused token is built from the token's claims (%s): TokenInfo copies the error text into the 403 body, so claims of a refused token are disclosed", c.P.Pos(pos))
		} else {
			c.OK(rule, key, r.Pos(), "the error text is independent of the decoded claims")
		}
	}
	c.Floor(rule, 1, "refusing returns of UserInfo")
}
