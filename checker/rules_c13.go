package main

import (
	"fmt"
	"go/token"
	"go/types"
	"strings"

	"golang.org/x/tools/go/ssa"
)

const (
	oidcPkg  = "github.com/coreos/go-oidc/v3/oidc"
	oauthPkg = "golang.org/x/oauth2"
	cachePkg = "github.com/patrickmn/go-cache"
	sessPkg  = "github.com/gorilla/sessions"
)

func init() {
	register(&Property{
		ID:          "C13",
		Title:       "A session becomes authenticated only through a verified OpenID login",
		DesignRef:   "DESIGN.md §3 C13",
		Technique:   "checked must-pass-through chain on OIDC.HandleCallback (edge-cut reachability, go/ssa) + who-may-call inventory of SetAuthenticated/SaveSessionIdentity + value origin of the state key + sibling agreement of the identity gob mirror",
		LevelText:   "Static: in HandleCallback, marking the identity authenticated and saving it are reachable only over: state found in the gateway's own state store, code exchange succeeded, id_token present, ID token verified, claims decoded, and a non-empty user name taken from those verified claims (which is the name stored). Only the callback, the Basic/NTLM middleware and the SPNEGO transposition ever set the authenticated flag; only the callback and the fresh-session path of EnrichContext save identities. State keys are 16 bytes from crypto/rand with a checked error, stored with the default expiry of a store built with a constant <= 2 min. The verifier configuration sets ClientID and none of the Skip* options. Both session stores get an authentication and an encryption key behind len >= 32 guards. Marshal and Unmarshal of the identity copy the same set of fields both ways. The encoded identity handed to the session store lives in storage of the Marshal call (no package-level or pooled encode buffer that another request can overwrite before the session is sealed).",
		LevelNote:   "Trusted: go-oidc Verify (signature, issuer, audience, expiry), oauth2 Exchange, gorilla securecookie/sessions (MAC + encryption of cookie values), encoding/gob. Not decided: cookie mutation resistance as such (library).",
		Explanation: "C13/callback-chain deletes, for each required step, the CFG edges on which that step succeeded and demands that SetAuthenticated(true) and SaveSessionIdentity become unreachable; argument shapes tie each step to the previous one's result. C13/who-authenticates inventories all call sites. C13/state follows the state key to crypto/rand. C13/verifier-config reads the oidc.Config literal. C13/store checks the key guards in InitStore. C13/mirror compares the field maps of Marshal and Unmarshal.",
		Assumptions: []string{"go-oidc's IDTokenVerifier.Verify checks signature, issuer, audience (ClientID) and expiry unless a Skip* option is set"},
		Rules: []RuleDef{
			{"C13/callback-chain", "authenticated flag and session save only after state, exchange, id_token, verify, claims, non-empty user name; name and access token from the verified results", c13CallbackChain},
			{"C13/who-authenticates", "SetAuthenticated(non-false) and SaveSessionIdentity call sites are the frozen set", c13WhoAuthenticates},
			{"C13/state", "state keys: 16 bytes of crypto/rand (checked), default expiry, store expiry constant <= 2 min", c13State},
			{"C13/verifier-config", "oidc.Config sets ClientID from configuration and no Skip* option; verifier from provider.Verifier", c13VerifierConfig},
			{"C13/marshal-private", "the encoded identity handed to the session store lives in storage of the Marshal call (no package-level or pooled encode buffer the returned bytes alias)", c13MarshalPrivate},
			{"C13/fresh-identity", "GetSessionIdentity returns an identity object of its own for every call (no shared, cached object)", c13FreshIdentity},
			{"C13/store", "both session stores are built with both keys, behind len >= 32 guards", c13Store},
			{"C13/default-keys", "the session keys substituted when none are configured are drawn symbol by symbol from crypto/rand (C18's generator rule)", func(c *Ctx) { c18CSPRNGAs(c, "C13/default-keys") }},
			{"C13/key-defaults", "config.Load's defaults carry no value for the session keys: a built-in key would pass the length test and be the same on every installation", func(c *Ctx) { keyDefaults(c, "C13/key-defaults", []string{"Server.SessionKey", "Server.SessionEncryptionKey"}) }},
			{"C13/mirror", "identity Marshal/Unmarshal copy the same fields both ways and cover every field", c13Mirror},
			{"C13/config-tags", "the configuration fields this property depends on are read from the documented keys: koanf tag = lower-cased field name", func(c *Ctx) { configTags(c, "C13/config-tags", map[string][]string{"Configuration": {"Server", "OpenId"}, "ServerConfig": {"SessionKey", "SessionEncryptionKey", "SessionStore", "MaxSessionLength"}, "OpenIDConfig": {"ProviderUrl", "ClientId", "ClientSecret"}}) }},
			{"C13/decode-target", "a stored identity is decoded into a fresh zero value (gob omits zero fields)", func(c *Ctx) { gobTargetFresh(c, "C13/decode-target") }},
			{"C13/username-claim", "the user name is a claim of the verified ID token that is a string (checked assertion)", func(c *Ctx) { stringClaim(c, "C13/username-claim") }},
		},
	})
}

func c13CallbackChain(c *Ctx) {
	rule := "C13/callback-chain"
	fn := c.Fn("cmd/rdpgw/web", "OIDC.HandleCallback")
	key := shortFn(fn)
	// steps are looked for in the callback and in the helpers it calls statically
	step1 := func(what string, names ...string) (stepRef, bool) {
		sts := c.findSteps(fn, names...)
		if len(sts) != 1 {
			c.Bad(rule, key+" "+what, fn.Pos(), "expected exactly one %s call, found %d", what, len(sts))
			return stepRef{}, false
		}
		return sts[0], true
	}
	queryGet := func(v ssa.Value, name string) bool {
		call, ok := strip(v).(*ssa.Call)
		if !ok || calleeName(call) != "(net/url.Values).Get" {
			return false
		}
		s, ok := constString(arg(call, 0))
		return ok && s == name
	}
	getS, ok1 := step1("stateStore.Get", "(*"+cachePkg+".cache).Get", "(*"+cachePkg+".Cache).Get")
	exchS, ok2 := step1("Exchange", "(*"+oauthPkg+".Config).Exchange")
	verifyS, ok3 := step1("Verify", "(*"+oidcPkg+".IDTokenVerifier).Verify")
	claimsS, ok4 := step1("IDToken.Claims", "(*"+oidcPkg+".IDToken).Claims")
	// the claims may be decoded into raw JSON and unmarshalled (two steps), or straight into the map
	directClaims := len(c.findSteps(fn, "encoding/json.Unmarshal")) == 0
	var unmS stepRef
	ok5 := true
	if !directClaims {
		unmS, ok5 = step1("json.Unmarshal", "encoding/json.Unmarshal")
	}
	findS, ok6 := step1("findUsernameInClaims", webPkgPath+".findUsernameInClaims")
	saveS, ok7 := step1("SaveSessionIdentity", webPkgPath+".SaveSessionIdentity")
	if !(ok1 && ok2 && ok3 && ok4 && ok5 && ok6 && ok7) {
		return
	}
	if len(findS.via) > 0 || len(saveS.via) > 0 {
		c.Undecided(rule, key+" steps", fn.Pos(), "the user name lookup / session save is not in the callback itself")
		return
	}
	get, exch, verify, claims, unm, find, save := getS.call, exchS.call, verifyS.call, claimsS.call, unmS.call, findS.call, saveS.call
	if directClaims {
		unm, unmS = claims, claimsS // the Claims call itself fills the map
	}
	hField := func(st stepRef, v ssa.Value, field string) bool {
		root, path := c.fieldPathIn(st, v)
		return root == ssa.Value(fn.Params[0]) && len(path) >= 1 && path[0] == field
	}
	// shapes
	c.Check(hField(getS, recvOf(get), "stateStore") && queryGet(c.upIn(getS, arg(get, 0)), "state"), rule, key+" state.shape", get.Pos(),
		"looks up the request's state parameter in the handler's own state store", "the state lookup is not h.stateStore.Get(<state query parameter>)")
	c.Check(hField(exchS, recvOf(exch), "oAuth2Config") && queryGet(c.upIn(exchS, arg(exch, 1)), "code"), rule, key+" exchange.shape", exch.Pos(),
		"exchanges the request's code with the configured OAuth2 client", "the code exchange does not use h.oAuth2Config and the code query parameter")
	// id_token: typeassert,ok of Extra(exchange token, "id_token")
	var idTok *ssa.TypeAssert
	if ex, ok := strip(c.upIn(verifyS, arg(verify, 1))).(*ssa.Extract); ok && ex.Index == 0 {
		if ta, ok := ex.Tuple.(*ssa.TypeAssert); ok && ta.CommaOk {
			if extra, ok := strip(ta.X).(*ssa.Call); ok && calleeName(extra) == "(*"+oauthPkg+".Token).Extra" {
				if s, _ := constString(arg(extra, 0)); s == "id_token" && (recvOf(extra) == resultOf(exch, 0) || c.norm(recvOf(extra)) == resultOf(exch, 0)) {
					idTok = ta
				}
			}
		}
	}
	c.Check(idTok != nil && hField(verifyS, recvOf(verify), "oidcTokenVerifier"), rule, key+" verify.shape", verify.Pos(),
		"verifies the id_token of the exchanged token with the configured verifier", "Verify is not applied to the exchanged token's id_token with h.oidcTokenVerifier")
	c.Check(recvOf(claims) == resultOf(verify, 0) || c.norm(recvOf(claims)) == resultOf(verify, 0), rule, key+" claims.shape", claims.Pos(), "claims are read from the verified ID token", "claims are not read from the token that Verify returned")
	// claims destination and unmarshal source are the same storage; unmarshal fills `data`; find reads `data`
	sameStorage := func(a, b ssa.Value) bool {
		if a == b {
			return true
		}
		fa, ok1 := a.(*ssa.FieldAddr)
		fb, ok2 := b.(*ssa.FieldAddr)
		return ok1 && ok2 && fa.X == fb.X && fa.Field == fb.Field
	}
	claimsDst := strip(arg(claims, 0))
	srcOK := false
	if directClaims {
		al, isAl := claimsDst.(*ssa.Alloc)
		if isAl {
			_, isMap := al.Type().Underlying().(*types.Pointer).Elem().Underlying().(*types.Map)
			srcOK = isMap
		}
	} else {
		v := strip(arg(unm, 0))
		for i := 0; i < 4; i++ {
			a, ok := loadAddr(v)
			if !ok {
				break
			}
			if sameStorage(a, claimsDst) {
				srcOK = true
				break
			}
			v = a
		}
	}
	dataAlloc, _ := strip(arg(unm, 1)).(*ssa.Alloc)
	if directClaims {
		dataAlloc, _ = claimsDst.(*ssa.Alloc)
	}
	findOK := false
	if dataAlloc != nil {
		fv := strip(arg(find, 0))
		if a, ok := loadAddr(fv); !ok || a != ssa.Value(dataAlloc) {
			fv = strip(c.downValue(fv, 0)) // the claims map handed back by the helper that decoded it
		}
		if a, ok := loadAddr(fv); ok && a == ssa.Value(dataAlloc) && c.before(fn, unmS, find) && (directClaims || claims.Parent() != unm.Parent() || dominatesInstr(claims, unm)) {
			findOK = true
		}
	}
	c.Check(srcOK && findOK, rule, key+" username.source", find.Pos(), "the user name is looked up in the JSON of the verified token's claims", "the user name is not taken from the claims of the verified ID token")

	userName := ssa.Value(find)
	type guardT struct {
		name string
		st   stepRef
		g    Guard
	}
	guards := []guardT{
		{"state-found", getS, GTrue(isVal(resultOf(get, 1)))},
		{"exchange-ok", exchS, GErrNil(resultOf(exch, 1))},
		{"verify-ok", verifyS, GErrNil(resultOf(verify, 1))},
		{"claims-ok", claimsS, GErrNil(claims)},
		{"json-ok", unmS, GErrNil(unm)}, // (the Claims call again when the claims are decoded in one step)
		{"username-nonempty", findS, GNeq(isVal(userName), func(v ssa.Value) bool { s, ok := constString(v); return ok && s == "" })},
	}
	if idTok != nil {
		for _, r := range *idTok.Referrers() {
			if ex, ok := r.(*ssa.Extract); ok && ex.Index == 1 {
				guards = append(guards, guardT{"id_token-present", verifyS, GTrue(isVal(ex))})
			}
		}
	}
	var targets []ssa.Instruction
	for _, sc := range c.invokesInScope(fn, "SetAuthenticated", 0) {
		if b, isC := constBool(sc.args[0]); !isC || b {
			if sc.call.Parent() != fn {
				c.Undecided(rule, key+" SetAuthenticated", sc.call.Pos(), "the session is marked authenticated inside a helper of the callback")
				continue
			}
			targets = append(targets, sc.call)
		}
	}
	if len(targets) == 0 {
		c.Undecided(rule, key+" SetAuthenticated", fn.Pos(), "no SetAuthenticated(true) in the callback")
	}
	targets = append(targets, save)
	for ti, t := range targets {
		tn := "SetAuthenticated"
		if t == ssa.Instruction(save) {
			tn = "SaveSessionIdentity"
		}
		for _, g := range guards {
			ok, why := c.stepGatesG(fn, t, g.st, g.g)
			c.Check(ok, rule, fmt.Sprintf("%s %s#%d %s", key, tn, ti, g.name), t.Pos(), tn+" only after "+g.name, tn+" is "+why+" ("+g.name+"): a failing callback can leave an authenticated session")
		}
	}
	// the name and the access token stored
	for _, sc := range c.invokesInScope(fn, "SetUserName", 0) {
		c.Check(strip(sc.args[0]) == userName, rule, key+" SetUserName", sc.call.Pos(), "the session's user name is the verified claim", "the user name stored is not the one found in the verified claims")
	}
	for _, sc := range c.invokesInScope(fn, "SetAttribute", 0) {
		if s, _ := constString(sc.args[0]); s == "accessToken" {
			b, f, ok := fieldLoad(strip(sc.args[1]))
			c.Check(ok && f.Name() == "AccessToken" && (b == resultOf(exch, 0) || c.norm(b) == resultOf(exch, 0)), rule, key+" accessToken", sc.call.Pos(), "access token attribute = exchanged token's AccessToken", "the access token attribute is not the exchanged token's")
		}
	}
	// the identity saved is the one that was marked
	idv := arg(save, 2)
	for _, t := range targets[:len(targets)-1] {
		if recvOf(t.(*ssa.Call)) != idv {
			c.Bad(rule, key+" saved-identity", save.Pos(), "the identity saved is not the one marked authenticated")
		}
	}
	c.Floor(rule, 18, "shapes + 7 guards x 2 targets")
}

func c13WhoAuthenticates(c *Ctx) {
	rule := "C13/who-authenticates"
	allowedAuth := map[string]string{
		"(*cmd/rdpgw/web.OIDC).HandleCallback":          "verified OpenID callback (C13/callback-chain)",
		"(*cmd/rdpgw/web.BasicAuthHandler).BasicAuth$1": "Basic middleware after backend confirmation (C05)",
		"(*cmd/rdpgw/web.NTLMAuthHandler).NTLMAuth$1":   "NTLM middleware after backend confirmation (C05)",
		"cmd/rdpgw/web.TransposeSPNEGOContext$1":        "copies the SPNEGO library's verdict",
	}
	for _, fn := range c.allFirstPartyFuncs() {
		sf := shortFn(fn)
		for _, ci := range callsIn(fn) {
			call, ok := ci.(*ssa.Call)
			if !ok {
				continue
			}
			if call.Call.IsInvoke() && call.Call.Method.Name() == "SetAuthenticated" {
				if b, isC := constBool(call.Call.Args[0]); isC && !b {
					continue
				}
				why, ok := allowedAuth[sf]
				if !ok {
					// a helper whose every static caller is one of the verified login paths (and which is never called dynamically)
					allowedSet := map[string]bool{}
					for k := range allowedAuth {
						if k != "cmd/rdpgw/web.TransposeSPNEGOContext$1" && k != "(*cmd/rdpgw/web.OIDC).HandleCallback" {
							allowedSet[k] = true
						}
					}
					if c.onlyCalledFromAnyClosure(fn, allowedSet) {
						ok, why = true, "helper called only from the Basic/NTLM middleware after backend confirmation (C05 checks the guard at the call sites)"
					}
				}
				if ok && sf == "cmd/rdpgw/web.TransposeSPNEGOContext$1" {
					// must be the library identity's own Authenticated()
					src, isCall := strip(call.Call.Args[0]).(*ssa.Call)
					if !isCall || !src.Call.IsInvoke() || src.Call.Method.Name() != "Authenticated" {
						ok = false
					}
				}
				c.Check(ok, rule, "SetAuthenticated in "+sf, call.Pos(), why, "the authenticated flag is set outside the verified login paths")
			}
			if calleeName(call) == webPkgPath+".SaveSessionIdentity" {
				switch sf {
				case "(*cmd/rdpgw/web.OIDC).HandleCallback":
					c.OK(rule, "SaveSessionIdentity in "+sf, call.Pos(), "after the verified callback chain")
				case "cmd/rdpgw/web.EnrichContext$1":
					fresh := false
					if nu, ok := strip(arg(call, 2)).(*ssa.Call); ok && calleeName(nu) == identPkgPath+".NewUser" {
						fresh = true
					}
					c.Check(fresh, rule, "SaveSessionIdentity in "+sf, call.Pos(), "saves a fresh, unauthenticated identity.NewUser()", "EnrichContext saves something other than a fresh identity")
				default:
					c.Bad(rule, "SaveSessionIdentity in "+sf, call.Pos(), "a session identity is saved outside the callback and the new-session path")
				}
			}
		}
		// direct writes of the flag
		eachInstr(fn, func(in ssa.Instruction) {
			s, ok := in.(*ssa.Store)
			if !ok {
				return
			}
			b0, f0, ok0 := fieldOfAddr(s.Addr)
			if ok0 && f0.Name() == "Authenticated" {
				if al := baseAlloc(b0); al != nil && al.Parent() == fn {
					ok0 = false // a field of a local literal (the mirror built by Marshal), not of an identity
				}
			}
			// the flag itself (User.authenticated, or the Authenticated field of the record the identity
			// keeps its state in), or that record replaced as a whole
			isFlag := ok0 && f0.Pkg() != nil && f0.Pkg().Path() == identPkgPath && (f0.Name() == "authenticated" || f0.Name() == "Authenticated" && fn.Pkg != nil && fn.Pkg.Pkg.Path() == identPkgPath)
			isRecord := ok0 && f0.Pkg() != nil && f0.Pkg().Path() == identPkgPath && typeIs(f0.Type(), identPkgPath, "user")
			if isRecord {
				okr := sf == "(*cmd/rdpgw/identity.User).Unmarshal" || sf == "cmd/rdpgw/identity.NewUser"
				c.Check(okr, rule, "store User record in "+sf, s.Pos(), "session restore / constructor", "the identity's whole record is replaced outside Unmarshal and NewUser")
				return
			}
			if _, f, ok := fieldOfAddr(s.Addr); ok && isFlag && f.Pkg() != nil && f.Pkg().Path() == identPkgPath {
				ok2 := sf == "(*cmd/rdpgw/identity.User).SetAuthenticated" || sf == "(*cmd/rdpgw/identity.User).Unmarshal"
				if um := c.FnOpt("cmd/rdpgw/identity", "User.Unmarshal"); !ok2 && um != nil && c.onlyCalledFrom(fn, um, 0) {
					ok2 = true // the restoring half of Unmarshal, extracted
				}
				c.Check(ok2, rule, "store User.authenticated in "+sf, s.Pos(), "setter / session restore", "User.authenticated is written outside its setter and Unmarshal")
			}
		})
	}
	c.Floor(rule, 7, "4 setters, 2 save sites, 2 field writers")
}

func c13State(c *Ctx) {
	rule := "C13/state"
	// all Set sites on an OIDC.stateStore
	var sets []*ssa.Call
	for _, fn := range c.allFirstPartyFuncs() {
		for _, ci := range callsTo(fn, "(*"+cachePkg+".cache).Set", "(*"+cachePkg+".Cache).Set", "(*"+cachePkg+".cache).SetDefault", "(*"+cachePkg+".cache).Add") {
			call := ci.(*ssa.Call)
			_, path := fieldPath(recvOf(call))
			if len(path) == 0 || path[0] != "stateStore" {
				continue
			}
			sets = append(sets, call)
			sf := shortFn(fn)
			if sf != "(*cmd/rdpgw/web.OIDC).Authenticated$1" {
				c.Bad(rule, "stateStore.Set in "+sf, call.Pos(), "state values are issued outside OIDC.Authenticated")
				continue
			}
			k := "stateStore.Set in " + sf
			// key = hex.EncodeToString(seed); seed filled by crypto/rand.Read with checked error (possibly in a helper)
			good, why := randomHexKey(fn, arg(call, 0), call, 0)
			c.Check(good, rule, k+" key", call.Pos(), "state = hex of >=16 bytes from crypto/rand.Read, error checked", why)
			if d, ok := constInt(arg(call, 2)); ok && d == 0 {
				c.OK(rule, k+" expiry", call.Pos(), "stored with the store's default expiration")
			} else {
				c.Bad(rule, k+" expiry", call.Pos(), "state is stored with an explicit expiration other than the default")
			}
		}
	}
	if len(sets) == 0 {
		c.Bad(rule, "stateStore.Set", token.NoPos, "no state value is ever stored")
	}
	// store construction
	nw := c.Fn("cmd/rdpgw/web", "OIDCConfig.New")
	done := false
	for _, ci := range callsTo(nw, cachePkg+".New") {
		d, ok := constInt(arg(ci, 0))
		done = true
		c.Check(ok && d > 0 && d <= 120e9, rule, "OIDCConfig.New stateStore expiry", ci.Pos(), fmt.Sprintf("state store default expiration %ds", d/1e9), "the state store's default expiration is not a constant in (0, 2 min]")
	}
	if !done {
		c.Bad(rule, "OIDCConfig.New stateStore", nw.Pos(), "state store is not built with cache.New(constant, ...)")
	}
	c.Floor(rule, 3, "key, expiry, store")
}

func c13VerifierConfig(c *Ctx) {
	rule := "C13/verifier-config"
	fn := c.Fn("cmd/rdpgw", "initOIDC")
	var cfgAlloc *ssa.Alloc
	eachInstr(fn, func(in ssa.Instruction) {
		if al, ok := in.(*ssa.Alloc); ok && typeIs(al.Type(), oidcPkg, "Config") {
			cfgAlloc = al
		}
	})
	if cfgAlloc == nil {
		c.Missing("oidc.Config literal in initOIDC")
	}
	st := structFieldStores(cfgAlloc)
	for _, f := range sortedKeys(st) {
		switch {
		case f == "ClientID":
			p, ok := confFieldPath(first(st[f]))
			c.Check(ok && p == "OpenId.ClientId", rule, "initOIDC Config.ClientID", cfgAlloc.Pos(), "audience = conf.OpenId.ClientId", "ClientID is not the configured client id")
		case strings.HasPrefix(f, "Skip") || strings.HasPrefix(f, "Insecure"):
			c.Bad(rule, "initOIDC Config."+f, cfgAlloc.Pos(), "verifier option %s weakens ID-token verification", f)
		case f == "Now":
			c.Bad(rule, "initOIDC Config.Now", cfgAlloc.Pos(), "the verifier's clock is replaced (Config.Now): expiry is no longer checked against the real time")
		case f == "SupportedSigningAlgs":
			c.OKTrivial(rule, "initOIDC Config."+f, cfgAlloc.Pos(), "restricts signing algorithms")
		default:
			c.Undecided(rule, "initOIDC Config."+f, cfgAlloc.Pos(), "unknown verifier option %s", f)
		}
	}
	if len(st["ClientID"]) == 0 {
		c.Bad(rule, "initOIDC Config.ClientID", cfgAlloc.Pos(), "no ClientID: audience would not be checked")
	}
	// verifier = provider.Verifier(cfg) and flows into OIDCConfig.OIDCTokenVerifier
	good := false
	for _, ci := range callsTo(fn, "(*"+oidcPkg+".Provider).Verifier") {
		if arg(ci, 0) == ssa.Value(cfgAlloc) {
			v := ci.(*ssa.Call)
			eachInstr(fn, func(in ssa.Instruction) {
				if s, ok := in.(*ssa.Store); ok && s.Val == ssa.Value(v) {
					if _, f, ok := fieldOfAddr(s.Addr); ok && f.Name() == "OIDCTokenVerifier" {
						good = true
					}
				}
			})
			// provider from NewProvider with the configured URL, error fatal
			if np, ok := recvOf(ci).(*ssa.Extract); ok {
				if call, ok := np.Tuple.(*ssa.Call); ok && calleeName(call) == oidcPkg+".NewProvider" {
					p, okp := confFieldPath(arg(call, 1))
					okg, _ := mustPass(fn, v, GErrNil(resultOf(call, 1)))
					c.Check(okp && p == "OpenId.ProviderUrl" && okg, rule, "initOIDC provider", call.Pos(), "provider discovered from conf.OpenId.ProviderUrl, failure is fatal", "the provider is not discovered from the configured URL with a fatal error check")
				}
			}
		}
	}
	c.Check(good, rule, "initOIDC verifier", fn.Pos(), "handler's verifier = provider.Verifier(config)", "the callback handler's verifier is not provider.Verifier(<that config>)")
	// no other IDTokenVerifier construction in first-party code
	for _, f := range c.allFirstPartyFuncs() {
		for _, ci := range callsIn(f) {
			n := calleeName(ci)
			if n == oidcPkg+".NewVerifier" || strings.Contains(n, "InsecureIssuerURLContext") {
				c.Bad(rule, n+" in "+shortFn(f), ci.Pos(), "a verifier is built by hand, bypassing provider discovery")
			}
		}
	}
	c.Floor(rule, 3, "client id, verifier, provider")
}

func c13Store(c *Ctx) {
	rule := "C13/store"
	fn := c.Fn("cmd/rdpgw/web", "InitStore")
	isParam := func(i int) func(ssa.Value) bool {
		return func(v ssa.Value) bool { return strip(v) == ssa.Value(fn.Params[i]) }
	}
	n := 0
	for _, ci := range callsIn(fn) {
		name := calleeName(ci)
		var keys ssa.Value
		switch name {
		case sessPkg + ".NewCookieStore":
			keys = arg(ci, 0)
		case sessPkg + ".NewFilesystemStore":
			keys = arg(ci, 1)
		default:
			continue
		}
		n++
		k := "InitStore " + name[strings.LastIndex(name, ".")+1:]
		elems, ok := sliceLitElems(keys)
		// (a defensive bytes.Clone of a key is the key)
		good := ok && len(elems) == 2 && localVal(peelCopy(localVal(strip(elems[0])))) == ssa.Value(fn.Params[0]) && localVal(peelCopy(localVal(strip(elems[1])))) == ssa.Value(fn.Params[1])
		c.Check(good, rule, k+" keys", ci.Pos(), "built with (sessionKey, encryptionKey): values are MACed and encrypted", "the store is not built with both the authentication and the encryption key")
		for i, pn := range []string{"sessionKey", "encryptionKey"} {
			ok2, why := mustPass(fn, ci.(ssa.Instruction), lenAtLeast(isParam(i), 32))
			c.Check(ok2, rule, k+" len("+pn+")", ci.Pos(), "only after len("+pn+") >= 32 (else fatal)", "store construction "+why+" for "+pn)
		}
	}
	if n < 2 {
		c.Undecided(rule, "InitStore stores", fn.Pos(), "found %d store constructions (cookie and file expected)", n)
	}
	// the only writer of sessionStore is InitStore
	g := c.Global("cmd/rdpgw/web", "sessionStore")
	for _, f := range c.allFirstPartyFuncs() {
		eachInstr(f, func(in ssa.Instruction) {
			if s, ok := in.(*ssa.Store); ok && s.Addr == ssa.Value(g) {
				c.Check(f == fn, rule, "write sessionStore in "+shortFn(f), s.Pos(), "set by InitStore", "the session store is replaced outside InitStore")
			}
		})
	}
	c.Floor(rule, 6, "2 stores x 3")
}

func c13Mirror(c *Ctx) {
	rule := "C13/mirror"
	mar := c.Fn("cmd/rdpgw/identity", "User.Marshal")
	unm := c.Fn("cmd/rdpgw/identity", "User.Unmarshal")
	userT := c.NamedType("cmd/rdpgw/identity", "User").Underlying().(*types.Struct)
	mirT := c.NamedType("cmd/rdpgw/identity", "user").Underlying().(*types.Struct)
	// Marshal: mirror literal fields <- u.field
	m2u := map[string]string{}
	// the literal is built in Marshal or in a method Marshal calls on the same receiver
	onSameReceiver := func(root, f *ssa.Function) bool {
		if f == root {
			return true
		}
		for _, ci := range callsIn(root) {
			if ci.Common().StaticCallee() == f && len(ci.Common().Args) > 0 && ci.Common().Args[0] == ssa.Value(root.Params[0]) {
				return true
			}
		}
		return false
	}
	var lit *ssa.Alloc
	var litFn *ssa.Function
	for _, sf := range scopeFuncs(mar, 1) {
		if sf.Parent() != nil || !onSameReceiver(mar, sf) {
			continue
		}
		eachInstr(sf, func(in ssa.Instruction) {
			if al, ok := in.(*ssa.Alloc); ok && typeIs(al.Type(), identPkgPath, "user") {
				lit, litFn = al, sf
			}
		})
	}
	if lit == nil {
		// no mirror: the identity keeps its state in the stored record itself (struct{ rec user }).
		// Marshal encodes that field; Unmarshal decodes a fresh record and assigns it to the field.
		var recField *types.Var
		encOK := false
		for _, ci := range callsTo(mar, "(*encoding/gob.Encoder).Encode") {
			if b, f, ok := fieldLoad(strip(arg(ci, 0))); ok && b == ssa.Value(mar.Params[0]) && typeIs(f.Type(), identPkgPath, "user") {
				recField, encOK = f, true
			}
		}
		decOK := false
		if recField != nil {
			for _, ci := range callsTo(unm, "(*encoding/gob.Decoder).Decode") {
				al, isAl := strip(arg(ci, 0)).(*ssa.Alloc)
				if !isAl || !typeIs(al.Type(), identPkgPath, "user") || len(storesTo(al)) > 1 {
					continue
				}
				eachInstr(unm, func(in ssa.Instruction) {
					if st, ok := in.(*ssa.Store); ok {
						if b, f, ok := fieldOfAddr(st.Addr); ok && f == recField && b == ssa.Value(unm.Params[0]) {
							if la, ok := loadAddr(strip(st.Val)); ok && la == ssa.Value(al) && dominatesInstr(ci.(ssa.Instruction), st) {
								decOK = true
							}
						}
					}
				})
			}
		}
		if encOK || decOK {
			c.Check(encOK, rule, "Marshal encodes-mirror", mar.Pos(), "the stored record itself is what gob encodes", "gob does not encode the identity's record")
			c.Check(decOK, rule, "Unmarshal restores-record", unm.Pos(), "a freshly decoded record replaces the identity's record as a whole", "Unmarshal does not replace the identity's record by a freshly decoded one (decoding on top of the current state keeps fields gob leaves out)")
			for i := 0; i < userT.NumFields(); i++ {
				c.OKTrivial(rule, "field "+userT.Field(i).Name(), userT.Field(i).Pos(), "part of the one record that is stored and restored")
			}
			_ = mirT
			return
		}
		c.Missing("mirror literal in Marshal")
	}
	for f, vs := range structFieldStores(lit) {
		if len(vs) == 1 {
			if b, uf, ok := fieldLoad(vs[0]); ok && b == ssa.Value(litFn.Params[0]) {
				m2u[f] = uf.Name()
			}
		}
	}
	// the literal is what is encoded
	encOK := false
	for _, ci := range callsTo(mar, "(*encoding/gob.Encoder).Encode") {
		v := strip(arg(ci, 0))
		if a, ok := loadAddr(v); ok && a == ssa.Value(lit) {
			encOK = true
		} else if a, ok := loadAddr(strip(c.downValue(v, 0))); ok && a == ssa.Value(lit) {
			encOK = true // the value returned by the exporting helper
		}
	}
	c.Check(encOK, rule, "Marshal encodes-mirror", mar.Pos(), "the mirror literal is what gob encodes", "gob does not encode the mirror struct that was filled")
	// Unmarshal: u.field <- uu.mirror
	u2m := map[string]string{}
	for _, sf := range scopeFuncs(unm, 1) {
		if sf.Parent() != nil || !onSameReceiver(unm, sf) {
			continue
		}
		sf := sf
		eachInstr(sf, func(in ssa.Instruction) {
			s, ok := in.(*ssa.Store)
			if !ok {
				return
			}
			b, uf, ok := fieldOfAddr(s.Addr)
			if !ok || b != ssa.Value(sf.Params[0]) {
				return
			}
			if _, mf, ok := fieldLoad(s.Val); ok {
				u2m[uf.Name()] = mf.Name()
			} else if fv, ok := strip(s.Val).(*ssa.Field); ok {
				if st, ok := fv.X.Type().Underlying().(*types.Struct); ok {
					u2m[uf.Name()] = st.Field(fv.Field).Name()
				}
			}
		})
	}
	for i := 0; i < mirT.NumFields(); i++ {
		mf := mirT.Field(i).Name()
		uf, ok := m2u[mf]
		k := "field " + mf
		if !ok {
			c.Bad(rule, k, mirT.Field(i).Pos(), "Marshal does not copy mirror field %s from the identity", mf)
			continue
		}
		back, ok := u2m[uf]
		if !ok {
			c.Bad(rule, k, mirT.Field(i).Pos(), "Unmarshal does not restore identity field %s (marshalled as %s): the identity is not restored unchanged", uf, mf)
			continue
		}
		c.Check(back == mf && strings.EqualFold(uf, mf), rule, k, mirT.Field(i).Pos(), fmt.Sprintf("%s <-> %s both ways", uf, mf), fmt.Sprintf("Marshal copies %s from %s but Unmarshal restores %s from %s", mf, uf, uf, back))
	}
	for i := 0; i < userT.NumFields(); i++ {
		uf := userT.Field(i).Name()
		found := false
		for _, v := range m2u {
			if v == uf {
				found = true
			}
		}
		if !found {
			c.Bad(rule, "identity field "+uf, userT.Field(i).Pos(), "identity field %s is not part of the session round trip", uf)
		}
	}
	c.Floor(rule, 10, "10 mirror fields")
}

// constSliceLen: length of a slice made with a constant size (make([]T, k)).
func constSliceLen(v ssa.Value) (int64, bool) {
	switch x := v.(type) {
	case *ssa.MakeSlice:
		return constInt(x.Len)
	case *ssa.Slice:
		if x.Low != nil {
			return 0, false
		}
		if x.High != nil {
			return constInt(x.High)
		}
		if al, ok := x.X.(*ssa.Alloc); ok {
			if arr, ok := al.Type().Underlying().(*types.Pointer).Elem().Underlying().(*types.Array); ok {
				return arr.Len(), true
			}
		}
	}
	return 0, false
}

// randomHexKey: v is hex.EncodeToString of >= 16 bytes filled by crypto/rand.Read whose error
// gates `at` — directly in fn, or inside a first-party helper whose nil-error returns satisfy
// the same condition and whose error gates `at`.
func randomHexKey(fn *ssa.Function, v ssa.Value, at ssa.Instruction, depth int) (bool, string) {
	v = strip(v)
	if enc, ok := v.(*ssa.Call); ok && calleeName(enc) == "encoding/hex.EncodeToString" {
		seed := strip(arg(enc, 0))
		for _, rc := range callsTo(fn, "crypto/rand.Read") {
			if strip(arg(rc, 0)) != seed {
				continue
			}
			n, ok := constSliceLen(seed)
			if !ok {
				// make([]byte, n) with n a parameter that is a constant at every static call site
				if ms, isMk := seed.(*ssa.MakeSlice); isMk && theCtx != nil {
					if _, isP := strip(ms.Len).(*ssa.Parameter); isP {
						ok, n = true, int64(1<<30)
						for _, u := range theCtx.upValues(ms.Len, 0) {
							k, isC := constInt(u)
							if !isC {
								ok = false
								break
							}
							if k < n {
								n = k
							}
						}
					}
				}
			}
			if !ok || n < 16 {
				return false, "seed shorter than 16 bytes"
			}
			if ok2, w := mustPass(fn, at, GErrNil(resultOf(rc, 1))); !ok2 {
				return false, "rand.Read's error does not gate the state: " + w
			}
			if !dominatesInstr(rc.(ssa.Instruction), enc) {
				return false, "the seed is encoded before it is filled"
			}
			return true, ""
		}
		return false, "seed is not filled by crypto/rand.Read"
	}
	if depth < 2 {
		var call *ssa.Call
		idx := 0
		switch x := v.(type) {
		case *ssa.Extract:
			call, _ = x.Tuple.(*ssa.Call)
			idx = x.Index
		case *ssa.Call:
			call = x
		}
		if call != nil {
			if h := call.Call.StaticCallee(); h != nil && IsFirstParty(h) && h.Blocks != nil {
				ei := errIndex(call)
				if ei < 0 {
					return false, "helper " + h.Name() + " cannot report a failing random source"
				}
				if ok, w := mustPass(fn, at, GErrNil(resultOf(call, ei))); !ok {
					return false, "the helper's error does not gate the state: " + w
				}
				n := 0
				for _, r := range returnsOf(h) {
					if !isNil(unspill(r.Results[ei])) {
						continue
					}
					n++
					if ok, w := randomHexKey(h, r.Results[idx], r, depth+1); !ok {
						return false, "in helper " + h.Name() + ": " + w
					}
				}
				if n == 0 {
					return false, "helper " + h.Name() + " never succeeds"
				}
				return true, ""
			}
		}
	}
	return false, "key is not hex.EncodeToString(seed)"
}
