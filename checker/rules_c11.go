package main

import (
	"fmt"
	"go/token"
	"go/types"
	"strings"

	"golang.org/x/tools/go/ssa"
)

func init() {
	register(&Property{
		ID:          "C11",
		Title:       "Ending a tunnel releases the backend connection and all per-tunnel resources",
		DesignRef:   "DESIGN.md §3 C11",
		Technique:   "acquire/release pairing on all exits over go/ssa (deferred releases count from the defer statement on; marker reachability from the acquire to every return), with resources stored in Tunnel fields followed to the owner scope (the handler that runs the packet loop)",
		LevelText:   "Static: the backend connection stored in Tunnel.rwc by the dial is closed by a deferred function of the packet loop that is registered before the dial and closes whenever the field is non-nil; the websocket connection and transport, the legacy IN connection and — when the IN leg's packet loop ends — the legacy OUT transport are closed on every exit after they were obtained; every RegisterTunnel is followed on all exits by RemoveTunnel of the same tunnel; every gauge increment is matched by a decrement of the same gauge on all exits; the relay goroutine reads exactly the connection that the deferred close closes and ends on its read error; the framer gives up (error, which ends the packet loop) when a joined fragment still does not frame, or keeps collecting only below a constant bound on the client-declared size. Decides that each release is on every path; 'within a bounded time' and that Close interrupts a blocked read are library/timing facts. On the legacy transport every exit after the IN request claimed the cached tunnel closes the OUT leg, and the registry key Tunnel.Id is assigned only under the claim test, so RemoveTunnel finds the entry it registered.",
		LevelNote:   "Trusted: net.Conn.Close unblocks a pending Read; defers run on every exit including panics. Not decided: timing, go-cache expiry of legacy tunnel entries.",
		Explanation: "Each rule names an acquire site and a release predicate; a return reachable from the acquire without executing the release call or a defer of it is a violation. C11/backend additionally analyses the deferred closure of Process (close whenever rwc != nil) and ties the relay goroutine's connection to Tunnel.rwc. C11/framer-bounded cuts the edges that test a constant size bound and asks whether ReadPacket is reachable again from the failure edge of the continuation readHeader.",
		Assumptions: []string{"a panic in the handler still runs the deferred releases (Go semantics)"},
		Rules: []RuleDef{
			{"C11/backend", "Tunnel.rwc closed by a defer registered before the dial, whenever non-nil; forward reads that same connection", c11Backend},
			{"C11/client-transports", "websocket conn + transport, legacy IN conn, and legacy OUT transport closed on all exits", c11ClientTransports},
			{"C11/registry", "RegisterTunnel paired with RemoveTunnel of the same tunnel on all exits", c11Registry},
			{"C11/gauges", "every gauge Inc paired with Dec of the same gauge on all exits", c11Gauges},
			{"C11/relay-blocking", "the relay goroutine blocks only in operations that closing the connections ends: no channel send whose receiver can have gone", c11RelayBlocking},
			{"C11/framer-bounded", "unframeable bytes end the packet loop: no unbounded wait for a client-declared size", c11FramerBounded},
			{"C11/transport-close", "Close of either transport closes the connection on every path", func(c *Ctx) { transportCloseCloses(c, "C11/transport-close") }},
			{"C11/lock-pairing", "every lock taken in the protocol package is released on all exits (a writer that returns with the tunnel's write mutex held blocks the teardown for ever)", func(c *Ctx) { lockPairingIn(c, "C11/lock-pairing", protoPkg) }},
		},
	})
}

// releasedOnAllExits: no return is reachable from the acquire without passing a release call or a defer of one.
func releasedOnAllExits(fn *ssa.Function, acquire ssa.Instruction, isRelease func(ssa.CallInstruction) bool) (bool, *ssa.Return) {
	marker := func(in ssa.Instruction) bool {
		ci, ok := in.(ssa.CallInstruction)
		if !ok {
			return false
		}
		if _, isGo := in.(*ssa.Go); isGo {
			return false
		}
		return isRelease(ci)
	}
	// start just after the acquire: walk the rest of its block first
	blk := acquire.Block()
	passed := false
	started := false
	for _, in := range blk.Instrs {
		if in == acquire {
			started = true
			continue
		}
		if !started {
			continue
		}
		if marker(in) {
			passed = true
			break
		}
		if r, ok := in.(*ssa.Return); ok {
			return false, r
		}
	}
	if passed {
		return true, nil
	}
	for _, r := range returnsOf(fn) {
		for _, s := range blk.Succs {
			if reachFromWithoutMarkerAvoiding(s, r, marker, nil) {
				return false, r
			}
		}
	}
	return true, nil
}

func isCloseOn(ci ssa.CallInstruction, isRecv func(ssa.Value) bool) bool {
	return isCloseOnD(ci, isRecv, 0)
}

func isCloseOnD(ci ssa.CallInstruction, isRecv func(ssa.Value) bool, depth int) bool {
	cc := ci.Common()
	if cc.IsInvoke() && cc.Method.Name() == "Close" {
		return isRecv(cc.Value)
	}
	f := cc.StaticCallee()
	if f == nil {
		return false
	}
	if f.Name() == "Close" && len(cc.Args) > 0 {
		return isRecv(cc.Args[0])
	}
	// a first-party helper that is handed the value and closes it on every path
	if depth > 1 || !IsFirstParty(f) || f.Blocks == nil {
		return false
	}
	for i, a := range cc.Args {
		if i >= len(f.Params) || !isRecv(a) {
			continue
		}
		p := f.Params[i]
		marker := func(in ssa.Instruction) bool {
			x, ok := in.(ssa.CallInstruction)
			if !ok {
				return false
			}
			if _, isGo := in.(*ssa.Go); isGo {
				return false
			}
			return isCloseOnD(x, func(v ssa.Value) bool { return strip(v) == ssa.Value(p) }, depth+1)
		}
		all := true
		for _, r := range returnsOf(f) {
			if reachFromWithoutMarkerAvoiding(f.Blocks[0], r, marker, nil) {
				all = false
			}
		}
		if all {
			return true
		}
	}
	return false
}

func c11Backend(c *Ctx) {
	rule := "C11/backend"
	fn := c.Fn("cmd/rdpgw/protocol", "Processor.Process")
	rwcF := c.FieldVar("cmd/rdpgw/protocol", "Tunnel", "rwc")
	// the dial (a library dial, or a helper that returns the dialled connection with the dial's
	// error) in the loop itself; otherwise in a helper of the loop that dials and records the result
	dials := c.dialLikeIn(fn)
	dialFn := fn
	if len(dials) == 0 {
		for _, sf := range scopeFuncs(fn, 1) {
			if sf.Parent() != nil || sf == fn || !c.onlyCalledFrom(sf, fn, 0) {
				continue
			}
			if ds := c.dialLikeIn(sf); len(ds) > 0 {
				dials = append(dials, ds...)
				dialFn = sf
			}
		}
	}
	if len(dials) == 0 {
		c.Undecided(rule, "Process dial", fn.Pos(), "no dial in the packet loop")
		return
	}
	// the dial result is stored into Tunnel.rwc
	stored := false
	loopFns := []*ssa.Function{fn}
	if dialFn != fn {
		loopFns = append(loopFns, dialFn)
	}
	eachLoopInstr := func(f func(in ssa.Instruction)) {
		for _, lf := range loopFns {
			eachInstr(lf, f)
		}
	}
	eachLoopInstr(func(in ssa.Instruction) {
		if s, ok := in.(*ssa.Store); ok {
			if _, f, ok := fieldOfAddr(s.Addr); ok && f == rwcF && strip(s.Val) == resultOf(dials[0], 0) {
				stored = true
			}
		}
	})
	eachLoopInstr(func(in ssa.Instruction) {
		if s, ok := in.(*ssa.Store); ok {
			if _, f, ok := fieldOfAddr(s.Addr); ok && f == rwcF {
				isDial := false
				for _, d := range dials {
					if strip(s.Val) == resultOf(d, 0) {
						isDial = true
					}
				}
				if !isDial {
					stored = false
					c.Bad(rule, "Process rwc-overwrite", s.Pos(), "Tunnel.rwc is overwritten with something other than a dialled connection: the open backend connection is no longer reachable by the deferred close")
				}
			}
		}
	})
	c.Check(stored, rule, "Process rwc-store", dials[0].Pos(), "the dialled connection is recorded in Tunnel.rwc", "the dialled connection is not stored in Tunnel.rwc: nothing can close it later")
	// a deferred closure, registered before the dial, closes rwc whenever it is non-nil
	var closer *ssa.Function
	var deferInstr *ssa.Defer
	eachInstr(fn, func(in ssa.Instruction) {
		d, ok := in.(*ssa.Defer)
		if !ok {
			return
		}
		var target *ssa.Function
		if mc, ok := d.Call.Value.(*ssa.MakeClosure); ok {
			target, _ = mc.Fn.(*ssa.Function)
		}
		if target == nil {
			return
		}
		for _, sf := range scopeFuncs(target, 1) {
			for _, ci := range callsIn(sf) {
				if isCloseOn(ci, func(v ssa.Value) bool { return isFieldLoad(strip(v), rwcF) }) {
					closer, deferInstr = target, d
				}
			}
		}
	})
	if closer == nil {
		c.Bad(rule, "Process deferred-close", fn.Pos(), "no deferred function of the packet loop closes Tunnel.rwc: when the loop ends (channel close, protocol error, client drop) the backend connection and the relay goroutine live on")
		return
	}
	early := true
	for _, d := range dials {
		if d.Parent() == fn {
			if !dominatesInstr(deferInstr, d) {
				early = false
			}
			continue
		}
		// the dial sits in a helper of the loop: the defer must precede every call of that helper
		for _, ci := range callsIn(fn) {
			if ci.Common().StaticCallee() == d.Parent() && !dominatesInstr(deferInstr, ci.(ssa.Instruction)) {
				early = false
			}
		}
	}
	c.Check(early && !inCycle(deferInstr.Block()), rule, "Process defer-before-dial", deferInstr.Pos(), "the closing defer is registered before any dial, outside the loop", "the closing defer is not registered on every path before the dial")
	// closure: whenever rwc != nil, Close is called
	isClose := func(in ssa.Instruction) bool {
		ci, ok := in.(ssa.CallInstruction)
		return ok && isCloseOn(ci, func(v ssa.Value) bool { return isFieldLoad(strip(v), rwcF) })
	}
	skip := false
	for _, r := range returnsOf(closer) {
		if reachWithoutMarkerAvoiding(closer, r, isClose, GEq(func(v ssa.Value) bool { return isFieldLoad(strip(v), rwcF) }, anyNil)) {
			skip = true
		}
	}
	c.Check(!skip, rule, "Process deferred-close whenever-set", closer.Pos(), "closes Tunnel.rwc whenever it is non-nil", "the deferred function can return without closing a non-nil Tunnel.rwc (the close depends on something other than the connection being set): some way of ending the tunnel leaks the backend connection")
	// the relay goroutine reads that same connection
	eachLoopInstr(func(in ssa.Instruction) {
		g, ok := in.(*ssa.Go)
		if !ok {
			return
		}
		if f := g.Call.StaticCallee(); f == nil || fnName(f) != protoPkg+".forward" {
			return
		}
		c.Check(len(g.Call.Args) > 0 && isFieldLoad(strip(g.Call.Args[0]), rwcF), rule, "Process forward-conn", g.Pos(), "the relay goroutine reads Tunnel.rwc, the connection the deferred close closes", "the relay goroutine reads a connection other than Tunnel.rwc: closing rwc does not stop it")
	})
	// no other writer of rwc that could orphan an open connection
	for _, f := range c.allFirstPartyFuncs() {
		if f == fn || f == dialFn || !c.Reachable()[f] {
			continue
		}
		eachInstr(f, func(in ssa.Instruction) {
			if s, ok := in.(*ssa.Store); ok {
				if _, fv, ok := fieldOfAddr(s.Addr); ok && fv == rwcF {
					c.Bad(rule, "write rwc in "+shortFn(f), s.Pos(), "Tunnel.rwc is overwritten outside the packet loop")
				}
			}
		})
	}
	c.Floor(rule, 4, "store, defer, closure, forward")
}

func c11ClientTransports(c *Ctx) { c11ClientTransportsAs(c, "C11/client-transports") }

func c11ClientTransportsAs(c *Ctx, rule string) {
	// websocket: conn from Upgrade closed on all exits; transport from NewWS closed on all exits
	hg := c.Fn("cmd/rdpgw/protocol", "Gateway.HandleGatewayProtocol")
	for _, ci := range callsIn(hg) {
		if strings.HasSuffix(calleeName(ci), "websocket.Upgrader).Upgrade") {
			conn := resultOf(ci, 0)
			// acquire point: the success edge of the upgrade; use the first use of conn after the error test
			var first ssa.Instruction
			for _, b := range hg.DomPreorder() {
				for _, in := range b.Instrs {
					if first == nil && usesValue(in, conn) && in != ci.(ssa.Instruction) {
						if _, isEx := in.(*ssa.Extract); !isEx {
							first = in
						}
					}
				}
			}
			if first == nil {
				c.Bad(rule, "HandleGatewayProtocol websocket-conn", ci.Pos(), "upgraded connection unused")
				continue
			}
			isRel := func(x ssa.CallInstruction) bool { return isCloseOn(x, func(v ssa.Value) bool { return v == conn }) }
			ok := true
			var where *ssa.Return
			if d, isDefer := first.(*ssa.Defer); isDefer && isRel(d) {
				ok = true
			} else {
				ok, where = releasedOnAllExits(hg, first, isRel)
				// the first use itself may be the deferred close
			}
			msg := ""
			if where != nil {
				msg = " (return at " + c.P.Pos(where.Pos()) + ")"
			}
			c.Check(ok, rule, "HandleGatewayProtocol websocket-conn", ci.Pos(), "the upgraded connection is closed on every exit", "the upgraded websocket connection is not closed on every exit"+msg)
		}
	}
	ws := c.Fn("cmd/rdpgw/protocol", "Gateway.handleWebsocketProtocol")
	for _, st := range c.findSteps(ws, modPath+"/cmd/rdpgw/transport.NewWS") {
		var ci ssa.CallInstruction = st.siteIn() // the constructor, or the helper of the handler that wraps it
		if len(st.via) > 0 && !returnsResultOf(st.call.Parent(), st.call, 0) || len(st.via) > 1 {
			c.Undecided(rule, "handleWebsocketProtocol transport", st.Pos(), "the websocket transport is built in a helper whose result is not simply the constructor's")
			continue
		}
		tr := resultOf(ci, 0)
		ok, where := releasedOnAllExits(ws, ci.(ssa.Instruction), func(x ssa.CallInstruction) bool {
			return isCloseOn(x, func(v ssa.Value) bool { return strip(v) == tr })
		})
		msg := ""
		if where != nil {
			msg = " (return at " + c.P.Pos(where.Pos()) + ")"
		}
		c.Check(ok, rule, "handleWebsocketProtocol transport", ci.Pos(), "the websocket transport is closed on every exit", "the websocket transport is not closed on every exit"+msg)
	}
	// legacy
	lg := c.Fn("cmd/rdpgw/protocol", "Gateway.handleLegacyProtocol")
	inF := c.FieldVar("cmd/rdpgw/protocol", "Tunnel", "transportIn")
	outF := c.FieldVar("cmd/rdpgw/protocol", "Tunnel", "transportOut")
	storedInto := func(fn *ssa.Function, v ssa.Value, fld *types.Var) bool {
		found := false
		eachInstr(fn, func(in ssa.Instruction) {
			if s, ok := in.(*ssa.Store); ok && strip(s.Val) == v {
				if _, f, ok := fieldOfAddr(s.Addr); ok && f == fld {
					found = true
				}
			}
		})
		return found
	}
	// the legacy handler itself, or the helpers only it calls (openLegacyOut / serveLegacyIn)
	var legacyFns []*ssa.Function
	for _, f := range c.allFirstPartyFuncs() {
		if f == lg || f.Parent() == nil && c.onlyCalledFrom(f, lg, 0) {
			legacyFns = append(legacyFns, f)
		}
	}
	for _, lf := range legacyFns {
		for _, ci := range callsTo(lf, modPath+"/cmd/rdpgw/transport.NewLegacy") {
			tr := resultOf(ci, 0)
			// which leg? the transport stored into transportIn (here, or by a helper it is handed to) is the IN leg
			isIn := storedInto(lf, tr, inF)
			for _, x := range callsIn(lf) {
				callee := x.Common().StaticCallee()
				if callee == nil || !IsFirstParty(callee) {
					continue
				}
				for i, a := range x.Common().Args {
					if strip(a) == tr && i < len(callee.Params) && storedInto(callee, callee.Params[i], inF) {
						isIn = true
					}
				}
			}
			if !isIn {
				continue // OUT leg: owned by the tunnel, closed when the IN leg's loop ends (below)
			}
			// after the error test: first instruction dominated by the success edge — take the store / defer that uses tr
			var first ssa.Instruction
			for _, b := range lf.DomPreorder() {
				for _, in := range b.Instrs {
					if first == nil && usesValue(in, tr) {
						first = in
					}
				}
			}
			ok := false
			if d, isDefer := first.(*ssa.Defer); isDefer && isCloseOn(d, func(v ssa.Value) bool { return strip(v) == tr }) {
				ok = true
			} else if first != nil {
				ok, _ = releasedOnAllExits(lf, first, func(x ssa.CallInstruction) bool {
					return isCloseOn(x, func(v ssa.Value) bool { return strip(v) == tr })
				})
			}
			c.Check(ok, rule, "handleLegacyProtocol in-conn", ci.Pos(), "the hijacked RDG_IN_DATA connection is closed on every exit", "the hijacked RDG_IN_DATA connection is not closed on every exit")
		}
	}
	// when the loop ends, the OUT transport of this tunnel is closed: on all exits after Process, or by
	// a defer before it — in the function that runs the loop, or in its only caller after the helper returns
	isRel := func(x ssa.CallInstruction) bool {
		return isCloseOn(x, func(v ssa.Value) bool { return isFieldLoad(strip(v), outF) })
	}
	var closedAfter func(fn *ssa.Function, at ssa.Instruction, depth int) bool
	closedAfter = func(fn *ssa.Function, at ssa.Instruction, depth int) bool {
		deferred := false
		eachInstr(fn, func(in ssa.Instruction) {
			if d, ok := in.(*ssa.Defer); ok && isRel(d) && dominatesInstr(d, at) {
				deferred = true
			}
		})
		if deferred {
			return true
		}
		if ok, _ := releasedOnAllExits(fn, at, isRel); ok {
			return true
		}
		if fn == lg || depth > 1 {
			return false
		}
		sites, okc := c.staticCallers(fn)
		if !okc || len(sites) == 0 {
			return false
		}
		for _, cs := range sites {
			if !closedAfter(cs.Parent(), cs.(ssa.Instruction), depth+1) {
				return false
			}
		}
		return true
	}
	// from the moment the IN request claims the cached tunnel (transportIn is set, so a retry with the
	// same connection id is refused) this request owns the OUT leg: every exit after the claim closes
	// it (directly or through a defer) — an early return between the claim and the packet loop would
	// leave the hijacked OUT connection open with nobody left to close it. And the registry key
	// (Tunnel.Id) of the shared, cached tunnel is assigned only under the claim test: a second IN
	// request that is turned away must not re-key a tunnel that is registered under the old Id.
	idF := c.FieldVar("cmd/rdpgw/protocol", "Tunnel", "Id")
	isInLoad := func(v ssa.Value) bool { return isFieldLoad(strip(v), inF) }
	type claimPoint struct {
		fn *ssa.Function
		at ssa.Instruction
	}
	// a store made in a helper only the handler calls is judged at the helper's call sites
	pointsOf := func(lf *ssa.Function, st ssa.Instruction) ([]claimPoint, bool) {
		if lf == lg {
			return []claimPoint{{lf, st}}, true
		}
		sites, okc := c.staticCallers(lf)
		if !okc || len(sites) == 0 {
			return nil, false
		}
		var out []claimPoint
		for _, cs := range sites {
			out = append(out, claimPoint{cs.Parent(), cs.(ssa.Instruction)})
		}
		return out, true
	}
	relOrHelper := func(x ssa.CallInstruction) bool {
		if isRel(x) {
			return true
		}
		if _, isGo := x.(*ssa.Go); isGo {
			return false
		}
		// a helper of the handler that closes the OUT leg on all of its own exits (it defers the
		// close before the packet loop) releases it for the caller as well
		cal := x.Common().StaticCallee()
		if cal == nil || !IsFirstParty(cal) || cal.Blocks == nil || len(cal.Blocks[0].Instrs) == 0 {
			return false
		}
		okc, _ := releasedOnAllExits(cal, cal.Blocks[0].Instrs[0], isRel)
		if d, isD := cal.Blocks[0].Instrs[0].(*ssa.Defer); isD && isRel(d) {
			okc = true
		}
		return okc
	}
	for _, lf := range legacyFns {
		lf := lf
		nClaim, nID := 0, 0
		eachInstr(lf, func(in ssa.Instruction) {
			st, ok := in.(*ssa.Store)
			if !ok {
				return
			}
			_, f, ok := fieldOfAddr(st.Addr)
			if !ok || (f != inF && f != idF) {
				return
			}
			if f == inF && isNil(strip(st.Val)) {
				return
			}
			// decided inside the helper itself when it can be (the helper tests the claim, or goes on
			// to run the packet loop and closes the OUT leg on its own exits)
			if lf != lg {
				inside := false
				if f == inF {
					inside, _ = releasedOnAllExits(lf, st, relOrHelper)
				} else {
					inside, _ = mustPass(lf, st, GEq(isInLoad, anyNil))
				}
				if inside {
					c.OK(rule, fmt.Sprintf("%s %s store (in helper)", shortFn(lf), f.Name()), st.Pos(), "decided inside the helper of the legacy handler")
					return
				}
			}
			pts, okp := pointsOf(lf, st)
			if !okp {
				c.Undecided(rule, shortFn(lf)+" "+f.Name()+" store", st.Pos(), "the callers of the helper that writes Tunnel.%s cannot be enumerated", f.Name())
				return
			}
			for _, pt := range pts {
				switch f {
				case inF:
					nClaim++
					ok, where := releasedOnAllExits(pt.fn, pt.at, relOrHelper)
					msg := ""
					if where != nil {
						msg = " (return at " + c.P.Pos(where.Pos()) + ")"
					}
					c.Check(ok, rule, fmt.Sprintf("%s claim#%d out-leg closed", shortFn(lf), nClaim), st.Pos(), "every exit after the IN leg claimed the tunnel closes the OUT leg", "after the IN request has claimed the tunnel an exit is reachable that does not close the OUT leg"+msg+": the hijacked RDG_OUT_DATA connection stays open and a retry is refused")
				case idF:
					nID++
					ok, why := mustPass(pt.fn, pt.at, GEq(isInLoad, anyNil))
					c.Check(ok, rule, fmt.Sprintf("%s id-store#%d", shortFn(lf), nID), st.Pos(), "the registry key of the cached tunnel is assigned only under the claim test (transportIn == nil)", "Tunnel.Id of the cached tunnel is assigned "+why+" of transportIn == nil: a second IN request re-keys a registered tunnel and RemoveTunnel then misses its registry entry")
				}
			}
		})
	}
	nProc := 0
	for _, fn := range c.allFirstPartyFuncs() {
		if fn != lg && !c.onlyCalledFrom(fn, lg, 0) {
			continue
		}
		for _, ci := range callsTo(fn, "(*"+protoPkg+".Processor).Process") {
			nProc++
			c.Check(closedAfter(fn, ci.(ssa.Instruction), 0), rule, "handleLegacyProtocol out-transport", ci.Pos(), "the tunnel's RDG_OUT_DATA connection is closed whenever the packet loop ends", "the hijacked RDG_OUT_DATA connection is not closed on every way the packet loop ends (e.g. only on error, not on an orderly channel close)")
		}
	}
	if nProc == 0 {
		// the packet loop may be run by a helper both handlers share (serveTunnel): the call of that
		// helper in the legacy handler stands for the loop
		procName := "(*" + protoPkg + ".Processor).Process"
		var runsLoop func(f *ssa.Function, depth int) bool
		runsLoop = func(f *ssa.Function, depth int) bool {
			if f == nil || f.Blocks == nil || depth > 2 {
				return false
			}
			for _, ci := range callsIn(f) {
				if _, isCall := ci.(*ssa.Call); !isCall {
					continue
				}
				if calleeName(ci) == procName {
					return true
				}
				if h := ci.Common().StaticCallee(); h != nil && IsFirstParty(h) && runsLoop(h, depth+1) {
					return true
				}
			}
			return false
		}
		for _, fn := range c.allFirstPartyFuncs() {
			if fn != lg && !c.onlyCalledFrom(fn, lg, 0) {
				continue
			}
			for _, ci := range callsIn(fn) {
				call, isCall := ci.(*ssa.Call)
				if !isCall {
					continue
				}
				if h := call.Call.StaticCallee(); h != nil && IsFirstParty(h) && runsLoop(h, 0) {
					nProc++
					c.Check(closedAfter(fn, call, 0), rule, "handleLegacyProtocol out-transport", call.Pos(), "the tunnel's RDG_OUT_DATA connection is closed whenever the packet loop ends", "the hijacked RDG_OUT_DATA connection is not closed on every way the packet loop ends (e.g. only on error, not on an orderly channel close)")
				}
			}
		}
	}
	if nProc == 0 {
		c.Undecided(rule, "handleLegacyProtocol process", lg.Pos(), "no packet loop call in the legacy handler")
	}
	c.Floor(rule, 4, "ws conn, ws transport, legacy in, legacy out")
}

func usesValue(in ssa.Instruction, v ssa.Value) bool {
	var ops []*ssa.Value
	for _, op := range in.Operands(ops) {
		if op != nil && *op != nil && (*op == v || strip(*op) == v) {
			return true
		}
	}
	return false
}

func c11Registry(c *Ctx) {
	rule := "C11/registry"
	n := 0
	for _, fn := range c.allFirstPartyFuncs() {
		for _, ci := range callsTo(fn, protoPkg+".RegisterTunnel") {
			n++
			t := arg(ci, 0)
			ok, where := releasedOnAllExits(fn, ci.(ssa.Instruction), func(x ssa.CallInstruction) bool {
				return calleeName(x) == protoPkg+".RemoveTunnel" && x.Common().Args[0] == t
			})
			msg := ""
			if where != nil {
				msg = " (return at " + c.P.Pos(where.Pos()) + ")"
			}
			c.Check(ok, rule, "RegisterTunnel in "+shortFn(fn), ci.Pos(), "followed on every exit by RemoveTunnel of the same tunnel", "a registered tunnel is not removed from the registry on every exit"+msg)
		}
	}
	// RemoveTunnel deletes by the id RegisterTunnel stored under
	reg := c.Fn("cmd/rdpgw/protocol", "RegisterTunnel")
	rem := c.Fn("cmd/rdpgw/protocol", "RemoveTunnel")
	keyOf := func(fn *ssa.Function) string {
		k := ""
		for _, sf := range scopeFuncs(fn, 1) {
			eachInstr(sf, func(in ssa.Instruction) {
				keyOfInstr(in, &k)
			})
		}
		return k
	}
	_ = func(fn *ssa.Function) string {
		k := ""
		eachInstr(fn, func(in ssa.Instruction) {
			switch x := in.(type) {
			case *ssa.MapUpdate:
				if _, f, ok := fieldLoad(strip(x.Key)); ok {
					k = f.Name()
				}
			case *ssa.Call:
				if b, ok := x.Call.Value.(*ssa.Builtin); ok && b.Name() == "delete" {
					if _, f, ok := fieldLoad(strip(x.Call.Args[1])); ok {
						k = f.Name()
					}
				}
			}
		})
		return k
	}
	c.Check(keyOf(reg) != "" && keyOf(reg) == keyOf(rem), rule, "registry key", reg.Pos(), "registered and removed under the same key (Tunnel."+keyOf(reg)+")", fmt.Sprintf("RegisterTunnel stores under Tunnel.%s but RemoveTunnel deletes Tunnel.%s", keyOf(reg), keyOf(rem)))
	if n < 1 {
		c.Undecided(rule, "RegisterTunnel sites", token.NoPos, "%d sites (two on the pinned tree, one when both handlers share a helper)", n)
	}
}

func c11Gauges(c *Ctx) {
	rule := "C11/gauges"
	n := 0
	for _, fn := range c.allFirstPartyFuncs() {
		for _, ci := range callsIn(fn) {
			call, ok := ci.(*ssa.Call)
			if !ok || !call.Call.IsInvoke() || call.Call.Method.Name() != "Inc" {
				continue
			}
			g, ok := globalLoad(strip(call.Call.Value))
			if !ok {
				continue
			}
			// a counter only ever goes up: nothing to pair (only gauges count things that are held)
			if !typeIs(call.Call.Value.Type(), "github.com/prometheus/client_golang/prometheus", "Gauge") {
				continue
			}
			n++
			okp, where := releasedOnAllExits(fn, call, func(x ssa.CallInstruction) bool {
				cc := x.Common()
				if !cc.IsInvoke() || cc.Method.Name() != "Dec" {
					return false
				}
				g2, ok := globalLoad(strip(cc.Value))
				return ok && g2 == g
			})
			msg := ""
			if where != nil {
				msg = " (return at " + c.P.Pos(where.Pos()) + ")"
			}
			c.Check(okp, rule, g.Name()+".Inc in "+shortFn(fn), call.Pos(), "matched by "+g.Name()+".Dec on every exit", "the gauge "+g.Name()+" is incremented but not decremented on every exit"+msg)
		}
	}
	if n < 2 {
		c.Undecided(rule, "gauge sites", token.NoPos, "%d Inc sites (2 confirmed by hand)", n)
	}
}

func keyOfInstr(in ssa.Instruction, k *string) {
	switch x := in.(type) {
	case *ssa.MapUpdate:
		if _, f, ok := fieldLoad(strip(x.Key)); ok {
			*k = f.Name()
		}
	case *ssa.Call:
		if b, ok := x.Call.Value.(*ssa.Builtin); ok && b.Name() == "delete" {
			if _, f, ok := fieldLoad(strip(x.Call.Args[1])); ok {
				*k = f.Name()
			}
		}
	}
}

// returnsResultOf: every return of helper yields, as its result idx, result idx of call (or a
// nil/zero placeholder).
func returnsResultOf(helper *ssa.Function, call *ssa.Call, idx int) bool {
	want := resultOf(call, idx)
	for _, r := range returnsOf(helper) {
		if idx >= len(r.Results) {
			return false
		}
		v := strip(unspill(r.Results[idx]))
		if k, isC := v.(*ssa.Const); isC && (k.Value == nil || k.IsNil() || isZeroConst(k)) {
			continue
		}
		if v != want && v != ssa.Value(call) {
			return false
		}
	}
	return true
}

// c11FramerBounded: unframeable bytes end the tunnel. In readMessage, once a read has been joined to
// a pending fragment and the result still does not frame, the framer must give up (error return ends
// the packet loop and with it the tunnel) — or keep collecting only below a constant bound on the
// declared size. Waiting for as many bytes as the client's own length field announces lets a client
// that sends junk keep the backend connection, both goroutines, the registry entry and the gauge
// for as long as it likes.
func c11FramerBounded(c *Ctx) {
	rule := "C11/framer-bounded"
	fn := c.Fn("cmd/rdpgw/protocol", "readMessage")
	// read sites: the instructions of readMessage that read the transport — ReadPacket itself, or a
	// call of a helper (only readMessage calls it) that does
	var sites []*ssa.Call
	readsTransport := func(f *ssa.Function) bool {
		for _, ci := range callsIn(f) {
			if ci.Common().IsInvoke() && ci.Common().Method.Name() == "ReadPacket" {
				return true
			}
		}
		return false
	}
	for _, ci := range callsIn(fn) {
		call, ok := ci.(*ssa.Call)
		if !ok {
			continue
		}
		if call.Call.IsInvoke() && call.Call.Method.Name() == "ReadPacket" {
			sites = append(sites, call)
			continue
		}
		if h := call.Call.StaticCallee(); h != nil && IsFirstParty(h) && h.Blocks != nil && readsTransport(h) {
			sites = append(sites, call)
		}
	}
	if len(sites) == 0 {
		c.Missing("ReadPacket call in readMessage")
	}
	reachesRead := func(from *ssa.BasicBlock, g Guard) bool {
		for _, s := range sites {
			if reachFromWithoutMarkerAvoiding(from, s, noMarker, g) {
				return true
			}
		}
		return false
	}
	// a transport read error leaves the framer: from the edge on which the read's error is non-nil,
	// no read site is reached again (an error that is skipped keeps a dead or unframeable
	// connection's tunnel, backend and registry entry alive for ever)
	{
		tested, again := true, false
		for _, rp := range sites {
			ei := errIndex(rp)
			var rpErr ssa.Value
			if ei >= 0 {
				rpErr = resultOf(rp, ei)
			}
			t := false
			for _, b := range fn.Blocks {
				if len(b.Instrs) == 0 || rpErr == nil {
					continue
				}
				ifi, ok := b.Instrs[len(b.Instrs)-1].(*ssa.If)
				if !ok || !rp.Block().Dominates(b) {
					continue
				}
				for i, succ := range b.Succs {
					if GNeq(isVal(rpErr), anyNil)(ifi.Cond, i == 0) {
						t = true
						if reachesRead(succ, nil) {
							again = true
						}
					}
				}
			}
			if !t {
				tested = false
			}
		}
		if !tested {
			c.Bad(rule, "readMessage read-error", sites[0].Pos(), "the error of Transport.ReadPacket is not tested in readMessage")
		} else {
			c.Check(!again, rule, "readMessage read-error", sites[0].Pos(), "a failed Transport.ReadPacket ends readMessage: the read is not retried", "after Transport.ReadPacket failed readMessage reads again: a transport whose error is sticky (chunked reader, closed websocket) makes the packet loop spin and nothing the tunnel holds is released")
		}
	}
	n := 0
	for _, ci := range callsTo(fn, protoPkg+".readHeader") {
		rh := ci.(*ssa.Call)
		// the continuation attempt: its argument is built by append (pending fragment + new read); when
		// one readHeader call serves both attempts (its argument is a phi), the attempt is the
		// continuation on the paths on which the condition that selects the append holds
		isCont, selects := continuationArg(arg(rh, 0))
		if !isCont {
			continue
		}
		n++
		errV := resultOf(rh, 3)
		szV := resultOf(rh, 1)
		// edges taken when the continuation failed to frame; from there no read site may be reachable
		// unless a constant upper bound on the declared size was tested on the way
		bound := GCmp(func(x ssa.Value, op token.Token, y ssa.Value) bool {
			if sameValueModConv(x, szV) {
				k, ok := constInt(y)
				return ok && (op == token.LEQ || op == token.LSS) && k <= 1<<24
			}
			if sameValueModConv(y, szV) {
				k, ok := constInt(x)
				return ok && (op == token.GEQ || op == token.GTR) && k <= 1<<24
			}
			return false
		})
		if selects != nil {
			bound = GOr(bound, selects)
		}
		loops := false
		for _, b := range fn.Blocks {
			if len(b.Instrs) == 0 {
				continue
			}
			ifi, ok := b.Instrs[len(b.Instrs)-1].(*ssa.If)
			if !ok || !rh.Block().Dominates(b) {
				continue
			}
			for i, succ := range b.Succs {
				if GNeq(isVal(errV), anyNil)(ifi.Cond, i == 0) {
					if reachesRead(succ, bound) {
						loops = true
					}
				}
			}
		}
		c.Check(!loops, rule, "readMessage continuation#"+itoa(n), rh.Pos(), "a joined fragment that still does not frame ends the read with an error (or more is awaited only below a constant size bound)", "after a joined fragment still fails to frame, readMessage goes back to reading with no constant bound on the size the client declared: unframeable bytes never end the tunnel, nothing is released until the client closes the connection")
	}
	if n == 0 {
		c.Undecided(rule, "readMessage continuation", fn.Pos(), "no readHeader call on a joined fragment found")
	}
}

// continuationArg: v is the argument of a readHeader call that parses a joined fragment: an
// append(pending, new...), or a phi one of whose incoming values is such an append. For the phi
// form, notCont is the guard "the edge establishes that this is NOT the continuation" (the branch
// condition that selects the append is false), to be cut when only continuation paths are meant.
func continuationArg(v ssa.Value) (isCont bool, notCont Guard) {
	isAppend := func(x ssa.Value) bool {
		for _, o := range origins(x) {
			if o.Kind == "call" {
				if b, ok := o.Call.Common().Value.(*ssa.Builtin); ok && b.Name() == "append" {
					return true
				}
			}
		}
		return false
	}
	phi, ok := strip(v).(*ssa.Phi)
	if !ok {
		return isAppend(v), nil
	}
	for i, e := range phi.Edges {
		if !isAppend(e) {
			continue
		}
		// the predecessor that carries the append: entered from a block whose branch selects it
		pred := phi.Block().Preds[i]
		if len(pred.Preds) != 1 {
			return true, nil
		}
		sel := pred.Preds[0]
		ifi, ok := sel.Instrs[len(sel.Instrs)-1].(*ssa.If)
		if !ok {
			return true, nil
		}
		core, neg := normCond(ifi.Cond)
		onTrue := sel.Succs[0] == pred
		// the append is taken when core == (onTrue != neg)
		want := onTrue != neg
		return true, func(cond ssa.Value, branch bool) bool {
			c2, n2 := normCond(cond)
			if c2 != core {
				return false
			}
			val := branch != n2 // value of core on this edge
			return val != want
		}
	}
	return false, nil
}
