package main

import (
	"bufio"
	"encoding/json"
	"fmt"
	"os"
	"path/filepath"
	"sort"
)

// notApplicable: properties not claimed, with the reason (kept in code so that
// MANIFEST.json is always regenerated consistently with the registry).
var notApplicable = map[string]string{}

func genManifest(vdir string) error {
	// all property ids from properties.jsonl
	f, err := os.Open(filepath.Join(vdir, "properties.jsonl"))
	if err != nil {
		return err
	}
	defer f.Close()
	var ids []string
	sc := bufio.NewScanner(f)
	sc.Buffer(make([]byte, 1<<20), 1<<24)
	for sc.Scan() {
		var r struct {
			ID string `json:"id"`
		}
		if err := json.Unmarshal(sc.Bytes(), &r); err == nil && r.ID != "" {
			ids = append(ids, r.ID)
		}
	}
	sort.Strings(ids)
	checks := []map[string]any{}
	na := []map[string]any{}
	served := []string{}
	for _, id := range ids {
		p, ok := registry[id]
		if !ok || len(p.Rules) == 0 {
			reason := notApplicable[id]
			if reason == "" {
				reason = "check not built yet (see DESIGN.md §3 for the planned structural clauses)"
			}
			na = append(na, map[string]any{"property_id": id, "reason": reason})
			continue
		}
		served = append(served, id)
		checks = append(checks, map[string]any{
			"property_id":         id,
			"quick_cmd":           fmt.Sprintf("./check %s quick", id),
			"thorough_cmd":        fmt.Sprintf("./check %s thorough", id),
			"evidence_file":       fmt.Sprintf("/verif/evidence/%s.json", id),
			"replay_cmd_template": fmt.Sprintf("./check %s quick -replay {path}", id),
			"engine":              "rdpgwlint",
			"technique":           p.Technique,
			"level_claimed": map[string]any{
				"category":   "other",
				"text":       p.LevelText,
				"design_ref": p.DesignRef,
			},
			"level_note": p.LevelNote,
		})
	}
	m := map[string]any{
		"version":   1,
		"setup_cmd": "sh ./setup.sh",
		"hooks": map[string]any{
			"guard":            "verif",
			"enable":           "none needed: static analysis reads /repo's sources and adds no instrumentation; the build tag 'verif' is reserved and unused",
			"baseline_off_cmd": "cd /repo && GOFLAGS=-mod=mod GOPROXY=off GOSUMDB=off GOTOOLCHAIN=local go test -json -vet=off -count=1 -timeout 25m ./...",
			"source_commits":   []string{},
			"add_only":         true,
		},
		"engines": []map[string]any{{
			"name":              "rdpgwlint",
			"path":              "/verif/checker",
			"serves_properties": served,
			"kind_free_text":    "repository-specific static checker (Go; go/packages + go/types + go/ssa + VTA call graph of golang.org/x/tools v0.29.0, plus the Go compiler's bounds-check-elimination listing); decides rule x construct obligations from /repo's current source, executes nothing",
		}},
		"checks":         checks,
		"not_applicable": na,
		"notes":          "All verdicts are static: the checker loads and type-checks /repo's working tree on every run and reports file:line, rule and construct. Level 'other' throughout: each check decides named structural necessary conditions of its property (DESIGN.md §3), not the run-time behaviour itself. Genuine defects found are repaired by 'fix:' commits in /repo or listed in known_findings.json.",
	}
	return writeJSON(filepath.Join(vdir, "MANIFEST.json"), m)
}
