package main

import (
	"go/token"
	"go/types"

	"golang.org/x/tools/go/ssa"
)

// theCtx is the context of the rule being run; matchers that are plain functions use it to
// follow a helper's parameters up to the caller's values.
var theCtx *Ctx

// ---------------------------------------------------------------------------
// constant tables iterated by range (for _, s := range []string{...})

// rangeElem: v is the element `tbl[i]` of a `for i/_, v := range <slice literal>` loop; returns
// the literal's elements and the loop header block.
func rangeElem(v ssa.Value) (elems []ssa.Value, header *ssa.BasicBlock, ok bool) {
	u, isU := strip(v).(*ssa.UnOp)
	if !isU || u.Op != token.MUL {
		return nil, nil, false
	}
	ia, isIA := u.X.(*ssa.IndexAddr)
	if !isIA {
		return nil, nil, false
	}
	add, isAdd := ia.Index.(*ssa.BinOp)
	if !isAdd || add.Op != token.ADD {
		return nil, nil, false
	}
	phi, isPhi := add.X.(*ssa.Phi)
	if !isPhi || phi.Comment != "rangeindex" {
		return nil, nil, false
	}
	if k, isK := constInt(add.Y); !isK || k != 1 {
		return nil, nil, false
	}
	elems, ok = sliceLitElems(ia.X)
	if !ok {
		return nil, nil, false
	}
	return elems, phi.Block(), true
}

// stringsOf: the constant strings v may take: a constant, or the elements of a constant table
// it ranges over. table is true for the latter.
func stringsOf(v ssa.Value) (vals []string, table bool, ok bool) {
	if s, isC := constString(v); isC {
		return []string{s}, false, true
	}
	// a string that starts with a constant: "Basic realm=\"" + realm + "\"": its leading constant
	// (enough for the rules that look at the scheme keyword in front)
	if lead, isL := leadingConst(v, 0); isL {
		return []string{lead}, false, true
	}
	elems, _, isR := rangeElem(v)
	if !isR {
		return nil, false, false
	}
	for _, e := range elems {
		s, isC := constString(e)
		if !isC {
			return nil, false, false
		}
		vals = append(vals, s)
	}
	return vals, true, true
}

// runsForEveryElement: instruction `at` lies in the body of the range loop with the given header,
// executes in every completed iteration (its block dominates every latch) and the loop has no exit
// other than the header's (no break, return, goto or non-returning call inside) — so whenever
// control passes the loop, `at` has executed once for every element of the table.
func runsForEveryElement(at ssa.Instruction, header *ssa.BasicBlock) bool {
	if len(header.Succs) != 2 {
		return false
	}
	body := header.Succs[0]
	inBody := func(b *ssa.BasicBlock) bool { return b != header && body.Dominates(b) }
	if !inBody(at.Block()) {
		return false
	}
	fn := header.Parent()
	for _, b := range fn.Blocks {
		if !inBody(b) {
			continue
		}
		if blockNeverReturns(b) {
			return false
		}
		if len(b.Succs) == 0 {
			return false // return / panic inside the loop
		}
		for _, s := range b.Succs {
			if s == header {
				if !at.Block().Dominates(b) {
					return false // an iteration can complete without passing `at`
				}
				continue
			}
			if !inBody(s) {
				return false // break / goto out of the loop
			}
		}
	}
	return true
}

// ---------------------------------------------------------------------------
// integer evaluation on entry to a block from a known predecessor (first iteration of
// range loops over constant tables)

func evalIntFrom(v ssa.Value, b, pred *ssa.BasicBlock, depth int) (int64, bool) {
	if depth > 6 || v == nil {
		return 0, false
	}
	if k, ok := constInt(v); ok {
		return k, true
	}
	switch x := v.(type) {
	case *ssa.Phi:
		if x.Block() != b || pred == nil {
			return 0, false
		}
		for i, p := range b.Preds {
			if p == pred {
				return evalIntFrom(x.Edges[i], nil, nil, depth+1)
			}
		}
	case *ssa.BinOp:
		l, ok1 := evalIntFrom(x.X, b, pred, depth+1)
		r, ok2 := evalIntFrom(x.Y, b, pred, depth+1)
		if !ok1 || !ok2 {
			return 0, false
		}
		switch x.Op {
		case token.ADD:
			return l + r, true
		case token.SUB:
			return l - r, true
		}
	case *ssa.Call:
		if bi, ok := x.Call.Value.(*ssa.Builtin); ok && bi.Name() == "len" && len(x.Call.Args) == 1 {
			switch a := x.Call.Args[0].(type) {
			case *ssa.Slice:
				if a.Low == nil && a.High == nil && a.Max == nil {
					if pt, ok := a.X.Type().Underlying().(*types.Pointer); ok {
						if arr, ok := pt.Elem().Underlying().(*types.Array); ok {
							return arr.Len(), true
						}
					}
				}
			case *ssa.Const:
				if s, ok := constString(a); ok {
					return int64(len(s)), true
				}
			}
		}
	}
	return 0, false
}

// evalCondFrom: integer comparison decidable on entry to b from pred.
func evalCondFrom(cond ssa.Value, b, pred *ssa.BasicBlock) (bool, bool) {
	core, neg := normCond(cond)
	bo, ok := core.(*ssa.BinOp)
	if !ok {
		return false, false
	}
	if bt, ok := bo.X.Type().Underlying().(*types.Basic); !ok || bt.Info()&types.IsInteger == 0 {
		return false, false
	}
	l, ok1 := evalIntFrom(bo.X, b, pred, 0)
	r, ok2 := evalIntFrom(bo.Y, b, pred, 0)
	if !ok1 || !ok2 {
		return false, false
	}
	var res bool
	switch bo.Op {
	case token.LSS:
		res = l < r
	case token.LEQ:
		res = l <= r
	case token.GTR:
		res = l > r
	case token.GEQ:
		res = l >= r
	case token.EQL:
		res = l == r
	case token.NEQ:
		res = l != r
	default:
		return false, false
	}
	return res != neg, true
}

// leadingConst: v is a concatenation whose leftmost operand is a non-empty constant string, or the
// single result of a first-party helper every return of which is such a value with the same leading
// constant.
func leadingConst(v ssa.Value, depth int) (string, bool) {
	v = strip(v)
	if depth > 3 {
		return "", false
	}
	if s, isC := constString(v); isC {
		return s, s != ""
	}
	switch x := v.(type) {
	case *ssa.BinOp:
		if x.Op == token.ADD {
			return leadingConst(x.X, depth+1)
		}
	case *ssa.Call:
		h := x.Call.StaticCallee()
		if h == nil || !IsFirstParty(h) || h.Blocks == nil {
			return "", false
		}
		lead := ""
		for _, r := range returnsOf(h) {
			if len(r.Results) != 1 {
				return "", false
			}
			l, ok := leadingConst(r.Results[0], depth+1)
			if !ok || (lead != "" && l != lead) {
				return "", false
			}
			lead = l
		}
		return lead, lead != ""
	}
	return "", false
}
