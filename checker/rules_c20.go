package main

import (
	"fmt"
	"go/token"
	"strings"

	"golang.org/x/tools/go/ssa"
)

const kdcPkgPath = modPath + "/cmd/rdpgw/kdcproxy"

func init() {
	register(&Property{
		ID:          "C20",
		Title:       "KDC proxy relays Kerberos messages faithfully and always answers",
		DesignRef:   "DESIGN.md §3 C20",
		Technique:   "edge-cut guarded reachability of the forward call in KerberosProxy.Handler (validation chain with status codes) + SSA value origin for the relayed bytes + structural channel balance (receive sites vs. started senders per loop over the same slice) + A8 bounds obligations + deadline pairing",
		LevelText:   "Static: forward (the only path to a KDC socket) is reachable only for POST, with a declared length <= the constant 128 KiB, a fully read body and a DER decode that consumed all bytes; the refusing branches answer 405/411/413/400; the route is POST-only. The bytes written to a TCP KDC are the decoded message unchanged, the reply returned is what a reader goroutine received, and the response body is its KDC-PROXY-MESSAGE encoding. Every KDC connection gets a constant deadline before its first write. For 'always answers', the handler's path must be free of undischarged partial operations and every blocking channel receive must have a started sender: receive sites and go sites are counted per loop over the same slice. The last part is violated on today's tree (index panics, N+1 receives for at most N senders, no sender after a failed dial, UDP replies read with ReadAll) and recorded as known findings; validation and TCP faithfulness hold.",
		LevelNote:   "Trusted: asn1 (gofork) decoding, net dial/deadline semantics. Not decided: latency bounds as numbers, what KDCs answer. Known findings: kdcproxy.forward/awaitReply (see known_findings.json).",
		Explanation: "C20/validation cuts the edges of each required condition before the forward call and checks the status constant on each refusing branch; decode's accepting return needs len(rest) == 0. C20/faithful follows the written and returned values. C20/bounded-io checks SetDeadline before Write on each dialled connection. C20/answers restricts the A8 bounds obligations to the proxy and compares receive and send multiplicities of the replies channel; C20/udp-read flags stream reads on datagram sockets.",
		Assumptions: []string{"gokrb5's GetKDCs returns maps with 1-based keys (read in the dependency's source)"},
		Rules: []RuleDef{
			{"C20/validation", "forward only after POST, declared length <= 128 KiB, full body, DER without trailing bytes; 405/411/413/400 on the refusals; POST-only route", c20Validation},
			{"C20/decode-fresh", "every request is decoded into a fresh message value (optional fields absent from the request are absent)", c20DecodeFresh},
			{"C20/realm", "the KDC list is looked up for the realm the request names; the default realm only when it names none", c20Realm},
			{"C20/lock-pairing", "every lock taken in the KDC proxy is released on all exits (an answer within bounded time for the next request)", func(c *Ctx) { lockPairingIn(c, "C20/lock-pairing", kdcPkgPath) }},
			{"C20/config-source", "the Kerberos configuration is loaded from the configured file (the system default only when none is configured)", c20ConfigSource},
			{"C20/faithful", "TCP: bytes written = decoded message; reply returned = bytes read by awaitReply; response = encode(reply); encode wraps exactly its argument", c20Faithful},
			{"C20/bounded-io", "every KDC connection gets a constant deadline before its first write", c20BoundedIO},
			{"C20/answers", "no undischarged bounds obligation in the proxy; every channel receive has a started sender", c20Answers},
			{"C20/udp-read", "datagram sockets are not read with a read-until-EOF call", c20UDPRead},
		},
	})
}

func c20Validation(c *Ctx) {
	rule := "C20/validation"
	fn := c.Fn("cmd/rdpgw/kdcproxy", "KerberosProxy.Handler")
	key := shortFn(fn)
	fws := callsTo(fn, "(*"+kdcPkgPath+".KerberosProxy).forward")
	if len(fws) != 1 {
		c.Bad(rule, key+" forward", fn.Pos(), "expected one forward call, found %d", len(fws))
		return
	}
	fw := fws[0].(*ssa.Call)
	rP := fn.Params[2]
	isField := func(name string) func(ssa.Value) bool {
		return func(v ssa.Value) bool {
			b, f, ok := fieldLoad(strip(v))
			return ok && f.Name() == name && b == ssa.Value(rP)
		}
	}
	maxLen := int64(128 * 1024)
	rfs := c.findSteps(fn, "io.ReadFull")
	decs := c.findSteps(fn, kdcPkgPath+".decode")
	if len(rfs) != 1 || len(decs) != 1 || len(decs[0].via) > 0 {
		c.Bad(rule, key+" calls", fn.Pos(), "io.ReadFull / decode not found")
		return
	}
	rfS, decS := rfs[0], decs[0]
	rf, dec := rfS.call, decS.call
	isLen := isField("ContentLength")
	guards := []struct {
		name string
		g    Guard
		code int64
		st   *stepRef // the step whose result the guard tests, when it may sit in a helper
	}{
		{"method POST", GEq(isField("Method"), func(v ssa.Value) bool { s, ok := constString(v); return ok && s == "POST" }), 405, nil},
		{"length declared", GNeq(isLen, func(v ssa.Value) bool { k, ok := constInt(v); return ok && k == -1 }), 411, nil},
		{"length <= 128 KiB", GCmp(func(x ssa.Value, op token.Token, y ssa.Value) bool {
			if isLen(x) {
				k, ok := constInt(y)
				return ok && ((op == token.LEQ && k <= maxLen) || (op == token.LSS && k <= maxLen+1))
			}
			if isLen(y) {
				k, ok := constInt(x)
				return ok && ((op == token.GEQ && k <= maxLen) || (op == token.GTR && k <= maxLen+1))
			}
			return false
		}), 413, nil},
		{"body fully read", GErrNil(resultOf(rf, 1)), 500, &rfS},
		{"DER decoded", GErrNil(resultOf(dec, 1)), 400, nil},
	}
	for _, g := range guards {
		gg := g.g
		if g.st != nil && len(g.st.via) > 0 {
			// the step sits in a helper: the handler tests the helper's error, and the helper yields a
			// nil error only over the step's success edge
			if ok, _ := c.stepGates(fn, fw, *g.st, 1); ok {
				outer := g.st.via[0]
				gg = GErrNil(resultOf(outer, errIndex(outer)))
			}
		}
		ok, why := mustPass(fn, fw, gg)
		c.Check(ok, rule, key+" forward needs "+g.name, fw.Pos(), "forward reachable only over "+g.name, "a request is forwarded to a KDC "+why+" ("+g.name+")")
		// status of the refusing branch: an http.Error that is reachable only when the guard is false
		neg := func(cond ssa.Value, branch bool) bool { return gg(cond, !branch) }
		found := false
		for _, he := range c.httpErrors(fn) {
			ci := he.site
			if okn, _ := mustPass(fn, ci.(ssa.Instruction), neg); okn {
				code, isC := constInt(he.code)
				// attribute the call to the innermost guard only: it must not also be under a later guard's negation
				if isC && code == g.code {
					found = true
				}
			}
		}
		c.Check(found, rule, fmt.Sprintf("%s refusal %d", key, g.code), fn.Pos(), fmt.Sprintf("refused with %d when not (%s)", g.code, g.name), fmt.Sprintf("no branch answers %d when the request fails '%s'", g.code, g.name))
	}
	// shapes: buffer of the declared length, decode of that buffer, forward of the decoded fields
	bufOK := false
	if l, ok := sliceLenValue(strip(arg(rf, 1))); ok && isLen(strip(c.upIn(rfS, strip(l)))) {
		bufOK = strip(arg(dec, 0)) == strip(arg(rf, 1)) || c.norm(arg(dec, 0)) == strip(arg(rf, 1))
	}
	if _, f, ok := fieldLoad(strip(arg(rf, 0))); !ok || f.Name() != "Body" {
		bufOK = false
	}
	c.Check(bufOK, rule, key+" body", rf.Pos(), "reads exactly ContentLength bytes of r.Body and decodes that buffer", "the bytes decoded are not exactly the declared request body")
	msg := resultOf(dec, 0)
	fOK := func(i int, name string) bool {
		b, f, ok := fieldLoad(strip(arg(fw, i)))
		return ok && f.Name() == name && b == msg
	}
	c.Check(fOK(0, "Realm") && fOK(1, "Message"), rule, key+" forward args", fw.Pos(), "forwards the decoded realm and message", "forward is not given the decoded message's Realm and Message")

	// decode: accepting only with len(rest) == 0
	d := c.Fn("cmd/rdpgw/kdcproxy", "decode")
	var um *ssa.Call
	for _, ci := range callsIn(d) {
		if strings.HasSuffix(calleeName(ci), "asn1.Unmarshal") {
			um = ci.(*ssa.Call)
		}
	}
	if um == nil {
		c.Bad(rule, "decode Unmarshal", d.Pos(), "no asn1.Unmarshal")
	} else {
		rest := resultOf(um, 0)
		for i, r := range acceptingReturns(d, 1, func(v ssa.Value) bool { return !isNil(v) }) {
			ok1, w1 := mustPass(d, r, GErrNil(resultOf(um, 1)))
			gRest := GCmp(func(x ssa.Value, op token.Token, y ssa.Value) bool {
				if !isLenOf(x, rest) {
					return false
				}
				k, ok := constInt(y)
				return ok && ((op == token.EQL && k == 0) || (op == token.LEQ && k == 0) || (op == token.LSS && k == 1))
			})
			ok2, w2 := mustPass(d, r, gRest)
			c.Check(ok1 && ok2 && arg(um, 0) == ssa.Value(d.Params[0]), rule, fmt.Sprintf("decode accept#%d", i), r.Pos(), "accepts only a DER message with no trailing bytes", "decode accepts "+w1+w2+": a body with trailing data is forwarded")
		}
	}
	// route
	mainFn := c.Fn("cmd/rdpgw", "main")
	routeOK := false
	c.eachMainInstr(func(in ssa.Instruction) {
		mc, ok := in.(*ssa.MakeClosure)
		if !ok || !strings.HasPrefix(mc.Fn.(*ssa.Function).Name(), "Handler$bound") {
			return
		}
		for _, use := range passedTo(mc) {
			reg, ok := use.(*ssa.Call)
			if !ok || !strings.HasSuffix(calleeName(reg), "mux.Router).HandleFunc") {
				continue
			}
			for _, r := range *reg.Referrers() {
				if m, ok := r.(*ssa.Call); ok && strings.HasSuffix(calleeName(m), "mux.Route).Methods") {
					if ok2, how := algListIs(arg(m, 0), "POST"); ok2 {
						routeOK = true
						_ = how
					}
				}
			}
		}
	})
	c.Check(routeOK, rule, "main KdcProxy route", mainFn.Pos(), "route restricted to POST", "the KDC proxy route is not restricted to POST")
	c.Floor(rule, 12, "5 guards + 5 statuses + shapes + decode + route")
}

func c20Faithful(c *Ctx) {
	rule := "C20/faithful"
	fw := c.Fn("cmd/rdpgw/kdcproxy", "KerberosProxy.forward")
	data := fw.Params[2]
	// TCP write = data unchanged
	nW := 0
	for _, ci := range callsIn(fw) {
		call, ok := ci.(*ssa.Call)
		if !ok || !call.Call.IsInvoke() || call.Call.Method.Name() != "Write" {
			continue
		}
		nW++
		// the bytes written: chosen in forward, or by a helper that is handed the message
		type wsite struct {
			fn   *ssa.Function
			at   ssa.Instruction
			v    ssa.Value
			data ssa.Value
		}
		sites := []wsite{{fw, call, call.Call.Args[0], data}}
		if hc, ok := strip(call.Call.Args[0]).(*ssa.Call); ok {
			if h := hc.Call.StaticCallee(); h != nil && IsFirstParty(h) && h.Blocks != nil {
				for j, x := range hc.Call.Args {
					if x == ssa.Value(data) && j < len(h.Params) {
						sites = nil
						for _, r := range returnsOf(h) {
							if len(r.Results) == 1 {
								sites = append(sites, wsite{h, r, r.Results[0], h.Params[j]})
							}
						}
					}
				}
			}
		}
		for _, ws := range sites {
			a := ws.v
			isTCP, _ := mustPass(ws.fn, ws.at, GEq(func(v ssa.Value) bool { _, f, ok := fieldLoad(strip(v)); return ok && f.Name() == "Proto" }, func(v ssa.Value) bool { s, ok := constString(v); return ok && s == "tcp" }))
			if isTCP {
				c.Check(a == ws.data, rule, "forward tcp-write", ws.at.Pos(), "a TCP KDC receives exactly the embedded Kerberos message", "the bytes written to a TCP KDC are not the decoded message unchanged")
			} else {
				sl, ok := a.(*ssa.Slice)
				k := int64(-1)
				if ok && sl.Low != nil {
					k, _ = constInt(sl.Low)
				}
				c.Check(ok && sl.X == ws.data && k == 4 && sl.High == nil, rule, "forward udp-write", ws.at.Pos(), "a UDP KDC receives the message without its 4-byte length prefix", "the bytes written to a UDP KDC are not the message minus its 4-byte length prefix")
			}
		}
	}
	// reply returned = first value received from the channel
	for i, r := range acceptingReturns(fw, 1, func(v ssa.Value) bool { return !isNil(v) }) {
		u, ok := strip(r.Results[0]).(*ssa.UnOp)
		c.Check(ok && u.Op == token.ARROW, rule, fmt.Sprintf("forward reply#%d", i), r.Pos(), "returns the reply received from a reader goroutine", "the reply returned is not what a reader goroutine delivered")
	}
	// awaitReply sends what it read (TCP)
	ar := c.Fn("cmd/rdpgw/kdcproxy", "awaitReply")
	var ra *ssa.Call
	for _, ci := range callsTo(ar, "io.ReadAll") {
		ra = ci.(*ssa.Call)
	}
	eachInstr(ar, func(in ssa.Instruction) {
		s, ok := in.(*ssa.Send)
		if !ok || isNil(s.X) || ra == nil {
			return
		}
		good := true
		for _, o := range c.originsDeep(s.X, 0) {
			if o.Kind == "call" && o.Call == ssa.CallInstruction(ra) && o.Index == 0 {
				continue
			}
			if o.Kind == "param" {
				// inside a prefixing helper: its parameter is the bytes read
				if c.allUp(o.Value, func(u ssa.Value) bool {
					for _, uo := range origins(u) {
						if !(uo.Kind == "call" && uo.Call == ssa.CallInstruction(ra) && uo.Index == 0) {
							if uo.Kind == "call" {
								if b, ok := uo.Call.Common().Value.(*ssa.Builtin); ok && b.Name() == "append" {
									continue
								}
							}
							return false
						}
					}
					return true
				}) {
					continue
				}
			}
			if o.Kind == "call" {
				if b, ok := o.Call.Common().Value.(*ssa.Builtin); ok && b.Name() == "append" {
					continue // UDP prefix path (see C20/udp-read)
				}
			}
			good = false
		}
		c.Check(good && arg(ra, 0) != nil, rule, "awaitReply send", s.Pos(), "delivers the bytes read from the KDC connection", "the reply delivered is not the bytes read from the KDC")
		okE, whyE := mustPass(ar, s, GErrNil(resultOf(ra, 1)))
		c.Check(okE, rule, "awaitReply send complete", s.Pos(), "a reply is delivered only when the read ended without an error", "bytes are delivered as the reply "+whyE+" of the read error: a reply cut short by a reset or the deadline is relayed as if it were complete")
	})
	// Handler: response = encode(forward result)
	h := c.Fn("cmd/rdpgw/kdcproxy", "KerberosProxy.Handler")
	var fwc, enc *ssa.Call
	for _, ci := range callsIn(h) {
		switch calleeName(ci) {
		case "(*" + kdcPkgPath + ".KerberosProxy).forward":
			fwc = ci.(*ssa.Call)
		case kdcPkgPath + ".encode":
			enc = ci.(*ssa.Call)
		}
	}
	if fwc != nil && enc != nil {
		c.Check(strip(arg(enc, 0)) == resultOf(fwc, 0), rule, "Handler encode", enc.Pos(), "wraps the KDC's reply", "encode is not given the reply that forward returned")
		wrote := false
		for _, ci := range callsIn(h) {
			call, ok := ci.(*ssa.Call)
			if ok && call.Call.IsInvoke() && call.Call.Method.Name() == "Write" && strip(call.Call.Args[0]) == resultOf(enc, 0) {
				wrote = true
				okf, why := mustPass(h, call, GErrNil(resultOf(fwc, 1)))
				c.Check(okf, rule, "Handler write", call.Pos(), "the wrapped reply is the response body, only when forwarding succeeded", "a body is written "+why+" of forward's error")
			}
		}
		if !wrote {
			c.Bad(rule, "Handler write", h.Pos(), "the encoded reply is not written as the response body")
		}
	}
	// encode wraps exactly its argument
	e := c.Fn("cmd/rdpgw/kdcproxy", "encode")
	good := false
	eachInstr(e, func(in ssa.Instruction) {
		if al, ok := in.(*ssa.Alloc); ok && typeIs(al.Type(), kdcPkgPath, "KdcProxyMsg") {
			st := structFieldStores(al)
			if first(st["Message"]) == ssa.Value(e.Params[0]) && len(st["Realm"]) == 0 {
				for _, ci := range callsIn(e) {
					if strings.HasSuffix(calleeName(ci), "asn1.Marshal") {
						if a, ok := loadAddr(strip(arg(ci, 0))); ok && a == ssa.Value(al) {
							good = true
						}
					}
				}
			}
		}
	})
	c.Check(good, rule, "encode", e.Pos(), "KDC-PROXY-MESSAGE{kerb-message: the reply} marshalled as DER", "encode does not wrap exactly its argument as kerb-message")
	// the ASN.1 tags of the message type
	msgT := c.NamedType("cmd/rdpgw/kdcproxy", "KdcProxyMsg")
	if st, ok := msgT.Underlying().(interface {
		NumFields() int
		Tag(int) string
	}); ok {
		want := []string{`asn1:"tag:0,explicit"`, `asn1:"tag:1,optional"`, `asn1:"tag:2,optional"`}
		same := st.NumFields() == 3
		for i := 0; same && i < 3; i++ {
			if st.Tag(i) != want[i] {
				same = false
			}
		}
		c.Check(same, rule, "KdcProxyMsg tags", msgT.Obj().Pos(), "kerb-message [0], target-domain [1] OPTIONAL, dclocator-hint [2] OPTIONAL as in MS-KKDCP", "the ASN.1 tags of KDC-PROXY-MESSAGE differ from MS-KKDCP")
	}
	c.Floor(rule, 6, "writes, reply, send, encode, tags")
	if nW == 0 {
		// the write sits in a helper that is handed the message and the protocol: send(conn, proto, data)
		for _, ci := range callsIn(fw) {
			hc, ok := ci.(*ssa.Call)
			if !ok {
				continue
			}
			h := hc.Call.StaticCallee()
			if h == nil || !IsFirstParty(h) || h.Blocks == nil {
				continue
			}
			var dp *ssa.Parameter
			for j, a := range hc.Call.Args {
				if a == ssa.Value(data) && j < len(h.Params) {
					dp = h.Params[j]
				}
			}
			if dp == nil {
				continue
			}
			isProto := func(v ssa.Value) bool {
				if _, f, ok := fieldLoad(strip(v)); ok && f.Name() == "Proto" {
					return true
				}
				pp, ok := strip(v).(*ssa.Parameter)
				return ok && pp.Parent() == h && pp.Type().String() == "string"
			}
			isTCPc := func(v ssa.Value) bool { s, ok := constString(v); return ok && s == "tcp" }
			for _, cj := range callsIn(h) {
				w, ok := cj.(*ssa.Call)
				if !ok || !w.Call.IsInvoke() || w.Call.Method.Name() != "Write" {
					continue
				}
				nW++
				good := true
				var cut *ssa.Slice
				vals := []ssa.Value{w.Call.Args[0]}
				if phi, ok := w.Call.Args[0].(*ssa.Phi); ok {
					vals = phi.Edges
				}
				for _, v := range vals {
					switch x := v.(type) {
					case *ssa.Parameter:
						if x != dp {
							good = false
						}
					case *ssa.Slice:
						k, _ := constInt(x.Low)
						if x.X != ssa.Value(dp) || x.Low == nil || k != 4 || x.High != nil {
							good = false
						}
						cut = x
					default:
						good = false
					}
				}
				if good && cut != nil {
					// the prefix is removed exactly for non-TCP KDCs
					if ok1, _ := mustPass(h, cut, GNeq(isProto, isTCPc)); !ok1 {
						good = false
					}
					if reachWithoutMarkerAvoiding(h, w, func(in ssa.Instruction) bool { return in == ssa.Instruction(cut) }, GEq(isProto, isTCPc)) {
						good = false
					}
				}
				c.Check(good && cut != nil, rule, "forward tcp-write", w.Pos(), "a TCP KDC receives exactly the embedded Kerberos message", "the bytes written to a TCP KDC are not the decoded message unchanged")
				c.Check(good && cut != nil, rule, "forward udp-write", w.Pos(), "a UDP KDC receives the message without its 4-byte length prefix", "the bytes written to a UDP KDC are not the message minus its 4-byte length prefix")
			}
		}
	}
	if nW == 0 {
		c.Undecided(rule, "forward writes", fw.Pos(), "no write of the message to a KDC connection found")
	}
}

func c20BoundedIO(c *Ctx) {
	rule := "C20/bounded-io"
	fw := c.Fn("cmd/rdpgw/kdcproxy", "KerberosProxy.forward")
	for _, ci := range callsTo(fw, "net.Dial", "net.DialTimeout") {
		conn := resultOf(ci, 0)
		var dl *ssa.Call
		for _, cj := range callsIn(fw) {
			call, ok := cj.(*ssa.Call)
			if ok && call.Call.IsInvoke() && (call.Call.Method.Name() == "SetDeadline") && call.Call.Value == conn {
				dl = call
			}
		}
		if dl == nil {
			c.Bad(rule, "forward deadline", ci.Pos(), "a KDC connection gets no deadline: a silent KDC blocks the request forever")
			continue
		}
		durOK := false
		if add, ok := strip(dl.Call.Args[0]).(*ssa.Call); ok && calleeName(add) == "(time.Time).Add" {
			if d, ok := constInt(arg(add, 0)); ok && d > 0 && d <= 60e9 {
				if now, ok := recvOf(add).(*ssa.Call); ok && calleeName(now) == "time.Now" {
					durOK = true
				}
			}
		}
		good := durOK
		for _, cj := range callsIn(fw) {
			call, ok := cj.(*ssa.Call)
			if ok && call.Call.IsInvoke() && call.Call.Method.Name() == "Write" && call.Call.Value == conn && !dominatesInstr(dl, call) {
				good = false
			}
		}
		c.Check(good, rule, "forward deadline", dl.Pos(), "deadline = now + constant (<= 60 s) set before the first write", "the KDC connection's deadline is missing, not a bounded constant, or set after the write")
		// reader goroutine gets that connection
		started := false
		eachInstr(fw, func(in ssa.Instruction) {
			if g, ok := in.(*ssa.Go); ok && len(g.Call.Args) > 0 && g.Call.Args[0] == conn {
				started = dominatesInstr(dl, g)
			}
		})
		c.Check(started, rule, "forward reader", ci.Pos(), "the reader goroutine reads the connection after its deadline was set", "the reader goroutine reads a connection without a deadline")
	}
	c.Floor(rule, 2, "deadline and reader")
}

// loopBoundOf: for an instruction inside a range-over-slice loop, the slice whose length bounds the loop.
func loopBoundOf(in ssa.Instruction) (ssa.Value, *ssa.BasicBlock) {
	b := in.Block()
	// walk dominators up to a loop header: block with If cond "i < len" that is in a cycle and dominates b
	for d := b; d != nil; d = d.Idom() {
		if len(d.Instrs) == 0 || !inCycle(d) {
			continue
		}
		ifi, ok := d.Instrs[len(d.Instrs)-1].(*ssa.If)
		if !ok {
			continue
		}
		bo, ok := ifi.Cond.(*ssa.BinOp)
		if !ok || bo.Op != token.LSS {
			continue
		}
		// the body (true successor) must dominate b
		if !(d.Succs[0] == b || d.Succs[0].Dominates(b)) {
			continue
		}
		for _, o := range origins(bo.Y) {
			if o.Kind == "call" {
				if bi, ok := o.Call.Common().Value.(*ssa.Builtin); ok && bi.Name() == "len" {
					return o.Call.Common().Args[0], d
				}
			}
		}
	}
	return nil, nil
}

func c20Answers(c *Ctx) {
	rule := "C20/answers"
	c.skipGenerated = true
	defer func() { c.skipGenerated = false }()
	// (a) bounds obligations inside the proxy
	sites, err := c.unprovenSites()
	if err != nil {
		c.Undecided(rule, "bce-listing", token.NoPos, "%v", err)
	}
	for _, s := range sites {
		if s.Fn.Pkg == nil || s.Fn.Pkg.Pkg.Path() != kdcPkgPath {
			continue
		}
		ok, how := dischargeBounds(c, s)
		if ok {
			c.OK(rule, s.Key(), s.Pos, "%s", how)
		} else {
			c.nextAlt = s.AltKey(c)
			c.Bad(rule, s.Key(), s.Pos, "%s can panic: the handler dies without an HTTP response (net/http closes the connection)", s.Expr)
		}
	}
	// (b) channel balance in forward
	fw := c.Fn("cmd/rdpgw/kdcproxy", "KerberosProxy.forward")
	type site struct {
		in    ssa.Instruction
		bound ssa.Value
		head  *ssa.BasicBlock
	}
	var recvs, gos []site
	var ch ssa.Value
	eachInstr(fw, func(in ssa.Instruction) {
		switch x := in.(type) {
		case *ssa.UnOp:
			if x.Op == token.ARROW {
				b, h := loopBoundOf(x)
				recvs = append(recvs, site{x, b, h})
				ch = x.X
			}
		case *ssa.Go:
			b, h := loopBoundOf(x)
			gos = append(gos, site{x, b, h})
		}
	})
	if ch == nil {
		c.Undecided(rule, "forward channel", fw.Pos(), "no channel receive found")
		return
	}
	// multiplicities over N = len(kdcs): all loops must range over the same slice
	a, bN, cN := 0, 0, 0
	var slice ssa.Value
	sameSlice := true
	for _, r := range recvs {
		if r.bound == nil {
			a++
		} else {
			bN++
			if slice == nil {
				slice = r.bound
			} else if slice != r.bound {
				sameSlice = false
			}
		}
	}
	for _, g := range gos {
		if g.bound == nil {
			a-- // a sender outside loops offsets one receive
		} else {
			cN++
			if slice == nil {
				slice = g.bound
			} else if slice != g.bound {
				sameSlice = false
			}
		}
	}
	if !sameSlice {
		c.Undecided(rule, "forward channel-balance", fw.Pos(), "receive and send loops range over different slices")
	} else {
		ok := bN <= cN && a+bN <= cN
		c.Check(ok, rule, "forward channel-balance", recvs[0].in.Pos(), fmt.Sprintf("receives %d + %d*N <= senders %d*N", a, bN, cN), fmt.Sprintf("forward receives %d + %d*N values from the replies channel but starts at most %d*N reader goroutines (N = number of KDCs): the last receive blocks forever and the request never gets an HTTP response", a, bN, cN))
	}
	// every iteration that is later waited for must have started its sender
	for _, g := range gos {
		if g.head == nil {
			continue
		}
		body := g.head.Succs[0]
		skip := reachFromWithoutMarkerAvoiding(body, g.head.Instrs[0], func(in ssa.Instruction) bool { return in == g.in }, nil)
		c.Check(!skip, rule, "forward sender-on-all-paths", g.in.Pos(), "every iteration starts its reader goroutine", "an iteration of the dial loop can end without starting a reader goroutine (failed dial or write) while the drain loop still receives once per KDC: the request blocks forever")
	}
	// each reader sends exactly once on every path
	ar := c.Fn("cmd/rdpgw/kdcproxy", "awaitReply")
	isSend := func(in ssa.Instruction) bool { _, ok := in.(*ssa.Send); return ok }
	once := true
	for _, r := range returnsOf(ar) {
		if reachWithoutMarker(ar, r, isSend) {
			once = false
		}
	}
	c.Check(once, rule, "awaitReply sends-once", ar.Pos(), "every path of the reader goroutine delivers exactly one value", "a path of the reader goroutine returns without delivering a value: the receiver blocks")
	c.Floor(rule, 5, "bounds + balance + sender + reader")
}

func c20UDPRead(c *Ctx) {
	rule := "C20/udp-read"
	ar := c.Fn("cmd/rdpgw/kdcproxy", "awaitReply")
	isUdp := ar.Params[1]
	for _, ci := range callsTo(ar, "io.ReadAll", "io/ioutil.ReadAll") {
		ok, _ := mustPass(ar, ci.(ssa.Instruction), GFalse(func(v ssa.Value) bool { return v == ssa.Value(isUdp) }))
		c.Check(ok, rule, "awaitReply ReadAll", ci.Pos(), "read-until-EOF only on stream sockets", "io.ReadAll is applied to UDP sockets too: a datagram socket never reports EOF, so the read ends with the deadline error and a reply that did arrive is discarded as 'no reply' (and the 1-byte length prefix added afterwards is not the 4-byte prefix of a kerb-message)")
	}
	c.Floor(rule, 1, "ReadAll in awaitReply")
}

// c20DecodeFresh: asn1.Unmarshal leaves absent optional fields untouched, so decoding into a reused
// object carries the realm of an earlier request into a request that names none.
func c20DecodeFresh(c *Ctx) {
	rule := "C20/decode-fresh"
	d := c.Fn("cmd/rdpgw/kdcproxy", "decode")
	n := 0
	for _, ci := range callsIn(d) {
		if !strings.HasSuffix(calleeName(ci), "asn1.Unmarshal") {
			continue
		}
		n++
		dst := strip(arg(ci, 1))
		al, ok := dst.(*ssa.Alloc)
		good := ok && al.Parent() == d && !inCycle(al.Block())
		if good {
			// nothing but the decoder writes it before
			for _, r := range *al.Referrers() {
				if st, ok := r.(*ssa.Store); ok && st.Addr == ssa.Value(al) {
					if _, isC := st.Val.(*ssa.Const); !isC {
						good = false
					}
				}
			}
		}
		c.Check(good, rule, "decode destination", ci.Pos(), "a fresh local message per call", "decode unmarshals into an object that is not fresh for this call (pooled, global or pre-filled): optional fields absent from this request keep values of an earlier one")
	}
	if n == 0 {
		c.Undecided(rule, "decode Unmarshal", d.Pos(), "no asn1.Unmarshal in decode")
	}
}

// c20Realm: forward asks the Kerberos configuration for the KDCs of the realm it was given, or of
// the default realm only when the request names none.
func c20Realm(c *Ctx) {
	rule := "C20/realm"
	fn := c.Fn("cmd/rdpgw/kdcproxy", "KerberosProxy.forward")
	realmP := fn.Params[1]
	isRealm := func(v ssa.Value) bool { return strip(v) == ssa.Value(realmP) }
	isEmpty := func(v ssa.Value) bool { s, ok := constString(v); return ok && s == "" }
	n := 0
	for _, ci := range callsIn(fn) {
		if !strings.HasSuffix(calleeName(ci), "config.Config).GetKDCs") {
			continue
		}
		n++
		good := true
		why := ""
		for _, o := range c.originsDeep(arg(ci, 0), 0) {
			switch {
			case o.Kind == "param" && o.Value == ssa.Value(realmP):
			case o.Kind == "field" && o.Field.Name() == "DefaultRealm":
				in, ok := o.Value.(ssa.Instruction)
				if !ok || in.Parent() != fn {
					good, why = false, "the default realm is chosen outside forward's own empty-realm test"
					break
				}
				if okg, w := mustPass(fn, in, GEq(isRealm, isEmpty)); !okg {
					good, why = false, "the default realm is used "+w+" of realm == \"\""
				}
			default:
				good, why = false, "realm is "+o.String()
			}
		}
		c.Check(good, rule, fmt.Sprintf("forward GetKDCs#%d realm", n), ci.Pos(), "KDCs of the request's realm (default realm only for an empty one)", "the KDC list is not looked up for the realm the request names: "+why+": a request is relayed to another realm's KDCs")
	}
	if n < 2 {
		c.Undecided(rule, "forward GetKDCs", fn.Pos(), "found %d GetKDCs calls (udp and tcp expected)", n)
	}
}

// c20ConfigSource: realms and KDCs come from the file the administrator configured.
func c20ConfigSource(c *Ctx) {
	rule := "C20/config-source"
	fn := c.Fn("cmd/rdpgw/kdcproxy", "InitKdcProxy")
	p := fn.Params[0]
	isParam := func(v ssa.Value) bool { return strip(v) == ssa.Value(p) }
	isEmpty := func(v ssa.Value) bool { s, ok := constString(v); return ok && s == "" }
	n := 0
	for _, ci := range callsIn(fn) {
		if !strings.HasSuffix(calleeName(ci), "gokrb5/v8/config.Load") {
			continue
		}
		n++
		hasParam := false
		good := true
		why := ""
		// cmp.Or(configured, systemDefault): the first non-empty, i.e. the configured path when set
		if oc, ok := strip(arg(ci, 0)).(*ssa.Call); ok {
			if f := oc.Call.StaticCallee(); f != nil {
				o := f.Origin()
				if o == nil {
					o = f
				}
				if o.Pkg != nil && o.Pkg.Pkg.Path() == "cmp" && o.Name() == "Or" {
					if elems, okE := sliceLitElems(oc.Call.Args[0]); okE && len(elems) == 2 && strip(elems[0]) == ssa.Value(p) {
						if _, isC := constString(elems[1]); isC {
							c.OK(rule, "InitKdcProxy Load", ci.Pos(), "krb5 configuration loaded from cmp.Or(configured path, system default)")
							continue
						}
					}
				}
			}
		}
		for _, o := range origins(arg(ci, 0)) {
			switch o.Kind {
			case "param":
				if o.Value == ssa.Value(p) {
					hasParam = true
				} else {
					good, why = false, "another parameter"
				}
			case "const":
				// the system default: only when the configured path is empty
				if ok, w := mustPass(fn, ci.(ssa.Instruction), GOr(GEq(isParam, isEmpty), GNeq(isParam, isEmpty))); !ok {
					_ = w
				}
			default:
				good, why = false, o.String()
			}
		}
		// with a configured path the load must use it: cut the edges on which the parameter is empty;
		// the value then has to be the parameter on every remaining path
		if good && hasParam {
			if phi, ok := strip(arg(ci, 0)).(*ssa.Phi); ok {
				for i, e := range phi.Edges {
					if _, isC := constString(e); isC {
						pred := phi.Block().Preds[i]
						if r, _ := reachFromAvoiding(fn, fn.Blocks[0], pred, GNeq(isParam, isEmpty)); !r {
							good, why = false, "the system default is chosen although a path is configured"
						}
						// the edge into the phi from pred must lie behind param == ""
						if ok2, _ := mustPass(fn, pred.Instrs[len(pred.Instrs)-1], GEq(isParam, isEmpty)); !ok2 && pred != fn.Blocks[0] {
							good, why = false, "the system default is chosen without testing that no path is configured"
						}
					}
				}
			}
		}
		c.Check(good && hasParam, rule, "InitKdcProxy Load", ci.Pos(), "krb5 configuration loaded from the configured path (system default only when empty)", "the Kerberos configuration is not loaded from the configured file ("+why+"): realms and KDCs come from another krb5.conf")
	}
	if n == 0 {
		c.Undecided(rule, "InitKdcProxy Load", fn.Pos(), "no krb5 config load found")
	}
}
