package main

import (
	"encoding/json"
	"fmt"
	"os"
	"os/exec"
	"path/filepath"
	"sort"
	"strings"
	"sync"
)

// patchMatrix: which properties report on the tree obtained by applying the patch (in memory)?
// Prints "reported_by: C01[rule,rule?] ... |" ("?" marks undecided obligations). Known findings of
// the unchanged tree are not counted. Exit 0 always (tool mode), 2 on errors.
func patchMatrix(patchFile, repo, vdir string) int {
	pb, err := os.ReadFile(patchFile)
	if err != nil {
		fmt.Fprintln(os.Stderr, err)
		return 2
	}
	files, err := applyUnifiedDiff(repo, string(pb))
	if err != nil {
		fmt.Println("APPLY-FAILED:", err)
		return 2
	}
	kf, err := loadKnown(filepath.Join(vdir, "known_findings.json"))
	if err != nil {
		fmt.Fprintln(os.Stderr, err)
		return 2
	}
	known := map[string]bool{}
	for _, f := range kf.Findings {
		known[f.Property+"|"+f.Rule+"|"+f.Key] = true
	}
	tmp, err := os.MkdirTemp("", "rdpgwlint-patch")
	if err != nil {
		return 2
	}
	defer os.RemoveAll(tmp)
	vf := filepath.Join(tmp, "v.json")
	b, _ := json.Marshal(files)
	os.WriteFile(vf, b, 0o644)
	exe, _ := os.Executable()
	ids := []string{}
	for id := range registry {
		ids = append(ids, id)
	}
	sort.Strings(ids)
	if only := os.Getenv("PATCH_PROPS"); only != "" {
		ids = strings.Fields(only)
	}
	out := make([]string, len(ids))
	sem := make(chan struct{}, 8)
	var wg sync.WaitGroup
	for i, id := range ids {
		i, id := i, id
		wg.Add(1)
		go func() {
			defer wg.Done()
			sem <- struct{}{}
			defer func() { <-sem }()
			of := filepath.Join(tmp, id+".json")
			cmd := exec.Command(exe, "-property", id, "-tier", "quick", "-repo", repo, "-variant", vf, "-json-out", of)
			cmd.Env = append(os.Environ(), "VERIF_DIR="+vdir)
			if o, err := cmd.CombinedOutput(); err != nil {
				out[i] = id + "(ERR:" + strings.TrimSpace(firstLines(string(o), 1)) + ")"
				return
			}
			var rr runResult
			ob, _ := os.ReadFile(of)
			if err := json.Unmarshal(ob, &rr); err != nil {
				out[i] = id + "(ERR)"
				return
			}
			if rr.LoadError != "" {
				out[i] = id + "(LOAD:" + firstLines(rr.LoadError, 1) + ")"
				return
			}
			rules := map[string]bool{}
			for _, o := range rr.Obls {
				if o.Status == StDischarged {
					continue
				}
				if o.Status == StViolated && (known[id+"|"+o.Rule+"|"+o.Key] || o.AltKey != "" && known[id+"|"+o.Rule+"|"+o.AltKey]) {
					continue
				}
				r := strings.TrimPrefix(o.Rule, id+"/")
				if o.Status != StViolated {
					r += "?"
				}
				rules[r] = true
			}
			if len(rules) > 0 {
				out[i] = id + "[" + strings.Join(sortedKeys(rules), ",") + "]"
			}
		}()
	}
	wg.Wait()
	var hits []string
	for _, o := range out {
		if o != "" {
			hits = append(hits, o)
		}
	}
	fmt.Printf("reported_by: %s |\n", strings.Join(hits, " "))
	return 0
}
