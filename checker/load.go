package main

import (
	_ "embed"
	"fmt"
	"go/ast"
	"go/token"
	"go/types"
	"os"
	"os/exec"
	"path/filepath"
	"sort"
	"strings"

	"golang.org/x/tools/go/callgraph"
	"golang.org/x/tools/go/callgraph/cha"
	"golang.org/x/tools/go/callgraph/vta"
	"golang.org/x/tools/go/packages"
	"golang.org/x/tools/go/ssa"
	"golang.org/x/tools/go/ssa/ssautil"
)

//go:embed stubs/pam/pam.go.txt
var pamStub []byte

const modPath = "github.com/bolkedebruin/rdpgw"

// Prog is the loaded, type-checked program of /repo's current working tree.
type Prog struct {
	Repo   string
	Fset   *token.FileSet
	First  []*packages.Package          // first-party packages, sorted by path
	ByPath map[string]*packages.Package // first-party by import path
	All    []*packages.Package          // everything (deps included)

	SSA    *ssa.Program
	ssaPkg map[*types.Package]*ssa.Package
	cg     *callgraph.Graph
	allFns map[*ssa.Function]bool

	LoadNotes []string
	Overlay   map[string][]byte // variant overlay (absolute path -> content), without the pam stub
}

func goEnv() []string {
	env := []string{}
	for _, e := range os.Environ() {
		if strings.HasPrefix(e, "GOWORK=") || strings.HasPrefix(e, "GOFLAGS=") ||
			strings.HasPrefix(e, "GOPROXY=") || strings.HasPrefix(e, "GOSUMDB=") ||
			strings.HasPrefix(e, "GOTOOLCHAIN=") || strings.HasPrefix(e, "GOARCH=") {
			continue
		}
		env = append(env, e)
	}
	env = append(env, "GOFLAGS=-mod=mod", "GOPROXY=off", "GOSUMDB=off", "GOTOOLCHAIN=local", "GOWORK=off")
	return env
}

// pamOverlay returns the overlay that replaces the cgo files of msteinert/pam
// with a pure-Go stub (the C header is not installed in this sandbox).
func pamOverlay(repo string) (map[string][]byte, error) {
	cmd := exec.Command("go", "list", "-m", "-f", "{{.Dir}}", "github.com/msteinert/pam/v2")
	cmd.Dir = repo
	cmd.Env = goEnv()
	out, err := cmd.Output()
	if err != nil {
		return nil, fmt.Errorf("locating pam module: %v", err)
	}
	dir := strings.TrimSpace(string(out))
	if dir == "" {
		return nil, fmt.Errorf("pam module dir empty")
	}
	ov := map[string][]byte{}
	ents, err := os.ReadDir(dir)
	if err != nil {
		return nil, err
	}
	first := true
	for _, e := range ents {
		n := e.Name()
		if !strings.HasSuffix(n, ".go") || strings.HasSuffix(n, "_test.go") {
			continue
		}
		p := filepath.Join(dir, n)
		if first {
			ov[p] = pamStub
			first = false
		} else {
			ov[p] = []byte("package pam\n")
		}
	}
	// the C file must disappear too, else go list insists on cgo
	for _, e := range ents {
		if strings.HasSuffix(e.Name(), ".c") {
			ov[filepath.Join(dir, e.Name())] = []byte("")
		}
	}
	return ov, nil
}

// LoadProg loads ./... of repo (tests excluded) from source, with deps.
// extraOverlay (absolute path -> content) is used by the self-test variants.
func LoadProg(repo string, extraOverlay map[string][]byte, goarch string) (*Prog, error) {
	ov, err := pamOverlay(repo)
	if err != nil {
		return nil, err
	}
	for k, v := range extraOverlay {
		ov[k] = v
	}
	env := goEnv()
	if goarch != "" {
		env = append(env, "GOARCH="+goarch)
	}
	fset := token.NewFileSet()
	cfg := &packages.Config{
		Mode:    packages.LoadAllSyntax,
		Dir:     repo,
		Env:     env,
		Fset:    fset,
		Tests:   false,
		Overlay: ov,
	}
	pkgs, err := packages.Load(cfg, "./...")
	if err != nil {
		return nil, err
	}
	p := &Prog{Repo: repo, Fset: fset, ByPath: map[string]*packages.Package{}, Overlay: extraOverlay}
	var loadErrs []string
	packages.Visit(pkgs, nil, func(pk *packages.Package) {
		p.All = append(p.All, pk)
		for _, e := range pk.Errors {
			msg := e.Error()
			// the only tolerated loader complaint: go list on the cgo package pam
			if strings.Contains(pk.PkgPath, "msteinert/pam") || strings.Contains(msg, "msteinert/pam") || strings.Contains(msg, "pam_appl.h") {
				p.LoadNotes = append(p.LoadNotes, "tolerated: "+msg)
				continue
			}
			loadErrs = append(loadErrs, pk.PkgPath+": "+msg)
		}
		if pk.IllTyped && !strings.Contains(pk.PkgPath, "msteinert/pam") {
			// IllTyped is also set when a dependency is ill typed; only count own type errors
			for _, te := range pk.TypeErrors {
				loadErrs = append(loadErrs, pk.PkgPath+": type error: "+te.Error())
			}
		}
	})
	for _, pk := range pkgs {
		if strings.HasPrefix(pk.PkgPath, modPath) {
			p.First = append(p.First, pk)
			p.ByPath[pk.PkgPath] = pk
		}
	}
	sort.Slice(p.First, func(i, j int) bool { return p.First[i].PkgPath < p.First[j].PkgPath })
	if len(loadErrs) > 0 {
		sort.Strings(loadErrs)
		if len(loadErrs) > 12 {
			loadErrs = loadErrs[:12]
		}
		return p, fmt.Errorf("load/type errors:\n  %s", strings.Join(loadErrs, "\n  "))
	}
	if len(p.First) == 0 {
		return p, fmt.Errorf("no first-party packages loaded from %s", repo)
	}
	for _, pk := range p.First {
		if pk.Types == nil || pk.TypesInfo == nil || len(pk.Syntax) == 0 {
			return p, fmt.Errorf("package %s has no syntax/types", pk.PkgPath)
		}
	}
	return p, nil
}

// BuildSSA builds go/ssa for the whole program (idempotent).
func (p *Prog) BuildSSA() {
	if p.SSA != nil {
		return
	}
	prog, _ := ssautil.AllPackages(p.All, ssa.InstantiateGenerics)
	// packages flagged IllTyped only because of the tolerated go-list complaint about the
	// cgo package pam (and their importers) are skipped by AllPackages: create them by hand,
	// dependencies first (p.All is in post-order from packages.Visit... ensure by sorting on import depth)
	var missing []*packages.Package
	for _, pk := range p.All {
		if pk.Types != nil && pk.TypesInfo != nil && len(pk.Syntax) > 0 && len(pk.TypeErrors) == 0 && prog.Package(pk.Types) == nil {
			missing = append(missing, pk)
		}
	}
	created := map[*packages.Package]bool{}
	var create func(pk *packages.Package)
	create = func(pk *packages.Package) {
		if created[pk] {
			return
		}
		created[pk] = true
		for _, imp := range pk.Imports {
			for _, m := range missing {
				if m == imp {
					create(m)
				}
			}
		}
		prog.CreatePackage(pk.Types, pk.Syntax, pk.TypesInfo, true)
		p.LoadNotes = append(p.LoadNotes, "ssa package created by hand (flagged ill-typed by the loader only through the pam cgo complaint): "+pk.PkgPath)
	}
	for _, m := range missing {
		create(m)
	}
	prog.Build()
	p.SSA = prog
	p.ssaPkg = map[*types.Package]*ssa.Package{}
	for _, sp := range prog.AllPackages() {
		p.ssaPkg[sp.Pkg] = sp
	}
}

// CallGraph returns the VTA call graph over all functions (idempotent).
func (p *Prog) CallGraph() *callgraph.Graph {
	if p.cg != nil {
		return p.cg
	}
	p.BuildSSA()
	p.allFns = ssautil.AllFunctions(p.SSA)
	p.cg = vta.CallGraph(p.allFns, cha.CallGraph(p.SSA))
	return p.cg
}

func (p *Prog) NumFuncs() int {
	if p.allFns == nil {
		return 0
	}
	return len(p.allFns)
}

// Pkg returns the first-party package with the given path relative to the module.
func (p *Prog) Pkg(rel string) *packages.Package {
	if rel == "" {
		return p.ByPath[modPath]
	}
	return p.ByPath[modPath+"/"+rel]
}

func (p *Prog) SSAPkg(rel string) *ssa.Package {
	p.BuildSSA()
	pk := p.Pkg(rel)
	if pk == nil {
		return nil
	}
	return p.ssaPkg[pk.Types]
}

// Pos renders a position relative to the repo root.
func (p *Prog) Pos(pos token.Pos) string {
	if !pos.IsValid() {
		return "-"
	}
	ps := p.Fset.Position(pos)
	f := ps.Filename
	if r, err := filepath.Rel(p.Repo, f); err == nil && !strings.HasPrefix(r, "..") {
		f = r
	}
	return fmt.Sprintf("%s:%d", f, ps.Line)
}

// IsFirstParty reports whether the SSA function belongs to the repository.
func IsFirstParty(fn *ssa.Function) bool {
	if fn == nil {
		return false
	}
	if fn.Pkg != nil && fn.Pkg.Pkg != nil {
		return strings.HasPrefix(fn.Pkg.Pkg.Path(), modPath)
	}
	if fn.Parent() != nil {
		return IsFirstParty(fn.Parent())
	}
	if o := fn.Origin(); o != nil && o != fn {
		return IsFirstParty(o)
	}
	return false
}

// FileOf returns the syntax file containing pos.
func (p *Prog) FileOf(pk *packages.Package, pos token.Pos) *ast.File {
	for _, f := range pk.Syntax {
		if f.Pos() <= pos && pos <= f.End() {
			return f
		}
	}
	return nil
}
