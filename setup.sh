#!/bin/sh
# Builds the checker from /verif/checker, offline, with the default go.
set -e
cd "$(dirname "$0")"
export GOFLAGS=-mod=mod GOPROXY=off GOSUMDB=off GOTOOLCHAIN=local
unset GOWORK
mkdir -p bin evidence
cd checker
go build -o ../bin/rdpgwlint .
echo "built bin/rdpgwlint"
