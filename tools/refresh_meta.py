#!/usr/bin/env python3
"""Set seeded/*/meta.json "detected_by_checks" (and "detected_by_rules") from seeded/MATRIX.txt,
the cross table written by tools/matrix.sh with the current checker."""
import json, os, re
root = os.path.join(os.path.dirname(os.path.abspath(__file__)), '..')
for line in open(os.path.join(root, 'seeded', 'MATRIX.txt')):
    m = re.match(r'^(\S+): reported_by:(.*?)\|', line)
    if not m:
        continue
    name, hits = m.group(1), m.group(2).split()
    p = os.path.join(root, 'seeded', name, 'meta.json')
    if not os.path.exists(p):
        continue
    meta = json.load(open(p))
    meta['detected_by_checks'] = [h.split('[')[0] for h in hits]
    meta['detected_by_rules'] = hits
    json.dump(meta, open(p, 'w'), indent=1)
