#!/usr/bin/env python3
"""Write seeded/TABLE.md and refactors/TABLE.md (referenced from DESIGN.md §10) from seeded/*/ and
refactors/*/ and the matrix logs (seeded/MATRIX.txt, refactors/MATRIX.txt) written by
tools/matrix.sh; prints a one-line summary of each."""
import json, os, re, sys
root = os.path.join(os.path.dirname(os.path.abspath(__file__)), '..')

def matrix(path):
    out = {}
    if os.path.exists(path):
        for line in open(path):
            m = re.match(r'^(\S+): reported_by:(.*?)\|', line)
            if m:
                out[m.group(1)] = m.group(2).split()
                out[m.group(1)] = [h for h in out[m.group(1)]]
    return out

def title(d):
    p = os.path.join(d, 'notes.md')
    if not os.path.exists(p):
        return ''
    for line in open(p):
        line = line.strip()
        if line.startswith('#'):
            t = line.lstrip('# ').strip()
            t = re.sub(r'^(C\d\d\s*/?\s*)?[Cc]hange \d+\s*[-—–:]*\s*', '', t)
            t = re.sub(r'^C\d\d\s*[/ ]\s*change \d+\s*[-—–:]*\s*', '', t, flags=re.I)
            return t
    return ''

def rules_for(d, prop):
    # rules that reported, from the saved check output
    rules = set()
    for f in os.listdir(d):
        if f.startswith('check') and f.endswith('.txt') or f.endswith('.out'):
            for line in open(os.path.join(d, f), errors='ignore'):
                m = re.search(r'\[(%s/[a-z0-9-]+)\] (violated|undecided)' % prop, line)
                if m:
                    rules.add(m.group(1))
    return sorted(rules)

_out = None
def print(*a):
    _out.write(' '.join(str(x) for x in a) + '\n')

sm = matrix(os.path.join(root, 'seeded', 'MATRIX.txt'))
# rows the last matrix run evaluated for their own property only are marked "own-only" after the bar
own_only = set()
if os.path.exists(os.path.join(root, 'seeded', 'MATRIX.txt')):
    for line in open(os.path.join(root, 'seeded', 'MATRIX.txt')):
        if line.rstrip().endswith('own-only'):
            own_only.add(line.split(':')[0])
_out = open(os.path.join(root, 'seeded', 'TABLE.md'), 'w')
print('Seeded changes (each breaks the property in its name; confirmed by tools/seed_confirm.sh) and the')
print('properties whose quick check reports them. `rule?` = reported through an undecided obligation.')
print()
print('| change | what it does | own property reports | also reported by |')
print('|---|---|---|---|')
for name in sorted(os.listdir(os.path.join(root, 'seeded'))):
    d = os.path.join(root, 'seeded', name)
    if not os.path.isdir(d):
        continue
    prop = name.split('-')[0]
    hits = sm.get(name, None)
    own, others = '?', ''
    if hits is not None:
        mine = [h for h in hits if h.startswith(prop)]
        own = '**no**' if not mine else (mine[0][len(prop):].strip('[]') or 'yes')
        others = ' '.join(h.split('[')[0] for h in hits if not h.startswith(prop))
        if name in own_only:
            others = '(evaluated for its own property only)'
    print('| %s | %s | %s | %s |' % (name, title(d).replace('|', '/'), own, others or '—'))
_out.close()
rm = matrix(os.path.join(root, 'refactors', 'MATRIX.txt'))
_out = open(os.path.join(root, 'refactors', 'TABLE.md'), 'w')
print('Behaviour-preserving refactorings (R*) and property-preserving commits (KC*, KDC*, KEC*, KFC*) and the properties')
print('whose quick check reports them (should be none; the exceptions are in KNOWN_ALARMS.json).')
print()
print('| refactor | what it does | reported by (should be none) |')
print('|---|---|---|')
for name in sorted(os.listdir(os.path.join(root, 'refactors'))):
    d = os.path.join(root, 'refactors', name)
    if not os.path.isdir(d):
        continue
    hits = rm.get(name, None)
    print('| %s | %s | %s |' % (name, title(d).replace('|', '/'), '?' if hits is None else (' '.join(hits) or 'none')))

_out.close()
n_s = len([k for k in sm])
miss = [k for k, h in sm.items() if not any(x.startswith(k.split('-')[0]) for x in h)]
alarm = [k for k, h in rm.items() if h]
sys.stdout.write('seeded: %d changes, %d not reported by their own property %s\n' % (n_s, len(miss), miss))
sys.stdout.write('refactors: %d patches, %d reported %s\n' % (len(rm), len(alarm), alarm))
