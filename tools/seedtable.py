#!/usr/bin/env python3
"""Print the markdown tables of DESIGN.md §10 from seeded/*/ and refactors/*/ and the
matrix logs (seeded/MATRIX.txt, refactors/MATRIX.txt) written by tools/matrix.sh."""
import json, os, re, sys
root = os.path.join(os.path.dirname(os.path.abspath(__file__)), '..')

def matrix(path):
    out = {}
    if os.path.exists(path):
        for line in open(path):
            m = re.match(r'^(\S+): reported_by:(.*?)\|', line)
            if m:
                out[m.group(1)] = m.group(2).split()
                out[m.group(1)] = [h for h in out[m.group(1)]]
    return out

def title(d):
    p = os.path.join(d, 'notes.md')
    if not os.path.exists(p):
        return ''
    for line in open(p):
        line = line.strip()
        if line.startswith('#'):
            t = line.lstrip('# ').strip()
            t = re.sub(r'^(C\d\d\s*/?\s*)?[Cc]hange \d+\s*[-—–:]*\s*', '', t)
            t = re.sub(r'^C\d\d\s*[/ ]\s*change \d+\s*[-—–:]*\s*', '', t, flags=re.I)
            return t
    return ''

def rules_for(d, prop):
    # rules that reported, from the saved check output
    rules = set()
    for f in os.listdir(d):
        if f.startswith('check') and f.endswith('.txt') or f.endswith('.out'):
            for line in open(os.path.join(d, f), errors='ignore'):
                m = re.search(r'\[(%s/[a-z0-9-]+)\] (violated|undecided)' % prop, line)
                if m:
                    rules.add(m.group(1))
    return sorted(rules)

sm = matrix(os.path.join(root, 'seeded', 'MATRIX.txt'))
print('| change | what it does | own property reports | also reported by |')
print('|---|---|---|---|')
for name in sorted(os.listdir(os.path.join(root, 'seeded'))):
    d = os.path.join(root, 'seeded', name)
    if not os.path.isdir(d):
        continue
    prop = name.split('-')[0]
    hits = sm.get(name, None)
    own, others = '?', ''
    if hits is not None:
        mine = [h for h in hits if h.startswith(prop)]
        own = '**no**' if not mine else (mine[0][len(prop):].strip('[]') or 'yes')
        others = ' '.join(h.split('[')[0] for h in hits if not h.startswith(prop))
    print('| %s | %s | %s | %s |' % (name, title(d).replace('|', '/'), own, others or '—'))
print()
rm = matrix(os.path.join(root, 'refactors', 'MATRIX.txt'))
print('| refactor | what it does | reported by (should be none) |')
print('|---|---|---|')
for name in sorted(os.listdir(os.path.join(root, 'refactors'))):
    d = os.path.join(root, 'refactors', name)
    if not os.path.isdir(d):
        continue
    hits = rm.get(name, None)
    print('| %s | %s | %s |' % (name, title(d).replace('|', '/'), '?' if hits is None else (' '.join(hits) or 'none')))
