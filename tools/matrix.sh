#!/bin/bash
# usage: tools/matrix.sh [dir-with-patches (default: seeded)] [pattern]
# For every <dir>/*/patch.diff: apply to $VERIF_REPO (default /repo; use a snapshot for background runs),
# run every property's quick check, print the ids that report (exit 1), undo the patch.
cd "$(dirname "$0")/.." || exit 2
REPO="${VERIF_REPO:-/repo}"; export VERIF_REPO="$REPO"
DIR="${1:-seeded}"; PAT="${2:-*}"
[ -x bin/rdpgwlint ] || sh ./setup.sh >/dev/null
IDS=$(python3 -c "import json;print(' '.join(c['property_id'] for c in json.load(open('MANIFEST.json'))['checks']))")
for d in $DIR/$PAT/; do
  p="$d/patch.diff"; [ -f "$p" ] || continue
  case "$p" in /*) ap="$p";; *) ap="$PWD/$p";; esac
  (cd "$REPO" && git apply "$ap") 2>/dev/null || { echo "$(basename $d): APPLY-FAILED"; continue; }
  hit=""; und=""
  for id in $IDS; do
    out=$(bin/rdpgwlint -property $id -tier quick -repo "$REPO" 2>&1); rc=$?
    if [ $rc -eq 1 ]; then hit="$hit $id"; echo "$out" | grep -q "\] undecided:" && und="$und $id"; fi
    [ $rc -ge 2 ] && hit="$hit $id(ERR)"
  done
  (cd "$REPO" && git apply -R "$ap") || echo "UNDO-FAILED $d"
  echo "$(basename $d): reported_by:$hit | via-undecided:$und"
done
