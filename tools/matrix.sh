#!/bin/bash
# usage: tools/matrix.sh [dir-with-patches (default: seeded)] [pattern]
# For every <dir>/*/patch.diff: apply to $VERIF_REPO (default /repo), run every property's quick
# check, print the ids (and rules) that report (exit 1; "rule?" = via an undecided obligation),
# undo the patch. Do not touch the tree while this runs.
cd "$(dirname "$0")/.." || exit 2
REPO="${VERIF_REPO:-/repo}"
DIR="${1:-seeded}"; PAT="${2:-*}"
[ -x bin/rdpgwlint ] || sh ./setup.sh >/dev/null
for d in $DIR/$PAT/; do
  p="$d/patch.diff"; [ -f "$p" ] || continue
  echo "$(basename $d): $(tools/matrix_one.sh "$p" "$REPO" 2>/dev/null)"
done
