#!/bin/bash
# usage: tools/matrix.sh [dir-with-patches (default: seeded)] [pattern]
# For every <dir>/*/patch.diff: apply it to the current sources of $VERIF_REPO (default /repo) in
# memory (loader overlay; the tree is not touched), run every property's quick rules on the result
# (in parallel) and print the ids (and rules) that report ("rule?" = via an undecided obligation).
# tools/matrix_one.sh does the same through `git apply` on a real tree.
cd "$(dirname "$0")/.." || exit 2
REPO="${VERIF_REPO:-/repo}"
DIR="${1:-seeded}"; PAT="${2:-*}"
[ -x bin/rdpgwlint ] || sh ./setup.sh >/dev/null
for d in $DIR/$PAT/; do
  p="$d/patch.diff"; [ -f "$p" ] || continue
  echo "$(basename $d): $(bin/rdpgwlint -patch "$p" -repo "$REPO" 2>&1 | tail -1)"
done
