#!/bin/bash
# usage: tools/matrix_one.sh <patch.diff> [repo]  — apply, run all quick checks, print reporting ids with rules, undo
cd "$(dirname "$0")/.." || exit 2
P="$1"; REPO="${2:-${VERIF_REPO:-/repo}}"
case "$P" in /*) ;; *) P="$PWD/$P";; esac
IDS=$(python3 -c "import json;print(' '.join(c['property_id'] for c in json.load(open('MANIFEST.json'))['checks']))")
(cd "$REPO" && git apply "$P") 2>/dev/null || { echo "APPLY-FAILED"; exit 2; }
hit=""
for id in $IDS; do
  out=$(VERIF_NO_EVIDENCE=1 bin/rdpgwlint -property $id -tier quick -repo "$REPO" 2>&1); rc=$?
  if [ $rc -eq 1 ]; then
    rules=$(echo "$out" | grep -o "\[$id/[a-z0-9-]*\] \(violated\|undecided\)" | sed 's/\] violated//; s/\] undecided/?/; s/\['"$id"'\///' | sort -u | tr '\n' ',' | sed 's/,$//')
    hit="$hit $id[$rules]"
  fi
  [ $rc -ge 2 ] && hit="$hit $id(ERR)"
done
(cd "$REPO" && git apply -R "$P") || echo "UNDO-FAILED"
echo "reported_by:$hit |"
