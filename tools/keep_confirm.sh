#!/bin/bash
# usage: tools/keep_confirm.sh <name> <src-dir>
# Confirms a property-preserving commit written by a sub-agent (patch.diff, keep_test.go, notes.md
# in <src-dir>): the patch applies to /repo HEAD, the buildable packages build, the whole suite
# passes with it, and the agent's keep_test passes both with and without the change. The patch is
# stored under /verif/refactors/<name>/ (the corpus every check must stay silent on).
set -u
NAME="$1"; SRC="$2"
DST=/verif/refactors/$NAME
export GOFLAGS=-mod=mod GOPROXY=off GOSUMDB=off GOTOOLCHAIN=local; unset GOWORK
[ -f "$SRC/patch.diff" ] || { echo "no patch in $SRC"; exit 2; }
mkdir -p "$DST"; cp "$SRC"/patch.diff "$DST"/; cp "$SRC"/notes.md "$DST"/ 2>/dev/null; cp "$SRC"/keep_test.go "$DST"/ 2>/dev/null
W=/tmp/keepconfirm-$NAME
git -C /repo worktree remove --force "$W" >/dev/null 2>&1
git -C /repo worktree add -q --detach "$W" HEAD || exit 2
cd "$W"
res() { echo "$1" | tee -a "$DST/confirm.log"; }
: > "$DST/confirm.log"
git apply "$DST/patch.diff" && res "apply: ok" || { res "apply: FAILED"; cd /; git -C /repo worktree remove --force "$W"; exit 1; }
BUILD=$(go build ./cmd/rdpgw/... ./cmd/auth/ntlm/... ./cmd/auth/database/... ./cmd/auth/config/... ./shared/... 2>&1) && res "build with change: ok" || res "build with change: FAILED $BUILD"
SUITE=$(go test -vet=off -count=1 $(go list ./... | grep -v 'cmd/auth$') 2>&1); if echo "$SUITE" | grep -q "^FAIL\|^---  *FAIL\|panic:"; then res "suite with change: FAILED"; echo "$SUITE" | tail -20 >> "$DST/confirm.log"; else res "suite with change: pass ($(echo "$SUITE" | grep -c '^ok') packages ok)"; fi
T="$DST/keep_test.go"
if [ -f "$T" ]; then
  DIR=$(head -5 "$T" | grep -o 'place in: *[^ ]*' | head -1 | sed 's/place in: *//')
  if [ -n "$DIR" ] && [ -d "$DIR" ]; then
    cp "$T" "$DIR/zz_keep_test.go"
    OUT1=$(timeout 600 go test -vet=off -count=1 ./$DIR/ 2>&1); if echo "$OUT1" | grep -q "^ok"; then res "keep_test with change: pass"; else res "keep_test with change: FAIL"; echo "$OUT1" | tail -15 >> "$DST/confirm.log"; fi
    git apply -R "$DST/patch.diff" 2>/dev/null || git checkout -q -- .
    OUT2=$(timeout 600 go test -vet=off -count=1 ./$DIR/ 2>&1); if echo "$OUT2" | grep -q "^ok"; then res "keep_test without change: pass"; else res "keep_test without change: FAIL"; echo "$OUT2" | tail -15 >> "$DST/confirm.log"; fi
    rm -f "$DIR/zz_keep_test.go"
  else
    res "keep_test: cannot place (dir '$DIR')"
  fi
fi
cd /
git -C /repo worktree remove --force "$W"
