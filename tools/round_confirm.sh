#!/bin/bash
# usage: tools/round_confirm.sh <Cxx> <k-in-OUT> <k-in-seeded>
# Confirms /tmp/wt/<Cxx>/OUT/<k-in-OUT> as seeded/<Cxx>-<k-in-seeded> with tools/seed_confirm.sh, running the
# property's check against a private scratch worktree (so several confirmations can run at once and /repo
# is never touched); the scratch worktree is removed afterwards.
P="$1"; S="$2"; K="$3"
cd "$(dirname "$0")/.." || exit 2
CR=/tmp/chk-$P-$K
git -C /repo worktree remove --force "$CR" >/dev/null 2>&1
git -C /repo worktree add -q --detach "$CR" HEAD || exit 2
SEED_SRC=/tmp/wt/$P/OUT/$S CHECK_REPO="$CR" CHECK_BIN="${CHECK_BIN:-/verif/bin/rdpgwlint}" tools/seed_confirm.sh "$P" "$K" | tr '\n' ';'
echo
git -C /repo worktree remove --force "$CR"
