#!/bin/bash
# usage: tools/regress.sh seeds            — every seeded change against its own property (expects: reported)
#        tools/regress.sh refactors "C01 C06"  — every refactor/keep patch against the named properties (expects: silent
#                                             except the pairs in refactors/KNOWN_ALARMS.json)
# Runs bin/rdpgwlint -patch (loader overlay; no tree is touched), J streams (default 5) of GOMAXPROCS=3.
cd "$(dirname "$0")/.." || exit 2
MODE="$1"; PROPS="${2:-}"; J="${J:-5}"
export VERIF_NO_EVIDENCE=1 GOMAXPROCS=3
one_seed() { d="$1"; n=$(basename "$d"); p=${n%%-*}; r=$(PATCH_PROPS="$p" bin/rdpgwlint -patch "$d/patch.diff" -repo /repo 2>&1 | tail -1); case "$r" in *"$p["*) echo "ok $n";; *) echo "MISSED $n: $r";; esac; }
one_ref() { d="$1"; n=$(basename "$d"); r=$(PATCH_PROPS="$PROPS" bin/rdpgwlint -patch "$d/patch.diff" -repo /repo 2>&1 | tail -1)
  for p in $PROPS; do case "$r" in *"$p["*|*"$p("*) if grep -q "\"$n/$p\"" refactors/KNOWN_ALARMS.json; then echo "known $n/$p"; else echo "ALARM $n/$p: $r"; fi;; esac; done; echo "done $n"; }
export -f one_seed one_ref; export PROPS
if [ "$MODE" = seeds ]; then ls -d seeded/${3:-*}/ | xargs -P "$J" -I{} bash -c 'one_seed {}' | grep -v "^ok" ; echo "seeds finished"
else ls -d refactors/*/ | xargs -P "$J" -I{} bash -c 'one_ref {}' | grep -v "^done"; echo "refactors finished"; fi
