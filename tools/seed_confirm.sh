#!/bin/bash
# usage: tools/seed_confirm.sh <Cxx> <k> [more property ids to run the checks of]
#   env SEED_SRC=<dir with patch.diff, demo_test.go, notes.md> (default /tmp/wt/<Cxx>/OUT/<k>)
#   env CHECK_REPO=<tree the checks are run against with the patch applied> (default /repo)
#   env CHECK_BIN=<frozen copy of bin/rdpgwlint to use instead of ./check (which rebuilds when sources changed)>
# Confirms a sub-agent's seeded change in a scratch worktree (compiles, suite passes,
# demo fails with / passes without), stores it under /verif/seeded/<Cxx>-<k>/ and runs
# the property's check against /repo with the patch applied (undone straight afterwards).
set -u
P="$1"; K="$2"; shift 2
SRC="${SEED_SRC:-/tmp/wt/$P/OUT/$K}"
CR="${CHECK_REPO:-/repo}"
DST=/verif/seeded/$P-$K
export GOFLAGS=-mod=mod GOPROXY=off GOSUMDB=off GOTOOLCHAIN=local; unset GOWORK
[ -f "$SRC/patch.diff" ] || { echo "no patch in $SRC"; exit 2; }
mkdir -p "$DST"; cp "$SRC"/patch.diff "$DST"/; cp "$SRC"/notes.md "$DST"/ 2>/dev/null
for f in "$SRC"/demo_test.go "$SRC"/*.go; do [ -f "$f" ] && cp "$f" "$DST"/ ; done
W=/tmp/confirm-$P-$K
git -C /repo worktree remove --force "$W" >/dev/null 2>&1
git -C /repo worktree add -q --detach "$W" HEAD || exit 2
cd "$W"
res() { echo "$1" | tee -a "$DST/confirm.log"; }
: > "$DST/confirm.log"
git apply "$DST/patch.diff" && res "apply: ok" || { res "apply: FAILED"; cd /; git -C /repo worktree remove --force "$W"; exit 1; }
BUILD=$(go build ./cmd/rdpgw/... ./cmd/auth/ntlm/... ./cmd/auth/database/... ./cmd/auth/config/... ./shared/... 2>&1) && res "build with change: ok" || res "build with change: FAILED $BUILD"
SUITE=$(go test -vet=off -count=1 $(go list ./... | grep -v 'cmd/auth$') 2>&1); if echo "$SUITE" | grep -q "^FAIL\|^---  *FAIL\|panic:"; then res "suite with change: FAILED"; echo "$SUITE" | tail -20 >> "$DST/confirm.log"; else res "suite with change: pass ($(echo "$SUITE" | grep -c '^ok') packages ok)"; fi
DEMO="$DST/demo_test.go"
DEMO_WITH=skip; DEMO_WITHOUT=skip
if [ -f "$DEMO" ]; then
  DIR=$(head -5 "$DEMO" | grep -o 'place in: *[^ ]*' | head -1 | sed 's/place in: *//')
  if [ -n "$DIR" ] && [ -d "$DIR" ]; then
    cp "$DEMO" "$DIR/zz_seed_demo_test.go"
    OUT1=$(timeout 300 go test -vet=off -count=1 ./$DIR/ 2>&1); if echo "$OUT1" | grep -q "^ok"; then DEMO_WITH=pass; else DEMO_WITH=fail; fi
    git checkout -q -- . 
    OUT2=$(timeout 300 go test -vet=off -count=1 ./$DIR/ 2>&1); if echo "$OUT2" | grep -q "^ok"; then DEMO_WITHOUT=pass; else DEMO_WITHOUT=fail; echo "$OUT2" | tail -15 >> "$DST/confirm.log"; fi
    rm -f "$DIR/zz_seed_demo_test.go"
  else
    res "demo: cannot place (dir '$DIR')"
  fi
fi
res "demo with change: $DEMO_WITH (expected fail)"
res "demo without change: $DEMO_WITHOUT (expected pass)"
cd /; git -C /repo worktree remove --force "$W"
# run the checks against /repo with the patch applied
cd /verif
git -C "$CR" apply "$DST/patch.diff" || { res "apply to $CR FAILED"; exit 1; }
DET=""
for id in $P "$@"; do
  if [ -n "${CHECK_BIN:-}" ]; then OUT=$(VERIF_NO_EVIDENCE=1 VERIF_DIR=/verif "$CHECK_BIN" -property $id -tier quick -repo "$CR" 2>&1); RC=$?
  else OUT=$(VERIF_NO_EVIDENCE=1 VERIF_REPO="$CR" ./check $id quick 2>&1); RC=$?; fi
  echo "$OUT" | grep -v "^  rule\|^analysed\|^rdpgwlint" | head -12 > "$DST/check_$id.out"
  res "check $id: exit $RC"
  [ $RC -eq 1 ] && DET="$DET $id"
done
git -C "$CR" apply -R "$DST/patch.diff" || git -C "$CR" checkout -q -- .
git -C "$CR" status --short | grep -q . && res "WARNING: $CR not clean after undo"
res "detected_by:$DET"
python3 - "$P" "$K" "$DST" "$DEMO_WITH" "$DEMO_WITHOUT" "$DET" <<'PY'
import json,sys,os
p,k,dst,dw,dwo,det=sys.argv[1:7]
notes=open(os.path.join(dst,'notes.md')).read() if os.path.exists(os.path.join(dst,'notes.md')) else ''
meta={"property":p,"seed":k,"source":"independent sub-agent given only the property text and a scratch worktree",
 "needs_to_manifest":"see notes.md","confirmed":{"log":"confirm.log","demo_with_change":dw,"demo_without_change":dwo},
 "ran":["git apply patch.diff in a scratch worktree of /repo HEAD","go build (all buildable packages)","full existing test suite with the change","demo_test.go with and without the change","./check %s quick with the patch applied to /repo, then git checkout -- ."%p],
 "detected_by_checks":det.split()}
json.dump(meta,open(os.path.join(dst,'meta.json'),'w'),indent=1)
PY
