#!/usr/bin/env python3
"""usage: tools/regress_targeted.py [J]  -- every refactor/keep patch against the properties whose rules
read the files the patch touches (table below); expects silence except refactors/KNOWN_ALARMS.json."""
import os,re,sys,json,subprocess
from concurrent.futures import ThreadPoolExecutor
os.chdir(os.path.dirname(os.path.abspath(__file__))+'/..')
J=int(sys.argv[1]) if len(sys.argv)>1 else 3
M=[('cmd/rdpgw/web/session.go','C04 C12 C13 C10'),('cmd/rdpgw/transport/','C08 C06 C16 C17 C10 C02'),
 ('cmd/rdpgw/protocol/tunnel.go','C10 C09 C06 C17'),('cmd/rdpgw/protocol/gateway.go','C11 C10 C07 C17'),
 ('cmd/rdpgw/identity/','C13 C04 C12'),('cmd/auth/','C14 C10 C05'),('cmd/rdpgw/web/token.go','C15 C10'),
 ('cmd/rdpgw/security/jwt.go','C15 C10 C16'),('cmd/rdpgw/protocol/process.go','C16 C17 C10'),
 ('cmd/rdpgw/protocol/common.go','C06 C08 C16 C17 C07 C09 C02'),('cmd/rdpgw/web/web.go','C18 C10'),
 ('cmd/rdpgw/main.go','C18 C10 C15'),('cmd/rdpgw/config/','C18 C15'),('cmd/rdpgw/security/basic.go','C16'),
 ('cmd/rdpgw/web/','C10'),('cmd/rdpgw/kdcproxy/','C10')]
known=json.load(open('refactors/KNOWN_ALARMS.json'))
env=dict(os.environ,VERIF_NO_EVIDENCE='1',GOMAXPROCS='3')
def one(n):
    p='refactors/%s/patch.diff'%n
    files=re.findall(r'^diff --git a/(\S+)',open(p).read(),re.M)
    props=set()
    for f in files:
        for pre,ps in M:
            if f.startswith(pre): props|=set(ps.split())
    only=os.environ.get('ONLY')
    if only: props&=set(only.split())
    if not props: return n,[],''
    e=dict(env,PATCH_PROPS=' '.join(sorted(props)))
    out=subprocess.run(['bin/rdpgwlint','-patch',p,'-repo','/repo'],capture_output=True,text=True,env=e).stdout.strip().split('\n')[-1]
    hits=[x for x in sorted(props) if re.search(r'\b%s[\[(]'%x,out)]
    return n,hits,out
names=sorted(d for d in os.listdir('refactors') if os.path.exists('refactors/%s/patch.diff'%d))
with ThreadPoolExecutor(J) as ex:
    for n,hits,out in ex.map(one,names):
        for h in hits:
            print(('known %s/%s'%(n,h)) if '%s/%s'%(n,h) in known else ('ALARM %s/%s: %s'%(n,h,out)),flush=True)
print('refactors finished',len(names),flush=True)
